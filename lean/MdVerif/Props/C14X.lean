/-
C14 on the extension pipeline, document-level clause — "the html and xhtml formats differ only in how void elements
and boolean attributes are written … for whole converted documents" — for `PipelineX.convertX x cfg`
(`Model/PipelineX.lean`: `Markdown(extensions=[…], output_format=…).convert`, any subset `x : Exts` of fenced_code,
tables, admonition, def_list, abbr, footnotes, sane_lists, nl2br, wikilinks, attr_list, toc).  `Props/C14Doc.lean` has
the statements for the core pipeline.

1. The tree.  `C14X_tree_format_independent`: WITHOUT toc, everything up to the serializer (and the raw-HTML stash) is
   the same whatever the output format is, for every source and every other flag.
   **Finding (F-C14-2)**: WITH toc the element tree depends on `output_format`
   (`C14X_tree_format_dependent_toc`, `C14X_doc_format_dependent_toc`; the implementation answers the same):
   `TocTreeprocessor` computes the name of a heading from its *serialisation* (`render_inner_html`: `md.serializer`,
   then `UnescapeTreeprocessor.unescape` on the string — a backslash-escaped `\>` inside an attribute value becomes a
   raw `>` —, then `strip_tags`, which cuts `<…` up to that first `>` and keeps the rest of the tag, spelled ` />` /
   ` k="k"` in xhtml).  The generated `id` and the entry of the table of contents differ between the formats:
   `# x![a](s "t\>b")y` gets `id="xby"` in html and `id="xb-y"` in xhtml.
   `C14X_tree_format_independent_toc` is the honest version with toc: the tree is format independent when the tree
   handed to `toc` has no heading that contains a void element or an attribute that html writes bare
   (`C14X.headingsPlain`).
2. The documents.  `C14X_doc_spelling`: for every flag set, whenever the two formats reach the serializer with the
   same tree and stash (always without toc: `C14X_doc_spelling_notoc`) and that tree is in the domain of the
   round-trip theorem (`WFTree`: names are names, attribute names distinct, void elements empty — with attr_list a
   name need not be a name, `C05X_attr_list_not_names`) under a plain `div` root, the xhtml output is the html output
   with some `>` written ` />` and some bare ` k` written ` k="k"`, character for character (`Ser.Respell`).
   NO hypothesis on the raw-HTML stash: the fenced-code blocks `<pre><code>…` that `fenced_code` stores, entity
   references, anything — the restore (`RawHtmlPostprocessor`, run to its fixed point), the footnote postprocessor
   and the `&` restore act on the two serialisations in lockstep (`Lemmas/C14XMark.lean`, `C14XPost.lean`: both are
   renderings of one string with marks, and no placeholder can touch a mark).  This also closes the case the core
   theorem `C14_doc_spelling` left open (non-empty stash, ampersand substitute in the text): `C14X_doc_spelling_core`.
3. Reading back.  `C14X_doc_formats_agree`: when moreover the stash is empty and the tree holds no STX/ETX (no
   placeholder left: then the postprocessors are the identity), both outputs are accepted by the strict reader
   (`Spec/Reader.lean`) and read back to the SAME forest — elements, attributes with their values, texts.  (With a
   non-empty stash the outputs contain raw HTML of the source or the `<pre><code>` strings of fenced_code, which are
   not serialisations of a tree; there `C14X_doc_spelling` is the statement.)
Tested before proving: 20 000 random documents with random subsets of the eleven extensions on the implementation
(8343 with different html/xhtml outputs, 5796 with `<pre`), `Respell` checked by dynamic programming: 0 failures.
Only property statements live here; proofs in `MdVerif/Lemmas/C14X*.lean`.
-/
import MdVerif.Lemmas.C14XRead

namespace MdVerif.PipelineX
open Py Pipeline Ser

/-! ### 1. the tree handed to the serializer -/

/-- **without toc the tree does not depend on the output format**: for every other flag set, configuration and
    source, all stages before the serializer — preprocessors (fenced_code included), extended block parser,
    footnote/inline/prettify/attr_list/abbr tree processors, unescape — and the raw-HTML stash are the same for
    every `output_format` (all outcomes: `ok`, `err`, `oof`, `ood`). -/
theorem C14X_tree_format_independent (x : Exts) (cfg : Cfg) (f : Fmt) (src : Str) (ht : x.toc = false) :
    treeX x { cfg with fmt := f } src = treeX x cfg src := C14X.treeX_fmt x cfg f src ht

example : ({ fencedCode := true, tables := true, admonition := true, defList := true, abbr := true, footnotes := true,
             saneLists := true, nl2br := true, wikilinks := true, attrList := true } : Exts).toc = false := rfl

/-- toc alone -/
def C14X_tocOnly : Exts := { toc := true }
/-- a heading with an image whose title holds a backslash-escaped `>` -/
def C14X_tocSrc : Str := "# x![a](s \"t\\>b\")y".toList

/-- the `id` attributes of the tree (document order), `[]` when there is no tree -/
def C14X_ids : TreeResult → List Str
  | .ok u _ => TocTree.idsOf u
  | _ => []

/-- **F-C14-2: with toc the tree depends on the output format** — the generated heading `id` is `xby` under html and
    `xb-y` under xhtml (kernel-checked on the model; the implementation gives the same two documents). -/
theorem C14X_tree_format_dependent_toc :
    C14X_ids (treeX C14X_tocOnly { fmt := .html } C14X_tocSrc) = ["xby".toList] ∧
    C14X_ids (treeX C14X_tocOnly { fmt := .xhtml } C14X_tocSrc) = ["xb-y".toList] := by decide +kernel

/-- … and so do the documents, beyond the spelling of void elements and boolean attributes -/
theorem C14X_doc_format_dependent_toc :
    convertX C14X_tocOnly { fmt := .html } C14X_tocSrc =
      .ok "<h1 id=\"xby\">x<img alt=\"a\" src=\"s\" title=\"t&gt;b\">y</h1>".toList ∧
    convertX C14X_tocOnly { fmt := .xhtml } C14X_tocSrc =
      .ok "<h1 id=\"xb-y\">x<img alt=\"a\" src=\"s\" title=\"t&gt;b\" />y</h1>".toList := by decide +kernel

/-- **with toc, the honest version**: the tree is format independent whenever the tree that reaches
    `TocTreeprocessor` (`t'`: after the block stages `blockStageX`, the inline processor and the tree processors up
    to abbr, `midStageX` — none of which reads the format) has only headings that both formats serialise alike:
    no void element (`img`, `br`, …) and no attribute that html writes bare inside an `h1`–`h6`
    (`C14X.headingsPlain`). -/
theorem C14X_tree_format_independent_toc (x : Exts) (cfg : Cfg) (f : Fmt) (src : Str)
    (h : ∀ root log stash t xs t', blockStageX x cfg src = .ok (root, log, stash) →
      InlineX.runX (inlineCfgX x cfg log) root stash = some (t, xs) → midStageX x cfg log t xs.fn = some t' →
      C14X.headingsPlain t' = true) :
    treeX x { cfg with fmt := f } src = treeX x cfg src := C14X.treeX_fmt_toc x cfg f src h

/-- … with the hypothesis as ONE computation on the source (`C14X.preTocPlain`: run the stages up to `toc`, check
    the headings) -/
theorem C14X_tree_format_independent_toc_B (x : Exts) (cfg : Cfg) (f : Fmt) (src : Str)
    (h : C14X.preTocPlain x cfg src = true) : treeX x { cfg with fmt := f } src = treeX x cfg src :=
  C14X.treeX_fmt_toc_B x cfg f src h

/-- toc + attr_list: headings with emphasis, code, a link and an explicit id; the image and the hard break are
    outside the headings -/
example : C14X.preTocPlain { toc := true, attrList := true } {}
    "# a *b* `c` [l](/u)\n\n## d {#x}\n\n[TOC]\n\n![i](s)  \ne".toList = true := by decide +kernel
/-- … and the counterexample of F-C14-2 fails it -/
example : C14X.preTocPlain C14X_tocOnly {} C14X_tocSrc = false := by decide +kernel

/-- the hypothesis is a computation on a tree: headings with emphasis, code, a link — but no image, no hard break -/
example : C14X.headingsPlain
    { tag := .name "div".toList,
      children := [{ tag := .name "h1".toList, text := some "a ".toList,
                     children := [{ tag := .name "em".toList, text := some "b".toList },
                                  { tag := .name "a".toList, attrs := [("href".toList, "/u".toList)] }] },
                   { tag := .name "p".toList, children := [{ tag := .name "br".toList }] }] } = true := by decide
example : C14X.headingsPlain
    { tag := .name "h1".toList, children := [{ tag := .name "img".toList }] } = false := by decide


/-! ### 2. the two documents differ only in spelling -/

/-- **html and xhtml documents differ only in spelling, every extension, any stash.**  If both formats hand the
    same tree `u` and stash to the serializer, `u` is well formed (`WFTree`, the domain of `C14_roundtrip`) and its
    root is the plain wrapper `div`, then the xhtml output of `convertX` is the html output in which some `>` are
    written ` />` and some bare attribute names ` k` are written ` k="k"`; every other character is the same and in
    the same place (`Respell`) — whatever the raw-HTML stash holds (fenced code blocks, entity references), with
    the footnote postprocessor and the `&` restore included. -/
theorem C14X_doc_spelling (x : Exts) (cfg : Cfg) (src h xo : Str) (u : Node) (html : List Str)
    (hth : treeX x { cfg with fmt := .html } src = .ok u html)
    (htx : treeX x { cfg with fmt := .xhtml } src = .ok u html)
    (hroot : C14X.rootDiv u = true) (hwf : WFTree u = true)
    (hh : convertX x { cfg with fmt := .html } src = .ok h)
    (hx : convertX x { cfg with fmt := .xhtml } src = .ok xo) : Respell h xo :=
  C14X.convertX_respell x cfg src h xo u html hth htx hroot hwf hh hx

/-- **without toc** one tree hypothesis suffices (`C14X_tree_format_independent`) -/
theorem C14X_doc_spelling_notoc (x : Exts) (ht : x.toc = false) (cfg : Cfg) (src h xo : Str) (u : Node)
    (html : List Str) (htree : treeX x cfg src = .ok u html)
    (hroot : C14X.rootDiv u = true) (hwf : WFTree u = true)
    (hh : convertX x { cfg with fmt := .html } src = .ok h)
    (hx : convertX x { cfg with fmt := .xhtml } src = .ok xo) : Respell h xo :=
  C14X_doc_spelling x cfg src h xo u html (by rw [C14X_tree_format_independent x cfg .html src ht]; exact htree)
    (by rw [C14X_tree_format_independent x cfg .xhtml src ht]; exact htree) hroot hwf hh hx

/-- **with toc**, when the headings that reach `toc` are spelled alike by both formats (`C14X.preTocPlain`, a
    computation on the source): one tree hypothesis suffices, too -/
theorem C14X_doc_spelling_toc (x : Exts) (cfg : Cfg) (src h xo : Str) (u : Node) (html : List Str)
    (hp : C14X.preTocPlain x cfg src = true) (htree : treeX x cfg src = .ok u html)
    (hroot : C14X.rootDiv u = true) (hwf : WFTree u = true)
    (hh : convertX x { cfg with fmt := .html } src = .ok h)
    (hx : convertX x { cfg with fmt := .xhtml } src = .ok xo) : Respell h xo :=
  C14X_doc_spelling x cfg src h xo u html (by rw [C14X_tree_format_independent_toc_B x cfg .html src hp]; exact htree)
    (by rw [C14X_tree_format_independent_toc_B x cfg .xhtml src hp]; exact htree) hroot hwf hh hx

/-- fenced_code, tables, footnotes, attr_list, nl2br: a fenced block (stash), a footnote (both footnote
    placeholders), a hard break and an image (void elements), a boolean attribute -/
def C14X_docX : Exts := { fencedCode := true, tables := true, footnotes := true, attrList := true, nl2br := true }
def C14X_docSrc : Str :=
  "```\na &gt; b &amp;\n```\n\nx[^1] ![alt](s){: hidden=hidden }\ny\n\n[^1]: n &copy;".toList

/-- (irreducible: the elaborator must not try to evaluate the pipeline; the kernel does, in `decide +kernel`) -/
@[irreducible] def C14X_docTree : Node :=
  match treeX C14X_docX {} C14X_docSrc with
  | .ok u _ => u
  | _ => Node.el "none"

/-- the hypotheses hold on this document (kernel evaluations) … -/
example : C14X_docX.toc = false := rfl
example : (match treeX C14X_docX {} C14X_docSrc with | .ok _ html => html.length | _ => 0) = 2 := by decide +kernel
example : C14X.rootDiv C14X_docTree = true ∧ WFTree C14X_docTree = true := by
  unfold C14X_docTree; decide +kernel

/-- … and the two outputs are different strings: the fenced block comes out of the stash, the footnote
    placeholders are replaced, `img`, `br`, `hr` and the two boolean attributes are spelled differently -/
example : convertX C14X_docX { fmt := .html } C14X_docSrc = .ok
    ("<pre><code>a &amp;gt; b &amp;amp;\n</code></pre>\n<p>x<sup id=\"fnref:1\"><a class=\"footnote-ref\" href=\"#fn:1\">1</a></sup> <img alt hidden src=\"s\"><br>\ny</p>\n<div class=\"footnote\">\n<hr>\n<ol>\n<li id=\"fn:1\">\n<p>n &copy;&#160;<a class=\"footnote-backref\" href=\"#fnref:1\" title=\"Jump back to footnote 1 in the text\">&#8617;</a></p>\n</li>\n</ol>\n</div>").toList := by
  decide +kernel
example : convertX C14X_docX { fmt := .xhtml } C14X_docSrc = .ok
    ("<pre><code>a &amp;gt; b &amp;amp;\n</code></pre>\n<p>x<sup id=\"fnref:1\"><a class=\"footnote-ref\" href=\"#fn:1\">1</a></sup> <img alt=\"alt\" hidden=\"hidden\" src=\"s\" /><br />\ny</p>\n<div class=\"footnote\">\n<hr />\n<ol>\n<li id=\"fn:1\">\n<p>n &copy;&#160;<a class=\"footnote-backref\" href=\"#fnref:1\" title=\"Jump back to footnote 1 in the text\">&#8617;</a></p>\n</li>\n</ol>\n</div>").toList := by
  decide +kernel

/-- **the core pipeline, no hypothesis left**: for every configuration and every source, the html and the xhtml
    output of `Pipeline.convert` differ only in spelling — also when the raw-HTML stash is not empty (entity
    references in the source) and when the text holds the ampersand substitute, the cases `C14_doc_spelling`
    (`Props/C14Doc.lean`) excludes.  (The tree of the core pipeline is a vocabulary document, `tree_docOk`, hence
    well formed under a plain `div`.) -/
theorem C14X_doc_spelling_core (cfg : Cfg) (src h xo : Str)
    (hh : Pipeline.convert { cfg with fmt := .html } src = .ok h)
    (hx : Pipeline.convert { cfg with fmt := .xhtml } src = .ok xo) : Respell h xo :=
  C14X.convert_respell cfg src h xo hh hx

example : Pipeline.convert { fmt := .html } "a &amp; b &copy;  \nc [l](/u?a=1&b=2)\n\n---".toList =
    .ok "<p>a &amp; b &copy;<br>\nc <a href=\"/u?a=1&amp;b=2\">l</a></p>\n<hr>".toList := by decide +kernel


/-! ### 3. both documents read back to the same forest -/

/-- **html and xhtml documents read back the same, every extension.**  If both formats hand the same tree `u` and an
    EMPTY raw-HTML stash to the serializer, `u` is well formed under a plain `div` root and holds no STX/ETX in any
    tag, attribute, text or tail (no placeholder leaks, cf. C10X; then the three postprocessors change nothing), then
    the strict reader accepts the html output and the xhtml output of `convertX` and returns the same forest. -/
theorem C14X_doc_formats_agree (x : Exts) (cfg : Cfg) (src h xo : Str) (u : Node)
    (hth : treeX x { cfg with fmt := .html } src = .ok u [])
    (htx : treeX x { cfg with fmt := .xhtml } src = .ok u [])
    (hroot : C14X.rootDiv u = true) (hwf : WFTree u = true) (hc : NoCtl.TreeNoCtl u)
    (hh : convertX x { cfg with fmt := .html } src = .ok h)
    (hx : convertX x { cfg with fmt := .xhtml } src = .ok xo) :
    ∃ forest, readForest .html h = some forest ∧ readForest .xhtml xo = some forest :=
  C14X.convertX_formats_agree x cfg src h xo u hth htx hroot hwf hc hh hx

/-- **without toc** one tree hypothesis suffices -/
theorem C14X_doc_formats_agree_notoc (x : Exts) (ht : x.toc = false) (cfg : Cfg) (src h xo : Str) (u : Node)
    (htree : treeX x cfg src = .ok u [])
    (hroot : C14X.rootDiv u = true) (hwf : WFTree u = true) (hc : NoCtl.TreeNoCtl u)
    (hh : convertX x { cfg with fmt := .html } src = .ok h)
    (hx : convertX x { cfg with fmt := .xhtml } src = .ok xo) :
    ∃ forest, readForest .html h = some forest ∧ readForest .xhtml xo = some forest :=
  C14X_doc_formats_agree x cfg src h xo u (by rw [C14X_tree_format_independent x cfg .html src ht]; exact htree)
    (by rw [C14X_tree_format_independent x cfg .xhtml src ht]; exact htree) hroot hwf hc hh hx

/-- admonition, def_list, nl2br, wikilinks, attr_list: a hard break and an image (void), a boolean attribute -/
def C14X_readX : Exts := { admonition := true, defList := true, nl2br := true, wikilinks := true, attrList := true }
def C14X_readSrc : Str := "!!! note\n    a [[W]]\n    b\n\nT\n:   d ![i](s){: hidden=hidden }".toList

@[irreducible] def C14X_readTree : Node :=
  match treeX C14X_readX {} C14X_readSrc with
  | .ok u _ => u
  | _ => Node.el "none"

/-- the hypotheses hold on this document: empty stash, plain `div` root, well formed, no STX/ETX … -/
example : (match treeX C14X_readX {} C14X_readSrc with | .ok _ html => html.isEmpty | _ => false) = true := by
  decide +kernel
example : C14X.rootDiv C14X_readTree = true ∧ WFTree C14X_readTree = true ∧
    DocFormats.treeNoCtlB C14X_readTree = true := by
  unfold C14X_readTree; decide +kernel
/-- … and the xhtml output -/
example : convertX C14X_readX { fmt := .xhtml } C14X_readSrc = .ok
    ("<div class=\"admonition note\">\n<p class=\"admonition-title\">Note</p>\n<p>a <a class=\"wikilink\" href=\"/W/\">W</a><br />\nb</p>\n</div>\n<dl>\n<dt>T</dt>\n<dd>d <img alt=\"i\" hidden=\"hidden\" src=\"s\" /></dd>\n</dl>").toList := by
  decide +kernel

end MdVerif.PipelineX
