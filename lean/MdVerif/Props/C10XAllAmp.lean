/-
C10 on the extension model with ALL ELEVEN EXTENSIONS and AMPERSANDS — "The output never contains the STX/ETX control
characters or any of the placeholder tokens the converter uses internally …" for `PipelineX.convertX`
(`Markdown(extensions=[…]).convert`) on sources that may hold `&`: entities `&amp;` `&copy;` `&#38;` `&#x26;`,
unterminated character references `&#38x`, bare ampersands `AT&T`, `a && b`.

`C10X_partial_all` (`Props/C10XAll.lean`) excludes `<` AND `&` from the source.  With `&` three more things happen:

* the raw-HTML preprocessor (`HtmlBlockPreprocessor`, `Extract.extract`) re-spells an unterminated character reference:
  `&#38x` comes back as `&#38;x`.  It only INSERTS `;` behind `&#` + letters/digits
  (`Lemmas/F/PlaceholdersAmpExtract.lean`: `extract_semiIns`), which keeps every fact of the domain and the shape
  "every raw-HTML placeholder of fenced_code is a block of its own" (`ownBlock_semiIns`);
* the entity pattern `&(#[0-9]+|#x[0-9a-fA-F]+|[a-zA-Z0-9]+);` (`HtmlInlineProcessor`, core index 12) is LIVE: it stores
  the entity in the raw-HTML stash and leaves the raw-HTML placeholder `STX wzxhzdk:N ETX` (N = length of the stash at
  that moment) in the text, as a string item of the inline stash.  The token grammar `WF` (`Spec/F/NoCtl.lean`) admits
  raw-HTML placeholders below `HtmlBound.h`; the whole chain is instantiated with `h` = the length of the raw-HTML stash
  BEHIND the inline stage, every contract of the inline stage takes "the stash of the result has at most `h` entries" as
  a hypothesis and concludes that the stash has only grown by entries free of STX/ETX
  (`NoCtlF.HtmlOK`; `Lemmas/F/PlaceholdersX{HI,Run,FM}.lean`, `Lemmas/F/PlaceholdersAmpExt.lean`);
* abbr: an abbreviation can cut such a placeholder between two word boundaries even when fenced_code is off
  (F-C10-6, second form: `&amp;` + `*[0]: T`), so the keys `wzxhzdk`, `wzxhzdk:`, `wzxhzdk:N`, `:`, `:N` and `N` are
  excluded whether or not fenced_code is on (`AbbrKeysOKAmp`).

The character domain of the chain is a third parameter of the grammar (`HtmlBound.amp`, `NoCtlF.domCharA`): with
`amp = false` the chain is the one of `C10X_partial_all` (whose statement is unchanged), with `amp = true` it is this one.

1. `C10X_partial_all_amp`: end to end, all eleven flags, sources without `<`.
2. `C10_partial_links_amp`: the core pipeline (`Pipeline.convert`), via `convertX_core`.
3. `C10X_leak_digit_abbr_entity`: the hypothesis on the abbreviations is needed without fenced_code.

Vocabulary: `Spec/F/*.lean` (`Spec/F/DomainAmp.lean`: the domains); helper lemmas: `Lemmas/F/Placeholders*.lean`
(composition: `Lemmas/F/PlaceholdersXAllF.lean`).  Core Lean only.
-/
import MdVerif.Lemmas.F.PlaceholdersXAllF
import MdVerif.Spec.F.DomainAmp
import MdVerif.Lemmas.PipelineX

namespace MdVerif.NoCtlXF
open MdVerif.NoCtl (NoCtl)
open MdVerif.NoCtlX (C10DomainW)
open Py

/-! ## 1. End to end -/

/-- **End to end with all eleven extensions, ampersands allowed** (`C10X_partial_all_amp`).  **fenced_code, footnotes,
    tables, admonition, def_list, abbr, sane_lists, nl2br, wikilinks, attr_list and toc are on or off, in every
    combination.**  For a source without `<` — `&`, entities, character references with or without their `;` are
    allowed — whose normalised text has none of the adjacencies backslash–backtick, `![`, `](` and — when wikilinks is
    on — no `[` immediately followed by a blank (`C10DomainWA`: the domain `C10DomainW` of `C10X_partial_all` without the
    exclusion of `&`), and in which — when abbr is on — no abbreviation definition `*[key]: title`, in the document or
    inside a footnote body, has a key made of ASCII digits only (F-C10-6), with footnotes a key equal to the body of a
    footnote token, or one of the keys `wzxhzdk`, `wzxhzdk:`, `wzxhzdk:`+digits, `:`, `:`+digits, which cut a raw-HTML
    placeholder (`AbbrKeysOKAmp`, decidable; read off the log of the block stage and of `FootnoteTreeprocessor`; the
    entity pattern writes raw-HTML placeholders whether or not fenced_code is on), whatever `convertX` returns (any tab
    length — positive when fenced_code is on —, output format, block-level set; escapable characters ordinary ones that
    occur in no token — `NoCtlF.EscOK`: neither STX nor ETX nor a digit nor one of `k l z w x h : q d`) contains neither
    STX nor ETX. -/
theorem C10X_partial_all_amp (x : PipelineX.Exts) (cfg : Pipeline.Cfg) (hcfg : NoCtlF.EscOK cfg.esc)
    (htab : x.fencedCode = true → 0 < cfg.tab)
    {src out : Str} (hd : C10DomainWA x.wikilinks cfg.tab src) (habbr : AbbrKeysOKAmp x cfg src)
    (h : PipelineX.convertX x cfg src = .ok out) : NoCtl out :=
  convertX_noctl_eleven_amp hcfg htab hd.1.1 hd.1.2 hd.2 habbr h

/-- the domain of `C10X_partial_all` lies inside this one … -/
example {wl : Bool} {tab : Nat} {src : Str} (h : C10DomainW wl tab src) : C10DomainWA wl tab src :=
  ⟨⟨fun hm => by have := h.1.1 _ hm; simp [MdVerif.NoCtl.domCharB] at this, h.1.2⟩, h.2⟩

/-- … and the hypothesis on the abbreviations used here implies the one of `C10X_partial_all` (they differ only with
    fenced_code off: the keys that cut a raw-HTML placeholder) -/
example {x : PipelineX.Exts} {cfg : Pipeline.Cfg} {src : Str} (h : AbbrKeysOKAmp x cfg src) : AbbrKeysOKA x cfg src :=
  abbrKeysOKA_of_amp h

/-- all eleven extensions -/
def allExtsA : PipelineX.Exts :=
  { fencedCode := true, footnotes := true, tables := true, admonition := true, defList := true, abbr := true,
    saneLists := true, nl2br := true, wikilinks := true, attrList := true, toc := true }

/-- a source with a heading with `&`, an entity and an attribute list; a footnote reference, the abbreviation `AT&T`,
    entities, an unterminated character reference `&#38x`, a reference link whose definition has `&` in the url and the
    title, `&;`; a fenced block with `&` in the code; a footnote with `&` in a code span; `[TOC]` -/
def exAmp : Str :=
  ("# AT&T &amp; Co {: #i }\n\nA[^n] AT&T &amp; &#38x &#x26; &copy; [a][r] &;\n\n```python\nx = a & b\n```\n\n" ++
    "[^n]: see AT&T `a&b`\n\n*[AT&T]: American T&T\n\n[r]: /u?x=1&y=2 \"T & U\"\n\n[TOC]").toList

/-- the hypotheses hold of `exAmp`, all eleven extensions on -/
example : C10DomainWA allExtsA.wikilinks 4 exAmp ∧ AbbrKeysOKAmp allExtsA {} exAmp :=
  ⟨by decide +kernel, by decide +kernel⟩

/-- … and what `convertX` answers on it (as `markdown.markdown(src, extensions=[all eleven])`) -/
example : PipelineX.convertX allExtsA {} exAmp =
    .ok ("<h1 id=\"i\"><abbr title=\"American T&amp;T\">AT&amp;T</abbr> &amp; Co</h1>\n<p>A<sup id=\"fnref:n\"><a " ++
      "class=\"footnote-ref\" href=\"#fn:n\">1</a></sup> <abbr title=\"American T&amp;T\">AT&amp;T</abbr> &amp; &#38;x " ++
      "&#x26; &copy; <a href=\"/u?x=1&amp;y=2\" title=\"T &amp; U\">a</a> &amp;;</p>\n<pre><code class=\"language-python\">" ++
      "x = a &amp; b\n</code></pre>\n<div class=\"toc\">\n<ul>\n<li><a href=\"#i\">AT&amp;T &amp; Co</a></li>\n</ul>\n</div>\n" ++
      "<div class=\"footnote\">\n<hr />\n<ol>\n<li id=\"fn:n\">\n<p>see <abbr title=\"American T&amp;T\">AT&amp;T</abbr> " ++
      "<code>a&amp;b</code>&#160;<a class=\"footnote-backref\" href=\"#fnref:n\" title=\"Jump back to footnote 1 in the " ++
      "text\">&#8617;</a></p>\n</li>\n</ol>\n</div>").toList := by
  decide +kernel

/-! ## 2. The core pipeline -/

/-- **The core pipeline with ampersands** (`Markdown().convert`, no extension): for a source without `<` whose
    normalised text has none of the adjacencies backslash–backtick, `![`, `](` — the domain `C10DomainL` of
    `C10_partial_links` without the exclusion of `&` —, whatever `Pipeline.convert` returns contains neither STX nor
    ETX. -/
theorem C10_partial_links_amp (cfg : Pipeline.Cfg) (hcfg : NoCtlF.EscOK cfg.esc) {src out : Str}
    (hd : C10DomainWA false cfg.tab src) (h : Pipeline.convert cfg src = .ok out) : NoCtl out := by
  rw [← PipelineX.convertX_core] at h
  exact C10X_partial_all_amp {} cfg hcfg (fun h0 => by cases h0) hd (fun h0 => by cases h0) h

example : C10DomainWA false 4 "AT&T &amp; &#38x *a&amp;b* `c&d` [e&f][r] \\&\n\n[r]: /u?x=1&y=2 \"T & U\"".toList := by
  decide +kernel

example : Pipeline.convert {} "AT&T &amp; &#38x *a&amp;b* `c&d` [e&f][r] \\&\n\n[r]: /u?x=1&y=2 \"T & U\"".toList =
    .ok ("<p>AT&amp;T &amp; &#38;x <em>a&amp;b</em> <code>c&amp;d</code> <a href=\"/u?x=1&amp;y=2\" " ++
      "title=\"T &amp; U\">e&amp;f</a> \\&amp;</p>").toList := by
  decide +kernel

/-! ## 3. The hypothesis on the abbreviations is needed without fenced_code -/

/-- **An abbreviation `0` cuts the raw-HTML placeholder of an entity** (F-C10-6, second form, WITHOUT fenced_code):
    the entity pattern replaces `&amp;` by `STX wzxhzdk:0 ETX`, and `\b0\b` matches between `:` and ETX.  The source is
    in the domain; `AbbrKeysOKAmp` fails; the output holds STX and ETX.  (The implementation does the same:
    `markdown.markdown("&amp;\n*[0]:T", extensions=['abbr'])`.) -/
theorem C10X_leak_digit_abbr_entity :
    C10DomainWA false 4 "&amp;\n*[0]:T".toList ∧
    ¬ AbbrKeysOKAmp { abbr := true } {} "&amp;\n*[0]:T".toList ∧
    PipelineX.convertX { abbr := true } {} "&amp;\n*[0]:T".toList =
      .ok "<p>\x02wzxhzdk:<abbr title=\"T\">0</abbr>\x03</p>".toList :=
  ⟨by decide +kernel, by decide +kernel, by decide +kernel⟩

/-- … and so does the abbreviation `wzxhzdk` — a key that `AbbrKeysOKA`, the hypothesis of `C10X_partial_all`, admits
    when fenced_code is off, rightly so for a source without `&` -/
example :
    ¬ AbbrKeysOKAmp { abbr := true } {} "&amp;\n\n*[wzxhzdk]: T".toList ∧
    AbbrKeysOKA { abbr := true } {} "&amp;\n\n*[wzxhzdk]: T".toList ∧
    PipelineX.convertX { abbr := true } {} "&amp;\n\n*[wzxhzdk]: T".toList =
      .ok "<p>\x02<abbr title=\"T\">wzxhzdk</abbr>:0\x03</p>".toList :=
  ⟨by decide +kernel, by decide +kernel, by decide +kernel⟩

/-- an abbreviation with `&` in the key and the title satisfies the hypothesis -/
example : AbbrKeysOKAmp { abbr := true } {} "AT&T\n\n*[AT&T]: American T&T".toList := by decide +kernel

end MdVerif.NoCtlXF
