/-
C02 — "Conversion is total: it never raises and always terminates" — the whole core pipeline on a fuel that is
PROVED sufficient, for EVERY `<`-free source.

C02: "Converting any Unicode string, with any combination of the bundled extensions and either output format, returns a
string: it never raises an exception and never fails to terminate."

The model `Pipeline.convert` runs the stack loop of `InlineProcessor.run` on the linear fuel `16·size + 64`; that this
always suffices is the open gap `C02_run_total_full`.  `C08Src.convertBig` (`Lemmas/C08SrcBig.lean`) is the same
function with that one loop on `bigFuel tree + runFuel tree` turns, for which `C02_run_total_bigfuel` proves
termination.  Here, for every configuration (any tab length, output format, `ESCAPED_CHARS`, block-level set — no side
condition is needed) and every source without `<`:

1. `C02_convertBig_total`    — `convertBig` never answers `oof` (no loop of the block parser, of `__handleInline`,
                               of `__processPlaceholders`, of the tree walk, of `RawHtmlPostprocessor` runs away) and
                               never `ood`: it answers `ok out` or `err`;
2. `C02_convertBig_refines`  — wherever the model with its own fuel answers anything but `oof` — `ok`, `err` or `ood`,
                               every source — `convertBig` gives the same answer: the correspondence runs on
                               `Pipeline.convert` validate `convertBig` as well, and `convertBig` is the total
                               extension of the model;
3. `C02_convertBig_err_iff`  — the `err` answer exactly: `UnescapeTreeprocessor` meets `STX digits ETX` with a number
                               of at least 0x110000 in a text, tail or attribute value (`chr()` raises `ValueError`);
                               nothing else raises (`C02_convertBig_err_only_unescape`);
4. **`C02_convertBig_ok`**   — and that never happens: `convertBig pc src = ok out` for EVERY `<`-free source and every
                               configuration.  The invariant behind it (`C02_stx_token_invariant`, a strengthening of
                               `C05_inline_stx_invariant`): in every text, tail and stashed string every STX is followed
                               by `k`, by `w`, or by a COMPLETE escape token — ASCII digits, ETX, number below 0x110000;
                               in an attribute value the same, except that the last token may be cut short by `getLink`
                               (`data[start:-2]`), in which case it runs to the end of the value and has no ETX.  Every
                               pattern cuts the data in front of a delimiter of Markdown's syntax, never in front of a
                               digit or an ETX; pasting (placeholder → stashed string) never joins two digit runs.
                               Consequences for the model with its own fuel: `C02_convert_never_err`,
                               `C02_convert_ok_or_stack_fuel`.

5. `C02_convertXBig_total`, `C02_convertXBig_refines` — the same for the EXTENSION model: `convertXBig` (`convertX` with
                               the stack loop of `runX` on `bigRunFuel`) never answers `oof`, for every flag set
                               WITHOUT WIKILINKS and fenced_code (tables, admonition, def_list, abbr, sane_lists,
                               attr_list, toc, FOOTNOTES, NL2BR on or off), and agrees with `convertX` wherever that
                               answers (every flag set).  Ingredients: the extended block parser's tree has no STX/ETX
                               (`C02_blockStageX_noctl`), the footnote tree processor adds no inline placeholder
                               (`C02_blockStageX_no_placeholder`), and
6. `C02_handleInlineX_total`, `C02_handleInlineX_potential`, `C02_runX_total_bigfuel` — `__handleInline` and the two loops
                               of `InlineProcessor.run` OVER A PATTERN TABLE with the footnote pattern `[^id]` and the
                               nl2br pattern `\n` terminate: the τ-measure / potential argument of `Props/C02Inline.lean`
                               redone with a weight that also counts `\n` (each becomes a `br`) and `^` (`[^id]` makes
                               two elements).  The wikilink pattern is excluded: for a blank label it stashes the EMPTY
                               string, which is not inert (pasted back, it can join its two neighbours into a
                               placeholder), so the potential argument does not cover it.

7. `C02_stx_token_invariant_X`, `C02_convertXBig_err_only_strip` — the STX-token invariant of 4. through `InlineX.runX` for
                               EVERY pattern table (footnote, wikilink, nl2br patterns included), hence
                               `UnescapeTreeprocessor` does not raise in the extension pipeline when the tree processors
                               behind the inline stage are `prettify` and `unescape` only (footnotes, abbr, attr_list,
                               toc off): `convertXBig = err` only if the `<div>` strip fails.

8. `C02_convertXBig_total_fenced` — 5. WITH fenced_code (`tab_length ≥ 1`):
                               every placeholder is a block of its own (`C02_fenced_preprocessor`), also after
                               `HtmlBlockPreprocessor` has re-spelled the character references
                               (`C02_raw_html_preprocessor_inserts`, `C02_raw_html_preprocessor_keeps_blocks`), so it becomes a
                               paragraph of its own and reaches no atomic text, attribute or table
                               (`C02_block_stage_fenced`, an instance of worker fc2's generic block-stage invariant for
                               ARBITRARY text), the tree holds no inline placeholder, and `RawHtmlPostprocessor`
                               terminates with the `<pre…` entries on every text (`C02_rawHtml_total_entries`).

9. `C02_convertXBig_total_wikilinks` — 5. WITH WIKILINKS, for sources in whose normalised text no `[` is immediately
                               followed by a blank (c10x's `C10DomainW` clause; decidable): then the label of a
                               `[[label]]` is never blank (`C02_wikilink_never_blank`), the pattern always returns its
                               `a` element, the class is kept by the block stage (`C02_blockStageX_wiki`) and by every
                               pattern, and the potential argument of 6. goes through for EVERY table
                               (`C02_handleInlineX_total_wiki`, `C02_runX_total_bigfuel_wiki`).

10. **`C02_convertXBig_ok`**  — for the BLOCK-ONLY flag sets (tables, admonition, def_list, sane_lists; nl2br and
                               wikilinks as well; footnotes, abbr, attr_list, toc, fenced_code off) `convertXBig` RETURNS
                               A STRING on every `<`-free source of the model's domain: 5./9. (no `oof`), 7. (unescape
                               does not raise) and the root of the tree is the bare `div` `Markdown.convert` strips
                               (`C02_block_parser_keeps_root`, `C02_runX_keeps_root`, `C02_treeXBig_rootDiv` — with
                               admonition too), so `convertXBig ≠ err` (`C02_convertXBig_never_err`).

11. `C02_convertXBig_ok_fenced` — 10. WITH fenced_code (`tab_length ≥ 1`): the block stage keeps the
                               STX-token invariant although the text holds the raw-HTML placeholders
                               (`C02_block_stage_fenced_tokens`), so `UnescapeTreeprocessor` does not raise
                               (`C02_convertXBig_never_err_fenced`); termination with wikilinks on as well
                               (`C02_convertXBig_total_fenced_wikilinks`).

12. `C02_convertXBig_ok_abbr` — 10. and 11. in one statement, WITH abbr: `AbbrTreeprocessor` cuts texts at the
                               occurrences of the abbreviations — also inside an escape token —, so behind it only the
                               weaker, cut-closed invariant "no bad token" holds (`C02_abbr_treeprocessor_no_bad_token`),
                               which is what `UnescapeTreeprocessor` needs (`C02_unescape_total_no_bad_token`).

13. **`C02_convertXBig_ok_attr_list`** — … and WITH attr_list: for EVERY flag set without footnotes and toc `convertXBig`
                               returns a string on every `<`-free source of the model's domain.
                               `AttrListTreeprocessor` writes no bad token (`C02_attr_list_treeprocessor_no_bad_token`)
                               and finds no attribute list at the root (`C02_treeXBig_rootDiv_attr_list`).

Only property statements live here; proofs in `MdVerif/Lemmas/C02Big.lean`, `MdVerif/Lemmas/C02Big{Str,Pat,Run,Tree}.lean`
(these four mirror `Lemmas/AmpFull*.lean` of C05 for the stronger invariant), `MdVerif/Lemmas/C02BigX.lean`,
`MdVerif/Lemmas/C02BigXAll.lean`, `MdVerif/Lemmas/C02BigF*.lean` (8., 11.), `MdVerif/Lemmas/C02BigW*.lean` (9.),
`MdVerif/Lemmas/C02BigAbbr.lean` (12.), `MdVerif/Lemmas/C02BigAttr{,All}.lean` (13.), `MdVerif/Lemmas/C02BigSh{Block,All}.lean` (10.; `ShBlock` generated by `work/portSh.py` from c05x's `VocabXWFBlock3`) and
`MdVerif/Lemmas/C02BigN{Pot,Em,Pat,HI,PP,Run}.lean` (`Pot`, `Em`, `Pat`, `PP` are copies of
`Lemmas/InlineFuel{Pot,Em,Pat,PP}.lean` generated by `work/portN.py` for the extended weight; `HI`, `Run` transcribe
`InlineFuelHI`, `InlineFuelRun`, `InlineFuelVisit` to the functions of `Model/InlineX.lean`).  Core Lean only.
-/
import MdVerif.Lemmas.C02BigTree
import MdVerif.Lemmas.C02BigXAll
import MdVerif.Lemmas.C02BigXErr
import MdVerif.Lemmas.C02BigFAll
import MdVerif.Lemmas.C02BigWAll
import MdVerif.Lemmas.C02BigShAll
import MdVerif.Lemmas.C02BigFTok
import MdVerif.Lemmas.C02BigAbbr
import MdVerif.Lemmas.C02BigAttrAll

namespace MdVerif.C02Big
open Py Block Inline InlineLocal NoCtl Vocab2 MdVerif.C08 MdVerif.C08Src

/-! ### 1. totality -/

/-- **C02 for the core pipeline on the sufficient fuel: `convertBig` is total on every `<`-free source.**  For every
    configuration and every source text without `<` — of any length, with any nesting of lists, quotes, emphasis,
    links, with forged placeholders, control characters, the constructions that make placeholders leak —
    `convertBig` answers `ok out` or `err`: never `oof` (every loop of every stage ends within its fuel: the block
    parser, `__handleInline`, `__processPlaceholders`, the child loop and the stack loop of `InlineProcessor.run`, the
    fixed-point recursion of `RawHtmlPostprocessor`), never `ood`. -/
theorem C02_convertBig_total (pc : Pipeline.Cfg) (src : Str) (hlt : '<' ∉ src) :
    (∃ out, convertBig pc src = .ok out) ∨ convertBig pc src = .err :=
  convertBig_ok_or_err pc src (by simpa using hlt)

/-- the same as two inequalities -/
theorem C02_convertBig_never_oof (pc : Pipeline.Cfg) (src : Str) (hlt : '<' ∉ src) :
    convertBig pc src ≠ .oof ∧ convertBig pc src ≠ .ood := by
  rcases C02_convertBig_total pc src hlt with ⟨out, h⟩ | h <;> rw [h] <;> exact ⟨by simp, by simp⟩

/-- the stages, spelt out: on a `<`-free source that is not blank the block parser answers with a tree without
    STX/ETX, the inline stage answers within `bigRunFuel` with a document tree (`DocOk`) and a raw-HTML stash of
    entity references, and `convertBig` is `after` — prettify, unescape, serializer, strip, postprocessors — of that -/
theorem C02_convertBig_stages (pc : Pipeline.Cfg) (src : Str) (hlt : '<' ∉ src)
    (hnb : Normalize.isBlankDoc src = false) :
    ∃ rt refs t st, parseDocument pc.tab (Pipeline.prepare pc src) = some (rt, refs) ∧ TreeNoCtl rt ∧
      runBig { esc := pc.esc, refs := refs.reverse } rt = some (t, st) ∧
      DocOk t = true ∧ AllEnt st.html ∧ convertBig pc src = after pc t st.html := by
  obtain ⟨rt, refs, t, st, h1, h2, -, h4, h5, h6, h7⟩ := convertBig_stages pc src (by simpa using hlt) hnb
  exact ⟨rt, refs, t, st, h1, h2, h4, h5, h6, h7⟩

/-! ### 2. `convertBig` extends the model -/

/-- **Wherever the model answers, `convertBig` answers the same** — `ok out`, `err` and `ood` alike, every source,
    every configuration.  (`C08_src_big_agrees` is the `ok` case.)  The only answer of `Pipeline.convert` that
    `convertBig` may improve on is `oof`. -/
theorem C02_convertBig_refines (pc : Pipeline.Cfg) (src : Str) (h : Pipeline.convert pc src ≠ .oof) :
    convertBig pc src = Pipeline.convert pc src :=
  convertBig_of_convert_ne_oof pc src h

/-- the `err` case alone -/
theorem C02_convertBig_refines_err (pc : Pipeline.Cfg) (src : Str) (h : Pipeline.convert pc src = .err) :
    convertBig pc src = .err := by
  rw [C02_convertBig_refines pc src (by rw [h]; simp), h]

/-- so on a `<`-free source the model itself answers `ok`, `err` — the answers of `convertBig` — or `oof`, and `oof`
    only because the linear fuel of the stack loop ran out -/
theorem C02_convert_cases (pc : Pipeline.Cfg) (src : Str) (hlt : '<' ∉ src) :
    Pipeline.convert pc src = convertBig pc src ∨
    (Pipeline.convert pc src = .oof ∧ ∃ rt refs, parseDocument pc.tab (Pipeline.prepare pc src) = some (rt, refs) ∧
      Inline.run { esc := pc.esc, refs := refs.reverse } rt = none) := by
  by_cases h : Pipeline.convert pc src = .oof
  · right
    refine ⟨h, ?_⟩
    have h1 : src.contains '<' = false := by simpa using hlt
    obtain ⟨rr, hp⟩ := Option.isSome_iff_exists.1 (C02_parseDocument_total_any_tab pc.tab (Pipeline.prepare pc src))
    obtain ⟨rt, refs⟩ := rr
    refine ⟨rt, refs, hp, ?_⟩
    cases hr : Inline.run { esc := pc.esc, refs := refs.reverse } rt with
    | none => rfl
    | some ts =>
      obtain ⟨t, st⟩ := ts
      exfalso
      cases h2 : Normalize.isBlankDoc src with
      | true =>
        unfold Pipeline.convert at h
        simp only [h1, h2, Bool.false_eq_true, if_false, if_true] at h
        cases h
      | false =>
        rw [C08_convert_eq_after pc src h1 h2 hp hr] at h
        have hc : convertBig pc src = after pc t st.html := by
          unfold convertBig
          simp only [h1, h2, Bool.false_eq_true, if_false, hp, runBig_of_run hr]
        have := (C02_convertBig_never_oof pc src hlt).1
        rw [hc, h] at this
        exact this rfl
  · exact Or.inl (C02_convertBig_refines pc src h).symm

/-! ### 3. the `err` answer -/

/-- **`convertBig pc src = err` exactly when `UnescapeTreeprocessor` raises**: the source is not blank and one of
    the strings `UnescapeTreeprocessor.run` applies `unescape` to — the truthy texts of the elements other than `code`,
    the truthy tails, the attribute values of the prettified tree (`unescInputs`) — contains `STX d₁…d_k ETX`
    (`d_i` decimal digits of any script, `k ≥ 1`) whose number is at least `0x110000`, so that `chr(int(…))` raises
    `ValueError`.  No other stage raises on a `<`-free source. -/
theorem C02_convertBig_err_iff (pc : Pipeline.Cfg) (src : Str) (hlt : '<' ∉ src) :
    convertBig pc src = .err ↔
      Normalize.isBlankDoc src = false ∧
      ∃ rt refs t st, parseDocument pc.tab (Pipeline.prepare pc src) = some (rt, refs) ∧
        runBig { esc := pc.esc, refs := refs.reverse } rt = some (t, st) ∧
        ∃ s ∈ TreeProc.unescInputs (TreeProc.prettify t pc.blockLevel), BadToken s :=
  convertBig_err_iff pc src (by simpa using hlt)

/-- the direction asked for, with the token spelt out -/
theorem C02_convertBig_err_only_unescape (pc : Pipeline.Cfg) (src : Str) (hlt : '<' ∉ src)
    (h : convertBig pc src = .err) :
    ∃ rt refs t st, parseDocument pc.tab (Pipeline.prepare pc src) = some (rt, refs) ∧
      runBig { esc := pc.esc, refs := refs.reverse } rt = some (t, st) ∧
      ∃ s ∈ TreeProc.unescInputs (TreeProc.prettify t pc.blockLevel), ∃ pre d post,
        s = pre ++ TreeProc.STX :: (d ++ TreeProc.ETX :: post) ∧ d ≠ [] ∧ (∀ c ∈ d, isDecimal c = true) ∧
        0x110000 ≤ decToNat d := by
  obtain ⟨-, rt, refs, t, st, h1, h2, s, hs, hb⟩ := (C02_convertBig_err_iff pc src hlt).1 h
  exact ⟨rt, refs, t, st, h1, h2, s, hs, hb⟩

/-! ### 4. the `err` answer is unreachable -/

open TokFull in
/-- **The STX-token invariant of the inline stage** (strengthening `C05_inline_stx_invariant`).  If in every text and
    tail of the tree handed to `InlineProcessor.run` every STX is followed by `k`, `w` or a complete escape token
    `d₁…d_k ETX` (ASCII digits, `k ≥ 1`, number below 0x110000), and in every attribute value the same up to a
    truncation at the end of the value (`NodeS`; the block parser's tree has no STX at all), then the same holds for
    the tree it returns — whatever the 16 patterns stash, cut and splice, the placeholder leaks F-C10-1/2 and the
    negative end index of `getLink` included; for any fuels, any `ESCAPED_CHARS`, any (STX-free) reference
    definitions. -/
theorem C02_stx_token_invariant {cfg : Inline.Cfg} (hrefs : RefsS cfg) (g2 g : Nat) {root t : Node}
    {stack : List Path} {st st' : Inline.St} (h : runLoop cfg g2 g root stack st = some (t, st'))
    (hd : root.Forall NodeS) (hs : StashS st.stash) : t.Forall NodeS :=
  runLoop_S hrefs g2 g root stack st t st' h hd hs

open TokFull in
/-- **`UnescapeTreeprocessor` does not raise on a tree with the invariant**: every match of `STX(\d+)ETX` in a text, a
    tail or an attribute value is a complete token, so `chr(int(…))` gets a number below 0x110000 (a token cut short
    in an attribute value has no ETX and is not matched). -/
theorem C02_unescape_never_raises {n : Node} (h : n.Forall NodeS) : (TreeProc.unescapeTree n).isSome = true :=
  unescapeTree_S h

open TokFull in
/-- the string level: no bad token in a string with the invariant (up to truncation) -/
theorem C02_no_bad_token {s : Str} (h : SOkA s = true) : ¬ BadToken s := by
  intro hb
  have := unescapeText_sokA h
  rw [(TreeProc.C02_unescape_raises_iff s).2 hb] at this
  cases this

/-- **C02 for the core pipeline on the sufficient fuel: `convertBig` answers `ok` on EVERY `<`-free source**, for
    every configuration (tab length, output format, `ESCAPED_CHARS`, block-level set arbitrary): the conversion
    terminates and nothing raises — neither `chr()` in `UnescapeTreeprocessor` (the only candidate left by
    `C02_convertBig_err_iff`) nor anything else. -/
theorem C02_convertBig_ok (pc : Pipeline.Cfg) (src : Str) (hlt : '<' ∉ src) : ∃ out, convertBig pc src = .ok out :=
  TokFull.convertBig_ok pc src (by simpa using hlt)

/-- in particular never `err` -/
theorem C02_convertBig_never_err (pc : Pipeline.Cfg) (src : Str) (hlt : '<' ∉ src) : convertBig pc src ≠ .err := by
  obtain ⟨out, h⟩ := C02_convertBig_ok pc src hlt
  rw [h]; simp

/-- **the model with its own fuel never answers `err` on a `<`-free source** (this closes the "tested, not proved"
    remark at `C02_escape_entry_roundtrip` in `Props/C02Inline.lean`, and removes the `err` alternative of
    `C05_full_total`) -/
theorem C02_convert_never_err (pc : Pipeline.Cfg) (src : Str) (hlt : '<' ∉ src) : Pipeline.convert pc src ≠ .err :=
  fun h => C02_convertBig_never_err pc src hlt (C02_convertBig_refines_err pc src h)

/-- **what is left of C02 for `Pipeline.convert` on `<`-free sources**: it answers `ok out` — the answer of the total
    `convertBig` — or it answers `oof` because the LINEAR fuel `16·size + 64` of the stack loop of
    `InlineProcessor.run` ran out (`C02_run_total_full`, never observed); nothing else. -/
theorem C02_convert_ok_or_stack_fuel (pc : Pipeline.Cfg) (src : Str) (hlt : '<' ∉ src) :
    (∃ out, Pipeline.convert pc src = .ok out ∧ convertBig pc src = .ok out) ∨
    (Pipeline.convert pc src = .oof ∧ ∃ rt refs, parseDocument pc.tab (Pipeline.prepare pc src) = some (rt, refs) ∧
      Inline.run { esc := pc.esc, refs := refs.reverse } rt = none) := by
  obtain ⟨out, ho⟩ := C02_convertBig_ok pc src hlt
  rcases C02_convert_cases pc src hlt with h | h
  · exact Or.inl ⟨out, by rw [h, ho], ho⟩
  · exact Or.inr h


/-! ### 5. the extension pipeline on the sufficient fuel -/

section Ext
open PipelineX C02BigX

/-- **The extended block parser invents no STX/ETX**: without fenced_code and footnotes (every combination of tables,
    admonition, def_list, abbr, sane_lists; every tab length; every source) the tree that the stages before the
    inline processor hand over has no STX/ETX in any tag, attribute, text or tail, and the HTML stash is empty.
    (`C10_block_tree_noctl` for the extension model.) -/
theorem C02_blockStageX_noctl {x : Exts} {cfg : Pipeline.Cfg} {src : Str} (hf : x.fencedCode = false)
    (hfn : x.footnotes = false) {root : Node} {log : Block.Refs} {stash : List Str}
    (h : blockStageX x cfg src = .ok (root, log, stash)) : TreeNoCtl root ∧ stash = [] :=
  blockStageX_noctl hf hfn h

/-- **The footnote tree processor adds no inline placeholder**: without fenced_code — footnotes on or off — no text
    and no tail of the tree handed to the inline processor contains a (canonically spelt) inline placeholder
    `STX klzzwxh:NNNN ETX`.  (With footnotes the tree does contain STX: the back-link text `STX zz…qq ETX` and
    `NBSP_PLACEHOLDER` behind the last paragraph of a footnote; they are no placeholders.) -/
theorem C02_blockStageX_no_placeholder {x : Exts} {cfg : Pipeline.Cfg} {src : Str} (hf : x.fencedCode = false)
    {root : Node} {log : Block.Refs} {stash : List Str} (h : blockStageX x cfg src = .ok (root, log, stash)) :
    root.Forall (fun n => Inline.TopQ (Inline.IdsLt 0) n) ∧ stash = [] :=
  blockStageX_deep hf h

/-- **C02, termination of the extension pipeline on the sufficient fuel.**  For every flag set without wikilinks and
    fenced_code — tables, admonition, def_list, abbr, sane_lists, attr_list, toc, footnotes, nl2br on or off — every
    configuration with `0 < tab_length` when admonition is on, and EVERY source: `convertXBig` never answers `oof`.
    The preprocessors, the extended block parser (run again on every footnote text), `__handleInline`,
    `__processPlaceholders` and the two loops of `InlineProcessor.run` over the pattern table with the footnote and the
    nl2br pattern, `TocTreeprocessor` (which runs the postprocessors on heading names) and the raw-HTML restore all end
    within their fuels. -/
theorem C02_convertXBig_total (x : Exts) (cfg : Pipeline.Cfg) (src : Str) (hw : x.wikilinks = false)
    (hf : x.fencedCode = false) (htab : x.admonition = true → 0 < cfg.tab) : convertXBig x cfg src ≠ .oof :=
  convertXBig_ne_oof_nowiki src hw hf htab

/-- **Wherever `convertX` answers anything but `oof`, `convertXBig` gives the same answer** (`ok`, `err`, `ood`;
    EVERY flag set, wikilinks and fenced_code included; every source): more fuel never changes a result of the stack
    loop, so the correspondence runs on `convertX` validate `convertXBig`. -/
theorem C02_convertXBig_refines (x : Exts) (cfg : Pipeline.Cfg) (src : Str) (h : convertX x cfg src ≠ .oof) :
    convertXBig x cfg src = convertX x cfg src :=
  convertXBig_of_convertX_ne_oof_all h

/-! ### 6. the inline stage over a pattern table -/

open InlineX in
/-- **`__handleInline` over a pattern table always terminates**: for every table without the wikilink pattern (any
    order and number of core, footnote and nl2br entries; not empty) the model's `handleInlineTopX` — depth fuel
    `len + count + 4`, loop fuel `count·(len+2)²` — answers for every text and every state (forged placeholders
    included).  Measure: the number of characters that can start a match or pay for an element — the trigger
    characters of the core patterns, `<`, `>`, and now `\n` and `^`. -/
theorem C02_handleInlineX_total (xc : XCfg) (ht : InlineN.TableOK xc) (hc : 0 < xc.table.length) (data : Str) (x : XSt) :
    (handleInlineTopX xc data x).isSome = true :=
  InlineN.handleInlineTopX_total xc ht hc data x

open InlineX in
/-- **`__handleInline` over a pattern table does not increase the potential** and keeps the invariants of the stash
    (`C02_handleInline_potential` for the tables of the extensions; the potential `InlineN.nuS` counts `\n` and `^`
    as well: a line feed pays for the `br` that nl2br makes of it, `[` and `^` pay for the `sup` and the `a` of a
    footnote reference). -/
theorem C02_handleInlineX_potential (xc : XCfg) (ht : InlineN.TableOK xc) (f : Nat) (t : Str) (pi : Nat) (x : XSt)
    (d : Str) (x' : XSt) (h : handleInlineX xc f t pi x = some (d, x')) (hs : InlineN.SOK x.st.stash)
    (hd : Inline.IdsLt x.st.stash.length t) :
    InlineN.SOK x'.st.stash ∧ Inline.IdsLt x'.st.stash.length d ∧ x.st.stash <+: x'.st.stash ∧
      InlineN.nuS x'.st d ≤ InlineN.nuS x.st t :=
  InlineN.handleInlineX_spec xc ht f t pi x d x' h hs hd

open InlineX in
/-- **`InlineProcessor.run` over a pattern table terminates** on every tree whose texts hold no inline placeholder
    (every tree of `C02_blockStageX_no_placeholder`): the live loop over the children within `size tree + 1` turns
    (so the model's `runFuel tree` suffices for it), the stack loop within `Inline.bigFuel tree`.  Tables without the
    wikilink pattern; any initial HTML stash and footnote bookkeeping. -/
theorem C02_runX_total_bigfuel (xc : XCfg) (ht : InlineN.TableOK xc) (hc : 0 < xc.table.length) (tree : Node)
    (html : List Str) (fn : Footnotes.State) (h : tree.Forall (fun n => Inline.TopQ (Inline.IdsLt 0) n))
    (g2 : Nat) (hg2 : Inline.size tree < g2) (g : Nat) (hg : Inline.bigFuel tree ≤ g) :
    (runLoopX xc g2 g tree [[]] { st := { html := html }, fn := fn }).isSome = true :=
  InlineN.runX_total_big xc ht hc tree { st := { html := html }, fn := fn } rfl h g2 hg2 g hg

open InlineX in
/-- more fuel never changes a result of `runX`, for every table -/
theorem C02_runX_fuel_mono (xc : XCfg) (g2 g2' g g' : Nat) (h2 : g2 ≤ g2') (hg : g ≤ g') (root : Node)
    (stack : List Inline.Path) (x : XSt) (r : Node × XSt) (h : runLoopX xc g2 g root stack x = some r) :
    runLoopX xc g2' g' root stack x = some r :=
  InlineN.runLoopX_mono xc h2 g g' root stack x r hg h

/-- the tables of the flag sets without wikilinks qualify -/
theorem C02_table_without_wikilinks (x : Exts) (cfg : Pipeline.Cfg) (log : Block.Refs) (hw : x.wikilinks = false) :
    InlineN.TableOK (inlineCfgX x cfg log) ∧ 0 < (inlineCfgX x cfg log).table.length :=
  tableOK_nowiki x cfg log hw

/-- why the wikilink pattern is excluded: a blank label is stashed as the empty string, and the empty string is not
    inert — pasted back between `STX klzz` and `wxh:0001 ETX` it lets a placeholder appear that was not there -/
example : InlineX.wikiNode " ".toList = Inline.PNode.str [] ∧ ¬ InlineN.Inert [] := by
  refine ⟨rfl, ?_⟩
  rintro ⟨_, c, r, h, _⟩
  cases h

/-- the flag set with everything on that the theorems allow, and a source that uses all of it -/
def xAll : Exts :=
  { tables := true, admonition := true, defList := true, abbr := true, saneLists := true, attrList := true, toc := true }

def srcX : Str :=
  ("# T {: #i }\n\n!!! note\n    a *b*\n\nterm\n:   d [l](u \"t\") &amp;\n\n|h|\n|-|\n|\\*c|\n\n" ++
   "*[HTML]: H T\n\n3. HTML\n").toList

example : xAll.wikilinks = false ∧ xAll.fencedCode = false ∧
    (xAll.admonition = true → 0 < ({} : Pipeline.Cfg).tab) := ⟨rfl, rfl, fun _ => by decide⟩

/-- … with footnotes and nl2br as well: a footnote referenced twice (once from an admonition), a second footnote, line
    feeds inside emphasis and inside a footnote text -/
def xFn : Exts := { xAll with footnotes := true, nl2br := true }
def srcFn : Str := "# T\n\na[^1] *b\nc* [^2]\nd\n\n!!! note\n    x[^1]\n\n[^1]: note *n*\n    more\n\n[^2]: two\n".toList

example : xFn.wikilinks = false ∧ xFn.fencedCode = false := ⟨rfl, rfl⟩

/-- the model's answer (337 characters, the output of the implementation) is also `convertXBig`'s -/
example : (match convertXBig xAll {} srcX, convertX xAll {} srcX with
    | .ok a, .ok b => decide (a = b) && decide (a.length = 337)
    | _, _ => false) = true := by decide +kernel

/-- the same with footnotes and nl2br (781 characters, the output of the implementation) -/
example : (match convertXBig xFn {} srcFn, convertX xFn {} srcFn with
    | .ok a, .ok b => decide (a = b) && decide (a.length = 781)
    | _, _ => false) = true := by decide +kernel

/-! ### 7. `UnescapeTreeprocessor` in the extension pipeline -/

open TokFull InlineX in
/-- **The STX-token invariant through the inline tree processor over ANY pattern table** (`C02_stx_token_invariant`
    for `Model/InlineX.lean`): with reference definitions and footnote ids free of STX (`XOK`), `runLoopX` keeps
    "every STX is followed by `k`, `w` or a complete escape token below 0x110000" (attribute values: up to a cut at the
    end) — the footnote pattern writes the reference id and a number, the wikilink pattern word characters, nl2br a
    `br`; none of them cuts the data behind an STX. -/
theorem C02_stx_token_invariant_X {xc : XCfg} (hx : XOK xc) (g2 g : Nat) {root t : Node} {stack : List Inline.Path}
    {x x' : XSt} (h : runLoopX xc g2 g root stack x = some (t, x')) (hd : root.Forall NodeS)
    (hs : StashS x.st.stash) : t.Forall NodeS :=
  runLoopX_S hx g2 g root stack x t x' h hd hs

/-- **`UnescapeTreeprocessor` never raises in the extension pipeline** when footnotes, abbr, attr_list, toc and
    fenced_code are off (tables, admonition, def_list, sane_lists, nl2br, wikilinks on or off; every configuration,
    every source): `treeXBig` — the stages up to the serializer — never answers `err`. -/
theorem C02_treeXBig_never_err (x : Exts) (hf : x.fencedCode = false) (hfn : x.footnotes = false) (hab : x.abbr = false)
    (hal : x.attrList = false) (htoc : x.toc = false) (cfg : Pipeline.Cfg) (src : Str) : treeXBig x cfg src ≠ .err :=
  treeXBig_ne_err hf hfn hab hal htoc cfg src

/-- … so for these flag sets `convertXBig` answers `err` only if `Markdown.convert` cannot strip the wrapper `<div>`
    (no `<div>` … `</div>` in the serialised document: the root would have to be something else than the bare `div`
    the block parser was given — agent c05x's `C05X_rootDiv` excludes it without admonition). -/
theorem C02_convertXBig_err_only_strip (x : Exts) (hf : x.fencedCode = false) (hfn : x.footnotes = false)
    (hab : x.abbr = false) (hal : x.attrList = false) (htoc : x.toc = false) (cfg : Pipeline.Cfg) (src : Str)
    (h : convertXBig x cfg src = .err) :
    ∃ u html, treeXBig x cfg src = .ok u html ∧ Post.topLevelStrip (Ser.serialize cfg.fmt u) = none :=
  convertXBig_err_only_strip hf hfn hab hal htoc cfg src h

example : ({ tables := true, admonition := true, defList := true, saneLists := true, nl2br := true, wikilinks := true } : Exts).fencedCode
    = false := rfl

/-! ### 8. fenced_code -/

/-- **`FencedBlockPreprocessor.run` on any text without STX/ETX** (what `NormalizeWhitespace` hands on; fc2's
    `C10X_fenced_preprocessor` without the character domain of C10): every STX/ETX of the result belongs to a raw-HTML
    placeholder `STX wzxhzdk:n ETX`, `n` below the length of the stash, that is a BLOCK of its own (`OwnBlock`); no
    stash entry holds STX/ETX; a text without `&` stays without `&`. -/
theorem C02_fenced_preprocessor {t t' : Str} {stash : List Str} (h : Fenced.fencedRunA t = .ok t' stash)
    (hn : NoCtl t) (ha : '&' ∉ t) :
    (NoCtlF.OwnBlock stash.length t' ∧ '&' ∉ t') ∧ ∀ e ∈ stash, NoCtl e :=
  NoCtlXF.XT.fencedRunA_own1 h hn ha

/-- the same without the clause on `&` -/
theorem C02_fenced_preprocessor_any {t t' : Str} {stash : List Str} (h : Fenced.fencedRunA t = .ok t' stash)
    (hn : NoCtl t) : NoCtlF.OwnBlock stash.length t' ∧ ∀ e ∈ stash, NoCtl e :=
  NoCtlXF.XT.fencedRunA_own0 h hn

/-- **`HtmlBlockPreprocessor` on a `<`-free text only inserts `;`, and only immediately behind `&#` + a non-empty run
    of hexadecimal digits / `x`** (`C02BigAmp.InsR`: the re-spelling of `html.parser`, `&#38x` ↦ `&#38;x`; c10x's
    `extract_ins` with the place of the insertion) -/
theorem C02_raw_html_preprocessor_inserts (s : Str) : C02BigAmp.InsR s (Extract.extract s) :=
  C02BigAmp.extract_insR s

/-- … hence it **keeps "every raw-HTML placeholder is a block of its own"**: a `;` lands neither inside a placeholder
    (no `&` there) nor inside or next to the blank line around one (the character in front of it is a digit) -/
theorem C02_raw_html_preprocessor_keeps_blocks (h : Nat) (s : Str) (ho : NoCtlF.OwnBlock h s) :
    NoCtlF.OwnBlock h (Extract.extract s) :=
  C02BigAmp.ownBlock_extract ho

example : Extract.extract "&#38x\n\n\x02wzxhzdk:0\x03\n\n&#x2f\n".toList =
    "&#38;x\n\n\x02wzxhzdk:0\x03\n\n&#x2f;\n".toList := by
  decide +kernel

/-- **The extended block parser on ANY text in which every placeholder is a block of its own** (every combination of
    admonition, def_list, footnotes, abbr, sane_lists, tables; `tab_length ≥ 1`): every element has a literal tag,
    attributes without STX/ETX, an atomic text only on `code` and without STX/ETX, and in its tail and non-atomic text
    no STX is followed by `k` — the placeholders are `STX w…` —; the log has no STX/ETX. -/
theorem C02_block_stage_fenced (h : Nat) (tables : Bool) (xc : BlockExt.XCfg) {tab : Nat} (htab : 0 < tab) {text : Str}
    (ho : NoCtlF.OwnBlock h text) {root : Node} {log : Block.Refs}
    (hr : BlockExt.parseDocumentXT tables xc tab text = some (root, log)) :
    root.Forall (BlkX.XInv Blk.okc Blk.okc (NoPair NoCtl.STX 'k')) ∧ BlkX.LogC Blk.okc (Blk.AllC Blk.okc) log :=
  letI : NoCtlF.HtmlBound := ⟨h, false, false⟩
  NoCtlXF.XT.block_stage_own_q tables xc htab ho hr

/-- **`RawHtmlPostprocessor.run` terminates on EVERY text** when the stash entries hold no STX and begin with `&` or
    `<` (`EntryLt`: the entries of the entity pattern and of fenced_code): one substitution pass leaves no live
    placeholder, the second changes nothing, the model's fuel `len stash + 3` suffices. -/
theorem C02_rawHtml_total_entries (bl stash : List Str) (he : ∀ e ∈ stash, EntryLt e) (text : Str) :
    ∃ out, Post.rawHtml bl stash (Post.rawHtmlFuel stash) text = some out :=
  rawHtml_totalL he text

example : EntryLt "<pre><code>x\n</code></pre>".toList ∧ EntryLt "&amp;".toList ∧ ¬ EntryLt ['w', 'z'] := by
  refine ⟨⟨by decide, _, _, rfl, .inr rfl⟩, ⟨by decide, _, _, rfl, .inl rfl⟩, ?_⟩
  rintro ⟨_, c, r, h, hc⟩
  simp only [List.cons.injEq] at h
  rcases hc with rfl | rfl <;> exact absurd h.1 (by decide)

/-- **C02, termination of the extension pipeline on the sufficient fuel, with fenced_code**: every flag set without
    wikilinks (tables, admonition, def_list, abbr, sane_lists, attr_list, toc, footnotes, nl2br on or off), every
    configuration with `tab_length ≥ 1`, every source: `convertXBig` never answers `oof`. -/
theorem C02_convertXBig_total_fenced (x : Exts) (cfg : Pipeline.Cfg) (src : Str) (hw : x.wikilinks = false)
    (hf : x.fencedCode = true) (htab : 0 < cfg.tab) : convertXBig x cfg src ≠ .oof :=
  convertXBig_ne_oof_fenced src hw hf htab

/-- two fenced blocks (one with a language, backticks and emphasis markers in the code; one with `~~~` holding a
    quote marker), a footnote, a heading with toc, nl2br -/
def xFc : Exts := { xFn with attrList := false, fencedCode := true }
def srcFc : Str := "# T\n\na[^1] *b*\n\n```py\nx = `1` *a*\n```\ntext\n~~~\n> q\n~~~\n\n[^1]: note\n".toList

example : xFc.wikilinks = false ∧ xFc.fencedCode = true ∧ 0 < ({} : Pipeline.Cfg).tab := by decide

/-- 390 characters, the output of the implementation -/
example : (match convertXBig xFc {} srcFc, convertX xFc {} srcFc with
    | .ok a, .ok b => decide (a = b) && decide (a.length = 390)
    | _, _ => false) = true := by decide +kernel

/-! ### 9. wikilinks -/

open InlineX in
/-- **In a text in which no `[` is immediately followed by a blank the wikilink pattern never stashes the empty string**:
    whatever `findX` finds for ANY pattern kind of ANY table is an element (all of whose texts are of the class again, no
    tail), nothing, or a string of neutral characters that is not empty — the label of `[[label]]` begins with a
    non-blank, so `label.strip()` is not empty and the pattern returns the `a` element.  The stash is not touched. -/
theorem C02_wikilink_never_blank (xc : XCfg) (k : PatK) (hk : k ∈ xc.table) (data : Str) (si : Nat) (x : XSt)
    (r : Option Found) (x' : XSt) (hd : OkW data) (h : findX xc k data si x = some (r, x')) :
    x'.st.stash = x.st.stash ∧ ∀ f, r = some f → FoundP OkW NW f :=
  findP_w xc k hk data si x r x' hd h

open InlineX in
/-- the class is kept by everything the block stage does to a text: `OkW` with the neutral characters `NW` (neither `[`
    nor blank) is a class of c10x's block-stage framework (`BSep`: cutting, gluing with neutral characters, replacing
    one character by neutral ones, lower-casing, blank-collapsing and capitalising of ids and titles) -/
theorem C02_wikilink_class : BlockExt.BSep OkW NW := bsep_w

open InlineX in
/-- **`__handleInline` over ANY pattern table — wikilink pattern included — terminates** on every text of the class,
    in every state whose stash is of the class (`StashP`: stashed strings neutral and not empty, stashed elements with
    texts of the class) -/
theorem C02_handleInlineX_total_wiki (xc : XCfg) (hc : 0 < xc.table.length) (data : Str) (x : XSt) (ho : OkW data)
    (hp : StashP OkW NW x.st.stash) : (handleInlineTopX xc data x).isSome = true :=
  InlineN.handleInlineTopX_totalW xc hc data x ho hp

open InlineX in
/-- … and does not increase the potential (`C02_handleInlineX_potential` for every table) -/
theorem C02_handleInlineX_potential_wiki (xc : XCfg) (f : Nat) (t : Str) (pi : Nat) (x : XSt)
    (d : Str) (x' : XSt) (h : handleInlineX xc f t pi x = some (d, x')) (hs : InlineN.SOK x.st.stash)
    (hd : Inline.IdsLt x.st.stash.length t) (ho : OkW t) (hp : StashP OkW NW x.st.stash) :
    InlineN.SOK x'.st.stash ∧ Inline.IdsLt x'.st.stash.length d ∧ x.st.stash <+: x'.st.stash ∧
      InlineN.nuS x'.st d ≤ InlineN.nuS x.st t :=
  InlineN.handleInlineX_specW xc f t pi x d x' h hs hd ho hp

open InlineX in
/-- **`InlineProcessor.run` over ANY pattern table terminates** on every tree without inline placeholders whose texts
    and tails are of the class: the live loop within `size tree + 1` turns, the stack loop within `Inline.bigFuel tree` -/
theorem C02_runX_total_bigfuel_wiki (xc : XCfg) (hc : 0 < xc.table.length) (tree : Node)
    (html : List Str) (fn : Footnotes.State) (h : tree.Forall (fun n => Inline.TopQ (Inline.IdsLt 0) n))
    (hw : DeepP OkW tree) (g2 : Nat) (hg2 : Inline.size tree < g2) (g : Nat) (hg : Inline.bigFuel tree ≤ g) :
    (runLoopX xc g2 g tree [[]] { st := { html := html }, fn := fn }).isSome = true :=
  InlineN.runX_total_bigW xc hc tree { st := { html := html }, fn := fn } rfl h hw g2 hg2 g hg

/-- **the block stage keeps the class** (every flag set, fenced_code included): when in the normalised source no `[` is
    immediately followed by a blank (`WikiSrc`, decidable; c10x's `C10DomainW` clause), the same holds for every text
    and tail of the tree handed to the inline stage -/
theorem C02_blockStageX_wiki (x : Exts) (cfg : Pipeline.Cfg) (src : Str) (hs : WikiSrc cfg src) (root : Node)
    (log : Block.Refs) (stash : List Str) (h : blockStageX x cfg src = .ok (root, log, stash)) :
    InlineX.DeepP InlineX.OkW root :=
  blockStageX_okw hs h

/-- **C02, termination of the extension pipeline on the sufficient fuel, WITH WIKILINKS**: every flag set without
    fenced_code (tables, admonition, def_list, abbr, sane_lists, attr_list, toc, footnotes, nl2br, WIKILINKS on or off),
    every configuration (`tab_length ≥ 1` when admonition is on), every source in whose normalised text no `[` is
    immediately followed by a blank: `convertXBig` never answers `oof`.  (Without the hypothesis `[[ ]]` stashes the
    empty string — the example in section 6 — and the potential argument does not apply; no run-away is known.) -/
theorem C02_convertXBig_total_wikilinks (x : Exts) (cfg : Pipeline.Cfg) (src : Str) (hs : WikiSrc cfg src)
    (hf : x.fencedCode = false) (htab : x.admonition = true → 0 < cfg.tab) : convertXBig x cfg src ≠ .oof :=
  convertXBig_ne_oof_wiki src hs hf htab

/-- everything on but fenced_code; wiki links with a blank INSIDE the label, with `_` and `-`, inside emphasis, inside
    an admonition and inside a footnote; `[[]]`, `[[!]]` and an unclosed `[[z` that are no links -/
def xW : Exts := { xFn with wikilinks := true }
def srcW : Str :=
  ("# T\n\nsee [[Wiki Page]] and [[a_b-c]] *x [[y]]*\n\n[l](u) [^1] [[]] [[!]] [x] [[z\n\n!!! note\n    in [[Note]]\n\n" ++
   "[^1]: foot [[F N]]\n").toList

example : WikiSrc {} srcW ∧ xW.wikilinks = true ∧ xW.fencedCode = false := by decide +kernel

/-- 643 characters, the output of the implementation -/
example : (match convertXBig xW {} srcW, convertX xW {} srcW with
    | .ok a, .ok b => decide (a = b) && decide (a.length = 643)
    | _, _ => false) = true := by decide +kernel

/-- the hypothesis is about `[` + blank only: a blank label is what it excludes -/
example : ¬ WikiSrc {} "[[ ]]".toList ∧ WikiSrc {} "[[a ]] [x]( y) ] [".toList := by decide +kernel

/-! ### 10. the block-only flag sets: `convert` returns a string -/

/-- **The extended block parser keeps the tag and the attributes of the element it works into** — every combination of
    admonition, def_list, footnotes, abbr, sane_lists and tables, any `tab_length`, any text: the root of the parsed
    document is the bare `div` it was given.  (With ADMONITION too, where the tree below the root need not be well
    formed — c05x's `C05X_admonition_fills_hr`; `Lemmas/C02BigShBlock.lean` is c05x's induction over the dispatcher
    redone for tag and attributes.) -/
theorem C02_block_parser_keeps_root (tables : Bool) (xc : BlockExt.XCfg) (tab : Nat) (text : Str) (root : Node)
    (log : Block.Refs) (h : BlockExt.parseDocumentXT tables xc tab text = some (root, log)) :
    root.tag = .name "div".toList ∧ root.attrs = [] :=
  C02BigSh.parseDocumentXT_shell h

/-- the inline tree processor over any pattern table, on any fuel, keeps the tag and the attributes of the root -/
theorem C02_runX_keeps_root (xc : InlineX.XCfg) (g2 g : Nat) (root : Node) (stack : List Inline.Path) (x : InlineX.XSt)
    (root' : Node) (x' : InlineX.XSt) (h : InlineX.runLoopX xc g2 g root stack x = some (root', x')) :
    root'.tag = root.tag ∧ root'.attrs = root.attrs :=
  C02BigSh.runLoopX_shell xc g2 g root stack x root' x' h

/-- **The tree handed to the serializer has the bare wrapper `div` as its root** (`C14X.rootDiv`), for the flag sets
    without footnotes, abbr, attr_list and toc — admonition, tables, def_list, sane_lists, nl2br, wikilinks, fenced_code
    on or off — and on the sufficient fuel (`treeXBig`; c05x's `C05X_rootDiv` is the statement for `treeX` with the
    model's fuel, without admonition). -/
theorem C02_treeXBig_rootDiv (x : Exts) (hfn : x.footnotes = false) (hab : x.abbr = false) (hal : x.attrList = false)
    (htoc : x.toc = false) (cfg : Pipeline.Cfg) (src : Str) (u : Node) (html : List Str)
    (h : treeXBig x cfg src = .ok u html) : C14X.rootDiv u = true :=
  treeXBig_rootDiv hfn hab hal htoc h

/-- **`Markdown.convert` never raises** for the flag sets of `C02_convertXBig_err_only_strip`: the strip of the
    wrapper `<div>` cannot fail, `UnescapeTreeprocessor` meets complete escape tokens only.  Every configuration, every
    source. -/
theorem C02_convertXBig_never_err (x : Exts) (hf : x.fencedCode = false) (hfn : x.footnotes = false)
    (hab : x.abbr = false) (hal : x.attrList = false) (htoc : x.toc = false) (cfg : Pipeline.Cfg) (src : Str) :
    convertXBig x cfg src ≠ .err :=
  convertXBig_ne_err hf hfn hab hal htoc cfg src

/-- **C02 for the block-only flag sets — `convert` returns a string**: tables, admonition, def_list, sane_lists, nl2br
    and wikilinks on or off (the rest off); every configuration (`tab_length ≥ 1` when admonition is on); every
    `<`-free source of the model's domain (with admonition: no `!!!` followed by a non-ASCII character, the one `ood`
    answer of these flag sets) in whose normalised text, when wikilinks is on, no `[` is immediately followed by a
    blank.  `convertXBig x cfg src = ok out`: no loop runs away, nothing raises. -/
theorem C02_convertXBig_ok (x : Exts) (hf : x.fencedCode = false) (hfn : x.footnotes = false) (hab : x.abbr = false)
    (hal : x.attrList = false) (htoc : x.toc = false) (cfg : Pipeline.Cfg) (src : Str) (hlt : '<' ∉ src)
    (hadm : x.admonition = true → 0 < cfg.tab ∧ admNonAscii (Normalize.normalize cfg.tab src) = false)
    (hw : x.wikilinks = true → WikiSrc cfg src) : ∃ out, convertXBig x cfg src = .ok out :=
  convertXBig_ok hf hfn hab hal htoc cfg src hlt hadm hw

/-- … so on these sources the model with its own fuel answers `ok` — the same string — or `oof`, and `oof` only if the
    stack loop of `runX` runs out of the linear fuel `16·size + 64` (the open gap `C02_run_total_full`) -/
theorem C02_convertX_ok_or_stack_fuel (x : Exts) (hf : x.fencedCode = false) (hfn : x.footnotes = false)
    (hab : x.abbr = false) (hal : x.attrList = false) (htoc : x.toc = false) (cfg : Pipeline.Cfg) (src : Str)
    (hlt : '<' ∉ src)
    (hadm : x.admonition = true → 0 < cfg.tab ∧ admNonAscii (Normalize.normalize cfg.tab src) = false)
    (hw : x.wikilinks = true → WikiSrc cfg src) :
    (∃ out, convertX x cfg src = .ok out ∧ convertXBig x cfg src = .ok out) ∨ convertX x cfg src = .oof := by
  by_cases h : convertX x cfg src = .oof
  · exact .inr h
  · left
    obtain ⟨out, ho⟩ := convertXBig_ok hf hfn hab hal htoc cfg src hlt hadm hw
    refine ⟨out, ?_, ho⟩
    rw [← convertXBig_of_convertX_ne_oof_all h, ho]

/-- all six on; an admonition with a title holding emphasis and c05x's witness below it (a list that ends with an `hr`,
    then a block indented deep enough to go INTO the `hr`), a definition list with a wiki link and a line feed, a table
    with an escaped `*` and a code span holding `|`, a sane list, a numeric reference above 0x10FFFF, an STX in the
    source -/
def xBlk : Exts :=
  { tables := true, admonition := true, defList := true, saneLists := true, nl2br := true, wikilinks := true }
def srcBlk : Str :=
  ("!!! note \"T *t*\"\n    - - x\n        - y\n        ***\n\n            text\n\nterm\n:   d [[W p]]\n    e\n\n" ++
   "|h|k|\n|-|:-|\n|\\*c|`|`|\n\n1. a\n* b\n\n&#1114112; \\\x02 *x\ny*\n").toList

/-- the hypotheses of `C02_convertXBig_ok` hold for it -/
example : xBlk.fencedCode = false ∧ xBlk.footnotes = false ∧ xBlk.abbr = false ∧ xBlk.attrList = false ∧
    xBlk.toc = false ∧ '<' ∉ srcBlk ∧ 0 < ({} : Pipeline.Cfg).tab ∧
    admNonAscii (Normalize.normalize ({} : Pipeline.Cfg).tab srcBlk) = false ∧ WikiSrc {} srcBlk := by decide +kernel

/-- 482 characters in xhtml, 487 in html (the paragraph in the `hr` shows there): the outputs of the implementation -/
example : (match convertXBig xBlk {} srcBlk, convertX xBlk {} srcBlk with
    | .ok a, .ok b => decide (a = b) && decide (a.length = 482)
    | _, _ => false) = true ∧
    (match convertXBig xBlk { fmt := .html } srcBlk with
    | .ok a => decide (a.length = 487)
    | _ => false) = true := by
  refine ⟨by decide +kernel, by decide +kernel⟩

/-- the `ood` answer excluded by `hadm` -/
example : convertXBig { admonition := true } {} "!!! é".toList = .ood := by decide +kernel

/-! ### 11. … with fenced_code -/

/-- **The block stage with fenced_code keeps the STX-token invariant** — a second instance of fc2's block-stage
    invariant, for ARBITRARY text in which every raw-HTML placeholder is a block of its own: in every tail and
    non-atomic text of the tree every STX is followed by `k`, `w` or a complete escape token below 0x110000
    (`TokFull.SOk`; the placeholders are `STX wzxhzdk:n ETX`), attributes, atomic texts and the log have no STX/ETX. -/
theorem C02_block_stage_fenced_tokens (h : Nat) (tables : Bool) (xc : BlockExt.XCfg) {tab : Nat} (htab : 0 < tab)
    {text : Str} (ho : NoCtlF.OwnBlock h text) {root : Node} {log : Block.Refs}
    (hr : BlockExt.parseDocumentXT tables xc tab text = some (root, log)) :
    root.Forall (BlkX.XInv Blk.okc Blk.okc (fun s => TokFull.SOk s = true)) ∧
      BlkX.LogC Blk.okc (Blk.AllC Blk.okc) log :=
  letI : NoCtlF.HtmlBound := ⟨h, false, false⟩
  NoCtlXF.XT.block_stage_own_s tables xc htab ho hr

/-- **`Markdown.convert` never raises with fenced_code** (footnotes, abbr, attr_list, toc off; the rest on or off;
    `tab_length ≥ 1`; every source) -/
theorem C02_convertXBig_never_err_fenced (x : Exts) (hf : x.fencedCode = true) (hfn : x.footnotes = false)
    (hab : x.abbr = false) (hal : x.attrList = false) (htoc : x.toc = false) (cfg : Pipeline.Cfg) (src : Str)
    (htab : 0 < cfg.tab) : convertXBig x cfg src ≠ .err :=
  convertXBig_ne_err_fenced hf hfn hab hal htoc cfg src htab

/-- `C02_convertXBig_total_fenced` with wikilinks on, under the source hypothesis of section 9 -/
theorem C02_convertXBig_total_fenced_wikilinks (x : Exts) (cfg : Pipeline.Cfg) (src : Str) (hs : WikiSrc cfg src)
    (hf : x.fencedCode = true) (htab : 0 < cfg.tab) : convertXBig x cfg src ≠ .oof :=
  convertXBig_ne_oof_fenced_wiki src hs hf htab

/-- **C02 with fenced_code — `convert` returns a string**: fenced_code on; tables, admonition, def_list, sane_lists,
    nl2br, wikilinks on or off; footnotes, abbr, attr_list, toc off; `tab_length ≥ 1`; every source without `<`
    of the model's domain (with admonition: no `!!!` followed by a non-ASCII character) in whose normalised text, when
    wikilinks is on, no `[` is immediately followed by a blank. -/
theorem C02_convertXBig_ok_fenced (x : Exts) (hf : x.fencedCode = true) (hfn : x.footnotes = false)
    (hab : x.abbr = false) (hal : x.attrList = false) (htoc : x.toc = false) (cfg : Pipeline.Cfg) (src : Str)
    (hlt : '<' ∉ src) (htab : 0 < cfg.tab)
    (hadm : x.admonition = true → admNonAscii (Normalize.normalize cfg.tab src) = false)
    (hw : x.wikilinks = true → WikiSrc cfg src) : ∃ out, convertXBig x cfg src = .ok out :=
  convertXBig_ok_fenced hf hfn hab hal htoc cfg src hlt htab hadm hw

/-- all seven on: an admonition with a wiki link, two fenced blocks (one with a language, backticks, emphasis markers
    and a bracket in the code; one with `~~~` holding a quote marker, a blank line and a table), a definition list, a
    table -/
def xBlkF : Exts := { xBlk with fencedCode := true }
def srcBlkF : Str :=
  ("!!! note\n    a [[W]]\n\n```py\nx = `1` *a* [b\n```\ntext\n~~~\n> q\n\n|h|\n|-|\n~~~\n\nterm\n:   d\n\n" ++
   "|h|\n|-|\n|c|\n").toList

example : xBlkF.fencedCode = true ∧ xBlkF.footnotes = false ∧ xBlkF.abbr = false ∧ xBlkF.attrList = false ∧
    xBlkF.toc = false ∧ '<' ∉ srcBlkF ∧ 0 < ({} : Pipeline.Cfg).tab ∧
    admNonAscii (Normalize.normalize ({} : Pipeline.Cfg).tab srcBlkF) = false ∧ WikiSrc {} srcBlkF := by decide +kernel

/-- 363 characters, the output of the implementation -/
example : (match convertXBig xBlkF {} srcBlkF, convertX xBlkF {} srcBlkF with
    | .ok a, .ok b => decide (a = b) && decide (a.length = 363)
    | _, _ => false) = true := by decide +kernel

/-- ampersands around and inside fenced blocks: character references without `;` (decimal, hexadecimal, at the end of
    the text), an entity reference, a bare `&`; 176 characters, the output of the implementation -/
def srcAmpF : Str :=
  "a &#38x &amp; & b &#12\n\n```py\nx = `1` & &#38x *a*\n```\n&#9\n~~~\n> q &amp;\n~~~\n\n&#x2f".toList

example : (match convertXBig xBlkF {} srcAmpF, convertX xBlkF {} srcAmpF with
    | .ok a, .ok b => decide (a = b) && decide (a.length = 176)
    | _, _ => false) = true := by decide +kernel

/-! ### 12. … with abbr -/

/-- **`UnescapeTreeprocessor.run` does not raise on a tree none of whose texts, tails and attribute values holds a bad
    token** (`STX digits ETX` with a number of at least 0x110000; `C02BigNB.NB s := ¬ BadToken s`).  This is weaker than
    the STX-token invariant of sections 4 and 7 (`NodeS` implies it: `C02_no_bad_token`) and — unlike it — closed
    under cutting a string into pieces. -/
theorem C02_unescape_total_no_bad_token (t : Node) (h : t.Forall C02BigNB.NodeNB) : TreeProc.unescapeTree t ≠ none :=
  C02BigNB.unescapeTree_NB h

/-- **`AbbrTreeprocessor.run` writes no bad token**: every string it writes is a piece of a string it read (the text in
    front of an occurrence, the abbreviation, the text behind it: `C02BigNB.segs_pieces`) or a title of the table. -/
theorem C02_abbr_treeprocessor_no_bad_token (abbrs : List (Str × Str)) (ha : ∀ kv ∈ abbrs, C02BigNB.NB kv.2) (t : Node)
    (h : t.Forall C02BigNB.NodeNB) : (AbbrTree.run abbrs t).Forall C02BigNB.NodeNB :=
  C02BigNB.abbrRun_NB ha h

/-- why the weaker invariant: with `*[42]: answer` the `42` inside the escape token of `\*` is an occurrence of the
    abbreviation; the token is cut in two, the output holds a raw STX and ETX (39 characters, the output of the
    implementation: `<p>\x02<abbr title="answer">42</abbr>\x03</p>`) — and nothing raises -/
example : convertXBig { abbr := true } {} "*[42]: answer\n\n\\*".toList =
    .ok "<p>\x02<abbr title=\"answer\">42</abbr>\x03</p>".toList := by decide +kernel

/-- **`Markdown.convert` never raises** when footnotes, attr_list and toc are off — tables, admonition, def_list, ABBR,
    sane_lists, nl2br, wikilinks, fenced_code on or off (`tab_length ≥ 1` with fenced_code); every configuration, every
    source.  (`C02_convertXBig_never_err` and `C02_convertXBig_never_err_fenced` without their hypothesis on abbr.) -/
theorem C02_convertXBig_never_err_abbr (x : Exts) (hfn : x.footnotes = false) (hal : x.attrList = false)
    (htoc : x.toc = false) (cfg : Pipeline.Cfg) (src : Str) (htab : x.fencedCode = true → 0 < cfg.tab) :
    convertXBig x cfg src ≠ .err :=
  convertXBig_ne_err' hfn hal htoc cfg src htab

/-- the root of the tree handed to the serializer is the bare `div`, abbr on or off -/
theorem C02_treeXBig_rootDiv_abbr (x : Exts) (hfn : x.footnotes = false) (hal : x.attrList = false)
    (htoc : x.toc = false) (cfg : Pipeline.Cfg) (src : Str) (u : Node) (html : List Str)
    (h : treeXBig x cfg src = .ok u html) : C14X.rootDiv u = true :=
  treeXBig_rootDiv' hfn hal htoc h

/-- **C02 — `convert` returns a string — for every flag set without footnotes, attr_list and toc**: tables, admonition,
    def_list, abbr, sane_lists, nl2br, wikilinks, fenced_code on or off; every configuration (`tab_length ≥ 1` when
    admonition or fenced_code is on); every `<`-free source of the model's domain (with admonition: no `!!!` followed by
    a non-ASCII character) in whose normalised text, when wikilinks is on, no `[` is immediately followed by a blank.
    (`C02_convertXBig_ok` and `C02_convertXBig_ok_fenced` in one statement, with abbr.) -/
theorem C02_convertXBig_ok_abbr (x : Exts) (hfn : x.footnotes = false) (hal : x.attrList = false) (htoc : x.toc = false)
    (cfg : Pipeline.Cfg) (src : Str) (hlt : '<' ∉ src)
    (htab : x.admonition = true ∨ x.fencedCode = true → 0 < cfg.tab)
    (hadm : x.admonition = true → admNonAscii (Normalize.normalize cfg.tab src) = false)
    (hw : x.wikilinks = true → WikiSrc cfg src) : ∃ out, convertXBig x cfg src = .ok out :=
  convertXBig_ok' hfn hal htoc cfg src hlt htab hadm hw

/-- all eight on: two abbreviations (one cuts the escape token of `\*`), a wiki link, a fenced block (no abbreviation
    inside: the code is an `AtomicString`), an admonition, a definition list -/
def xAbbr : Exts := { xBlkF with abbr := true }
def srcAbbr : Str :=
  ("*[42]: answer\n*[HTML]: Hyper Text\n\n\\* HTML 42 [[W]]\n\n```\nHTML &#38x\n```\n\n!!! note\n    HTML\n\n" ++
   "t\n:   HTML d\n").toList

example : xAbbr.footnotes = false ∧ xAbbr.attrList = false ∧ xAbbr.toc = false ∧ '<' ∉ srcAbbr ∧
    0 < ({} : Pipeline.Cfg).tab ∧ admNonAscii (Normalize.normalize ({} : Pipeline.Cfg).tab srcAbbr) = false ∧
    WikiSrc {} srcAbbr := by decide +kernel

/-- 372 characters, the output of the implementation -/
example : (match convertXBig xAbbr {} srcAbbr, convertX xAbbr {} srcAbbr with
    | .ok a, .ok b => decide (a = b) && decide (a.length = 372)
    | _, _ => false) = true := by decide +kernel

/-! ### 13. … with attr_list -/

/-- **`AttrListTreeprocessor.run` writes no bad token**: every attribute value the scanner produces is a piece of the
    scanned string (`C02BigNB.scan_pieces`), a class is appended behind a blank; the new text of a block-level element is
    a piece of the old one; the new tail of an inline element is the text behind the closing brace followed by the
    unparsed remainder, which is empty or starts with `}` — no `STX digits ETX` can form across that seam
    (`C02BigNB.nb_append_sep`). -/
theorem C02_attr_list_treeprocessor_no_bad_token (bl : List Str) (t : Node) (h : t.Forall C02BigNB.NodeNB) :
    (AttrListTree.run bl t).Forall C02BigNB.NodeNB :=
  C02BigNB.attrRun_NB bl h

/-- the seam: `INLINE_RE` takes the LAST `}` of the line, the scanner stops at the first; what is left goes BEHIND the
    text that followed the brace (the output of the implementation for `*e*{: .f}rest } x` is `<em class="f">e</em> x}rest `) -/
example : AttrList.inlineApply [] "{: .f}rest } x".toList = ([("class".toList, "f".toList)], " x}rest ".toList) := by
  decide +kernel

/-- **The root of the tree handed to the serializer is the bare `div`, attr_list on or off** (footnotes and toc off;
    with ADMONITION too, on the sufficient fuel): `AttrListTreeprocessor` visits the root as well, but after prettify the
    root's text, its tail and the tails of its children are `"\n"` or empty (c05x's `attrRun_root_attrs`; the block
    parser leaves the top-level children without tails — every `XCfg` —, the inline stage keeps that on any fuel). -/
theorem C02_treeXBig_rootDiv_attr_list (x : Exts) (hfn : x.footnotes = false) (htoc : x.toc = false)
    (cfg : Pipeline.Cfg) (src : Str) (u : Node) (html : List Str) (h : treeXBig x cfg src = .ok u html) :
    C14X.rootDiv u = true :=
  treeXBig_rootDiv2 hfn htoc h

/-- **`Markdown.convert` never raises when footnotes and toc are off** — tables, admonition, def_list, abbr, sane_lists,
    ATTR_LIST, nl2br, wikilinks, fenced_code on or off (`tab_length ≥ 1` with fenced_code); every configuration, every
    source. -/
theorem C02_convertXBig_never_err_attr_list (x : Exts) (hfn : x.footnotes = false) (htoc : x.toc = false)
    (cfg : Pipeline.Cfg) (src : Str) (htab : x.fencedCode = true → 0 < cfg.tab) : convertXBig x cfg src ≠ .err :=
  convertXBig_ne_err2 hfn htoc cfg src htab

/-- **C02 — `convert` returns a string — for every flag set without footnotes and toc** (nine of the eleven extensions
    on or off): every configuration (`tab_length ≥ 1` when admonition or fenced_code is on); every `<`-free source of
    the model's domain (`InDomain`, decidable: with admonition no `!!!` followed by a non-ASCII character; with fenced_code
    and attr_list together no fenced block with options) in whose normalised text, when wikilinks is on, no `[` is
    immediately followed by a blank. -/
theorem C02_convertXBig_ok_attr_list (x : Exts) (hfn : x.footnotes = false) (htoc : x.toc = false)
    (cfg : Pipeline.Cfg) (src : Str) (hlt : '<' ∉ src)
    (htab : x.admonition = true ∨ x.fencedCode = true → 0 < cfg.tab) (hd : InDomain x cfg src)
    (hw : x.wikilinks = true → WikiSrc cfg src) : ∃ out, convertXBig x cfg src = .ok out :=
  convertXBig_ok2 hfn htoc cfg src hlt htab hd hw

/-- … and the model with its own fuel answers the same string, or `oof` (the stack loop of `runX` on the linear fuel) -/
theorem C02_convertX_ok_or_stack_fuel_attr_list (x : Exts) (hfn : x.footnotes = false) (htoc : x.toc = false)
    (cfg : Pipeline.Cfg) (src : Str) (hlt : '<' ∉ src)
    (htab : x.admonition = true ∨ x.fencedCode = true → 0 < cfg.tab) (hd : InDomain x cfg src)
    (hw : x.wikilinks = true → WikiSrc cfg src) :
    (∃ out, convertX x cfg src = .ok out ∧ convertXBig x cfg src = .ok out) ∨ convertX x cfg src = .oof := by
  by_cases h : convertX x cfg src = .oof
  · exact .inr h
  · left
    obtain ⟨out, ho⟩ := convertXBig_ok2 hfn htoc cfg src hlt htab hd hw
    refine ⟨out, ?_, ho⟩
    rw [← convertXBig_of_convertX_ne_oof_all h, ho]

/-- all nine on: a heading with an escape, an id, two classes and a quoted value; an abbreviation; a paragraph with an
    inline attribute list and one of its own; a fenced block; an attribute list inside an admonition; one that does not
    apply (`dd`); a list item with the seam above -/
def xAttr : Exts := { xAbbr with attrList := true }
def srcAttr : Str :=
  ("# T \\* {: #i .c .d k=\"v w\" }\n\n*[HTML]: H T\n\npara HTML *a*{: .x y=1 } b [[W]]\n{: #p .q }\n\n```py\nx\n```\n\n" ++
   "!!! note\n    n\n    {: .adm }\n\nt\n:   d {: z='1' }\n\n- li *e*{: .f}rest } x\n").toList

example : xAttr.footnotes = false ∧ xAttr.toc = false ∧ '<' ∉ srcAttr ∧ 0 < ({} : Pipeline.Cfg).tab ∧
    InDomain xAttr {} srcAttr ∧ WikiSrc {} srcAttr := by decide +kernel

/-- 414 characters, the output of the implementation -/
example : (match convertXBig xAttr {} srcAttr, convertX xAttr {} srcAttr with
    | .ok a, .ok b => decide (a = b) && decide (a.length = 414)
    | _, _ => false) = true := by decide +kernel

end Ext

/-! ### non-vacuity -/

/-- a link inside the text of a link, hidden from the link pattern until the tree walk comes back to the `strong`
    element: there the quote and the unbalanced parenthesis make `getLink` cut the data two characters before its end
    (`data[start:-2]`), in the middle of the escape token `STX 42 ETX` of `\*` — the token loses its `ETX`, which stays
    behind in the text -/
def cutSrc : Str := "[**[](\"(\\***](x)".toList

/-- entity references (the raw-HTML stash), reference links, nested emphasis, a code span, an escaped bracket, a
    quote, a list: several blocks -/
def bigSrc : Str :=
  "# T\n\n* a *b **c** d* [l](u \"t\") &amp; `c>` \\[ ![i][r]\n* x\n\n> q _e_\n\n[r]: /u 'v'\n".toList

example : '<' ∉ cutSrc := by decide

/-- what the model (and the implementation) answers for `cutSrc`: a cut token `STX 4` in the `href`, a lone `ETX` in
    the text; `convertBig` gives the same answer (as `C02_convertBig_refines` says) -/
example : Pipeline.convert {} cutSrc =
      .ok "<p><a href=\"x\"><strong><a href=\"&quot;(\x024\"></a>\x03</strong></a></p>".toList ∧
    convertBig {} cutSrc = Pipeline.convert {} cutSrc := by decide +kernel

example : (match convertBig {} bigSrc with | .ok out => decide (out.length = 213) | _ => false) = true := by
  decide +kernel

/-- a bad token, and what `unescape` does with it and with the largest good one -/
example : BadToken (TreeProc.STX :: ("1114112".toList ++ TreeProc.ETX :: "x".toList)) :=
  ⟨[], "1114112".toList, "x".toList, rfl, by decide, by decide, by decide⟩
example : TreeProc.unescapeText 0 (TreeProc.STX :: ("1114112".toList ++ [TreeProc.ETX])) = none ∧
    TreeProc.unescapeText 0 (TreeProc.STX :: ("1114111".toList ++ [TreeProc.ETX])) = some [Char.ofNat 1114111] := by
  decide

/-- `after` does answer `err` on a (forged) tree with a bad token: the characterisation is not vacuous -/
example :
    after {} (root [{ tag := .name "p".toList, text := some (TreeProc.STX :: ("1114112".toList ++ [TreeProc.ETX])) }]) []
      = .err := by decide +kernel

/-- the invariant is not trivially true: complete tokens, placeholders, a token cut short at the end of an attribute
    value (as in `cutSrc`); rejected: a token whose number `chr()` refuses, a cut token in a text, a cut token followed
    by anything but digits in an attribute value, STX before another letter -/
example : TokFull.SOk "x\x02klzzwxh:0000\x03 \x0242\x03 \x02wzxhzdk:1\x03 \x021114111\x03".toList = true ∧
    TokFull.SOkA "\"(\x024".toList = true ∧ TokFull.SOkA "\"(\x02".toList = true ∧
    TokFull.SOk "\x021114112\x03".toList = false ∧ TokFull.SOkA "\x021114112\x03".toList = false ∧
    TokFull.SOk "\"(\x024".toList = false ∧ TokFull.SOkA "\x024 \x03".toList = false ∧
    TokFull.SOk "\x02amp\x03".toList = false := by decide

/-- the tree of `cutSrc` behind the inline stage: the `href` holds the cut token, the tail the lone ETX — the
    invariant holds (`SOkA` for the attribute value, `SOk` for the tail), and nothing is left to raise -/
example : TokFull.SOkA "\"(\x024".toList = true ∧ TokFull.SOk "\x03".toList = true := by decide

example : '<' ∉ bigSrc := by decide

end MdVerif.C02Big
