/-
C17 — toc ids / links / nesting and footnote ids / links.

Only property statements live here.  Models: `MdVerif/Model/Ext/Toc.lean`, `MdVerif/Model/Ext/Footnotes.lean`;
specification notions: `MdVerif/Spec/Toc.lean`, `MdVerif/Spec/Footnotes.lean`; helper lemmas:
`MdVerif/Lemmas/Toc.lean`, `MdVerif/Lemmas/Footnotes.lean`.  Core Lean only.

toc
* `unique` (the `while id in ids or not id` loop) always ends by its own exit condition within the fuel
  `|ids| + 1`, for every id and every id set (pigeonhole on the pairwise distinct candidates) —
  `C17_unique_total`, `C17_unique_candidates_distinct`, `C17_unique_fresh`, `C17_unique_fuel_exhaustion`;
* ids generated over a heading list are non-empty, pairwise distinct and distinct from the ids used elsewhere —
  `C17_assigned_ids_distinct`, `C17_assigned_vs_preset`, `C17_every_heading_has_id`;
* `nest_toc_tokens` keeps every entry exactly once in document order (`C17_nest_flatten`) and nests every entry
  under the nearest preceding entry of strictly smaller level (`C17_nest_outline`, `C17_outlineParent_some`,
  `C17_outlineParent_none`, by position: `C17_nest_outline_positions`, `C17_nest_levels_only`); the links of the toc are `#id` of the entries in document order
  (`C17_toc_links_resolve`, `C17_toc_end_to_end`).

footnotes
* `C17_refs_resolve`, `C17_ref_ids_distinct`, `C17_k_backlinks`; the two known defects as kernel-checked
  counterexamples on the model: `F-C17-2` (unused footnote: dangling back-link) and `F-C17-1` (empty body: no
  back-link).
-/
import MdVerif.Lemmas.Toc
import MdVerif.Lemmas.Footnotes

namespace MdVerif.C17
open MdVerif.Py MdVerif.Toc MdVerif.Toc.Spec MdVerif.Footnotes MdVerif.Footnotes.Spec

/-! ## toc: `unique` -/

/-- The candidates tried by the loop of `unique` (`id`, `step id`, `step (step id)`, …) are pairwise distinct,
    for every start id (with or without line feeds, matching `IDCOUNT_RE` or not). -/
theorem C17_unique_candidates_distinct (id : Str) (i j : Nat) (h : i ≠ j) : candidate id i ≠ candidate id j :=
  fun e => h (candidate_injective id e)

/-- e.g. the candidates for `a_01`: `a_01`, `a_2`, `a_3` -/
example : (0 : Nat) ≠ 2 ∧ candidate ['a', '_', '0', '1'] 0 = ['a', '_', '0', '1'] ∧
    candidate ['a', '_', '0', '1'] 1 = ['a', '_', '2'] ∧ candidate ['a', '_', '0', '1'] 2 = ['a', '_', '3'] := by decide

/-- **Termination of `unique`.**  For every id and every id set the loop leaves by its own exit condition after
    at most `|ids| + 1` turns: the result is the first candidate that is non-empty and not in `ids`.  (At most
    `|ids|` candidates can be in `ids`, one more can be the empty start id; the candidates are pairwise
    distinct.)  No hypothesis on `id` or `ids`. -/
theorem C17_unique_total (id : Str) (ids : List Str) :
    ∃ k, k ≤ ids.length + 1 ∧ (unique id ids).1 = candidate id k ∧ Fresh ids (candidate id k) ∧
      ∀ j, j < k → ¬ Fresh ids (candidate id j) :=
  unique_spec id ids

/-- the id returned by `unique` is not in `ids`, is not empty, and the id set becomes `ids` plus that id -/
theorem C17_unique_fresh (id : Str) (ids : List Str) :
    (unique id ids).1 ∉ ids ∧ (unique id ids).1 ≠ [] ∧ (unique id ids).2 = (unique id ids).1 :: ids :=
  ⟨(unique_fresh id ids).1, (unique_fresh id ids).2, rfl⟩

/-- Fuel exhaustion, explicitly: with no turn left the loop of the model returns its current candidate
    *unchecked*; with fuel `f + 1` it behaves like the Python loop for one turn.  `C17_unique_total` shows that
    `unique` never gets there before the candidate is fresh. -/
theorem C17_unique_fuel_exhaustion (id : Str) (ids : List Str) (f : Nat) :
    uniqueLoop 0 id ids = id ∧
    uniqueLoop (f + 1) id ids = if id ∈ ids ∨ id = [] then uniqueLoop f (uniqueStep id) ids else id :=
  ⟨rfl, rfl⟩

/-- less fuel than `|ids| + 1` is not enough in general: with one turn the loop hands out the colliding `a_1` -/
example : uniqueLoop 1 ['a'] [['a'], ['a', '_', '1']] = ['a', '_', '1'] ∧
    (unique ['a'] [['a'], ['a', '_', '1']]).1 = ['a', '_', '2'] := by decide

/-- the bound `|ids| + 1` is reached: the empty id against `{_1}` needs two turns -/
example : (unique [] [['_', '1']]).1 = ['_', '2'] ∧ uniqueLoop 1 [] [['_', '1']] = ['_', '1'] := by decide

/-- the odd corners of `IDCOUNT_RE` are in the model: a leading-zero counter is renormalised, a final line feed is
    dropped by `$`, a line feed inside the stem makes the counter pile up -/
example : uniqueStep ['a', '_', '0', '1'] = ['a', '_', '2'] ∧ uniqueStep ['a', '_', '1', '\n'] = ['a', '_', '2'] ∧
    uniqueStep ['a', '\n', 'b', '_', '1'] = ['a', '\n', 'b', '_', '1', '_', '1'] := by decide

/-! ## toc: ids of a heading list -/

/-- **Generated ids never collide.**  Over any heading list (any slug function, any initial id set): the ids
    that `unique` generated are pairwise distinct, none of them is in the initial id set `used` (the ids found in
    the document before the walk: `attr_list`, …), none is empty. -/
theorem C17_assigned_ids_distinct (slug : Str → Str) (used : List Str) (hs : List Heading) :
    (generatedIds hs (assignIds slug used hs)).Nodup ∧
    ∀ i ∈ generatedIds hs (assignIds slug used hs), i ∉ used ∧ i ≠ [] :=
  assignIds_generated slug hs used

/-- `run` first collects every `id` attribute of the document into `used_ids`, the headings' own ones included;
    under that hypothesis a generated id differs from every pre-existing heading id as well -/
theorem C17_assigned_vs_preset (slug : Str → Str) (used : List Str) (hs : List Heading)
    (hused : ∀ i ∈ presetIds hs, i ∈ used) :
    ∀ i ∈ generatedIds hs (assignIds slug used hs), i ∉ presetIds hs :=
  fun i hi hp => ((assignIds_generated slug hs used).2 i hi).1 (hused i hp)

/-- the hypothesis of `C17_assigned_vs_preset` on a concrete document: `# a {#a_1}` then `# a` `# a` -/
example : (∀ i ∈ presetIds [(1, some ['a', '_', '1'], ['a']), (1, none, ['a']), (2, none, ['a'])],
      i ∈ [['a', '_', '1']]) ∧
    (assignIds id [['a', '_', '1']] [(1, some ['a', '_', '1'], ['a']), (1, none, ['a']), (2, none, ['a'])]).map (·.id)
      = [['a', '_', '1'], ['a'], ['a', '_', '2']] := by decide

/-- **Every heading has an id**: one token per heading, same level and name, in document order; its id is the
    heading's own id or a generated (hence non-empty, fresh) one.  A pre-existing id is kept as it is — it is
    not re-checked, two headings carrying the same explicit id keep it (as in the code). -/
theorem C17_every_heading_has_id (slug : Str → Str) (used : List Str) (hs : List Heading) :
    (assignIds slug used hs).map (fun t => (t.level, t.name)) = hs.map (fun h => (h.1, h.2.2)) ∧
    ∀ i ∈ (assignIds slug used hs).map (·.id),
      i ∈ presetIds hs ∨ i ∈ generatedIds hs (assignIds slug used hs) :=
  ⟨assignIds_shape slug hs used, assignIds_ids slug hs used⟩

/-- explicit ids are not made unique (not a claim of C17, recorded for the reader): -/
example : (assignIds id [['x']] [(1, some ['x'], []), (1, some ['x'], [])]).map (·.id) = [['x'], ['x']] := by decide

/-! ## toc: nesting -/

/-- **Every entry exactly once, in document order**: the preorder listing of `nest_toc_tokens(ts)` is `ts`. -/
theorem C17_nest_flatten (ts : List Tok) : flattenList (nestToc ts) = ts :=
  nestToc_flatten ts

/-- **Nesting = outline.**  Listing `nest_toc_tokens(ts)` in preorder as `(entry, parent)` pairs gives, for every
    entry of `ts`, the pair of that entry and its outline parent: the nearest preceding entry whose level is
    strictly smaller (`Spec.outlineParent`; `C17_outlineParent_some`/`_none` spell it out).  That entry is
    necessarily still "open": everything between it and the current entry has a level ≥ the current one. -/
theorem C17_nest_outline (ts : List Tok) : edgesList none (nestToc ts) = outlinePairs ts :=
  nestToc_edges ts

/-- `outlineParent pre t = some p`: `p` precedes `t`, is strictly higher in the outline, and every entry between
    `p` and `t` has a level ≥ that of `t` -/
theorem C17_outlineParent_some (pre : List Tok) (t p : Tok) (h : outlineParent pre t = some p) :
    ∃ a b, pre = a ++ p :: b ∧ p.level < t.level ∧ ∀ q ∈ b, t.level ≤ q.level := by
  unfold outlineParent at h
  obtain ⟨hp, as, bs, he, hall⟩ := List.find?_eq_some_iff_append.mp h
  refine ⟨bs.reverse, as.reverse, ?_, by simpa using hp, ?_⟩
  · have := congrArg List.reverse he
    simpa using this
  · intro q hq
    have := hall q (by simpa using hq)
    simp at this
    exact this

/-- the hypothesis of `C17_outlineParent_some` on a concrete input: after `h1 h3 h2` a new `h3` goes under the `h2` -/
example : outlineParent [⟨1, ['a'], []⟩, ⟨3, ['b'], []⟩, ⟨2, ['c'], []⟩] ⟨3, ['d'], []⟩ = some ⟨2, ['c'], []⟩ := by
  decide

/-- `outlineParent pre t = none` exactly when no preceding entry has a smaller level: `t` is a top-level entry -/
theorem C17_outlineParent_none (pre : List Tok) (t : Tok) :
    outlineParent pre t = none ↔ ∀ q ∈ pre, t.level ≤ q.level := by
  unfold outlineParent
  simp [List.find?_eq_none]

/-- **Nesting by position.**  `C17_nest_outline` names the parent by its value; two entries may carry equal
    values.  `nest_toc_tokens` looks at levels only: label every entry by its position (`indexed ts`, ids pairwise
    distinct, levels and names unchanged) — the nested list of `ts` is the nested list of the position-labelled
    entries with the labels mapped back (same shape), and in the latter every entry hangs under the nearest
    preceding position of strictly smaller level. -/
theorem C17_nest_outline_positions (ts : List Tok) :
    nestToc ts = mapForest (restore ts) (nestToc (indexed ts)) ∧
    edgesList none (nestToc (indexed ts)) = outlinePairs (indexed ts) ∧
    ((indexed ts).map (·.id)).Nodup ∧
    (indexed ts).map (fun t => (t.level, t.name)) = ts.map (fun t => (t.level, t.name)) := by
  refine ⟨?_, nestToc_edges _, indexed_ids_nodup ts, indexedFrom_levels 0 ts⟩
  rw [← nestToc_map (restore ts) (restore_level ts), indexed_restore]

/-- relabelling entries by any level-preserving map commutes with nesting: the shape depends on levels only -/
theorem C17_nest_levels_only (f : Tok → Tok) (hf : ∀ t, (f t).level = t.level) (ts : List Tok) :
    nestToc (ts.map f) = mapForest f (nestToc ts) :=
  nestToc_map f hf ts

/-- a level-preserving relabelling (hypothesis of `C17_nest_levels_only`): forget the names -/
example : ∀ t : Tok, ((fun t : Tok => { t with name := [] }) t).level = t.level := fun _ => rfl

/-- two entries with equal values: positions tell them apart (`1 2 1 2` → `0(1), 2(3)`) -/
example : edgesList none (nestToc (indexed [⟨1, ['a'], []⟩, ⟨2, ['b'], []⟩, ⟨1, ['a'], []⟩, ⟨2, ['b'], []⟩]))
    = [(⟨1, ['0'], []⟩, none), (⟨2, ['1'], []⟩, some ⟨1, ['0'], []⟩),
       (⟨1, ['2'], []⟩, none), (⟨2, ['3'], []⟩, some ⟨1, ['2'], []⟩)] := by decide

/-- a document with skipped and decreasing levels: `h2 h3 h1 h3 h2` nests as `2(3), 1(3, 2)` -/
example : renderList (nestToc [⟨2, ['a'], []⟩, ⟨3, ['b'], []⟩, ⟨1, ['c'], []⟩, ⟨3, ['d'], []⟩, ⟨2, ['e'], []⟩])
    = ['2', '(', '3', ')', ',', '1', '(', '3', ',', '2', ')'] := by decide

/-- **Every toc link resolves.**  The `href`s that `build_toc_div` emits for `nest_toc_tokens(toks)` are `#` + id
    of the entries of `toks`, one per entry, in document order. -/
theorem C17_toc_links_resolve (toks : List Tok) :
    tocLinks (nestToc toks) = toks.map (fun t => '#' :: t.id) := by
  rw [tocLinks_eq_flatten, nestToc_flatten]

/-- End to end on the id/nesting model of `TocTreeprocessor.run`: the toc links are the ids, in document order,
    of exactly those headings whose level lies in the `toc_depth` window. -/
theorem C17_toc_end_to_end (slug : Str → Str) (used : List Str) (top bottom : Nat) (hs : List Heading) :
    tocLinks (nestToc (tocTokens slug used top bottom hs)) =
      ((assignIds slug used hs).filter (fun t => top ≤ t.level && t.level ≤ bottom)).map (fun t => '#' :: t.id) :=
  C17_toc_links_resolve _

/-! ## footnotes -/

/-- **Every reference links to an existing footnote.**  The references `[^u]` whose id is defined get, in order,
    `href = "#fn:u"` (references to undefined ids are left as text); the `li` ids of the footnote list are
    `fn:d` for the definitions `d`; hence every emitted `href` is `#` + the id of an `li` that exists. -/
theorem C17_refs_resolve (defs uses : List Str) (hasBody : Str → Bool) :
    (processRefs defs uses).2.map (·.2) = (uses.filter (· ∈ defs)).map (fun u => '#' :: footnoteId u) ∧
    (backlinks defs (processRefs defs uses).1 hasBody).map (·.1) = defs.map footnoteId ∧
    ∀ p ∈ (processRefs defs uses).2, ∃ li ∈ (backlinks defs (processRefs defs uses).1 hasBody).map (·.1),
      p.2 = '#' :: li := by
  have h1 : (processRefs defs uses).2.map (·.2) = (uses.filter (· ∈ defs)).map (fun u => '#' :: footnoteId u) := by
    rw [(processRefs_spec defs uses).1, refsFrom_hrefs]
  have h2 : (backlinks defs (processRefs defs uses).1 hasBody).map (·.1) = defs.map footnoteId := by
    simp [backlinks, backlinksOf_fst]
  refine ⟨h1, h2, ?_⟩
  intro p hp
  have : p.2 ∈ (processRefs defs uses).2.map (·.2) := List.mem_map.mpr ⟨p, hp, rfl⟩
  rw [h1] at this
  obtain ⟨u, hu, he⟩ := List.mem_map.mp this
  have hud : u ∈ defs := by simpa using (List.mem_filter.mp hu).2
  exact ⟨footnoteId u, by rw [h2]; exact List.mem_map.mpr ⟨u, hud, rfl⟩, he.symm⟩

/-- **The `sup` ids handed out are pairwise distinct** (`fnref:ID`, `fnref2:ID`, … per footnote; different
    footnotes never share one), for every list of definitions and references. -/
theorem C17_ref_ids_distinct (defs uses : List Str) : ((processRefs defs uses).2.map (·.1)).Nodup := by
  rw [(processRefs_spec defs uses).1]
  exact refsFrom_nodup defs [] uses

/-- the reference number `n` (from 0) to a defined `id` gets the `sup` id `refName id n` -/
theorem C17_ref_ids_named (defs uses : List Str) (id : Str) (hid : id ∈ defs) :
    supsOf id (processRefs defs uses).2 = (List.range' 0 (uses.count id)).map (refName id) := by
  rw [(processRefs_spec defs uses).1, refsFrom_supsOf defs [] uses id hid]
  simp

/-- the hypothesis of `C17_ref_ids_named` on a concrete input, with the ids it then gives -/
example : ['a'] ∈ [['b'], ['a']] ∧
    supsOf ['a'] (processRefs [['b'], ['a']] [['a'], ['x'], ['a'], ['b']]).2
      = [['f', 'n', 'r', 'e', 'f', ':', 'a'], ['f', 'n', 'r', 'e', 'f', '2', ':', 'a']] := by decide

/-- **A footnote with a body that is referenced `k ≥ 1` times gets exactly `k` back-links, and their targets are
    exactly the `k` `sup` ids handed out to its references**, in the same order. -/
theorem C17_k_backlinks (defs uses : List Str) (hasBody : Str → Bool) (id : Str)
    (hid : id ∈ defs) (hb : hasBody id = true) (hk : 1 ≤ uses.count id) :
    (backlinksOf (processRefs defs uses).1 hasBody id).2
        = (supsOf id (processRefs defs uses).2).map ('#' :: ·) ∧
    (supsOf id (processRefs defs uses).2).length = uses.count id ∧
    (supsOf id (processRefs defs uses).2).Nodup := by
  have hcount : lookup (fnref ++ ':' :: id) (processRefs defs uses).1.foundRefs = uses.count id := by
    rw [(processRefs_spec defs uses).2.found id, List.count_reverse]
    exact List.count_filter (by simpa using hid)
  have hs := C17_ref_ids_named defs uses id hid
  refine ⟨?_, by rw [hs]; simp, ?_⟩
  · rw [backlinksOf_hasBody _ hasBody id hb _ hcount hk, hs]
  · have hnd := C17_ref_ids_distinct defs uses
    unfold supsOf
    exact List.Nodup.sublist (List.Sublist.map _ (List.filter_sublist)) hnd

/-- the hypotheses of `C17_k_backlinks` on a concrete input, and what the theorem then gives: `[^a]` used twice,
    `[^b]` once, both defined with a body -/
example : ['a'] ∈ [['a'], ['b']] ∧ (fun _ : Str => true) ['a'] = true ∧
    1 ≤ List.count ['a'] [['a'], ['b'], ['a']] ∧
    (backlinksOf (processRefs [['a'], ['b']] [['a'], ['b'], ['a']]).1 (fun _ => true) ['a']).2
      = [['#', 'f', 'n', 'r', 'e', 'f', ':', 'a'], ['#', 'f', 'n', 'r', 'e', 'f', '2', ':', 'a']] ∧
    (processRefs [['a'], ['b']] [['a'], ['b'], ['a']]).2.map (·.1)
      = [['f', 'n', 'r', 'e', 'f', ':', 'a'], ['f', 'n', 'r', 'e', 'f', ':', 'b'],
         ['f', 'n', 'r', 'e', 'f', '2', ':', 'a']] := by decide

/-! ### known defects, kernel-checked on the model -/

/-- **F-C17-2** (`'y\n\n[^a]: note'`): a footnote that is never referenced still gets one back-link `#fnref:a`,
    although no `sup` id was handed out at all — the link has no target.  (`hk` of `C17_k_backlinks` is needed.) -/
example : (processRefs [['a']] []).2 = [] ∧
    backlinks [['a']] (processRefs [['a']] []).1 (fun _ => true)
      = [(['f', 'n', ':', 'a'], [['#', 'f', 'n', 'r', 'e', 'f', ':', 'a']])] := by decide

/-- **F-C17-1** (`'y[^a] z[^a]\n\n[^a]:'`): a footnote whose body produces no element gets no back-link at all,
    although it is referenced (here twice: `fnref:a`, `fnref2:a`).  (`hb` of `C17_k_backlinks` is needed.) -/
example : (processRefs [['a']] [['a'], ['a']]).2.map (·.1)
      = [['f', 'n', 'r', 'e', 'f', ':', 'a'], ['f', 'n', 'r', 'e', 'f', '2', ':', 'a']] ∧
    backlinks [['a']] (processRefs [['a']] [['a'], ['a']]).1 (fun _ => false)
      = [(['f', 'n', ':', 'a'], [])] := by decide

end MdVerif.C17
