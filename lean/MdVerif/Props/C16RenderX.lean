/-
C16 — "With a bundled extension enabled, its documented syntax renders to the documented structure": end to end on
the model of `markdown.Markdown(extensions=[…]).convert` (`PipelineX.convertX`, `Model/PipelineX.lean`, validated
against the implementation by `harness/corr/pipelinex.py`), for nl2br, admonition, def_list, abbr and footnotes.
(Tables, fenced code and wikilinks: `Props/C16Render*.lean`; "changes nothing else": `Props/C16BlockExt.lean`,
`Props/C16Triggers.lean`.)

Vocabulary.  `PlainLine l` (`DocSpec.wfLabel`, `Spec/Doc.lean`): `l` is non-empty, consists of ASCII letters, digits
and single spaces, and neither starts nor ends with a space — text without any markup trigger.  Every theorem is for
ALL such lines / words / titles, of any length and in any number; `cfg` is any configuration with the default
block-level element list and a positive `tab_length`, both output formats unless said otherwise.

How it is proved (helper lemmas: `Lemmas/RenderX*.lean`): the front of `convertX` (normalisation, raw-HTML extractor)
leaves such text alone; the block stage is followed processor by processor on the printed form; the inline stage is
the table engine `InlineX.runX`, for which `Lemmas/RenderX.lean` has the general facts (quiet text is left alone by
every pattern of every table; a stack whose paths lead to quiet subtrees leaves the tree alone — a port of
`CodeLaw.runLoop_calm`), the extension's own pattern being followed turn by turn; then prettify, the extension's tree
processors, unescape, the serializer and `finishX` on the resulting tree.
-/
import MdVerif.Lemmas.RenderXNl
import MdVerif.Lemmas.RenderXAdm
import MdVerif.Lemmas.RenderXDef
import MdVerif.Lemmas.RenderXAbbr
import MdVerif.Lemmas.RenderXFn
import MdVerif.Lemmas.RenderXCombo

namespace MdVerif.RenderX
open Py PipelineX

/-! ### nl2br -/

/-- **nl2br, any number of lines.**  A paragraph of plain lines `l0`, `l1`, … , `ln` converts to one `<p>` in which
    every line feed of the source is a `<br />` (xhtml; `<br>` in html) followed by a line feed (`brOut`): nothing
    else changes, whatever the number and the length of the lines. -/
theorem C16_nl2br_renders (cfg : Pipeline.Cfg) (hbl : cfg.blockLevel = TreeProc.defaultBlockLevel)
    (htab : 0 < cfg.tab) (l0 : Str) (r : List Str) (h : ∀ l ∈ l0 :: r, PlainLine l) :
    convertX { nl2br := true } cfg (joinLines (l0 :: r)) =
      .ok ("<p>".toList ++ l0 ++ brOut cfg.fmt r ++ "</p>".toList) :=
  convertX_nl2br cfg hbl htab l0 r (fun l hl => plainLine_facts (h l hl))

/-- `brOut` spelled out: `<br />` + line feed + the line, for every further line -/
example (fmt : Ser.Fmt) (l1 l2 : Str) : brOut fmt [l1, l2] = brTag fmt ++ '\n' :: l1 ++ (brTag fmt ++ '\n' :: l2 ++ []) := rfl
example : brTag .xhtml = "<br />".toList ∧ brTag .html = "<br>".toList := ⟨rfl, rfl⟩

/-- **nl2br, two lines, xhtml**: `l1\nl2` ↦ `<p>l1<br />\nl2</p>`. -/
theorem C16_nl2br_two_lines (l1 l2 : Str) (h1 : PlainLine l1) (h2 : PlainLine l2) :
    convertX { nl2br := true } {} (l1 ++ "\n".toList ++ l2) =
      .ok ("<p>".toList ++ l1 ++ "<br />\n".toList ++ l2 ++ "</p>".toList) := by
  have := C16_nl2br_renders {} rfl (by decide) l1 [l2] (by
    intro l hl
    simp only [List.mem_cons, List.mem_nil_iff, or_false] at hl
    rcases hl with rfl | rfl <;> assumption)
  have e : joinLines [l1, l2] = l1 ++ "\n".toList ++ l2 := by simp [joinLines, join]
  rw [e] at this
  rw [this]
  simp [brOut, brTag]

/-- **nl2br, two lines, html**: `l1\nl2` ↦ `<p>l1<br>\nl2</p>`. -/
theorem C16_nl2br_two_lines_html (l1 l2 : Str) (h1 : PlainLine l1) (h2 : PlainLine l2) :
    convertX { nl2br := true } { fmt := .html } (l1 ++ "\n".toList ++ l2) =
      .ok ("<p>".toList ++ l1 ++ "<br>\n".toList ++ l2 ++ "</p>".toList) := by
  have := C16_nl2br_renders { fmt := .html } rfl (by decide) l1 [l2] (by
    intro l hl
    simp only [List.mem_cons, List.mem_nil_iff, or_false] at hl
    rcases hl with rfl | rfl <;> assumption)
  have e : joinLines [l1, l2] = l1 ++ "\n".toList ++ l2 := by simp [joinLines, join]
  rw [e] at this
  rw [this]
  simp [brOut, brTag]

/-- the hypotheses are satisfiable … -/
example : PlainLine "line one".toList ∧ PlainLine "2nd line of 3".toList ∧ PlainLine "x".toList := by decide
/-- … and exclude what would be markup or would be changed by the block parser -/
example : ¬ PlainLine " indented".toList ∧ ¬ PlainLine "trailing  ".toList ∧ ¬ PlainLine "a *b*".toList ∧
    ¬ PlainLine "".toList := by decide

/-- an instance through the theorem … -/
example : convertX { nl2br := true } {} "line one\nline two\nthree".toList =
    .ok "<p>line one<br />\nline two<br />\nthree</p>".toList :=
  C16_nl2br_renders {} rfl (by decide) "line one".toList ["line two".toList, "three".toList] (by decide)

/-- … and the same instance evaluated by the kernel on the model, independently of the theorem -/
example : convertX { nl2br := true } {} "line one\nline two\nthree".toList =
    .ok "<p>line one<br />\nline two<br />\nthree</p>".toList := by decide +kernel

/-- without the extension the line feeds stay line feeds -/
example : convertX {} {} "line one\nline two".toList = .ok "<p>line one\nline two</p>".toList := by decide +kernel

/-! ### admonition -/

/-- a class line: plain, and without upper-case letters (the class attribute is the lower-cased class) -/
def LowerLine (l : Str) : Prop := PlainLine l ∧ ∀ c ∈ l, isAsciiUpper c = false

instance (l : Str) : Decidable (LowerLine l) := by unfold LowerLine PlainLine; infer_instance

theorem lowerLine_facts {l : Str} (h : LowerLine l) : LowerFacts l :=
  { toPlainFacts := plainLine_facts h.1, lower := h.2 }

/-- the source of an admonition: `!!! class`, optionally ` "Title"`, then the body lines indented by `tab_length` -/
example : admSrc 4 "note".toList (some "Title".toList) ["body".toList] = "!!! note \"Title\"\n    body".toList := by
  decide
example : admSrc 4 "danger big".toList none ["one".toList, "two".toList] = "!!! danger big\n    one\n    two".toList := by
  decide
example : admSrc 2 "note".toList (some []) ["body".toList] = "!!! note \"\"\n  body".toList := by decide

/-- **admonition with a title.**  `!!! class "Title"` followed by body lines indented by `tab_length` converts to a
    `div` of class `admonition class` holding a paragraph of class `admonition-title` with the title and one
    paragraph with the body lines — for every plain lower-case class line (one or more class words), every plain
    title and any number of plain body lines. -/
theorem C16_admonition_renders (cfg : Pipeline.Cfg) (hbl : cfg.blockLevel = TreeProc.defaultBlockLevel)
    (htab : 0 < cfg.tab) (kl title b0 : Str) (br : List Str) (hk : LowerLine kl) (ht : PlainLine title)
    (hb : ∀ l ∈ b0 :: br, PlainLine l) :
    convertX { admonition := true } cfg (admSrc cfg.tab kl (some title) (b0 :: br)) =
      .ok ("<div class=\"admonition ".toList ++ kl ++ "\">\n".toList ++
        ("<p class=\"admonition-title\">".toList ++ title ++ "</p>\n".toList) ++
        "<p>".toList ++ joinLines (b0 :: br) ++ "</p>\n</div>".toList) := by
  have hkf := lowerLine_facts hk
  have htf := plainLine_facts ht
  obtain ⟨a, t, rfl⟩ : ∃ a t, title = a :: t := by
    cases title with
    | nil => exact absurd rfl htf.ne
    | cons a t => exact ⟨a, t, rfl⟩
  have := convertX_adm cfg hbl htab kl (some (a :: t)) (some (a :: t)) b0 br hkf.toPlainFacts
    (fun x hx => by cases hx; exact htf.chars) (by simpa using htf.chars)
    (fun l hl => plainLine_facts (hb l hl)) (admClassTitle_lower kl hkf (some (a :: t)))
  rw [this, admOut_some]

/-- **admonition without a title**: the title paragraph holds the first class word with its first letter in upper
    case (`upperFirst`). -/
theorem C16_admonition_default_title (cfg : Pipeline.Cfg) (hbl : cfg.blockLevel = TreeProc.defaultBlockLevel)
    (htab : 0 < cfg.tab) (kl b0 : Str) (br : List Str) (hk : LowerLine kl) (hb : ∀ l ∈ b0 :: br, PlainLine l) :
    convertX { admonition := true } cfg (admSrc cfg.tab kl none (b0 :: br)) =
      .ok ("<div class=\"admonition ".toList ++ kl ++ "\">\n".toList ++
        ("<p class=\"admonition-title\">".toList ++ upperFirst (kl.takeWhile (· != ' ')) ++ "</p>\n".toList) ++
        "<p>".toList ++ joinLines (b0 :: br) ++ "</p>\n</div>".toList) := by
  have hkf := lowerLine_facts hk
  have hw : ∀ c ∈ kl.takeWhile (· != ' '), DocSpec.isAlnumSp c = true :=
    fun c hc => hkf.chars c ((List.takeWhile_sublist _).subset hc)
  have hne : upperFirst (kl.takeWhile (· != ' ')) ≠ [] := by
    obtain ⟨a, t, rfl⟩ : ∃ a t, kl = a :: t := by
      cases kl with
      | nil => exact absurd rfl hkf.ne
      | cons a t => exact ⟨a, t, rfl⟩
    have : (a != ' ') = true := by simpa using hkf.head a rfl
    simp only [List.takeWhile, this, upperFirst]
    simp
  have := convertX_adm cfg hbl htab kl none (some (upperFirst (kl.takeWhile (· != ' ')))) b0 br hkf.toPlainFacts
    (fun x hx => by cases hx) (by simpa using upperFirst_chars _ hw)
    (fun l hl => plainLine_facts (hb l hl)) (admClassTitle_lower kl hkf none)
  rw [this]
  obtain ⟨a, t, hat⟩ : ∃ a t, upperFirst (kl.takeWhile (· != ' ')) = a :: t := by
    cases h : upperFirst (kl.takeWhile (· != ' ')) with
    | nil => exact absurd h hne
    | cons a t => exact ⟨a, t, rfl⟩
  rw [hat, admOut_some]

/-- **admonition with the empty title `""`**: no title paragraph. -/
theorem C16_admonition_no_title (cfg : Pipeline.Cfg) (hbl : cfg.blockLevel = TreeProc.defaultBlockLevel)
    (htab : 0 < cfg.tab) (kl b0 : Str) (br : List Str) (hk : LowerLine kl) (hb : ∀ l ∈ b0 :: br, PlainLine l) :
    convertX { admonition := true } cfg (admSrc cfg.tab kl (some []) (b0 :: br)) =
      .ok ("<div class=\"admonition ".toList ++ kl ++ "\">\n".toList ++
        "<p>".toList ++ joinLines (b0 :: br) ++ "</p>\n</div>".toList) := by
  have hkf := lowerLine_facts hk
  have := convertX_adm cfg hbl htab kl (some []) none b0 br hkf.toPlainFacts
    (fun x hx => by cases hx; intro c hc; cases hc) (by simp)
    (fun l hl => plainLine_facts (hb l hl)) (admClassTitle_lower kl hkf (some []))
  rw [this, admOut_none _ _ _ (Or.inl rfl)]

example : LowerLine "note".toList ∧ LowerLine "danger big".toList ∧ ¬ LowerLine "Note".toList := by decide
example : upperFirst "note".toList = "Note".toList ∧ "danger big".toList.takeWhile (· != ' ') = "danger".toList := by decide

/-- instances: through the theorems … -/
example : convertX { admonition := true } {} "!!! note \"Title\"\n    body".toList =
    .ok "<div class=\"admonition note\">\n<p class=\"admonition-title\">Title</p>\n<p>body</p>\n</div>".toList :=
  C16_admonition_renders {} rfl (by decide) "note".toList "Title".toList "body".toList [] (by decide) (by decide) (by decide)

example : convertX { admonition := true } {} "!!! danger big\n    one\n    two".toList =
    .ok "<div class=\"admonition danger big\">\n<p class=\"admonition-title\">Danger</p>\n<p>one\ntwo</p>\n</div>".toList :=
  C16_admonition_default_title {} rfl (by decide) "danger big".toList "one".toList ["two".toList] (by decide) (by decide)

/-- … and by evaluation of the model -/
example : convertX { admonition := true } {} "!!! note \"\"\n    body".toList =
    .ok "<div class=\"admonition note\">\n<p>body</p>\n</div>".toList := by decide +kernel

/-- the same source without the extension is a paragraph and a code block -/
example : convertX {} {} "!!! note\n    body".toList = .ok "<p>!!! note\n    body</p>".toList := by decide +kernel

/-! ### def_list -/

/-- the source of a definition list: the term lines, then one line `:   definition` per definition -/
example : defSrc ["term".toList] ["definition".toList] = "term\n:   definition".toList := by decide
example : defSrc ["term 1".toList, "term 2".toList] ["def 1".toList, "def 2".toList] =
    "term 1\nterm 2\n:   def 1\n:   def 2".toList := by decide

/-- `txtOut tag ts`: `<tag>t</tag>` and a line feed for every `t` -/
example : txtOut "dt" ["a".toList, "b c".toList] = "<dt>a</dt>\n<dt>b c</dt>\n".toList := by decide

/-- **def_list, several terms and several definitions.**  Term lines followed by definition lines convert to one
    `dl` with a `dt` per term and a `dd` per definition, in order — for any number (≥ 1) of plain terms and of plain
    one-line definitions. -/
theorem C16_deflist_renders (cfg : Pipeline.Cfg) (hbl : cfg.blockLevel = TreeProc.defaultBlockLevel)
    (htab : 0 < cfg.tab) (t0 : Str) (tr : List Str) (d : Str) (ds : List Str)
    (ht : ∀ l ∈ t0 :: tr, PlainLine l) (hd : ∀ l ∈ d :: ds, PlainLine l) :
    convertX { defList := true } cfg (defSrc (t0 :: tr) (d :: ds)) =
      .ok ("<dl>\n".toList ++ txtOut "dt" (t0 :: tr) ++ txtOut "dd" (d :: ds) ++ "</dl>".toList) :=
  convertX_def cfg hbl htab t0 tr d ds (fun l hl => plainLine_facts (ht l hl)) (fun l hl => plainLine_facts (hd l hl))

/-- **def_list, one term and one definition**: `term\n:   definition` ↦
    `<dl>\n<dt>term</dt>\n<dd>definition</dd>\n</dl>`. -/
theorem C16_deflist_one (cfg : Pipeline.Cfg) (hbl : cfg.blockLevel = TreeProc.defaultBlockLevel)
    (htab : 0 < cfg.tab) (term defn : Str) (ht : PlainLine term) (hd : PlainLine defn) :
    convertX { defList := true } cfg (term ++ "\n:   ".toList ++ defn) =
      .ok ("<dl>\n<dt>".toList ++ term ++ "</dt>\n<dd>".toList ++ defn ++ "</dd>\n</dl>".toList) := by
  have := C16_deflist_renders cfg hbl htab term [] defn [] (by simpa using ht) (by simpa using hd)
  have e : defSrc [term] [defn] = term ++ "\n:   ".toList ++ defn := by
    simp only [defSrc, List.map_cons, List.map_nil, List.cons_append, List.nil_append, defLine]
    rw [Block.joinLines_cons_cons]
    simp only [joinLines, join, String.reduceToList, List.cons_append, List.append_assoc, List.nil_append]
  rw [e] at this
  rw [this]
  simp only [txtOut, String.reduceToList, List.cons_append, List.append_assoc, List.nil_append, List.append_nil]

/-- instances: through the theorem … -/
example : convertX { defList := true } {} "term 1\nterm 2\n:   def 1\n:   def 2".toList =
    .ok "<dl>\n<dt>term 1</dt>\n<dt>term 2</dt>\n<dd>def 1</dd>\n<dd>def 2</dd>\n</dl>".toList :=
  C16_deflist_renders {} rfl (by decide) "term 1".toList ["term 2".toList] "def 1".toList ["def 2".toList]
    (by decide) (by decide)

/-- … and by evaluation of the model -/
example : convertX { defList := true } {} "term\n:   definition".toList =
    .ok "<dl>\n<dt>term</dt>\n<dd>definition</dd>\n</dl>".toList := by decide +kernel

/-- without the extension: a paragraph -/
example : convertX {} {} "term\n:   definition".toList = .ok "<p>term\n:   definition</p>".toList := by
  decide +kernel

/-! ### abbr -/

/-- a word: non-empty, ASCII letters and digits only -/
def IsWord (w : Str) : Prop := w ≠ [] ∧ ∀ c ∈ w, isAsciiAlnum c = true

instance (w : Str) : Decidable (IsWord w) := by unfold IsWord; infer_instance

/-- the source: `*[KEY]: Title`, an empty line, and a paragraph of words separated by single spaces -/
example : abbrSrc "HTML".toList "Hyper Text".toList ["The".toList, "HTML".toList, "spec".toList] =
    "*[HTML]: Hyper Text\n\nThe HTML spec".toList := by decide

/-- the rendering prescribed for the paragraph: every word that IS the key is wrapped, every other word — also one
    that merely contains the key, like `HTML5` or `XHTML` — is left as it is -/
example : abbrWords "HTML".toList "[abbr]".toList ["The".toList, "HTML".toList, "HTML5".toList, "XHTML".toList, "HTML".toList] =
    "The [abbr] HTML5 XHTML [abbr]".toList := by decide
example : abbrHtml "HTML".toList "Hyper Text".toList = "<abbr title=\"Hyper Text\">HTML</abbr>".toList := by decide

/-- **abbr.**  After the definition `*[KEY]: Title`, a paragraph of words renders with `<abbr title="Title">KEY</abbr>`
    at every whole-word occurrence of the key and nowhere else (`abbrWords`): for every key word, every plain title
    other than the word `title` itself (see the counterexample below) and every non-empty list of words. -/
theorem C16_abbr_renders (cfg : Pipeline.Cfg) (hbl : cfg.blockLevel = TreeProc.defaultBlockLevel)
    (htab : 0 < cfg.tab) (key title : Str) (ws : List Str) (hk : IsWord key) (ht : PlainLine title)
    (hT : title ≠ "title".toList) (hne : ws ≠ []) (hws : ∀ w ∈ ws, IsWord w) :
    convertX { abbr := true } cfg (abbrSrc key title ws) =
      .ok ("<p>".toList ++ abbrWords key (abbrHtml key title) ws ++ "</p>".toList) :=
  convertX_abbr cfg hbl htab key title ws ⟨hk.1, hk.2⟩ (plainLine_facts ht) (fun e => hT e.symm) hne
    (fun w hw => ⟨(hws w hw).1, (hws w hw).2⟩)

example : IsWord "HTML".toList ∧ IsWord "W3C".toList ∧ ¬ IsWord "a b".toList ∧ ¬ IsWord "".toList := by decide

/-- an instance through the theorem … -/
example : convertX { abbr := true } {} "*[HTML]: Hyper Text\n\nThe HTML spec HTML5 and XHTML by HTML".toList =
    .ok ("<p>The <abbr title=\"Hyper Text\">HTML</abbr> spec HTML5 and XHTML by " ++
      "<abbr title=\"Hyper Text\">HTML</abbr></p>").toList :=
  C16_abbr_renders {} rfl (by decide) "HTML".toList "Hyper Text".toList
    ["The".toList, "HTML".toList, "spec".toList, "HTML5".toList, "and".toList, "XHTML".toList, "by".toList, "HTML".toList]
    (by decide) (by decide) (by decide) (by decide) (by decide)

/-- … and by evaluation of the model -/
example : convertX { abbr := true } {} "*[HTML]: Hyper Text\n\nThe HTML spec".toList =
    .ok "<p>The <abbr title=\"Hyper Text\">HTML</abbr> spec</p>".toList := by decide +kernel

/-- the excluded title: in the `html` output format the serializer minimises an attribute whose value equals its
    name, so the title `title` is written as the bare attribute `title` (whose value, for an HTML reader, is empty);
    the `xhtml` format keeps it -/
example : convertX { abbr := true } { fmt := .html } "*[HTML]: title\n\nThe HTML spec".toList =
    .ok "<p>The <abbr title>HTML</abbr> spec</p>".toList := by decide +kernel
example : convertX { abbr := true } {} "*[HTML]: title\n\nThe HTML spec".toList =
    .ok "<p>The <abbr title=\"title\">HTML</abbr> spec</p>".toList := by decide +kernel

/-! ### footnotes -/

/-- the source: the paragraph text with the reference `[^id]` at its end, an empty line, the definition
    `[^id]: note` -/
example : fnSrc "text".toList "1".toList "note".toList = "text[^1]\n\n[^1]: note".toList := by decide
example : fnSrc "See the spec".toList "w3c".toList "World Wide Web".toList =
    "See the spec[^w3c]\n\n[^w3c]: World Wide Web".toList := by decide

/-- the documented structure (`fnRaw fmt t id note "&#160;" "&#8617;"`): the paragraph with the `sup` / `a.footnote-ref`
    reference numbered 1, then `div.footnote` with `hr`, `ol`, `li#fn:id`, the note, a no-break space and the back-link -/
example : fnRaw .xhtml "text".toList "1".toList "note".toList "&#160;".toList "&#8617;".toList =
    ("<p>text<sup id=\"fnref:1\"><a class=\"footnote-ref\" href=\"#fn:1\">1</a></sup></p>\n" ++
     "<div class=\"footnote\">\n<hr />\n<ol>\n<li id=\"fn:1\">\n" ++
     "<p>note&#160;<a class=\"footnote-backref\" href=\"#fnref:1\" " ++
     "title=\"Jump back to footnote 1 in the text\">&#8617;</a></p>\n</li>\n</ol>\n</div>").toList := by
  decide +kernel
example : hrTag .xhtml = "<hr />".toList ∧ hrTag .html = "<hr>".toList := ⟨rfl, rfl⟩

/-- **footnotes.**  A paragraph of plain text that ends with a reference `[^id]`, followed by the definition
    `[^id]: note`, converts to the documented structure: the reference becomes
    `<sup id="fnref:id"><a class="footnote-ref" href="#fn:id">1</a></sup>`, and the document ends with
    `<div class="footnote">`, a rule, and an ordered list whose item `li#fn:id` holds the note, a no-break space and
    the back-link to `#fnref:id` — for every plain text, every label that is a word, every plain note; both formats. -/
theorem C16_footnote_renders (cfg : Pipeline.Cfg) (hbl : cfg.blockLevel = TreeProc.defaultBlockLevel)
    (htab : 0 < cfg.tab) (t id note : Str) (ht : PlainLine t) (hid : IsWord id) (hn : PlainLine note) :
    convertX { footnotes := true } cfg (fnSrc t id note) =
      .ok (fnRaw cfg.fmt t id note "&#160;".toList "&#8617;".toList) :=
  convertX_fn cfg hbl htab t id note (plainLine_facts ht) ⟨hid.1, hid.2⟩ (plainLine_facts hn)

/-- **footnotes, the instance of the documentation**: `text[^1]` + `[^1]: note`, xhtml, spelled out. -/
theorem C16_footnote_one (t note : Str) (ht : PlainLine t) (hn : PlainLine note) :
    convertX { footnotes := true } {} (t ++ "[^1]\n\n[^1]: ".toList ++ note) =
      .ok ("<p>".toList ++ t ++
        ("<sup id=\"fnref:1\"><a class=\"footnote-ref\" href=\"#fn:1\">1</a></sup></p>\n" ++
         "<div class=\"footnote\">\n<hr />\n<ol>\n<li id=\"fn:1\">\n<p>").toList ++ note ++
        ("&#160;<a class=\"footnote-backref\" href=\"#fnref:1\" title=\"Jump back to footnote 1 in the text\">" ++
         "&#8617;</a></p>\n</li>\n</ol>\n</div>").toList) := by
  have h := C16_footnote_renders {} rfl (by decide) t "1".toList note ht (by decide) hn
  have e : fnSrc t "1".toList note = t ++ "[^1]\n\n[^1]: ".toList ++ note := by
    unfold fnSrc DocParse.joinChunks fnLine1 fnLine2 fnRefSrc
    simp only [String.reduceToList, List.cons_append, List.append_assoc, List.nil_append, DocParse.joinChunks]
  rw [e] at h
  rw [h]
  unfold fnRaw fnA fnB fnC supHtml
  simp only [hrTag, String.reduceAppend, String.reduceToList, List.cons_append, List.append_assoc, List.nil_append]

/-- an instance through the theorem … -/
example : convertX { footnotes := true } { fmt := .html } "See the spec[^w3c]\n\n[^w3c]: World Wide Web".toList =
    .ok (fnRaw .html "See the spec".toList "w3c".toList "World Wide Web".toList "&#160;".toList "&#8617;".toList) :=
  C16_footnote_renders { fmt := .html } rfl (by decide) "See the spec".toList "w3c".toList "World Wide Web".toList
    (by decide) (by decide) (by decide)

/-- … and by evaluation of the model -/
example : convertX { footnotes := true } {} "text[^1]\n\n[^1]: note".toList =
    .ok (fnRaw .xhtml "text".toList "1".toList "note".toList "&#160;".toList "&#8617;".toList) := by decide +kernel

/-- without the extension `[^1]: note` is a link reference definition and `[^1]` a reference link -/
example : convertX {} {} "text[^1]\n\n[^1]: note".toList = .ok "<p>text<a href=\"note\">^1</a></p>".toList := by
  decide +kernel

/-! ### combinations: the same renderings with other extensions enabled as well -/

/-- the extensions outside the scope of this file (fenced_code, tables, attr_list, toc: `Props/C16Render*.lean`,
    `C16AttrList`, `C17`) are off -/
def OthersOff (x : Exts) : Prop := x.fencedCode = false ∧ x.tables = false ∧ x.attrList = false ∧ x.toc = false

instance (x : Exts) : Decidable (OthersOff x) := by unfold OthersOff; infer_instance

/-- **nl2br composes.**  The rendering of `C16_nl2br_renders` is the same with ANY combination of admonition,
    def_list, abbr, footnotes, sane_lists and wikilinks enabled together with nl2br. -/
theorem C16_nl2br_composes (x : Exts) (hx : x.nl2br = true) (ho : OthersOff x) (cfg : Pipeline.Cfg)
    (hbl : cfg.blockLevel = TreeProc.defaultBlockLevel) (htab : 0 < cfg.tab) (l0 : Str) (r : List Str)
    (h : ∀ l ∈ l0 :: r, PlainLine l) :
    convertX x cfg (joinLines (l0 :: r)) = .ok ("<p>".toList ++ l0 ++ brOut cfg.fmt r ++ "</p>".toList) :=
  convertX_nl2br_with x hx ho.1 ho.2.1 ho.2.2.1 ho.2.2.2 cfg hbl htab l0 r (fun l hl => plainLine_facts (h l hl))

/-- **admonition composes.**  The rendering of `C16_admonition_renders` is the same with ANY combination of def_list,
    abbr, footnotes, sane_lists and wikilinks enabled together with admonition (nl2br off: it would turn the line
    feeds of the body into `br`s). -/
theorem C16_admonition_composes (x : Exts) (hx : x.admonition = true) (hnl : x.nl2br = false) (ho : OthersOff x)
    (cfg : Pipeline.Cfg) (hbl : cfg.blockLevel = TreeProc.defaultBlockLevel) (htab : 0 < cfg.tab)
    (kl title b0 : Str) (br : List Str) (hk : LowerLine kl) (ht : PlainLine title) (hb : ∀ l ∈ b0 :: br, PlainLine l) :
    convertX x cfg (admSrc cfg.tab kl (some title) (b0 :: br)) =
      .ok ("<div class=\"admonition ".toList ++ kl ++ "\">\n".toList ++
        ("<p class=\"admonition-title\">".toList ++ title ++ "</p>\n".toList) ++
        "<p>".toList ++ joinLines (b0 :: br) ++ "</p>\n</div>".toList) := by
  have hkf := lowerLine_facts hk
  have htf := plainLine_facts ht
  obtain ⟨a, t, rfl⟩ : ∃ a t, title = a :: t := by
    cases title with
    | nil => exact absurd rfl htf.ne
    | cons a t => exact ⟨a, t, rfl⟩
  have := convertX_adm_with x hx hnl ho.1 ho.2.1 ho.2.2.1 ho.2.2.2 cfg hbl htab kl (some (a :: t)) (some (a :: t)) b0 br
    hkf.toPlainFacts (fun y hy => by cases hy; exact htf.chars) (by simpa using htf.chars)
    (fun l hl => plainLine_facts (hb l hl)) (admClassTitle_lower kl hkf (some (a :: t)))
  rw [this, admOut_some]

/-- **def_list composes.**  The rendering of `C16_deflist_renders` is the same with ANY combination of admonition,
    abbr, footnotes, sane_lists and wikilinks enabled together with def_list (nl2br off). -/
theorem C16_deflist_composes (x : Exts) (hx : x.defList = true) (hnl : x.nl2br = false) (ho : OthersOff x)
    (cfg : Pipeline.Cfg) (hbl : cfg.blockLevel = TreeProc.defaultBlockLevel) (htab : 0 < cfg.tab)
    (t0 : Str) (tr : List Str) (d : Str) (ds : List Str)
    (ht : ∀ l ∈ t0 :: tr, PlainLine l) (hd : ∀ l ∈ d :: ds, PlainLine l) :
    convertX x cfg (defSrc (t0 :: tr) (d :: ds)) =
      .ok ("<dl>\n".toList ++ txtOut "dt" (t0 :: tr) ++ txtOut "dd" (d :: ds) ++ "</dl>".toList) :=
  convertX_def_with x hx hnl ho.1 ho.2.1 ho.2.2.1 ho.2.2.2 cfg hbl htab t0 tr d ds
    (fun l hl => plainLine_facts (ht l hl)) (fun l hl => plainLine_facts (hd l hl))

/-- the hypotheses are satisfiable: all seven extensions of this file at once -/
def allSeven : Exts :=
  { admonition := true, defList := true, abbr := true, footnotes := true, saneLists := true, nl2br := true,
    wikilinks := true }

example : OthersOff allSeven ∧ allSeven.nl2br = true := by decide

example : convertX allSeven {} "line one\nline two".toList = .ok "<p>line one<br />\nline two</p>".toList :=
  C16_nl2br_composes allSeven rfl (by decide) {} rfl (by decide) "line one".toList ["line two".toList] (by decide)

example : convertX { allSeven with nl2br := false } {} "term\n:   definition".toList =
    .ok "<dl>\n<dt>term</dt>\n<dd>definition</dd>\n</dl>".toList := by decide +kernel

/-- **abbr composes.**  The rendering of `C16_abbr_renders` is the same with ANY combination of admonition, def_list,
    footnotes, sane_lists, nl2br and wikilinks enabled together with abbr. -/
theorem C16_abbr_composes (x : Exts) (hx : x.abbr = true) (ho : OthersOff x) (cfg : Pipeline.Cfg)
    (hbl : cfg.blockLevel = TreeProc.defaultBlockLevel) (htab : 0 < cfg.tab) (key title : Str) (ws : List Str)
    (hk : IsWord key) (ht : PlainLine title) (hT : title ≠ "title".toList) (hne : ws ≠ []) (hws : ∀ w ∈ ws, IsWord w) :
    convertX x cfg (abbrSrc key title ws) =
      .ok ("<p>".toList ++ abbrWords key (abbrHtml key title) ws ++ "</p>".toList) :=
  convertX_abbr_with x hx ho.1 ho.2.1 ho.2.2.1 ho.2.2.2 cfg hbl htab key title ws ⟨hk.1, hk.2⟩ (plainLine_facts ht)
    (fun e => hT e.symm) hne (fun w hw => ⟨(hws w hw).1, (hws w hw).2⟩)

/-- **footnotes compose.**  The rendering of `C16_footnote_renders` is the same with ANY combination of admonition,
    def_list, abbr and sane_lists enabled together with footnotes (nl2br and wikilinks off: they change the pattern
    table of the inline stage, which this proof follows entry by entry). -/
theorem C16_footnote_composes (x : Exts) (hx : x.footnotes = true) (hnl : x.nl2br = false) (hwl : x.wikilinks = false)
    (ho : OthersOff x) (cfg : Pipeline.Cfg) (hbl : cfg.blockLevel = TreeProc.defaultBlockLevel) (htab : 0 < cfg.tab)
    (t id note : Str) (ht : PlainLine t) (hid : IsWord id) (hn : PlainLine note) :
    convertX x cfg (fnSrc t id note) = .ok (fnRaw cfg.fmt t id note "&#160;".toList "&#8617;".toList) :=
  convertX_fn_with x hx hnl hwl ho.1 ho.2.1 ho.2.2.1 ho.2.2.2 cfg hbl htab t id note (plainLine_facts ht) ⟨hid.1, hid.2⟩
    (plainLine_facts hn)

example : convertX allSeven {} "*[HTML]: Hyper Text\n\nThe HTML spec".toList =
    .ok "<p>The <abbr title=\"Hyper Text\">HTML</abbr> spec</p>".toList :=
  C16_abbr_composes allSeven rfl (by decide) {} rfl (by decide) "HTML".toList "Hyper Text".toList
    ["The".toList, "HTML".toList, "spec".toList] (by decide) (by decide) (by decide) (by decide) (by decide)

end MdVerif.RenderX
