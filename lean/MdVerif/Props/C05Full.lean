/-
C05 — "Text cannot inject markup: output of HTML-free input is well-formed" — for EVERY `<`-free source.

C05: "When the input contains no `<` character, the output is a well-formed XHTML fragment built only from Markdown's
element vocabulary (p, h1-h6, ul, ol, li, blockquote, pre, code, hr, br, em, strong, a, img) with only href, title,
src and alt attributes: every element is closed and properly nested, every attribute value is quoted, every `>` and
bare `&` coming from the text is escaped, and so is every `"` inside an attribute value.  In particular a link
destination, title or image alt text can never end its attribute or start a tag."

`Props/C05Amp.lean` proves this (`C05_partial2`) under one residual hypothesis `hamp`: the serialised document tree
does not contain the ampersand substitute `STX amp ETX` (which `AndSubstitutePostprocessor` would turn into a raw
`&`).  Here the hypothesis is **proved for every source** and removed.

Why it is not immediate: STX characters do reach the serialisation of `<`-free text — as the placeholders of the
entity references (restored afterwards), but also through the placeholder leaks F-C10-1 (a stashed element named
inside a link destination / alt text) and F-C10-2 (a quote in a link destination cuts a placeholder in two, see
`fullLeak` below) — so "no STX in the tree" is false.  The invariant that does hold, through the inline patterns,
`handleInline`, `processPlaceholders`, the tree walk of `InlineProcessor.run`, `PrettifyTreeprocessor`:

  **every STX in a text, a tail or a stashed string is followed by `k` (inline placeholder), by `w` (raw-HTML
  placeholder) or by a non-zero digit and a second digit (escape token)** (`C05_inline_stx_invariant`; `SOk`);

in an attribute value the same holds up to truncation, because `getLink` may cut the data anywhere (`SOkA`).  Every
pattern cuts the data in front of a delimiter of Markdown's syntax, never directly behind an STX; and
`UnescapeTreeprocessor` writes no STX because every escapable character has a code of at least two digits
(`EscTwo`, true of `ESCAPED_CHARS`).  Hence no STX is followed by `a` in the tree handed to the serializer
(`C05_tree_no_stx_a`), and none in the serialisation (`C05_no_amp_substitute`).

1. `C05_inline_stx_invariant`, `C05_tree_no_stx_a`, `C05_no_amp_substitute` — the invariant and the former hypothesis.
2. **`C05_full`** — the property for all `<`-free sources; `C05_full_default` for the default configuration.
3. `C05_full_total` — the same with the (few) non-`ok` answers of the model spelt out.

Only property statements live here; proofs in `MdVerif/Lemmas/AmpFull{Str,Pat,Run,Tree}.lean`.  Core Lean only.
-/
import MdVerif.Lemmas.AmpFullTree
import MdVerif.Props.C05Amp

namespace MdVerif.C05
open Py Vocab2 Ser AmpFull

/-! ### 1. the invariant -/

/-- **The STX invariant of the inline stage.**  If every STX of the tree handed to `InlineProcessor.run` is followed
    by `k`, `w` or a two-digit number (`NodeS`; the block parser's tree has no STX at all), the same holds for the
    tree it returns — whatever the patterns stash, cut and splice, the placeholder leaks included.  `EscTwo`: the
    codes of the escapable characters have at least two digits; `RefsS`: the reference definitions are in shape. -/
theorem C05_inline_stx_invariant {cfg : Inline.Cfg} (hesc : EscTwo cfg.esc) (hrefs : RefsS cfg) {root t : Node}
    {html : List Str} {st : Inline.St} (h : Inline.run cfg root html = some (t, st)) (hd : root.Forall NodeS) :
    t.Forall NodeS := run_S hesc hrefs h hd

/-- **No STX is followed by `a`** in any text, tail or attribute value of the tree that `Markdown.convert` hands to
    the serializer — for every source and every configuration whose escapable characters have two-digit codes. -/
theorem C05_tree_no_stx_a (cfg : Pipeline.Cfg) (hesc : EscTwo cfg.esc) (src : Str) (u : Node) (html : List Str)
    (h : Pipeline.tree cfg src = some (some (u, html))) : u.Forall NodeQ := tree_Q hesc h

/-- **The former hypothesis `hamp` of `C05_partial2`, proved**: the serialisation of the document tree never
    contains the ampersand substitute `STX amp ETX`. -/
theorem C05_no_amp_substitute (cfg : Pipeline.Cfg) (hesc : EscTwo cfg.esc) (src : Str) (u : Node) (html : List Str)
    (h : Pipeline.tree cfg src = some (some (u, html))) :
    contains (inner cfg.fmt u) Post.ampSubstitute = false := tree_no_amp hesc h

/-- `EscTwo` holds for `ESCAPED_CHARS` (the smallest code is 33, `!`) -/
theorem C05_escTwo_default : EscTwo ({} : Pipeline.Cfg).esc := escTwo_default

/-- the predicates are not trivially true: a dangling STX, STX before `a`, a one-digit token -/
example : SOk "x\x02klzzwxh:0000\x03 \x0242\x03 \x02wzxhzdk:1\x03".toList = true ∧ SOk "\x02amp\x03".toList = false ∧
    SOk "ab\x02".toList = false ∧ SOk "\x027\x03".toList = false ∧ SOkA "ab\x02".toList = true ∧
    SOkA "\"\x02klzzwxh:0000".toList = true ∧ SOkA "\x02amp\x03".toList = false ∧ SQ "\x02amp\x03".toList = false ∧
    SQ "\x02\x02b".toList = true := by decide

/-! ### 2. the property -/

/-- **C05, for every `<`-free source.**  For every configuration whose escapable characters have codes of at least
    two digits (tab length, output format and block-level set are arbitrary) and every source text without `<` —
    with or without `&`, entity references, bare ampersands, quotes, brackets, backslashes, control characters, the
    constructions that make placeholders leak: whatever `Markdown.convert` returns is accepted by the strict reader —
    every element closed and properly nested, every attribute value quoted, no raw `<`/`>` in text, no raw `"` in an
    attribute value, every `&` the start of an entity reference — and consists of text and elements of Markdown's
    vocabulary with `href`/`title`/`src`/`alt` attributes only (`RGoodList`). -/
theorem C05_full (cfg : Pipeline.Cfg) (hesc : EscTwo cfg.esc) (src out : Str) (hlt : '<' ∉ src)
    (hc : Pipeline.convert cfg src = .ok out) :
    ∃ forest, readForest cfg.fmt out = some forest ∧ RGoodList forest = true :=
  C05_partial2 cfg src out hlt (fun _ _ h => tree_no_amp hesc h) hc

/-- the default configuration, both output formats -/
theorem C05_full_default (fmt : Fmt) (src out : Str) (hlt : '<' ∉ src)
    (hc : Pipeline.convert { fmt := fmt } src = .ok out) :
    ∃ forest, readForest fmt out = some forest ∧ RGoodList forest = true :=
  C05_full { fmt := fmt } escTwo_default src out hlt hc

/-- **C05 with the other answers of the model spelt out**: on a `<`-free source the model never answers `ood`, and
    the stages after the tree processors never fail (no `ValueError` of the top-level strip, no runaway
    `RawHtmlPostprocessor`): the answer is `ok out` with `out` as in `C05_full`; or `oof` with an exhausted fuel bound
    of the block or inline model (excluded by the C02 theorems); or `err` because `UnescapeTreeprocessor` raised —
    `chr()` of an escape token whose number exceeds 0x10FFFF — which is the only raise left for such a source. -/
theorem C05_full_total (cfg : Pipeline.Cfg) (hesc : EscTwo cfg.esc) (src : Str) (hlt : '<' ∉ src) :
    (Pipeline.convert cfg src = .oof ∧ Pipeline.tree cfg src = none) ∨
    (Pipeline.convert cfg src = .err ∧ Pipeline.tree cfg src = some none) ∨
      ∃ out forest, Pipeline.convert cfg src = .ok out ∧ readForest cfg.fmt out = some forest ∧
        RGoodList forest = true := by
  have hlt' : src.contains '<' = false := by simpa using hlt
  unfold Pipeline.convert
  simp only [hlt', Bool.false_eq_true, ↓reduceIte]
  split
  · exact Or.inr (Or.inr ⟨[], [], rfl, readForest_nil _, rfl⟩)
  · split
    · rename_i ht; exact Or.inl ⟨rfl, ht⟩
    · rename_i ht; exact Or.inr (Or.inl ⟨rfl, ht⟩)
    · rename_i u html ht
      obtain ⟨out, forest, h1, h2, h3⟩ :=
        finish_reads cfg.blockLevel (tree_ent cfg src u html ht) cfg.fmt u (tree_docOk cfg src u html ht)
          (tree_no_amp hesc ht)
      rw [h1]
      exact Or.inr (Or.inr ⟨out, forest, rfl, h2, h3⟩)

/-! ### non-vacuity -/

/-- F-C10-2: a quote in a link destination cuts a placeholder in two; the STX stays in the `href` -/
def fullLeak : Str := "[](\"\\((".toList

/-- F-C10-1, entity references, a bare ampersand, an escaped ampersand, a destination with `&`, a title with an
    entity, escaped emphasis, the letters `amp`, `>` and quotes in text -/
def fullSrc : Str := "[a]([`x`][foo]) &amp; \\& [b](u&v \"t&quot;\") *\\** amp > \"q\"\n\n[foo]: /f".toList

example : '<' ∉ fullLeak ∧ '<' ∉ fullSrc := by decide

/-- what the model (and the implementation) returns for them: the leaked STX sits in an attribute value, followed by
    `k`; both outputs are covered by `C05_full` -/
example : Pipeline.convert {} fullLeak = .ok "<p><a href=\"&quot;\x02klzzwxh:0000\"></a>(</p>".toList ∧
    Pipeline.convert {} fullSrc = .ok
      ("<p><a href=\"\x02klzzwxh:0000\x03\">a</a> &amp; \\&amp; <a href=\"u&amp;v\" title=\"t&quot;\">b</a> " ++
       "<em>*</em> amp &gt; \"q\"</p>").toList := by decide +kernel

/-- … and the reader accepts them -/
example : (readForest .xhtml "<p><a href=\"&quot;\x02klzzwxh:0000\"></a>(</p>".toList).isSome = true := by
  decide +kernel

/-- the conclusion is not trivially true: the reader rejects a raw `&`, an unquoted attribute, a raw `"` ending an
    attribute early, an unclosed element; and `RGoodList` rejects other elements and attributes -/
example : (readForest .xhtml "a & b".toList).isNone = true ∧
    (readForest .xhtml "<a href=x>t</a>".toList).isNone = true ∧
    (readForest .xhtml "<a href=\"x\" onclick=\"y\"\">t</a>".toList).isNone = true ∧
    (readForest .xhtml "<p><em>t</p>".toList).isNone = true ∧
    ((readForest .xhtml "<script>t</script>".toList).map RGoodList) ≠ some true ∧
    ((readForest .xhtml "<a onclick=\"y\">t</a>".toList).map RGoodList) = some false := by decide +kernel

end MdVerif.C05
