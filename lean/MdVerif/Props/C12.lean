/-
C12 — Markdown instances that are each confined to one thread produce, when the threads run concurrently, exactly
the results they produce when run one after another.

Only property statements live here.  The model is `MdVerif/Model/Threads.lean`, helper lemmas are in
`MdVerif/Lemmas/Threads.lean`.  Core Lean only.

What is proved.  `N` threads, each a deterministic state machine over a *private* store; the only state they have
in common is `Shared`: read-only cells, and write-once memo cells that are only ever filled with `f k` for one fixed
pure function `f`.  A schedule is an arbitrary list of thread indices — so the quantifier "all interleavings" is
`∀ s : List Nat`.

* `C12_thread_is_local`: under *every* schedule a thread is, after its `n`-th step, exactly where it is after
  `n` steps on its own (`localRun`: reads of `ro`, computing `f k` itself, never looking at the memo);
* `C12_schedule_independent`: two schedules in which every thread takes the same number of steps leave every thread
  with the same private store and the same emitted outputs; `ro` is unchanged; memo cells hold `none` or `some (f k)`;
* `C12_steps_commute`, `C12_schedule_independent_system`: steps of different threads commute, hence the *whole*
  system state (shared memo included) is the same after two such schedules;
* `C12_interleaving_eq_sequential`: in particular an interleaving versus "all of thread 0, then all of thread 1, …";
* `C12_complete_schedules_agree`, `C12_concurrent_eq_sequential`: schedules that run every thread to `done` (whatever
  the number of steps they spend) agree, and agree with each thread run alone from the initial shared state;
* `C12_two_step_refines_atomic`, `C12_two_step_complete`: the non-atomic memo protocol (read; when `none` compute and
  store) refines the atomic `getMemo` for everything a thread observes;
* the negative example: with one shared cell that may be overwritten with arbitrary values two schedules of the same
  two threads give different outputs.  So "shared state is read-only or memo" is the hypothesis that carries the theorem.

What is *not* proved here: that the real code has no other shared mutable state (census in the Python harness), and
anything about the CPython runtime.
-/
import MdVerif.Model.Threads
import MdVerif.Lemmas.Threads

namespace MdVerif.Threads

section Atomic
variable {K V Out σ : Type} [DecidableEq K]
variable (prog : σ → Action K V Out σ) (f : K → V)

/-- **Confinement.**  Whatever the other threads do and however the steps are interleaved, thread `i` is after the
    schedule `s` where it is after `s.count i` steps on its own. -/
theorem C12_thread_is_local (sys : Sys K V σ Out) (hv : MemoValid f sys.shared) (s : List Nat) (i : Nat) :
    (run prog f s sys).threads[i]? = (sys.threads[i]?).map (localRun prog f sys.shared.ro (s.count i)) :=
  (run_spec prog f s sys hv).2.2 i

/-- **Invariant.**  The read-only cells never change and a memo cell `k` never holds anything but `none` or
    `some (f k)`. -/
theorem C12_shared_invariant (sys : Sys K V σ Out) (hv : MemoValid f sys.shared) (s : List Nat) :
    (run prog f s sys).shared.ro = sys.shared.ro ∧ MemoValid f (run prog f s sys).shared :=
  ⟨(run_spec prog f s sys hv).1, (run_spec prog f s sys hv).2.1⟩

/-- **C12, schedule independence.**  If every thread takes the same number of steps in `s1` and in `s2`, then after
    `s1` and after `s2` every thread has the same private store and the same output trace (`threads` is the list of
    `(store, trace)` of all threads); the read-only cells are what they were; the memo stays valid. -/
theorem C12_schedule_independent (sys : Sys K V σ Out) (hv : MemoValid f sys.shared) (s1 s2 : List Nat)
    (h : ∀ i, i < sys.threads.length → s1.count i = s2.count i) :
    (run prog f s1 sys).threads = (run prog f s2 sys).threads ∧
    (run prog f s1 sys).shared.ro = sys.shared.ro ∧ (run prog f s2 sys).shared.ro = sys.shared.ro ∧
    MemoValid f (run prog f s1 sys).shared ∧ MemoValid f (run prog f s2 sys).shared := by
  refine ⟨?_, (run_spec prog f s1 sys hv).1, (run_spec prog f s2 sys hv).1,
    (run_spec prog f s1 sys hv).2.1, (run_spec prog f s2 sys hv).2.1⟩
  apply List.ext_getElem?
  intro i
  rw [C12_thread_is_local prog f sys hv s1 i, C12_thread_is_local prog f sys hv s2 i]
  rcases Nat.lt_or_ge i sys.threads.length with hi | hi
  · rw [h i hi]
  · rw [List.getElem?_eq_none hi]; rfl

/-- **The diamond.**  Steps of two different threads commute: taken in either order they lead to the same system.
    (This is the local reason for everything above; the memo is what makes it non-trivial — when both threads ask
    for the same empty cell, either of them fills it, with the same value.) -/
theorem C12_steps_commute (sys : Sys K V σ Out) (hv : MemoValid f sys.shared) (i j : Nat) (hij : i ≠ j) :
    stepSys prog f i (stepSys prog f j sys) = stepSys prog f j (stepSys prog f i sys) :=
  stepSys_comm prog f sys hv i j hij

/-- **C12, the whole system.**  Under the hypothesis of `C12_schedule_independent` not only the threads but the
    complete system states are equal — the shared state included (the same memo cells are filled).  So nothing
    that happens *later* can tell the two schedules apart either. -/
theorem C12_schedule_independent_system (sys : Sys K V σ Out) (hv : MemoValid f sys.shared) (s1 s2 : List Nat)
    (h : ∀ i, i < sys.threads.length → s1.count i = s2.count i) :
    run prog f s1 sys = run prog f s2 sys := by
  rw [run_filter prog f s1, run_filter prog f s2]
  exact run_perm prog f (filter_perm_of_counts _ s1 s2 h) sys hv

/-- the same for the traces alone -/
theorem C12_traces_schedule_independent (sys : Sys K V σ Out) (hv : MemoValid f sys.shared) (s1 s2 : List Nat)
    (h : ∀ i, i < sys.threads.length → s1.count i = s2.count i) (i : Nat) :
    trace (run prog f s1 sys) i = trace (run prog f s2 sys) i := by
  unfold trace; rw [(C12_schedule_independent prog f sys hv s1 s2 h).1]

/-- **Interleaved = sequential.**  Any interleaving `s` gives what the sequential schedule with the same step counts
    gives: all steps of thread 0, then all steps of thread 1, and so on. -/
theorem C12_interleaving_eq_sequential (sys : Sys K V σ Out) (hv : MemoValid f sys.shared) (s : List Nat) :
    (run prog f s sys).threads = (run prog f (sequentialOf s sys.threads.length) sys).threads :=
  (C12_schedule_independent prog f sys hv s _ (fun i hi => by rw [count_sequentialOf, if_pos hi])).1

/-- **Complete schedules agree.**  Two schedules that both run every thread to `done` — they need not spend the same
    number of steps — leave every thread with the same store and the same outputs. -/
theorem C12_complete_schedules_agree (sys : Sys K V σ Out) (hv : MemoValid f sys.shared) (s1 s2 : List Nat)
    (h1 : allDone prog (run prog f s1 sys) = true) (h2 : allDone prog (run prog f s2 sys) = true) :
    (run prog f s1 sys).threads = (run prog f s2 sys).threads := by
  apply List.ext_getElem?
  intro i
  have e1 := C12_thread_is_local prog f sys hv s1 i
  have e2 := C12_thread_is_local prog f sys hv s2 i
  cases h0 : sys.threads[i]? with
  | none => rw [e1, e2, h0]; rfl
  | some t0 =>
    rw [h0] at e1 e2
    simp only [allDone, List.all_eq_true] at h1 h2
    have d1 := h1 _ (List.mem_of_getElem? e1)
    have d2 := h2 _ (List.mem_of_getElem? e2)
    rw [e1, e2]
    exact congrArg some (localRun_done_unique prog f _ _ _ t0 d1 d2)

/-- **C12, concurrent = alone.**  Under every schedule that runs every thread to `done`, thread `i` ends with the
    store and the outputs it ends with when it is the only thread that runs (`m` steps, enough to finish), starting
    from the initial shared state. -/
theorem C12_concurrent_eq_sequential (sys : Sys K V σ Out) (hv : MemoValid f sys.shared) (s : List Nat)
    (hs : allDone prog (run prog f s sys) = true) (i m : Nat)
    (hm : ∀ t, (run prog f (List.replicate m i) sys).threads[i]? = some t → isDone prog t = true) :
    (run prog f s sys).threads[i]? = (run prog f (List.replicate m i) sys).threads[i]? ∧
    trace (run prog f s sys) i = trace (run prog f (List.replicate m i) sys) i := by
  have key : (run prog f s sys).threads[i]? = (run prog f (List.replicate m i) sys).threads[i]? := by
    have e1 := C12_thread_is_local prog f sys hv s i
    have e2 := C12_thread_is_local prog f sys hv (List.replicate m i) i
    cases h0 : sys.threads[i]? with
    | none => rw [e1, e2, h0]; rfl
    | some t0 =>
      rw [h0] at e1 e2
      simp only [allDone, List.all_eq_true] at hs
      have d1 := hs _ (List.mem_of_getElem? e1)
      have d2 := hm _ e2
      rw [e1, e2]
      exact congrArg some (localRun_done_unique prog f _ _ _ t0 d1 d2)
  exact ⟨key, by unfold trace; rw [key]⟩

end Atomic

/-! ### the two-step memo protocol refines the atomic one -/

section TwoStep
variable {K V Out σ : Type} [DecidableEq K]
variable (prog : σ → Action K V Out σ) (f : K → V)

/-- **Refinement.**  Run the two-step implementation `twoStep prog f` (`readMemo`; on `none` compute `f k`, then
    `writeMemo`) under any schedule: every thread stands at every moment for the atomic thread after some number
    `n` of its own steps — same private store (up to the pending write), same outputs.  Two threads may both find
    the cell empty and both store `f k`; nobody can tell. -/
theorem C12_two_step_refines_atomic (sys : Sys K V σ Out) (hv : MemoValid f sys.shared) (s : List Nat) (i : Nat) :
    ∃ n, n ≤ s.count i ∧
      ((run2 (twoStep prog f) f s (embed sys)).threads[i]?).map absThread =
        (sys.threads[i]?).map (localRun prog f sys.shared.ro n) := by
  obtain ⟨n, hn, he⟩ := (run2_spec prog f s (embed sys) hv).2.2 i
  refine ⟨n, hn, ?_⟩
  rw [he]
  simp only [embed, List.getElem?_map, Option.map_map]
  rfl

/-- the shared state of the two-step system: `ro` unchanged, memo valid -/
theorem C12_two_step_invariant (sys : Sys K V σ Out) (hv : MemoValid f sys.shared) (s : List Nat) :
    (run2 (twoStep prog f) f s (embed sys)).shared.ro = sys.shared.ro ∧
    MemoValid f (run2 (twoStep prog f) f s (embed sys)).shared :=
  ⟨(run2_spec prog f s (embed sys) hv).1, (run2_spec prog f s (embed sys) hv).2.1⟩

/-- **Two-step, complete runs.**  If thread `i` has finished in the two-step system under the schedule `s2` and in the
    atomic system under the schedule `s1`, it has emitted the same outputs and ended in the same store. -/
theorem C12_two_step_complete (sys : Sys K V σ Out) (hv : MemoValid f sys.shared) (s1 s2 : List Nat) (i : Nat)
    (t1 : Thread σ Out) (t2 : Thread (St2 K σ) Out)
    (h1 : (run prog f s1 sys).threads[i]? = some t1) (d1 : isDone prog t1 = true)
    (h2 : (run2 (twoStep prog f) f s2 (embed sys)).threads[i]? = some t2)
    (d2 : isDone2 (twoStep prog f) t2 = true) :
    absThread t2 = t1 := by
  obtain ⟨n, _, he⟩ := C12_two_step_refines_atomic prog f sys hv s2 i
  have e1 := C12_thread_is_local prog f sys hv s1 i
  rw [h1] at e1; rw [h2] at he
  cases h0 : sys.threads[i]? with
  | none => rw [h0] at e1; cases e1
  | some t0 =>
    rw [h0] at e1 he
    have a1 : t1 = localRun prog f sys.shared.ro (s1.count i) t0 := Option.some.inj e1
    have a2 : absThread t2 = localRun prog f sys.shared.ro n t0 := Option.some.inj he
    have d2' := isDone2_twoStep prog f t2 d2
    rw [a2] at d2' ⊢; rw [a1] at d1 ⊢
    exact localRun_done_unique prog f _ _ _ t0 d2' d1

end TwoStep

/-! ### every hypothesis is satisfiable: a 2-thread system with a memo cell -/

namespace Examples
open Reg

/-- what the memoised function computes -/
def f (k : Nat) : Int := 7 * k + 3
/-- the read-only cells -/
def ro (k : Nat) : Int := 1000 + k

/-- thread 0: memo 2, emit, add 1, emit, read-only 5, emit.  thread 1: memo 2, emit, memo 4, add 10, emit. -/
def sys0 : Sys Nat Int St Int :=
  init [[.G 2, .E, .A 1, .E, .R 5, .E], [.G 2, .E, .G 4, .A 10, .E]] ro (fun _ => none)

/-- the same with the memo cell 2 already filled (by an earlier thread), validly -/
def sys1 : Sys Nat Int St Int :=
  init [[.G 2, .E, .A 1, .E, .R 5, .E], [.G 2, .E, .G 4, .A 10, .E]] ro (fun k => if k = 2 then some (f 2) else none)

/-- hypothesis `MemoValid`: the empty memo -/
example : MemoValid f sys0.shared := by intro k v h; cases h
/-- hypothesis `MemoValid`: a memo that holds a value -/
example : MemoValid f sys1.shared := by
  intro k v h
  simp only [sys1, init] at h
  split at h
  · subst_vars; exact (Option.some.inj h).symm
  · cases h

def interleaved : List Nat := [0, 1, 1, 0, 0, 1, 0, 1, 0, 1, 0]
def sequential : List Nat := [0, 0, 0, 0, 0, 0, 1, 1, 1, 1, 1]

/-- hypothesis "every thread takes the same number of steps" -/
example : ∀ i, i < sys0.threads.length → interleaved.count i = sequential.count i := by decide
example : sequentialOf interleaved 2 = sequential := by decide
/-- hypothesis "complete": both schedules run both threads to `done` -/
example : allDone prog (run prog f interleaved sys0) = true := by decide
example : allDone prog (run prog f sequential sys0) = true := by decide
/-- the traces, computed by the kernel: the same under both schedules, and from both initial memo states -/
example : traces (run prog f interleaved sys0) = [[17, 18, 1005], [17, 41]] := by decide
example : traces (run prog f sequential sys0) = [[17, 18, 1005], [17, 41]] := by decide
example : traces (run prog f interleaved sys1) = [[17, 18, 1005], [17, 41]] := by decide
/-- thread 1 alone: five steps finish it (hypothesis `hm` of `C12_concurrent_eq_sequential`), same trace -/
example : traces (run prog f (List.replicate 5 1) sys0) = [[], [17, 41]] := by decide
example : ∀ t, (run prog f (List.replicate 5 1) sys0).threads[1]? = some t → isDone prog t = true := by
  intro t h; cases h; decide
/-- the two-step protocol, with both threads finding the cell 2 empty before either fills it: same traces -/
example : (run2 (twoStep prog f) f [0, 1, 0, 1, 0, 1, 0, 1, 1, 0, 0, 1, 1, 0] (embed sys0)).threads.map (·.trace)
    = [[17, 18, 1005], [17, 41]] := by decide
/-- hypotheses of `C12_two_step_complete`: under that schedule both two-step threads have finished -/
example : (run2 (twoStep prog f) f [0, 1, 0, 1, 0, 1, 0, 1, 1, 0, 0, 1, 1, 0] (embed sys0)).threads.map
    (isDone2 (twoStep prog f)) = [true, true] := by decide
/-- … and both had found the cell 2 empty: after `[0, 1]` both are about to store into it -/
example : (run2 (twoStep prog f) f [0, 1] (embed sys0)).threads.map
    (fun t => match t.st with | .pending k _ => some k | .at _ => none) = [some 2, some 2] := by decide
/-- the memo after the run: cells 2 and 4 filled with `f`, nothing else -/
example : [0, 1, 2, 3, 4, 5].map (run prog f interleaved sys0).shared.memo
    = [none, none, some 17, none, some 31, none] := by decide

/-- why `MemoValid` is a hypothesis: a memo cell that holds something else than `f k` (a poisoned cache) is seen -/
example : traces (run prog f interleaved (init [[.G 2, .E]] ro (fun _ => some 0))) = [[0]] := by decide

end Examples

/-! ### the negative example: a shared cell writable with arbitrary values -/

namespace Negative

/-- thread 0 stores 1 into the shared cell; thread 1 reads the shared cell and emits what it has read -/
inductive St where
  | writer
  | reader
  | got (v : Nat)
  | fin
deriving DecidableEq

def prog : St → UAction Unit Nat Nat St
  | .writer => .write () 1 .fin
  | .reader => .read () (fun v => .got v)
  | .got v => .emit v .fin
  | .fin => .done

def sys0 : USys Unit Nat St Nat := ⟨[⟨.writer, []⟩, ⟨.reader, []⟩], fun _ => 0⟩

/-- Both schedules run both threads to the end, every thread takes the same number of steps in both — and thread 1
    emits `1` under the one and `0` under the other. -/
theorem C12_negative_writable_shared_cell :
    [0, 1, 1].count 0 = [1, 1, 0].count 0 ∧ [0, 1, 1].count 1 = [1, 1, 0].count 1 ∧
    (urun prog [0, 1, 1] sys0).threads.map (·.trace) = [[], [1]] ∧
    (urun prog [1, 1, 0] sys0).threads.map (·.trace) = [[], [0]] ∧
    (urun prog [0, 1, 1] sys0).threads.map (·.st) = [.fin, .fin] ∧
    (urun prog [1, 1, 0] sys0).threads.map (·.st) = [.fin, .fin] := by decide

example : (urun prog [0, 1, 1] sys0).threads.map (·.trace) ≠ (urun prog [1, 1, 0] sys0).threads.map (·.trace) := by
  decide

end Negative

end MdVerif.Threads
