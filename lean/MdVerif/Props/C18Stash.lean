/-
C18 — Extension API contracts, the AtomicString / htmlStash half (the dispatch half is `Props/C18.lean`).

Only property statements live here.  Models: `Model/Inline.lean` (`InlineProcessor.run`), `Model/TreeProc.lean`
(`PrettifyTreeprocessor`, `UnescapeTreeprocessor`), `Model/Serializer.lean`, `Model/Post.lean`
(`RawHtmlPostprocessor`, `AndSubstitutePostprocessor`, the end of `Markdown.convert`).  Vocabulary
(`htmlPlaceholder`, `render`, `probeText`, `probeTail`, `Emb`, `weave`): `Spec/Probe.lean`; helper lemmas:
`Lemmas/StashAtomic.lean`.

Shape.
* AtomicString (`C18_atomic_text_untouched`, `C18_atomic_text_everywhere`, `C18_atomic_probe_run`;
  `C18_atomic_output_text`, `C18_atomic_output_tail`): `InlineProcessor.run` changes no atomic string of ANY tree,
  and an atomic string put in a paragraph comes out of the whole remaining pipeline with only the serializer's
  escaping of `&`, `<`, `>` applied.
* end to end for the stash (`C18_stash_output_inline`, `C18_stash_output_block`).
* htmlStash (`C18_placeholder_survives_serializer`, `C18_stash_restore_pass`, `C18_stash_restore_block_pass`,
  `C18_stash_restore_inline`, `C18_stash_restore_block`, `C18_stash_restore_many`): the placeholder returned by
  `HtmlStash.store` contains nothing the serializer escapes and does not disturb the escaping of the text around
  it; `RawHtmlPostprocessor` puts `stash[i]` in its place verbatim — not escaped, nothing added, the text before and
  after untouched — and removes the `<p>`…`</p>` around a placeholder that is alone in its paragraph exactly when
  `stash[i]` is block-level.
* `&` substitute (`C18_amp_substitute`, `C18_amp_substitute_at`).

Boundaries that the proofs force, each kernel-checked below:
* an atomic TAIL (not a text) is still passed to `__processPlaceholders`; if it contains the inline-placeholder prefix
  `STX klzzwxh:` it is split and re-joined as a plain `str` (and a placeholder of a stashed element in it would be
  replaced).  `STX` cannot come from the document (`normalize_whitespace` removes it), so only an extension that
  writes placeholders into an atomic tail can see this.
* F-C18-3: `prettify` rebuilds the tail of a `<br>` as a plain `str`; the output string is not affected.
* the restore runs until nothing changes, so a stash entry that itself contains (or, together with the text after
  it, forms) a placeholder is expanded again: the "verbatim" statements need the restored text to be free of the
  placeholder prefix `STX wzxhzdk:`.
-/
import MdVerif.Spec.Probe
import MdVerif.Lemmas.StashAtomic

namespace MdVerif.C18Stash
open Py Probe StashAtomic

/-! ### 0. `InlineProcessor.run` and atomic strings -/

/-- **`InlineProcessor.run` leaves every `AtomicString` alone.**  For any tree, any reference definitions, any
    `ESCAPED_CHARS` and any HTML stash, when the run ends (the model's fuel is not exhausted), the input tree is
    still there inside the result (`Probe.Emb`): every element keeps its tag and attributes and its place among its
    siblings (new elements are only inserted between the old ones), every text that was an `AtomicString` is the same
    string, in text position, still an `AtomicString`, and so is every `AtomicString` tail that does not contain the
    inline-placeholder prefix `STX klzzwxh:`.  (What the model does with an atomic tail: `__handleInline` is skipped,
    `__processPlaceholders` looks for stashed placeholders in it — there are none — and assigns it back as an
    `AtomicString`.) -/
theorem C18_atomic_text_untouched (cfg : Inline.Cfg) (tree : Node) (html : List Str) (t : Node) (st : Inline.St)
    (h : Inline.run cfg tree html = some (t, st)) : Emb tree t :=
  run_emb cfg tree html t st h

/-- what `Emb` says, one level (the definition unfolded) -/
theorem C18_emb_unfold (a b : Node) : Emb a b ↔
    (b.tag = a.tag ∧ b.attrs = a.attrs ∧
    (a.textAtomic = true → b.text = a.text ∧ b.textAtomic = true) ∧
    (a.tailAtomic = true → contains (a.tail.getD []) Inline.phPrefix = false →
      b.tail = a.tail ∧ b.tailAtomic = true) ∧
    EmbList a.children b.children) ∧
    (∀ as bs, EmbList (a :: as) bs ↔ ∃ pre b' rest, bs = pre ++ b' :: rest ∧ Emb a b' ∧ EmbList as rest) :=
  ⟨fun h => ⟨(emb_iff a b).1 h, fun as bs => embList_cons_iff a as bs⟩, fun h => (emb_iff a b).2 h.1⟩

/-- **…at every depth.**  Every element `x` of the input tree has a counterpart `y` in the output tree with the same
    tag and attributes, the same text still atomic when the text of `x` was atomic, and the same tail still atomic
    when the tail of `x` was atomic and free of the placeholder prefix. -/
theorem C18_atomic_text_everywhere (cfg : Inline.Cfg) (tree : Node) (html : List Str) (t : Node) (st : Inline.St)
    (h : Inline.run cfg tree html = some (t, st)) :
    ∀ x ∈ elems tree, ∃ y ∈ elems t, y.tag = x.tag ∧ y.attrs = x.attrs ∧
      (x.textAtomic = true → y.text = x.text ∧ y.textAtomic = true) ∧
      (x.tailAtomic = true → contains (x.tail.getD []) Inline.phPrefix = false →
        y.tail = x.tail ∧ y.tailAtomic = true) := by
  intro x hx
  obtain ⟨y, hy, hxy⟩ := emb_elems tree t (run_emb cfg tree html t st h) x hx
  obtain ⟨h1, h2, h3, h4, _⟩ := (emb_iff x y).1 hxy
  exact ⟨y, hy, h1, h2, h3, h4⟩

/-- on the probe trees (an atomic text in a paragraph, an atomic tail after an inline element) the run changes
    nothing at all and stashes nothing -/
theorem C18_atomic_probe_run (cfg : Inline.Cfg) (a : Str) (html : List Str) :
    Inline.run cfg (probeText a) html = some (probeText a, { html := html }) ∧
    (contains a Inline.phPrefix = false →
      Inline.run cfg (probeTail a) html = some (probeTail a, { html := html })) :=
  ⟨run_probeText cfg a html, run_probeTail cfg a html⟩

/-- non-vacuity: a run that ends, on a tree with atomic and non-atomic strings side by side: the atomic ones are
    unchanged, the others are interpreted -/
example :
    (match Inline.run {} { tag := .name "div".toList, children := [
        { tag := .name "p".toList, text := some "*a*".toList, textAtomic := true, children := [
          { tag := .name "span".toList, text := some "`b`".toList, tail := some "*c*".toList, tailAtomic := true },
          { tag := .name "i".toList, text := some "[d](e)".toList, textAtomic := true, tail := some "*f*".toList }] }] } with
     | some (⟨_, _, _, _, [⟨_, _, pt, pta, [⟨_, _, _, _, [code], st, sta⟩, i, em], _, _⟩], _, _⟩, _) =>
       pt == some "*a*".toList && pta && code.tag == .name "code".toList && st == some "*c*".toList && sta &&
       i.text == some "[d](e)".toList && i.textAtomic && em.tag == .name "em".toList && em.text == some ['f']
     | _ => false) = true := by decide +kernel

example : contains "*c* [x](y)".toList Inline.phPrefix = false := by decide

/-- boundary (tails only): an atomic tail that contains the placeholder prefix goes through the placeholder
    splitting of `__processPlaceholders`; here the characters are put back but as a plain `str` -/
example :
    (match Inline.run {} { tag := .name "div".toList, children := [{ tag := .name "p".toList, children := [
          { tag := .name "span".toList, tail := some ("x".toList ++ Inline.phPrefix ++ "y".toList), tailAtomic := true }] }] } with
     | some (⟨_, _, _, _, [⟨_, _, _, _, [span], _, _⟩], _, _⟩, _) =>
       span.tail == some ("x".toList ++ Inline.phPrefix ++ "y".toList) && span.tailAtomic == false
     | _ => false) = true := by decide +kernel

/-- …while an atomic TEXT with the same content is not even looked at -/
example :
    (match Inline.run {} { tag := .name "div".toList, children := [{ tag := .name "p".toList, children := [
          { tag := .name "span".toList, text := some ("x".toList ++ Inline.phPrefix ++ "y".toList), textAtomic := true }] }] } with
     | some (⟨_, _, _, _, [⟨_, _, _, _, [span], _, _⟩], _, _⟩, _) =>
       span.text == some ("x".toList ++ Inline.phPrefix ++ "y".toList) && span.textAtomic
     | _ => false) = true := by decide +kernel

/-! ### 1. the HTML stash -/

/-- **A placeholder survives the serializer.**  Wherever `HtmlStash.store`'s placeholder stands in a text or a tail,
    `_escape_cdata` leaves it as it is and escapes the text before it and the text after it exactly as it would
    escape them on their own (a `&` directly before the placeholder is not read as the start of an entity that
    continues into it).  With `pre = post = []`: `escCdata (htmlPlaceholder i) = htmlPlaceholder i`. -/
theorem C18_placeholder_survives_serializer (i : Nat) (pre post : Str) :
    Ser.escCdata (pre ++ htmlPlaceholder i ++ post) = Ser.escCdata pre ++ htmlPlaceholder i ++ Ser.escCdata post := by
  simpa using escCdata_ph i pre post

example : Ser.escCdata (htmlPlaceholder 12) = htmlPlaceholder 12 := by
  simpa [Ser.escCdata, Ser.ampSub, replace] using C18_placeholder_survives_serializer 12 [] []

/-- **One pass of the restore, placeholder in running text.**  After a prefix without `STX`, the placeholder of
    index `i` is replaced by `stash[i]` verbatim, at that very place; the prefix is unchanged and the pass goes on
    with the rest of the text.  Hypothesis `hw`: the placeholder is not alone in a paragraph (the prefix does not end
    with `<p>`, or `</p>` does not follow), or the entry is not block-level.  (Texts with several placeholders:
    apply the theorem again to `post`, or see `C18_stash_restore_many`.) -/
theorem C18_stash_restore_pass (bl : List Str) (stash : List Str) (i : Nat) (raw pre post : Str)
    (hi : stash[i]? = some raw) (hpre : Post.STX ∉ pre)
    (hw : endsWith pre pOpen = false ∨ startsWith post pClose = false ∨ Post.isBlockLevelHtml bl raw = false) :
    Post.subPass bl stash 0 (pre ++ htmlPlaceholder i ++ post) = pre ++ raw ++ Post.subPass bl stash 0 post := by
  have hw' : (¬ ∃ pre1, pre = pre1 ++ pOpen) ∨ startsWith post pClose = false ∨
      Post.isBlockLevelHtml bl raw = false := by
    rcases hw with h | h
    · left; intro he; rw [← endsWith_iff_suffix, h] at he; cases he
    · right; exact h
  simpa using subPass_inline bl stash i raw pre post hi hpre hw'

/-- **One pass of the restore, placeholder alone in its paragraph.**  `<p>placeholder</p>` is replaced, `<p>` and
    `</p>` included, by `stash[i]` verbatim when `stash[i]` is block-level; otherwise the wrapper stays and the
    placeholder alone is replaced. -/
theorem C18_stash_restore_block_pass (bl : List Str) (stash : List Str) (i : Nat) (raw pre post : Str)
    (hi : stash[i]? = some raw) (hpre : Post.STX ∉ pre) :
    Post.subPass bl stash 0 (pre ++ pOpen ++ htmlPlaceholder i ++ pClose ++ post) =
      pre ++ (if Post.isBlockLevelHtml bl raw then raw else pOpen ++ raw ++ pClose) ++ Post.subPass bl stash 0 post := by
  simpa using subPass_wrapped bl stash i raw pre post hi hpre

/-- **`RawHtmlPostprocessor.run`, placeholder in running text.**  For a text with one placeholder, `pre` and `post`
    without `STX`: the result is the text with `stash[i]` in the place of the placeholder — verbatim, unescaped,
    nothing else changed — provided the result does not contain the placeholder prefix `STX wzxhzdk:` (true when
    `stash[i]` contains no `STX`: `C18_no_prefix_of_no_stx`). -/
theorem C18_stash_restore_inline (bl : List Str) (stash : List Str) (i : Nat) (raw pre post : Str)
    (hi : stash[i]? = some raw) (hpre : Post.STX ∉ pre)
    (hw : endsWith pre pOpen = false ∨ startsWith post pClose = false ∨ Post.isBlockLevelHtml bl raw = false)
    (hq : contains (pre ++ raw ++ post) Post.htmlPrefix = false) :
    Post.rawHtml bl stash (Post.rawHtmlFuel stash) (pre ++ htmlPlaceholder i ++ post) = some (pre ++ raw ++ post) := by
  have hne : stash ≠ [] := by rintro rfl; simp at hi
  have hpost : contains post Post.htmlPrefix = false := (contains_false_of_append hq).2
  have h1 := C18_stash_restore_pass bl stash i raw pre post hi hpre hw
  rw [subPass_fix bl stash post hpost] at h1
  exact rawHtml_of_fix bl stash (stash.length + 1) _ _ hne h1 hq

/-- **`RawHtmlPostprocessor.run`, block-level entry alone in its paragraph.**  `<p>placeholder</p>` becomes
    `stash[i]`, verbatim and without the `<p>` wrapper. -/
theorem C18_stash_restore_block (bl : List Str) (stash : List Str) (i : Nat) (raw pre post : Str)
    (hi : stash[i]? = some raw) (hpre : Post.STX ∉ pre) (hb : Post.isBlockLevelHtml bl raw = true)
    (hq : contains (pre ++ raw ++ post) Post.htmlPrefix = false) :
    Post.rawHtml bl stash (Post.rawHtmlFuel stash) (pre ++ pOpen ++ htmlPlaceholder i ++ pClose ++ post) =
      some (pre ++ raw ++ post) := by
  have hne : stash ≠ [] := by rintro rfl; simp at hi
  have hpost : contains post Post.htmlPrefix = false := (contains_false_of_append hq).2
  have h1 := C18_stash_restore_block_pass bl stash i raw pre post hi hpre
  rw [subPass_fix bl stash post hpost, hb] at h1
  exact rawHtml_of_fix bl stash (stash.length + 1) _ _ hne h1 hq

/-- texts without `STX` cannot form the placeholder prefix -/
theorem C18_no_prefix_of_no_stx (s : Str) (h : Post.STX ∉ s) : contains s Post.htmlPrefix = false := by
  rw [contains_eq_false_iff]
  rintro p q rfl
  exact h (by simp [Post.htmlPrefix])

/-- **Several placeholders in one text.**  `segs` lists, left to right, the text before each placeholder, its index
    and the stash entry; `last` is the text after the last one.  When the pieces contain no `STX`, every index is in
    the stash, and no block-level entry directly follows a `<p>`, then `RawHtmlPostprocessor.run` yields the text with
    every entry in the place of its placeholder, the pieces unchanged — provided that text is free of the
    placeholder prefix. -/
theorem C18_stash_restore_many (bl : List Str) (stash : List Str) (segs : List (Str × Nat × Str)) (last : Str)
    (hne : stash ≠ [])
    (h : ∀ x ∈ segs, stash[x.2.1]? = some x.2.2 ∧ Post.STX ∉ x.1 ∧
        (endsWith x.1 pOpen = false ∨ Post.isBlockLevelHtml bl x.2.2 = false))
    (hq : contains (withRaw segs last) Post.htmlPrefix = false) :
    Post.rawHtml bl stash (Post.rawHtmlFuel stash) (withPh segs last) = some (withRaw segs last) := by
  have hlast : contains last Post.htmlPrefix = false := by
    clear h
    induction segs with
    | nil => exact hq
    | cons x r ih =>
      apply ih
      have : withRaw (x :: r) last = (x.1 ++ x.2.2) ++ withRaw r last := rfl
      rw [this] at hq
      exact (contains_false_of_append hq).2
  have h1 := subPass_weave bl stash last segs h
  rw [subPass_fix bl stash last hlast] at h1
  exact rawHtml_of_fix bl stash (stash.length + 1) _ _ hne h1 hq

/-! #### non-vacuity and boundaries -/

/-- the hypotheses on a list item `<li>x PLACEHOLDER y</li>` with a stashed inline tag, and the result -/
example : ["<div>*x*</div>".toList, "<b class=\"c\">".toList][1]? = some "<b class=\"c\">".toList ∧
    Post.STX ∉ "<li>x ".toList ∧ endsWith "<li>x ".toList pOpen = false ∧
    contains ("<li>x ".toList ++ "<b class=\"c\">".toList ++ " y</li>".toList) Post.htmlPrefix = false := by decide

example :
    Post.rawHtml TreeProc.defaultBlockLevel ["<div>*x*</div>".toList, "<b class=\"c\">".toList] 5
      ("<li>x ".toList ++ htmlPlaceholder 1 ++ " y</li>".toList) = some "<li>x <b class=\"c\"> y</li>".toList := by
  decide

/-- the block shape: Markdown-looking and `&`, `<` content comes out as stored, without `<p>` -/
example : Post.isBlockLevelHtml TreeProc.defaultBlockLevel "<div>*x* & <i>\n</div>".toList = true := by decide

example :
    Post.rawHtml TreeProc.defaultBlockLevel ["<div>*x* & <i>\n</div>".toList] 4
      ("<h1>t</h1>\n".toList ++ pOpen ++ htmlPlaceholder 0 ++ pClose ++ "\n<p>z</p>".toList)
      = some "<h1>t</h1>\n<div>*x* & <i>\n</div>\n<p>z</p>".toList := by decide

/-- an entry that is not block-level keeps the paragraph around it -/
example :
    Post.rawHtml TreeProc.defaultBlockLevel ["<b>x</b>".toList] 4 (pOpen ++ htmlPlaceholder 0 ++ pClose)
      = some "<p><b>x</b></p>".toList := by decide

/-- two placeholders (`C18_stash_restore_many` with two segments) -/
example :
    withPh [("<p>a ".toList, 1, "<i>".toList), (" b ".toList, 0, "</i>".toList)] "</p>".toList =
      "<p>a ".toList ++ htmlPlaceholder 1 ++ " b ".toList ++ htmlPlaceholder 0 ++ "</p>".toList ∧
    withRaw [("<p>a ".toList, 1, "<i>".toList), (" b ".toList, 0, "</i>".toList)] "</p>".toList =
      "<p>a <i> b </i></p>".toList := by decide

example :
    Post.rawHtml TreeProc.defaultBlockLevel ["</i>".toList, "<i>".toList] 5
      (withPh [("<p>a ".toList, 1, "<i>".toList), (" b ".toList, 0, "</i>".toList)] "</p>".toList) =
      some "<p>a <i> b </i></p>".toList :=
  C18_stash_restore_many _ _ _ _ (by decide) (by decide) (by decide)

/-- the hypotheses of `C18_stash_restore_block` on the block example above -/
example : ["<div>*x* & <i>\n</div>".toList][0]? = some "<div>*x* & <i>\n</div>".toList ∧
    Post.STX ∉ "<h1>t</h1>\n".toList ∧
    contains ("<h1>t</h1>\n".toList ++ "<div>*x* & <i>\n</div>".toList ++ "\n<p>z</p>".toList) Post.htmlPrefix = false := by
  decide

/-- boundary: the restore is iterated, so an entry that contains a placeholder is expanded again (this is how
    nested raw HTML is put back); the stored string is then NOT what reaches the output -/
example :
    Post.rawHtml TreeProc.defaultBlockLevel ["<b>".toList, "x".toList ++ htmlPlaceholder 0] 5
      ("a ".toList ++ htmlPlaceholder 1) = some "a x<b>".toList := by decide

/-- boundary: an entry that ends with the beginning of a placeholder, followed by a text that completes it -/
example :
    Post.rawHtml TreeProc.defaultBlockLevel ["[".toList ++ Post.htmlPrefix] 4
      (htmlPlaceholder 0 ++ "0".toList ++ [Post.ETX]) = some ("[[".toList ++ Post.htmlPrefix) := by decide

/-! ### 2. from the tree to the output: atomic strings and placeholders through all the later stages -/

/-- **An `AtomicString` text reaches the output uninterpreted.**  Whatever the string `a` (without `STX`) that an
    extension puts, as an `AtomicString`, in the text of a paragraph: inline patterns, prettify, unescape, serializer
    and postprocessors together produce `<p>`, the string with only `&` (when it does not start an entity), `<`, `>`
    escaped, `</p>` — no emphasis, code span, link, image, backslash escape, line break or entity handling is applied
    to it, in either output format and with any reference definitions. -/
theorem C18_atomic_output_text (cfg : Pipeline.Cfg) (refs : List (Str × Str × Option Str)) (a : Str)
    (hbl : cfg.blockLevel = TreeProc.defaultBlockLevel) (ha : Post.STX ∉ a) :
    render cfg refs (probeText a) = .ok (pOpen ++ Ser.escCdata a ++ pClose) :=
  render_probeText cfg refs a hbl ha

/-- **An `AtomicString` tail reaches the output uninterpreted**: the same for the tail of an inline element. -/
theorem C18_atomic_output_tail (cfg : Pipeline.Cfg) (refs : List (Str × Str × Option Str)) (a : Str)
    (hbl : cfg.blockLevel = TreeProc.defaultBlockLevel) (ha : Post.STX ∉ a) :
    render cfg refs (probeTail a) = .ok (pOpen ++ ("<span></span>".toList ++ Ser.escCdata a) ++ pClose) :=
  render_probeTail cfg refs a hbl ha

/-- non-vacuity: a text full of Markdown; the hypotheses hold and the output is the text itself (only `<` and the
    lone `&` are escaped) -/
example : ({} : Pipeline.Cfg).blockLevel = TreeProc.defaultBlockLevel ∧
    Post.STX ∉ "*x* `c` [l](u) \\* **b** & &amp; <i> ![i](s) _e_  \nz".toList := by decide

example : Ser.escCdata "*x* `c` [l](u) \\* **b** & &amp; <i> ![i](s) _e_  \nz".toList =
    "*x* `c` [l](u) \\* **b** &amp; &amp; &lt;i&gt; ![i](s) _e_  \nz".toList := by decide

/-- the same text when it is NOT atomic is interpreted (kernel evaluation of the whole model) -/
example : render {} [] { tag := .name "div".toList, children := [{ tag := .name "p".toList, text := some "*x* `c`".toList }] }
    = .ok "<p><em>x</em> <code>c</code></p>".toList := by decide +kernel

/-- **A stashed string reaches the output verbatim, where its placeholder was put (inline).**  The placeholder of
    entry `i` inside the text of a paragraph, with `pre` before and `post` after it (no `STX` in `pre`, `post`, `raw`):
    the output is the paragraph with `pre` and `post` escaped as usual and `raw` between them exactly as stored —
    not escaped, nothing added.  Hypothesis `hw`: there is other text in the paragraph, or `raw` is not block-level
    (otherwise the wrapper goes: `C18_stash_output_block`). -/
theorem C18_stash_output_inline (cfg : Pipeline.Cfg) (refs : List (Str × Str × Option Str)) (stash : List Str)
    (i : Nat) (raw pre post : Str) (hbl : cfg.blockLevel = TreeProc.defaultBlockLevel)
    (hi : stash[i]? = some raw) (hpre : Post.STX ∉ pre) (hpost : Post.STX ∉ post) (hraw : Post.STX ∉ raw)
    (hw : pre ≠ [] ∨ post ≠ [] ∨ Post.isBlockLevelHtml TreeProc.defaultBlockLevel raw = false) :
    render cfg refs (probeText (pre ++ htmlPlaceholder i ++ post)) stash =
      .ok (pOpen ++ Ser.escCdata pre ++ raw ++ Ser.escCdata post ++ pClose) := by
  simpa using render_probe_stash_inline cfg refs stash i raw pre post hbl hi hpre hpost hraw hw

/-- **A stashed block-level string reaches the output verbatim and unwrapped.**  A paragraph that consists of the
    placeholder alone becomes `raw` itself (the final `.strip()` of `convert` applies to the whole document). -/
theorem C18_stash_output_block (cfg : Pipeline.Cfg) (refs : List (Str × Str × Option Str)) (stash : List Str)
    (i : Nat) (raw : Str) (hbl : cfg.blockLevel = TreeProc.defaultBlockLevel)
    (hi : stash[i]? = some raw) (hraw : Post.STX ∉ raw)
    (hb : Post.isBlockLevelHtml TreeProc.defaultBlockLevel raw = true) :
    render cfg refs (probeText (htmlPlaceholder i)) stash = .ok (strip raw) :=
  render_probe_stash_block cfg refs stash i raw hbl hi hraw hb

/-- non-vacuity: `x & PLACEHOLDER y` with a stashed `<b title="&">` -/
example : ["<b title=\"&\">".toList][0]? = some "<b title=\"&\">".toList ∧ Post.STX ∉ "x & ".toList ∧
    Post.STX ∉ " y".toList ∧ Post.STX ∉ "<b title=\"&\">".toList ∧ "x & ".toList ≠ [] := by decide

example : render {} [] (probeText ("x & ".toList ++ htmlPlaceholder 0 ++ " y".toList)) ["<b title=\"&\">".toList] =
    .ok "<p>x &amp; <b title=\"&\"> y</p>".toList := by decide +kernel

example : render {} [] (probeText (htmlPlaceholder 0)) ["<div>*x* & y</div>\n".toList] =
    .ok "<div>*x* & y</div>".toList := by decide +kernel

/-- F-C18-3 (known, harmless in the core pipeline): `prettify` rebuilds the tail of a `<br>` as `'\\n%s' % br.tail`,
    a plain `str` — the `AtomicString` wrapper is lost.  No later core stage reads the flag, and the output string is
    what `C18_atomic_output_tail` says with the line break in front. -/
example :
    (match TreeProc.prettify { tag := .name "div".toList, children := [{ tag := .name "p".toList, children :=
        [{ tag := .name "br".toList, tail := some "*x*".toList, tailAtomic := true }] }] } with
     | ⟨_, _, _, _, [⟨_, _, _, _, [br], _, _⟩], _, _⟩ => br.tail == some "\n*x*".toList && br.tailAtomic == false
     | _ => false) = true := by decide

example : render {} [] { tag := .name "div".toList, children := [{ tag := .name "p".toList, children :=
      [{ tag := .name "br".toList, tail := some "*x*".toList, tailAtomic := true }] }] } =
    .ok "<p><br />\n*x*</p>".toList := by decide +kernel

/-! ### 3. `AndSubstitutePostprocessor` -/

/-- **`&` substitute, whole text.**  Cut the text at the occurrences of `STX amp ETX` (left to right; the pieces
    joined with `STX amp ETX` give the text back): the output is the same pieces joined with `&`.  So every
    occurrence becomes `&` and nothing else changes. -/
theorem C18_amp_substitute (text : Str) :
    Post.ampSub text = join ['&'] (splitS Post.ampSubstitute text) ∧
    join Post.ampSubstitute (splitS Post.ampSubstitute text) = text :=
  ⟨replace_eq_join_splitS (by decide) _ _, join_splitS (by decide) _⟩

/-- **`&` substitute, locally.**  Text without `STX` is copied; an occurrence after it becomes `&`. -/
theorem C18_amp_substitute_at (pre post : Str) (hpre : Post.STX ∉ pre) :
    Post.ampSub (pre ++ Post.ampSubstitute ++ post) = pre ++ '&' :: Post.ampSub post ∧
    Post.ampSub pre = pre := by
  constructor
  · unfold Post.ampSub replace
    have e : Post.ampSubstitute.isEmpty = false := by decide
    rw [e]
    simp only [Bool.false_eq_true, if_false, List.append_assoc]
    have ha : Post.ampSubstitute = Post.STX :: ("amp".toList ++ [Post.ETX]) := rfl
    rw [ha, replaceAux_prefix _ _ _ _ _ hpre]
    congr 1
    exact replaceAux_match Post.STX ("amp".toList ++ [Post.ETX]) ['&'] post
  · apply replace_id_of_not_contains
    rw [contains_eq_false_iff]
    rintro p q rfl
    exact hpre (by simp [Post.ampSubstitute])

example : Post.ampSub ("a ".toList ++ Post.ampSubstitute ++ "lt; b &amp; ".toList ++ Post.ampSubstitute) =
    "a &lt; b &amp; &".toList := by decide

example : splitS Post.ampSubstitute ("a ".toList ++ Post.ampSubstitute ++ "b".toList) = ["a ".toList, "b".toList] := by
  decide

end MdVerif.C18Stash
