/-
C10 on the extension model, with inline links and images: `Props/C10X.lean` (`C10X_partial_inline_flags`: nl2br and
wikilinks on `PipelineX.convertX`, domain of `C10_partial_links`) carried over to the wider domain of
`Props/C10c.lean` (`C10DomainC`: inline links `[text](url "title")`, inline images, image references with simple
destinations / alt texts).

Helper lemmas: `MdVerif/Lemmas/PlaceholdersXC*.lean` — worker x1's port of the inline engine to `InlineX.runX`, with the
invariant `AdjC true` (simple regions behind `](` and `![`) in place of `Adj3`; the block stage is the one of
`Lemmas/PlaceholdersCBlock.lean`.  Core Lean only.
-/
import MdVerif.Lemmas.PlaceholdersXC
import MdVerif.Lemmas.PlaceholdersX

namespace MdVerif.NoCtlXC
open Py Inline InlineX MdVerif.NoCtl

/-- **`handleInlineX` over any of the eight pattern tables, with the link and image patterns live**: the contract of
    `C10X_inline_ids_bounded` with the invariants of `C10c_ids_bounded`. -/
theorem C10XC_inline_ids_bounded {xc : XCfg} (hcfg : EscOK xc.cfg.esc) (hrefs : RefsOK xc.cfg)
    (hkeys : ∀ k ∈ xc.fnKeys, NoCtl k) {fn wl nl : Bool} (ht : xc.table = table fn wl nl) : HISpecXB wl xc :=
  hiSpecXB_tables hcfg hrefs hkeys ht

/-- **`InlineX.runX`** keeps the tree invariant of `C10c_all_visited_run` -/
theorem C10XC_inline_all_visited_run {wl : Bool} {xc : XCfg} (hhi : HISpecXB wl xc) {tree t : Node} {html : List Str}
    {xs : XSt} (ht : tree.Forall (WNodeC 0)) (hq : tree.Forall (QN wl)) (h : runX xc tree html = some (t, xs)) :
    t.Forall (WNodeC 0) ∧ xs.st.html = html := runX_specB hhi ht hq h

/-- **End to end: nl2br and wikilinks together with inline links and images.**  For `x` with every flag but
    `nl2br` / `wikilinks` off, a source of `C10DomainC` (no `<`, `&`; no backslash–backtick adjacency; every `](` followed
    by a simple destination with an optional title, every `![` by a simple alt text) that, when wikilinks are on, has no
    `[` immediately followed by a blank in its normalised text (`C10DomainCW`), the output of
    `markdown.Markdown(extensions=[…]).convert` (`PipelineX.convertX`) contains neither STX nor ETX. -/
theorem C10X_partial_inline_flags_links (x : PipelineX.Exts) (hx : InlineFlagsOnly x) (cfg : Pipeline.Cfg)
    (hcfg : EscOK cfg.esc) {src out : Str} (hd : C10DomainCW x.wikilinks cfg.tab src)
    (h : PipelineX.convertX x cfg src = .ok out) : NoCtl out :=
  convertX_noctl_inline hx hcfg hd.1 hd.2 h

example : InlineFlagsOnly { nl2br := true, wikilinks := true } ∧
    C10DomainCW true 4 "see [the *docs*](http://e.x/a \"T\")\n[[Wiki Page]] ![p](i.png) \\* `c`".toList ∧
    EscOK ({} : Pipeline.Cfg).esc := ⟨by decide, by decide +kernel, escOK_default⟩

example : PipelineX.convertX { nl2br := true, wikilinks := true } {}
      "see [the *docs*](http://e.x/a \"T\")\n[[Wiki Page]] ![p](i.png) \\* `c`".toList =
    .ok ("<p>see <a href=\"http://e.x/a\" title=\"T\">the <em>docs</em></a><br />\n" ++
      "<a class=\"wikilink\" href=\"/Wiki_Page/\">Wiki Page</a> <img alt=\"p\" src=\"i.png\" /> * <code>c</code></p>").toList := by
  decide +kernel

/-- the domain of `C10X_partial_inline_flags` is inside this one -/
theorem C10XC_domain_widens {wl : Bool} {tab : Nat} {s : Str} (h : MdVerif.NoCtlX.C10DomainW wl tab s) : C10DomainCW wl tab s :=
  ⟨domainC_of_L h.1, h.2⟩

end MdVerif.NoCtlXC
