/-
C14, document-level clause — "html and xhtml differ only in how void elements and boolean attributes are written, for
whole converted documents".

On the pipeline model (`Model/Pipeline.lean`: `Pipeline.convert cfg src`, output format `cfg.fmt`), for source text
without `<` (the domain of the model):

1. `C14_tree_format_independent`: the element tree handed to the serializer (and the raw-HTML stash) does not depend
   on the output format;
2. `C14_doc_formats_agree`: the two outputs are both accepted by the strict reader (`Spec/Reader.lean`) and read back
   to the SAME forest — elements, attributes with their values, texts — which consists of vocabulary elements only;
3. `C14_doc_spelling`: the xhtml output is the html output with some `>` written ` />` and some bare attribute names
   ` k` written ` k="k"`, character for character (`Ser.Respell`, `Spec/Spelling.lean`).

Hypotheses (those of `C05_convert_plain`, which describes the postprocessors): the raw-HTML stash is empty — no entity
reference of the source was stashed by the inline stage — and the serialisation does not contain the ampersand
substitute `STX amp ETX`; then both postprocessors are the identity.  `C14_doc_formats_agree_noctl` replaces the second
hypothesis by the format-independent "no STX in the tree"; `Props/C14DocDomain.lean` derives both from a condition on
the source alone.  NOT proved: the case of a non-empty stash (sources with entity references); there the statement was
tested only (0 differences on 6000 documents, 2665 of them with `&`).

Only property statements live here; proofs in `MdVerif/Lemmas/DocFormats.lean`.
-/
import MdVerif.Lemmas.DocFormats

namespace MdVerif.Ser
open Py Vocab2

/-- **the tree does not depend on the output format**: everything up to the serializer — normalisation, raw-HTML
    preprocessor, block parser, inline processor, prettify, unescape — and the raw-HTML stash are the same whatever
    `output_format` is, for every source text and configuration. -/
theorem C14_tree_format_independent (cfg : Pipeline.Cfg) (f : Fmt) (src : Str) :
    Pipeline.tree { cfg with fmt := f } src = Pipeline.tree cfg src := DocFormats.tree_fmt cfg f src

/-- **html and xhtml documents read back the same.**  For every configuration and every source text without `<` whose
    conversion leaves the raw-HTML stash empty and whose serialisation (in either format) does not contain the
    ampersand substitute: if `h` is the html output and `x` the xhtml output of `Markdown.convert`, the strict reader
    accepts both and returns the same forest, all of whose items are texts or vocabulary elements. -/
theorem C14_doc_formats_agree (cfg : Pipeline.Cfg) (src h x : Str) (u : Node) (hlt : '<' ∉ src)
    (ht : Pipeline.tree cfg src = some (some (u, [])))
    (hah : contains (inner .html u) Post.ampSubstitute = false)
    (hax : contains (inner .xhtml u) Post.ampSubstitute = false)
    (hh : Pipeline.convert { cfg with fmt := .html } src = .ok h)
    (hx : Pipeline.convert { cfg with fmt := .xhtml } src = .ok x) :
    ∃ forest, readForest .html h = some forest ∧ readForest .xhtml x = some forest ∧ RGoodList forest = true :=
  DocFormats.formats_agree cfg src h x u (by simpa using hlt) ht hah hax hh hx

/-- the same, with one format-independent hypothesis on the tree: no STX / ETX in any tag, attribute, text or tail
    (true whenever no placeholder leaks, cf. `C10`) -/
theorem C14_doc_formats_agree_noctl (cfg : Pipeline.Cfg) (src h x : Str) (u : Node) (hlt : '<' ∉ src)
    (ht : Pipeline.tree cfg src = some (some (u, []))) (hc : NoCtl.TreeNoCtl u)
    (hh : Pipeline.convert { cfg with fmt := .html } src = .ok h)
    (hx : Pipeline.convert { cfg with fmt := .xhtml } src = .ok x) :
    ∃ forest, readForest .html h = some forest ∧ readForest .xhtml x = some forest ∧ RGoodList forest = true :=
  have hd := tree_docOk cfg src u [] ht
  DocFormats.formats_agree cfg src h x u (by simpa using hlt) ht (DocFormats.inner_no_ampSub .html u hd hc)
    (DocFormats.inner_no_ampSub .xhtml u hd hc) hh hx

/-- **the two outputs differ only in spelling**, as strings: under the same hypotheses the xhtml output is the html
    output in which some `>` are written ` />` and some bare attribute names ` k` are written ` k="k"`; every other
    character is the same and in the same place (`Respell`).  For a non-blank source the two outputs are the stripped
    serialisations of the content of the same wrapper `div`. -/
theorem C14_doc_spelling (cfg : Pipeline.Cfg) (src h x : Str) (u : Node) (hlt : '<' ∉ src)
    (ht : Pipeline.tree cfg src = some (some (u, [])))
    (hah : contains (inner .html u) Post.ampSubstitute = false)
    (hax : contains (inner .xhtml u) Post.ampSubstitute = false)
    (hh : Pipeline.convert { cfg with fmt := .html } src = .ok h)
    (hx : Pipeline.convert { cfg with fmt := .xhtml } src = .ok x) : Respell h x := by
  have hlt' : src.contains '<' = false := by simpa using hlt
  by_cases hb : Normalize.isBlankDoc src = true
  · rw [DocFormats.convert_blank _ src hlt' hb] at hh hx
    injection hh with e1; injection hx with e2; subst e1; subst e2
    exact .nil
  · have hnb : Normalize.isBlankDoc src = false := by simpa using hb
    rw [convert_plain { cfg with fmt := .html } src u hlt' hnb ht hah] at hh
    rw [convert_plain { cfg with fmt := .xhtml } src u hlt' hnb ht hax] at hx
    injection hh with e1; injection hx with e2; subst e1; subst e2
    exact DocFormats.respell_doc u (tree_docOk cfg src u [] ht)

/-- on trees: the two serialisations of any well-formed tree (`WFTree`, the domain of `C14_roundtrip`) differ only in
    spelling -/
theorem C14_tree_spelling (t : Node) (h : WFTree t = true) : Respell (serialize .html t) (serialize .xhtml t) :=
  DocFormats.respell_tree t h

/-! ### non-vacuity -/

/-- emphasis, an image whose alt text is `alt` (a "boolean" attribute in html) with a hostile title, a hard break, a
    rule -/
def docSrc : Str := "*a* ![alt](s \"t>\")  \nb\n\n---".toList

/-- (irreducible: the elaborator must not try to evaluate the pipeline; the kernel does, in `decide +kernel`) -/
@[irreducible] def docTree : Node := (((Pipeline.tree {} docSrc).getD none).map (·.1)).getD (Node.el "none")

example : '<' ∉ docSrc := by decide

/-- the hypotheses hold (one kernel evaluation each) … -/
example : ((Pipeline.tree {} docSrc).getD none).map (·.2) = some [] := by decide +kernel
example : contains (inner .html docTree) Post.ampSubstitute = false := by decide +kernel
example : contains (inner .xhtml docTree) Post.ampSubstitute = false := by decide +kernel
example : NoCtl.TreeNoCtl docTree := DocFormats.treeNoCtl_of_B _ (by decide +kernel)

/-- … and the two outputs are different strings -/
example : Pipeline.convert { fmt := .html } docSrc = .ok
    "<p><em>a</em> <img alt src=\"s\" title=\"t&gt;\"><br>\nb</p>\n<hr>".toList := by decide +kernel
example : Pipeline.convert { fmt := .xhtml } docSrc = .ok
    "<p><em>a</em> <img alt=\"alt\" src=\"s\" title=\"t&gt;\" /><br />\nb</p>\n<hr />".toList := by decide +kernel

/-- `Respell` is not the trivial relation: it relates `<br>` to `<br />` and ` alt` to ` alt="alt"`, and nothing else
    to them -/
example : Respell "<img alt><br>".toList "<img alt=\"alt\" /><br />".toList :=
  .same _ (.same _ (.same _ (.same _ (.bool "alt".toList (by decide) (.void (.same _ (.same _ (.same _ (.void .nil)))))))))
example : ¬ Respell "<br>".toList "<hr />".toList := by
  intro h
  cases h with
  | same _ h => cases h
example : ¬ Respell "a".toList "ab".toList := by
  intro h
  cases h with
  | same _ h => cases h

end MdVerif.Ser
