/-
C12 on the CONCRETE instance model: Markdown instances that are each confined to one thread produce, under EVERY
interleaving, exactly the results they produce when run one after another.

`Props/C12.lean` proves schedule independence for an abstract thread model (`Model/Threads.lean`: deterministic
threads over private stores, the only common state being read-only cells and write-once memo cells).  Here the
private store of a thread is concrete: the extension set and configuration of ITS `Markdown` instance, the
conversion-time state `InstanceX.MdSt` of that instance (link references, footnote table, abbreviations, HTML stash,
footnote-reference bookkeeping, the side outputs `md.toc`, `md.toc_tokens`, `md.Meta`) and the list of operations
(`convert src` / `reset`) the thread has still to perform; one step of a thread is one operation, computed by
`InstanceX.convertS` / `resetS` — the model that agrees with one real `Markdown(extensions=…)` instance on random
histories (`harness/corr/instancex.py`).  The thread program (`ThreadsX.progX`, `Lemmas/ThreadsX.lean`) is an
instance of `Threads.Action`, the system is `Threads.Sys`, a schedule is an arbitrary `List Nat` of thread indices:
the abstract theorems of `Props/C12.lean` are INSTANTIATED, not re-proved.

  * `C12X_thread_is_sequential`    after ANY schedule `s`, thread `i` has the outcomes `InstanceX.outcomes` and its
                                   instance the state `InstanceX.runS` of its first `s.count i` operations run alone;
  * `C12X_outputs_prefix`          so at every moment its outcomes are a prefix of its sequential outcomes;
  * `C12X_outputs_eq_sequential`   once thread `i` has performed all its operations: outcomes = `outcomes … ops`,
                                   instance state = `runS … ops` — whatever the other threads did or are doing;
  * `C12X_all_outputs_eq_sequential`   for a schedule that lets every thread finish: the outcomes of ALL threads;
  * `C12X_schedule_independent`    two schedules with the same number of steps per thread: identical system states
                                   (every thread's outcomes, instance state, remaining operations; shared state);
  * `C12X_interleaving_eq_sequential`  in particular an interleaving versus "thread 0 first, then thread 1, …";
  * `C12X_complete_schedules_agree`    two schedules that both run every thread to the end agree;
  * `C12X_steps_commute`           the local reason: operations of different threads commute;
  * `C12X_shared_untouched`        the module-level state is, after every schedule, what it was;
  * `C12X_fresh_reset_each`, `C12X_reset_before_each`, `C12X_convert_after_reset`   with fresh instances and
                                   `reset()` before every document every outcome is the ONE-SHOT answer
                                   `PipelineX.convertX x_i cfg_i src` — under every schedule;
  * `C12X_meta_thread_is_sequential`, `C12X_meta_outputs_eq_sequential`   the same with the `meta` extension;
  * `C12X_world_thread_is_local`, `C12X_world_outputs_eq_sequential`, `C12X_world_finished_eq_sequential`,
    `C12X_world_invariant`        a FINER program: every operation first accesses module-level state, one step per
                                   access (read-only cells; cache cells that any thread may fill AND EVICT; write-only
                                   scratch cells that any thread may overwrite) — interleaved at access granularity the
                                   outcomes are still the sequential ones;
  * `C12X_shared_instance_counterexample`, `C12X_shared_instance_order_dependent`   the hypothesis "distinct
                                   instances" is needed: two threads sharing ONE instance observe each other.

WHAT IS ASSUMED ABOUT THE REAL CODE (this is a theorem about the model; these are the links to the code):

  (A1) *One step of a thread touches only that thread's own instance.*  In the model this is built in: `progX` maps
       the private store to the private store.  For the code it is (a) the census theorem
       `Census.C12_no_unlisted_shared_write` (`Props/C11Census.lean`, kernel-decided over tables regenerated from the
       Python AST on every build): no function body of the package writes module-level or class-level state except
       the listed configuration-time one — and `Census.C12_memo_cells`: the only memo is the `lru_cache` of
       `util.get_installed_extensions`, consulted at construction time; (b) the per-instance state that a conversion
       writes is reachable from the `Markdown` object only (`Census.C11_conversion_writes_are_reset`): `MdSt` is that
       state (`harness/corr/instancex.py` compares it field by field).
  (A2) *The modelled step is atomic.*  A step of the model is a whole `convert` / `reset`.  Real conversions of
       different threads interleave at byte-code granularity under the GIL; because of (A1) the interleaved
       byte-codes of another thread operate on a disjoint heap (its own instance, its own locals), so every
       interleaving is equivalent to one in which each conversion runs without interruption — the model's steps.
       Atomicity of the single byte-code operations (the GIL) and the CPython runtime (`re`'s compiled-pattern
       cache, the import lock, `xml.etree`, reference counting) are trusted, not modelled.
  (A3) *The module-level cells that exist are read-only or memo cells*, as in `Threads.C12_shared_invariant`: the
       compiled regexes and class-level tables (`ITEM_TYPES`, `SIBLING_TAGS`, `PATTERNS`, `output_formats`, the
       entity tables, the lexicon of `attr_list._scanner`, the private patched copy of `html.parser`) are
       `Shared.ro`; `get_installed_extensions` is `Shared.memo`.  `convertS` has their import-time values built in
       (it was validated against the code with those values), which is why `progX` does not even read them and
       `C12X_shared_untouched` holds.  Two kinds of cells are neither, both inside the standard library (hence
       invisible to the census): `re.Scanner.scan` stores the current match in the attribute `match` of the ONE
       module-level `attr_list._scanner` before it calls an action — a write-only SCRATCH cell; the actions of
       `attr_list` take the token text only and never read the scanner (checked on every run by
       `harness/oracle/c12.py`, `allow_conditions`); and `re`'s cache of compiled patterns (`re.compile` in
       `AbbrTreeprocessor.run`) — a memo cell that can be EVICTED.  The section "operations that access module-level
       state" (`C12X_world_…`, model in `Lemmas/ThreadsXShared.lean`) adds both kinds to the shared state, lets every
       operation make its accesses as separate steps, and proves the same conclusion; what it assumes is that the
       conversion is a function of the values it READS (`convXV`: `convertS` for the import-time values), that cache
       cells are only ever filled with the value of one pure function of the key (`CacheValid`), and that scratch
       cells are never read (the action set `ActionW` has no such read).
  (A4) `nearing_recursion_limit` reads the stack depth of the CALLING thread (`sys._getframe`), i.e. thread-local
       state; the model has no recursion limit (deep inputs are outside what `corr/instancex.py` compares).

TIE TO THE CODE.  `harness/corr/threadsx.py` runs REAL threads, each with its own `Markdown` instance and history,
(a) forced into a random schedule at operation granularity (the steps of the model), (b) freely, at byte-code
granularity (what A2 abstracts from), and compares every output and the final state of every instance with
`InstanceX.outcomes` / `runS` of the history run alone — the right-hand sides of `C12X_outputs_eq_sequential`;
(c) with ONE shared instance under the forced schedule, compared with the model of the merged history — the system
`runShared` of the counterexamples.

Only property statements live here; the definitions and helper lemmas are in `Lemmas/ThreadsX.lean` and
`Lemmas/ThreadsXShared.lean`.  Core Lean only.
-/
import MdVerif.Lemmas.ThreadsX
import MdVerif.Lemmas.ThreadsXShared
import MdVerif.Props.C12
import MdVerif.Props.C11X

namespace MdVerif.ThreadsX
open MdVerif.Threads MdVerif.InstanceX MdVerif.Pipeline MdVerif.PipelineX

section Concrete
variable {K V : Type} [DecidableEq K] (f : K → V)

/-- **Confinement, concretely.**  `ws` are the threads (thread `i` owns an instance with extension set `ws[i].x`,
    configuration `ws[i].cfg`, initial state `ws[i].st`, and performs `ws[i].ops`), `sh` any module-level state with a
    valid memo.  After ANY schedule `s` — any interleaving of the threads' operations — thread `i` has performed
    its first `n = s.count i` operations, and
    * the outcomes it has obtained are `InstanceX.outcomes` of these `n` operations run alone,
    * the state of its instance is `InstanceX.runS` of these `n` operations,
    * its remaining operations are the rest. -/
theorem C12X_thread_is_sequential (ws : List Worker) (sh : Shared K V) (hv : MemoValid f sh) (s : List Nat)
    (i : Nat) (w : Worker) (hw : ws[i]? = some w) :
    outputsX (runX f s ws sh) i = outcomes w.x w.cfg w.st (w.ops.take (s.count i)) ∧
    instanceX (runX f s ws sh) i = some (runS w.x w.cfg w.st (w.ops.take (s.count i))) ∧
    pendingX (runX f s ws sh) i = w.ops.drop (s.count i) := by
  have h := run_initG convX resetS f (ws.map Worker.store) sh hv s i
  simp only [List.getElem?_map, hw, Option.map_some, Worker.store, runG_convX, outsG_convX] at h
  refine ⟨?_, ?_, ?_⟩
  · simp only [outputsX, trace, runX, initX, progX, h]
  · simp only [instanceX, runX, initX, progX, h, Option.map_some]
  · simp only [pendingX, runX, initX, progX, h]

/-- **At every moment the outcomes of a thread are a prefix of its sequential outcomes** — no outcome of another
    thread, no outcome out of order, nothing that the thread alone would not have produced. -/
theorem C12X_outputs_prefix (ws : List Worker) (sh : Shared K V) (hv : MemoValid f sh) (s : List Nat)
    (i : Nat) (w : Worker) (hw : ws[i]? = some w) :
    outputsX (runX f s ws sh) i <+: outcomes w.x w.cfg w.st w.ops := by
  rw [(C12X_thread_is_sequential f ws sh hv s i w hw).1]
  refine ⟨outcomes w.x w.cfg (runS w.x w.cfg w.st (w.ops.take (s.count i))) (w.ops.drop (s.count i)), ?_⟩
  rw [← outcomes_append, List.take_append_drop]

/-- **C12, concretely: interleaved = alone.**  Under every schedule in which thread `i` gets to perform all its
    operations (`ws[i].ops.length ≤ s.count i`; whatever the other threads do, finished or not), the outcomes of
    thread `i` are exactly `InstanceX.outcomes` of its operations run alone on its instance, the final state of its
    instance is `InstanceX.runS` of them, and it has nothing left to do. -/
theorem C12X_outputs_eq_sequential (ws : List Worker) (sh : Shared K V) (hv : MemoValid f sh) (s : List Nat)
    (i : Nat) (w : Worker) (hw : ws[i]? = some w) (hfin : w.ops.length ≤ s.count i) :
    outputsX (runX f s ws sh) i = outcomes w.x w.cfg w.st w.ops ∧
    instanceX (runX f s ws sh) i = some (runS w.x w.cfg w.st w.ops) ∧
    pendingX (runX f s ws sh) i = [] := by
  have h := C12X_thread_is_sequential f ws sh hv s i w hw
  rw [List.take_of_length_le hfin, List.drop_of_length_le hfin] at h
  exact h

/-- a schedule lets every thread finish exactly when it gives every thread at least as many steps as it has
    operations -/
theorem C12X_allDone_iff (ws : List Worker) (sh : Shared K V) (hv : MemoValid f sh) (s : List Nat) :
    allDone progX (runX f s ws sh) = true ↔ ∀ i w, ws[i]? = some w → w.ops.length ≤ s.count i := by
  simp only [allDone, List.all_eq_true]
  constructor
  · intro h i w hw
    have hp := (C12X_thread_is_sequential f ws sh hv s i w hw).2.2
    have hi : i < ws.length := (List.getElem?_eq_some_iff.mp hw).1
    have hlen : (runX f s ws sh).threads.length = ws.length := by
      have := run_filter (progX (K := K) (V := V)) f s (initX ws sh)
      have hl : ∀ (s : List Nat) (sys : Sys K V TStX Outcome), (run progX f s sys).threads.length = sys.threads.length := by
        intro s
        induction s with
        | nil => intro sys; rfl
        | cons j s ih => intro sys; rw [run, ih, stepSys_length]
      simp only [runX, hl, initX, initG, List.length_map]
    have hi' : i < (runX f s ws sh).threads.length := by omega
    have hd := (isDone_prog convX resetS _).mp (h _ (List.getElem_mem hi'))
    simp only [pendingX, List.getElem?_eq_getElem hi'] at hp
    rw [hd] at hp
    have := congrArg List.length hp
    simp only [List.length_nil, List.length_drop] at this
    omega
  · intro h t ht
    obtain ⟨i, hi, rfl⟩ := List.getElem_of_mem ht
    have hlen : (runX f s ws sh).threads.length = ws.length := by
      have hl : ∀ (s : List Nat) (sys : Sys K V TStX Outcome), (run progX f s sys).threads.length = sys.threads.length := by
        intro s
        induction s with
        | nil => intro sys; rfl
        | cons j s ih => intro sys; rw [run, ih, stepSys_length]
      simp only [runX, hl, initX, initG, List.length_map]
    have hi' : i < ws.length := by omega
    have hw : ws[i]? = some ws[i] := List.getElem?_eq_getElem hi'
    have hp := (C12X_outputs_eq_sequential f ws sh hv s i ws[i] hw (h i _ hw)).2.2
    simp only [pendingX, List.getElem?_eq_getElem hi] at hp
    exact (isDone_prog convX resetS _).mpr hp

/-- **All threads at once.**  Under every schedule that lets every thread finish, the list of the threads' outcome
    lists is the list of the sequential outcome lists: what one gets by running the threads one after another (in any
    order — each on its own instance). -/
theorem C12X_all_outputs_eq_sequential (ws : List Worker) (sh : Shared K V) (hv : MemoValid f sh) (s : List Nat)
    (hfin : ∀ i w, ws[i]? = some w → w.ops.length ≤ s.count i) :
    allOutputsX (runX f s ws sh) = ws.map (fun w => outcomes w.x w.cfg w.st w.ops) ∧
    (runX f s ws sh).threads.map (·.st.st) = ws.map (fun w => runS w.x w.cfg w.st w.ops) := by
  constructor
  · apply List.ext_getElem?
    intro i
    simp only [allOutputsX, List.getElem?_map]
    cases hw : ws[i]? with
    | none =>
      have h := run_initG convX resetS f (ws.map Worker.store) sh hv s i
      simp only [List.getElem?_map, hw, Option.map_none] at h
      simp only [runX, initX, progX, h, Option.map_none]
    | some w =>
      have h := (C12X_outputs_eq_sequential f ws sh hv s i w hw (hfin i w hw)).1
      simp only [outputsX, trace] at h
      cases ht : (runX f s ws sh).threads[i]? with
      | none =>
        have h' := run_initG convX resetS f (ws.map Worker.store) sh hv s i
        simp only [List.getElem?_map, hw, Option.map_some] at h'
        simp only [runX, initX, progX] at ht
        rw [ht] at h'; cases h'
      | some t => rw [ht] at h; simp only [Option.map_some, h]
  · apply List.ext_getElem?
    intro i
    simp only [List.getElem?_map]
    cases hw : ws[i]? with
    | none =>
      have h := run_initG convX resetS f (ws.map Worker.store) sh hv s i
      simp only [List.getElem?_map, hw, Option.map_none] at h
      simp only [runX, initX, progX, h, Option.map_none]
    | some w =>
      have h := (C12X_outputs_eq_sequential f ws sh hv s i w hw (hfin i w hw)).2.1
      simp only [instanceX] at h
      simp only [h, Option.map_some]

/-- **C12X, schedule independence.**  Two schedules in which every thread takes the same number of steps lead to
    the same system: every thread has the same outcomes, its instance the same state, the same operations remain, and
    the module-level state is the same.  (`Threads.C12_schedule_independent_system`, instantiated.) -/
theorem C12X_schedule_independent (ws : List Worker) (sh : Shared K V) (hv : MemoValid f sh) (s1 s2 : List Nat)
    (h : ∀ i, i < ws.length → s1.count i = s2.count i) :
    runX f s1 ws sh = runX f s2 ws sh :=
  C12_schedule_independent_system progX f (initX ws sh) hv s1 s2
    (by simpa only [initX, initG, List.length_map] using h)

/-- … in terms of what is observed: outcomes and instance states of every thread -/
theorem C12X_schedule_independent_outputs (ws : List Worker) (sh : Shared K V) (hv : MemoValid f sh)
    (s1 s2 : List Nat) (h : ∀ i, i < ws.length → s1.count i = s2.count i) (i : Nat) :
    outputsX (runX f s1 ws sh) i = outputsX (runX f s2 ws sh) i ∧
    instanceX (runX f s1 ws sh) i = instanceX (runX f s2 ws sh) i := by
  rw [C12X_schedule_independent f ws sh hv s1 s2 h]
  exact ⟨rfl, rfl⟩

/-- **Interleaved = sequential schedule.**  Any interleaving `s` leads to the system that the sequential schedule
    with the same step counts leads to: all steps of thread 0, then all steps of thread 1, and so on. -/
theorem C12X_interleaving_eq_sequential (ws : List Worker) (sh : Shared K V) (hv : MemoValid f sh) (s : List Nat) :
    runX f s ws sh = runX f (sequentialOf s ws.length) ws sh :=
  C12X_schedule_independent f ws sh hv s _ (fun i hi => by rw [count_sequentialOf, if_pos hi])

/-- **Complete schedules agree.**  Two schedules that both let every thread finish — they need not have the same
    length: steps of a finished thread do nothing — give every thread the same outcomes and leave every instance in
    the same state. -/
theorem C12X_complete_schedules_agree (ws : List Worker) (sh : Shared K V) (hv : MemoValid f sh) (s1 s2 : List Nat)
    (h1 : allDone progX (runX f s1 ws sh) = true) (h2 : allDone progX (runX f s2 ws sh) = true) :
    allOutputsX (runX f s1 ws sh) = allOutputsX (runX f s2 ws sh) ∧
    (runX f s1 ws sh).threads.map (·.st.st) = (runX f s2 ws sh).threads.map (·.st.st) := by
  have e1 := C12X_all_outputs_eq_sequential f ws sh hv s1 ((C12X_allDone_iff f ws sh hv s1).mp h1)
  have e2 := C12X_all_outputs_eq_sequential f ws sh hv s2 ((C12X_allDone_iff f ws sh hv s2).mp h2)
  exact ⟨e1.1.trans e2.1.symm, e1.2.trans e2.2.symm⟩

/-- **Operations of different threads commute**: `convert`/`reset` of thread `i` and `convert`/`reset` of thread `j`,
    in either order, lead to the same system.  (`Threads.C12_steps_commute`, instantiated.) -/
theorem C12X_steps_commute (sys : Sys K V TStX Outcome) (hv : MemoValid f sys.shared) (i j : Nat) (hij : i ≠ j) :
    stepSys progX f i (stepSys progX f j sys) = stepSys progX f j (stepSys progX f i sys) :=
  C12_steps_commute progX f sys hv i j hij

/-- **The module-level state is not touched**: after every schedule it is what it was (the operations of the model
    do not even read it: the import-time values of the read-only cells are built into `convertS`). -/
theorem C12X_shared_untouched (ws : List Worker) (sh : Shared K V) (s : List Nat) :
    (runX f s ws sh).shared = sh :=
  run_prog_shared convX resetS f s (initX ws sh)

/-! ### fresh instances, `reset()` before every document: the one-shot answers -/

/-- **The server pattern.**  Thread `i` owns an instance (in ANY state) and converts its documents `docs` with
    `reset()` before each (`C11X.resetEach`).  Under every schedule that lets it finish, its outcomes are the
    one-shot answers `convertX x_i cfg_i d` of the end-to-end model, document by document. -/
theorem C12X_fresh_reset_each (ws : List Worker) (sh : Shared K V) (hv : MemoValid f sh) (s : List Nat)
    (i : Nat) (w : Worker) (hw : ws[i]? = some w) (docs : List Str) (hops : w.ops = resetEach docs)
    (hfin : w.ops.length ≤ s.count i) :
    outputsX (runX f s ws sh) i = docs.map (convertX w.x w.cfg) := by
  rw [(C12X_outputs_eq_sequential f ws sh hv s i w hw hfin).1, hops, C11X_reset_each]

/-- **Every conversion preceded by a reset — or the first one on a new instance — is a one-shot conversion.**
    Thread `i` starts with a new instance (`st = fresh`) and its operations are such that every `convert` directly
    follows a `reset` except possibly the very first operation.  Under every schedule that lets it finish, its
    outcomes are `convertX x_i cfg_i` of its documents. -/
theorem C12X_reset_before_each (ws : List Worker) (sh : Shared K V) (hv : MemoValid f sh) (s : List Nat)
    (i : Nat) (w : Worker) (hw : ws[i]? = some w) (hst : w.st = fresh)
    (hops : ResetBefore (.reset :: w.ops) = true) (hfin : w.ops.length ≤ s.count i) :
    outputsX (runX f s ws sh) i = (docsOf w.ops).map (convertX w.x w.cfg) := by
  rw [(C12X_outputs_eq_sequential f ws sh hv s i w hw hfin).1, hst, outcomes_fresh_resetBefore _ _ _ hops]

/-- **A conversion after `reset()` is a one-shot conversion, at the moment it happens.**  If the operations of
    thread `i` begin with `h ++ [reset, convert src]` and the schedule has just let thread `i` perform these — the
    other threads being anywhere in their work — then the outcomes of thread `i` are those of `h` followed by
    `convertX x_i cfg_i src`. -/
theorem C12X_convert_after_reset (ws : List Worker) (sh : Shared K V) (hv : MemoValid f sh) (s : List Nat)
    (i : Nat) (w : Worker) (hw : ws[i]? = some w) (h rest : List Ev) (src : Str)
    (hops : w.ops = h ++ [.reset, .convert src] ++ rest) (hcnt : s.count i = h.length + 2) :
    outputsX (runX f s ws sh) i = outcomes w.x w.cfg w.st h ++ [convertX w.x w.cfg src] := by
  rw [(C12X_thread_is_sequential f ws sh hv s i w hw).1, hops, hcnt]
  have : (h ++ [Ev.reset, Ev.convert src] ++ rest).take (h.length + 2) = h ++ [.reset, .convert src] := by
    rw [List.take_append_of_le_length (by simp)]
    exact List.take_of_length_le (by simp)
  rw [this, C11X_convert_after_reset_outcomes]

/-- the first conversion on a new instance, at the moment it happens -/
theorem C12X_first_convert_fresh (ws : List Worker) (sh : Shared K V) (hv : MemoValid f sh) (s : List Nat)
    (i : Nat) (w : Worker) (hw : ws[i]? = some w) (hst : w.st = fresh) (rest : List Ev) (src : Str)
    (hops : w.ops = .convert src :: rest) (hcnt : s.count i = 1) :
    outputsX (runX f s ws sh) i = [convertX w.x w.cfg src] := by
  rw [(C12X_thread_is_sequential f ws sh hv s i w hw).1, hops, hcnt, hst]
  simp only [List.take_succ_cons, List.take_zero, outcomes, convertS_fresh]

/-! ### with the `meta` extension -/

/-- **Confinement with `meta`** (`convertSM`: the conversion also writes `md.Meta`, part of the state): after any
    schedule thread `i` — store `ts[i]`: configuration `(on, x, cfg)`, instance state, operations — has the outcomes
    `outcomesM` and its instance the state `runSM` of its first `s.count i` operations. -/
theorem C12X_meta_thread_is_sequential (ts : List (TSt (Bool × Exts × Cfg) MdSt)) (sh : Shared K V)
    (hv : MemoValid f sh) (s : List Nat) (i : Nat) (t : TSt (Bool × Exts × Cfg) MdSt) (ht : ts[i]? = some t) :
    (run progM f s (initG ts sh)).threads[i]? =
      some ⟨⟨t.c, runSM t.c.1 t.c.2.1 t.c.2.2 t.st (t.ops.take (s.count i)), t.ops.drop (s.count i)⟩,
        outcomesM t.c.1 t.c.2.1 t.c.2.2 t.st (t.ops.take (s.count i))⟩ := by
  have h := run_initG convM resetS f ts sh hv s i
  simpa only [progM, ht, Option.map_some, runG_convM, outsG_convM] using h

/-- **C12 with `meta`: interleaved = alone.** -/
theorem C12X_meta_outputs_eq_sequential (ts : List (TSt (Bool × Exts × Cfg) MdSt)) (sh : Shared K V)
    (hv : MemoValid f sh) (s : List Nat) (i : Nat) (t : TSt (Bool × Exts × Cfg) MdSt) (ht : ts[i]? = some t)
    (hfin : t.ops.length ≤ s.count i) :
    (run progM f s (initG ts sh)).threads[i]? =
      some ⟨⟨t.c, runSM t.c.1 t.c.2.1 t.c.2.2 t.st t.ops, []⟩, outcomesM t.c.1 t.c.2.1 t.c.2.2 t.st t.ops⟩ := by
  have h := C12X_meta_thread_is_sequential f ts sh hv s i t ht
  rwa [List.take_of_length_le hfin, List.drop_of_length_le hfin] at h

end Concrete

/-! ### kernel-checked runs: three instances with different extension sets -/

namespace Examples

/-- no module-level cell is modelled in the examples (the program does not touch them) -/
def sh0 : Shared Unit Unit := ⟨fun _ => (), fun _ => none⟩
def f0 : Unit → Unit := fun _ => ()

/-- hypothesis `MemoValid` -/
theorem sh0_valid : MemoValid f0 sh0 := by intro k v h; cases h

/-- thread 0: footnotes; two documents WITHOUT `reset()` in between (the second sees the first's footnote) -/
def w0 : Worker :=
  { x := { footnotes := true }
    ops := [.convert "x[^1]\n\n[^1]: one".toList, .convert "y[^1]".toList] }
/-- thread 1: no extension, HTML output; a reference definition, a use, `reset()`, the use again -/
def w1 : Worker :=
  { x := {}
    cfg := { fmt := .html }
    ops := [.convert "[a]: /u".toList, .convert "[x][a]\n***".toList, .reset, .convert "[x][a]".toList] }
/-- thread 2: abbreviations and tables -/
def w2 : Worker :=
  { x := { abbr := true, tables := true }
    ops := [.convert "*[HTML]: Hyper Text".toList, .convert "HTML".toList] }

def interleaved : List Nat := [1, 0, 2, 1, 1, 0, 2, 1]
def sequential : List Nat := [0, 0, 1, 1, 1, 1, 2, 2]

/-- hypothesis "every thread finishes" (`hfin`), for both schedules -/
example : ∀ i w, [w0, w1, w2][i]? = some w → w.ops.length ≤ interleaved.count i := by
  intro i w h
  match i, h with
  | 0, h => cases h; exact Nat.le_of_ble_eq_true rfl
  | 1, h => cases h; exact Nat.le_of_ble_eq_true rfl
  | 2, h => cases h; exact Nat.le_of_ble_eq_true rfl
example : sequentialOf interleaved 3 = sequential := by decide
/-- hypothesis "same number of steps per thread" -/
example : ∀ i, i < [w0, w1, w2].length → interleaved.count i = sequential.count i := by decide

/-- the outcomes, thread by thread -/
def expected : List (List Outcome) :=
    [[.ok ("<p>x<sup id=\"fnref:1\"><a class=\"footnote-ref\" href=\"#fn:1\">1</a></sup></p>\n" ++
        "<div class=\"footnote\">\n<hr />\n<ol>\n<li id=\"fn:1\">\n<p>one&#160;" ++
        "<a class=\"footnote-backref\" href=\"#fnref:1\" title=\"Jump back to footnote 1 in the text\">&#8617;</a></p>\n" ++
        "</li>\n</ol>\n</div>").toList,
      .ok ("<p>y<sup id=\"fnref2:1\"><a class=\"footnote-ref\" href=\"#fn:1\">1</a></sup></p>\n" ++
        "<div class=\"footnote\">\n<hr />\n<ol>\n<li id=\"fn:1\">\n<p>one&#160;" ++
        "<a class=\"footnote-backref\" href=\"#fnref:1\" title=\"Jump back to footnote 1 in the text\">&#8617;</a>" ++
        "<a class=\"footnote-backref\" href=\"#fnref2:1\" title=\"Jump back to footnote 1 in the text\">&#8617;</a></p>\n" ++
        "</li>\n</ol>\n</div>").toList],
     [.ok [], .ok "<p><a href=\"/u\">x</a></p>\n<hr>".toList, .ok "<p>[x][a]</p>".toList],
     [.ok [], .ok "<p><abbr title=\"Hyper Text\">HTML</abbr></p>".toList]]

/-- what the threads obtain one after another, each on its own instance (computed by the kernel) … -/
theorem sequential_outputs : [w0, w1, w2].map (fun w => outcomes w.x w.cfg w.st w.ops) = expected := by
  decide +kernel

/-- … and what they obtain under the interleaving: the kernel RUNS the interleaved system (eight operations of three
    differently configured instances, in the order 1 0 2 1 1 0 2 1) and finds the same outcomes -/
theorem interleaved_outputs : allOutputsX (runX f0 interleaved [w0, w1, w2] sh0) = expected := by decide +kernel

/-- the same from the theorem, without running anything -/
example : allOutputsX (runX f0 interleaved [w0, w1, w2] sh0) =
    [w0, w1, w2].map (fun w => outcomes w.x w.cfg w.st w.ops) :=
  (C12X_all_outputs_eq_sequential f0 [w0, w1, w2] sh0 sh0_valid interleaved (by
    intro i w h
    match i, h with
    | 0, h => cases h; exact Nat.le_of_ble_eq_true rfl
    | 1, h => cases h; exact Nat.le_of_ble_eq_true rfl
    | 2, h => cases h; exact Nat.le_of_ble_eq_true rfl)).1

/-- a schedule that stops in the middle: thread 1 has done two of its four operations, thread 0 one, thread 2 none -/
example : allOutputsX (runX f0 [1, 0, 1] [w0, w1, w2] sh0) =
    [(outcomes w0.x w0.cfg w0.st w0.ops).take 1, (outcomes w1.x w1.cfg w1.st w1.ops).take 2, []] := by decide +kernel

/-- the final states of the instances: thread 1 ended with `reset(); convert` of a document without definitions — no
    references; thread 2's instance still holds the abbreviation -/
example : (instanceX (runX f0 interleaved [w0, w1, w2] sh0) 1).map (·.references) = some [] ∧
    (instanceX (runX f0 interleaved [w0, w1, w2] sh0) 2).map (·.abbrs) =
      some [("HTML".toList, "Hyper Text".toList)] := by decide +kernel

/-- hypotheses of `C12X_fresh_reset_each` / `C12X_reset_before_each` / `C12X_convert_after_reset` -/
example : resetEach ["[a]: /u".toList, "[x][a]".toList] =
    [.reset, .convert "[a]: /u".toList, .reset, .convert "[x][a]".toList] := by decide
example : ResetBefore (.reset :: [.convert "a".toList, .reset, .reset, .convert "b".toList, .reset]) = true := by decide
example : ResetBefore (.reset :: w1.ops) = false := by decide
example : w1.ops = [.convert "[a]: /u".toList, .convert "[x][a]\n***".toList] ++ [.reset, .convert "[x][a]".toList] ++ [] ∧
    interleaved.count 1 = [Ev.convert "[a]: /u".toList, Ev.convert "[x][a]\n***".toList].length + 2 := by decide

/-- with `meta`: two threads, one with the extension and one without, interleaved; `md.Meta` stays with its thread -/
example : (run progM f0 [0, 1, 1, 0] (initG
      [⟨(true, {}, {}), fresh, [.convert "Title: A\n\nbody".toList, .convert "plain".toList]⟩,
       ⟨(false, {}, {}), fresh, [.convert "Title: B\n\nbody".toList, .reset]⟩] sh0)).threads.map
      (fun t => (t.trace, t.st.st.metaData)) =
    [([.ok "<p>body</p>".toList, .ok "<p>plain</p>".toList], []),
     ([.ok "<p>Title: B</p>\n<p>body</p>".toList], [])] ∧
    (run progM f0 [0, 1] (initG
      [⟨(true, {}, {}), fresh, [.convert "Title: A\n\nbody".toList, .convert "plain".toList]⟩,
       ⟨(false, {}, {}), fresh, [.convert "Title: B\n\nbody".toList, .reset]⟩] sh0)).threads.map
      (fun t => t.st.st.metaData) = [[("title".toList, ["A".toList])], []] := by decide +kernel

end Examples

/-! ### operations that access module-level state: read-only cells, caches with eviction, write-only cells -/

section World
variable {K V : Type} [DecidableEq K]

/-- **Confinement over the richer module-level state** (`Lemmas/ThreadsXShared.lean`: read-only cells; CACHE cells
    that are filled on demand with `f k` and may be EVICTED by anybody at any time — `re`'s compiled-pattern cache;
    SCRATCH cells that anybody may overwrite with anything but nobody reads — `attr_list._scanner.match`).  For EVERY
    thread program over these actions and every schedule: a thread is where it is after as many steps on its own
    (reading `ro`, computing `f k` itself, looking neither at the cache nor at a scratch cell); the read-only cells are
    unchanged; the cache holds nothing but `none` or `some (f k)`. -/
theorem C12X_world_thread_is_local {Out σ : Type} (prog : σ → ActionW K V Out σ) (f : K → V)
    (sys : SysW K V σ Out) (hv : CacheValid f sys.world) (s : List Nat) :
    (runW prog f s sys).world.ro = sys.world.ro ∧ CacheValid f (runW prog f s sys).world ∧
    ∀ i, (runW prog f s sys).threads[i]? = (sys.threads[i]?).map (localRunW prog f sys.world.ro (s.count i)) :=
  runW_spec prog f s sys hv

variable [DecidableEq V]
variable (acc : Exts × Cfg → Ev → List (Acc K V)) (expect : Exts × Cfg → Str → List V) (f : K → V)

/-- **C12 with module-level accesses: interleaved = alone.**  Every operation `e` of a thread whose instance is
    configured `c` first makes the accesses `acc c e` to module-level state — ANY list of: read a read-only cell,
    consult a cache cell, evict a cache cell, overwrite a scratch cell — one step each, so that the accesses of
    different threads interleave arbitrarily (another thread may evict or fill a cache cell, or overwrite a scratch
    cell, between two accesses of a conversion); then it computes, from the values it has read.  Assume the cells hold
    their import-time values (`hexp`: what the accesses yield from `w.ro` and `f` is `expect`, the values with which
    `convertS` was validated) and the cache is valid at the start.  Then under every schedule that gives thread `i`
    enough steps to finish, its outcomes are `InstanceX.outcomes` of its operations run alone, the final state of its
    instance is `InstanceX.runS` of them, and nothing is pending. -/
theorem C12X_world_outputs_eq_sequential (ws : List Worker) (w : World K V) (hv : CacheValid f w)
    (hexp : ∀ c src, vals w.ro f (acc c (.convert src)) = expect c src) (s : List Nat) (i : Nat) (wk : Worker)
    (hw : ws[i]? = some wk) (hfin : stepsOf acc (wk.x, wk.cfg) wk.ops ≤ s.count i) :
    (runXW acc expect f s ws w).threads[i]? =
      some ⟨⟨(wk.x, wk.cfg), runS wk.x wk.cfg wk.st wk.ops, [], [], []⟩, outcomes wk.x wk.cfg wk.st wk.ops⟩ := by
  have h := runW_initW acc (convXV expect) resetS f (ws.map Worker.store) w hv s i wk.store
    (by simp [hw]) hfin
  simp only [Worker.store, runV_convXV acc expect w.ro f hexp, outsV_convXV acc expect w.ro f hexp] at h
  exact h

/-- … for a thread that HAS finished, however many steps the schedule gave it -/
theorem C12X_world_finished_eq_sequential (ws : List Worker) (w : World K V) (hv : CacheValid f w)
    (hexp : ∀ c src, vals w.ro f (acc c (.convert src)) = expect c src) (s : List Nat) (i : Nat) (wk : Worker)
    (hw : ws[i]? = some wk) (u : Thread (TStW (Exts × Cfg) MdSt K V) Outcome)
    (hu : (runXW acc expect f s ws w).threads[i]? = some u) (hd : u.st.ops = []) :
    u = ⟨⟨(wk.x, wk.cfg), runS wk.x wk.cfg wk.st wk.ops, [], [], []⟩, outcomes wk.x wk.cfg wk.st wk.ops⟩ := by
  have h := runW_initW_done acc (convXV expect) resetS f (ws.map Worker.store) w hv s i wk.store
    (by simp [hw]) u hu ((isDoneW_progW acc (convXV expect) resetS u).mpr hd)
  simp only [Worker.store, runV_convXV acc expect w.ro f hexp, outsV_convXV acc expect w.ro f hexp] at h
  exact h

/-- the module-level state after every schedule: read-only cells unchanged, cache valid -/
theorem C12X_world_invariant (ws : List Worker) (w : World K V) (hv : CacheValid f w) (s : List Nat) :
    (runXW acc expect f s ws w).world.ro = w.ro ∧ CacheValid f (runXW acc expect f s ws w).world :=
  ⟨(runW_spec _ f s _ hv).1, (runW_spec _ f s _ hv).2.1⟩

end World

/-! ### kernel-checked run: a cache cell hit, filled and evicted by two threads, a scratch cell overwritten -/

namespace WorldExample

/-- three module-level cells: the lexicon of `attr_list._scanner` (read-only), the compiled abbreviation pattern in
    `re`'s cache (cache), `attr_list._scanner.match` (scratch) -/
inductive Cell
  | lexicon | abbrPattern | scannerMatch
  deriving DecidableEq

/-- values are tokens -/
def ro0 : Cell → Nat
  | .lexicon => 7
  | _ => 0
/-- what `re.compile` computes -/
def f0 : Cell → Nat
  | .abbrPattern => 11
  | _ => 0

/-- a conversion with `attr_list` reads the lexicon and overwrites `match` (here: with the length of ITS document);
    a conversion with `abbr` consults the pattern cache — and evicts the entry afterwards (the most hostile policy) -/
def acc0 (c : Exts × Cfg) : Ev → List (Acc Cell Nat)
  | .convert s => (if c.1.attrList then [.ro .lexicon, .scribble .scannerMatch s.length] else []) ++
                  (if c.1.abbr then [.cache .abbrPattern, .drop .abbrPattern] else [])
  | .reset => []

/-- the import-time values -/
def expect0 (c : Exts × Cfg) (_ : Str) : List Nat :=
  (if c.1.attrList then [7] else []) ++ (if c.1.abbr then [11] else [])

def world0 : World Cell Nat := ⟨ro0, fun _ => none, fun _ => 0⟩

/-- hypothesis `CacheValid`: the empty cache -/
theorem world0_valid : CacheValid f0 world0 := by intro k v h; cases h

/-- hypothesis `hexp`: the cells hold the import-time values -/
theorem hexp0 : ∀ c src, vals world0.ro f0 (acc0 c (.convert src)) = expect0 c src := by
  intro c src
  cases h1 : c.1.attrList <;> cases h2 : c.1.abbr <;> simp [acc0, expect0, vals, h1, h2, world0, ro0, f0]

/-- thread 0: `attr_list` and `abbr` -/
def wa : Worker :=
  { x := { attrList := true, abbr := true }
    ops := [.convert "# H {#i .c}".toList, .convert "p\n{: title=t }".toList] }
/-- thread 1: `abbr`; definition and use, `reset()`, the use again -/
def wb : Worker :=
  { x := { abbr := true }
    ops := [.convert "*[HTML]: Hyper Text\n\nHTML".toList, .reset, .convert "HTML".toList] }

/-- thread 1 fills the cache; thread 0 reads the lexicon, scribbles, HITS the cache; thread 1 evicts under its feet,
    converts; thread 0 evicts again, converts; … -/
def sched : List Nat := [1, 0, 0, 0, 1, 1, 0, 0, 1, 0, 0, 1, 0, 0, 1, 1, 0]

/-- hypothesis `hfin` for both threads -/
example : stepsOf acc0 (wa.x, wa.cfg) wa.ops = 10 ∧ stepsOf acc0 (wb.x, wb.cfg) wb.ops = 7 ∧
    sched.count 0 = 10 ∧ sched.count 1 = 7 := by decide

/-- the kernel runs the 17 steps: the outcomes are the sequential ones … -/
theorem interleaved_outputs :
    (runXW acc0 expect0 f0 sched [wa, wb] world0).threads.map (·.trace) =
      [[.ok "<h1 class=\"c\" id=\"i\">H</h1>".toList, .ok "<p title=\"t\">p</p>".toList],
       [.ok "<p><abbr title=\"Hyper Text\">HTML</abbr></p>".toList, .ok "<p>HTML</p>".toList]] ∧
    [wa, wb].map (fun w => outcomes w.x w.cfg w.st w.ops) =
      [[.ok "<h1 class=\"c\" id=\"i\">H</h1>".toList, .ok "<p title=\"t\">p</p>".toList],
       [.ok "<p><abbr title=\"Hyper Text\">HTML</abbr></p>".toList, .ok "<p>HTML</p>".toList]] := by decide +kernel

/-- … while the module-level state did change on the way: after the first four steps the cache entry is there and
    `match` holds what thread 0 wrote; at the end the entry is evicted and `match` holds thread 0's last value -/
example : (runXW acc0 expect0 f0 (sched.take 4) [wa, wb] world0).world.cache .abbrPattern = some 11 ∧
    (runXW acc0 expect0 f0 (sched.take 4) [wa, wb] world0).world.scratch .scannerMatch = 11 ∧
    (runXW acc0 expect0 f0 sched [wa, wb] world0).world.cache .abbrPattern = none ∧
    (runXW acc0 expect0 f0 sched [wa, wb] world0).world.scratch .scannerMatch = 14 := by decide +kernel

/-- why `CacheValid` is a hypothesis: with a poisoned cache entry (a value that `re.compile` would not have
    computed) the model claims nothing about the conversion that hits it -/
example : (runXW acc0 expect0 f0 [1, 1, 1] [wa, wb] ⟨ro0, fun _ => some 99, fun _ => 0⟩).threads.map (·.trace) =
    [[], [.ood]] := by decide +kernel

end WorldExample

/-! ### the hypothesis "distinct instances" is needed -/

/-- **Two threads, ONE instance: they observe each other.**  Thread 0 converts a reference definition and then a
    document that uses it (no `reset()` in between: it relies on the documented persistence); thread 1 calls
    `reset()` on the same instance.  Every operation is taken to be atomic (the most favourable assumption).
    * Under the schedule `[0, 0, 1]` thread 0 obtains what it obtains alone: `['', '<p><a href="/u">x</a></p>']`.
    * Under `[0, 1, 0]` — the reset of thread 1 falls between the two conversions — it obtains `'<p>[x][a]</p>'`:
      different from its sequential outcomes, and different from what ANY sequential order of the two threads gives
      (`[0, 0, 1]` and `[1, 0, 0]` both give the link).
    With two instances the same schedule is harmless (`C12X_outputs_eq_sequential`; second part). -/
theorem C12X_shared_instance_counterexample :
    let ops0 : List Ev := [.convert "[a]: /u".toList, .convert "[x][a]".toList]
    let ops1 : List Ev := [.reset]
    -- alone
    outcomes {} {} fresh ops0 = [.ok [], .ok "<p><a href=\"/u\">x</a></p>".toList] ∧
    -- one shared instance
    (runShared {} {} [0, 0, 1] (initShared [ops0, ops1])).threads.map (·.2) =
      [[.ok [], .ok "<p><a href=\"/u\">x</a></p>".toList], []] ∧
    (runShared {} {} [1, 0, 0] (initShared [ops0, ops1])).threads.map (·.2) =
      [[.ok [], .ok "<p><a href=\"/u\">x</a></p>".toList], []] ∧
    (runShared {} {} [0, 1, 0] (initShared [ops0, ops1])).threads.map (·.2) =
      [[.ok [], .ok "<p>[x][a]</p>".toList], []] ∧
    -- two instances, the same schedule
    allOutputsX (runX Examples.f0 [0, 1, 0] [{ x := {}, ops := ops0 }, { x := {}, ops := ops1 }] Examples.sh0) =
      [[.ok [], .ok "<p><a href=\"/u\">x</a></p>".toList], []] := by decide +kernel

/-- **… and the outcome depends on the order**: thread 0 converts `[a]: /u`, thread 1 converts `[x][a]`, on ONE
    instance.  Under `[0, 1]` thread 1 gets a link to the URL that thread 0's document defined, under `[1, 0]` it
    does not (alone, on its own instance: never).  Likewise the footnote-reference counter: the second of two threads
    that convert the same footnote document on one instance gets the id `fnref2:1`. -/
theorem C12X_shared_instance_order_dependent :
    (runShared {} {} [0, 1] (initShared [[.convert "[a]: /u".toList], [.convert "[x][a]".toList]])).threads.map (·.2) =
      [[.ok []], [.ok "<p><a href=\"/u\">x</a></p>".toList]] ∧
    (runShared {} {} [1, 0] (initShared [[.convert "[a]: /u".toList], [.convert "[x][a]".toList]])).threads.map (·.2) =
      [[.ok []], [.ok "<p>[x][a]</p>".toList]] ∧
    outcomes {} {} fresh [.convert "[x][a]".toList] = [.ok "<p>[x][a]</p>".toList] ∧
    ((runShared { footnotes := true } {} [0, 1] (initShared
        [[.convert "x[^1]\n\n[^1]: one".toList], [.convert "x[^1]\n\n[^1]: one".toList]])).threads.map
      (fun t => t.2.map (fun o => match o with
        | .ok s => (s.take 22 == "<p>x<sup id=\"fnref2:1\"".toList)
        | _ => false))) = [[false], [true]] := by decide +kernel

end MdVerif.ThreadsX
