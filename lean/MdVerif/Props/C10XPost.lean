/-
C10 on the extension model (`PipelineX.convertX`), part: the footnote placeholders and the abbreviation stage.

C10 — "The output never contains the STX/ETX control characters or any of the placeholder tokens the converter uses
internally (… footnote back-links), provided the input does not itself spell those tokens."

Only property statements live here.  Vocabulary: `MdVerif/Spec/NoCtl.lean`; helper lemmas and the predicates `FnWF`,
`StrsP`, `KeyOK`, `AbbrsOK`, `noDigitsAbbr`: `MdVerif/Lemmas/PlaceholdersXPost.lean`.  Core Lean only.

1. *The footnote postprocessor* (`FootnotePostprocessor.run` = two `str.replace`): `C10X_footnote_postprocess` (no
   occurrence of `FN_BACKLINK_TEXT`, `NBSP_PLACEHOLDER` is left, for every text), `C10X_footnote_postprocess_final`
   and `C10X_footnote_tokens_output` (the later steps `AndSubstitutePostprocessor`, `.strip()` create none: the answer
   of `convertX` with footnotes enabled holds neither of them nor `AMP_SUBSTITUTE`, whatever the source is),
   `C10X_footnote_postprocess_noctl` (when every STX/ETX of the text belongs to a footnote placeholder — `FnWF` — no
   STX/ETX is left at all).
2. *The footnote tree processor writes exactly these placeholders*: `C10X_footnote_treeprocessor_writes`.
3. *F-C10-6*, kernel-checked on the model exactly as the implementation produces it: `C10X_leak_digits_abbr` (an
   abbreviation that is a number matches inside an escape token, which `UnescapeTreeprocessor` then no longer
   recognises), `C10X_leak_digits_abbr_rawhtml` (the same inside a raw-HTML placeholder), and the stage lemma that
   bounds the defect: `C10X_abbr_stage`, `C10X_abbr_then_unescape` (no abbreviation that is a number ⇒ the
   abbreviation stage keeps "ordinary characters and escape tokens only", and `UnescapeTreeprocessor` then leaves no
   STX/ETX).
-/
import MdVerif.Lemmas.PlaceholdersXPost

namespace MdVerif.NoCtlX
open MdVerif.NoCtl Py

/-! ## 1. The footnote postprocessor -/

/-- **`FootnotePostprocessor.run` removes every footnote placeholder**: whatever the text is, neither
    `FN_BACKLINK_TEXT` (`STX zz1337820767766393qq ETX`) nor `NBSP_PLACEHOLDER` (`STX qq3936677670287331zz ETX`) occurs
    in its result.  (`str.replace` in general may leave occurrences of its pattern — `"aabb".replace("ab", "")` — and
    the second `replace` might re-create the first pattern; here the replacements `&#8617;`, `&#160;` start with `&`,
    which no placeholder holds, and hold no STX.) -/
theorem C10X_footnote_postprocess (t : Str) :
    contains (FootnotesTree.postprocess t) FootnotesTree.fnBacklinkText = false ∧
    contains (FootnotesTree.postprocess t) FootnotesTree.nbspPlaceholder = false :=
  ⟨postprocess_no_backlink t, postprocess_no_nbsp t⟩

example : FootnotesTree.postprocess "<p>x\x02qq3936677670287331zz\x03<a>\x02zz1337820767766393qq\x03</a></p>".toList =
    "<p>x&#160;<a>&#8617;</a></p>".toList := by decide

/-- a text where a placeholder is interrupted by another one: the pieces stay (they are not occurrences) -/
example : FootnotesTree.postprocess "\x02qq3936\x02zz1337820767766393qq\x03677670287331zz\x03".toList =
    "\x02qq3936&#8617;677670287331zz\x03".toList := by decide

/-- **The end of `convert` with footnotes enabled** (`PipelineX.finishX`: `<div>` strip, raw_html 30, footnote 25,
    amp_substitute 20, `.strip()`): the answer holds no `FN_BACKLINK_TEXT`, no `NBSP_PLACEHOLDER` and no
    `AMP_SUBSTITUTE`, whatever the serialised document and the HTML stash are. -/
theorem C10X_footnote_postprocess_final (x : PipelineX.Exts) (cfg : Pipeline.Cfg) (stash : List Str) (output : Str)
    (hx : x.footnotes = true) {out : Str} (h : PipelineX.finishX x cfg stash output = .ok out) :
    contains out FootnotesTree.fnBacklinkText = false ∧ contains out FootnotesTree.nbspPlaceholder = false ∧
    hasAmpSub out = false := by
  unfold PipelineX.finishX at h
  split at h
  · cases h
  · split at h
    · cases h
    · next t _ r hr =>
      simp only [PipelineX.postX, hx, if_true, Option.map_eq_some_iff] at hr
      obtain ⟨r0, _, rfl⟩ := hr
      simp only [Pipeline.Outcome.ok.injEq] at h
      subst h
      exact final_no_tokens r0

/-- the tail of `finishX` on a concrete text -/
example : strip (Post.ampSub (FootnotesTree.postprocess
    " <p>a \x02amp\x03 b\x02qq3936677670287331zz\x03<a>\x02zz1337820767766393qq\x03</a></p>\n".toList)) =
    "<p>a & b&#160;<a>&#8617;</a></p>".toList := by decide

/-- **No footnote placeholder reaches the output of the converter** (end to end, every source, every set of
    extensions that includes footnotes): an answer of `convertX` holds neither `FN_BACKLINK_TEXT` nor
    `NBSP_PLACEHOLDER` nor `AMP_SUBSTITUTE` as a substring.  (This says nothing about a placeholder that an earlier
    stage has cut into pieces — with `abbr` and the abbreviation `qq3936677670287331zz`, i.e. an input that spells the
    token, its STX and ETX do reach the output: last example of this file.) -/
theorem C10X_footnote_tokens_output (x : PipelineX.Exts) (cfg : Pipeline.Cfg) (src : Str) (hx : x.footnotes = true)
    {out : Str} (h : PipelineX.convertX x cfg src = .ok out) :
    contains out FootnotesTree.fnBacklinkText = false ∧ contains out FootnotesTree.nbspPlaceholder = false ∧
    hasAmpSub out = false := by
  unfold PipelineX.convertX at h
  split at h
  · cases h
  · split at h
    · cases h
    · split at h
      · simp only [Pipeline.Outcome.ok.injEq] at h
        subst h
        exact ⟨rfl, rfl, rfl⟩
      · split at h
        · cases h
        · cases h
        · cases h
        · exact C10X_footnote_postprocess_final x cfg _ _ hx h

/-- **On a text whose STX/ETX all belong to footnote placeholders** (`FnWF`: ordinary characters, `FN_BACKLINK_TEXT`s
    and `NBSP_PLACEHOLDER`s, concatenated) **the footnote postprocessor leaves no STX and no ETX**, and neither do the
    steps after it; every character of the result is a character of the text or one of `&#8617;160`. -/
theorem C10X_footnote_postprocess_noctl {t : Str} (h : FnWF t) :
    NoCtl (FootnotesTree.postprocess t) ∧ NoCtl (strip (Post.ampSub (FootnotesTree.postprocess t))) ∧
    ∀ c ∈ FootnotesTree.postprocess t, c ∈ t ∨ c ∈ "&#8617;160".toList :=
  ⟨postprocess_noctl_of h, (ampSub_noctl (postprocess_noctl_of h)).strip, fun _ hc => mem_postprocess hc⟩

example : FnWF "<p>x\x02qq3936677670287331zz\x03<a>\x02zz1337820767766393qq\x03</a></p>".toList :=
  (FnWFb.of_noCtl (s := "<p>x".toList) (by decide)).append
    (fnWF_nbsp.append ((FnWFb.of_noCtl (s := "<a>".toList) (by decide)).append
      (fnWF_backlink.append (FnWFb.of_noCtl (s := "</a></p>".toList) (by decide)))))

/-- `FnWF` cannot be replaced by "deleting the two placeholders leaves no STX/ETX": deleting `FN_BACKLINK_TEXT` may
    complete an `NBSP_PLACEHOLDER`, substituting `&#8617;` does not -/
example :
    let t := "\x02qq3936\x02zz1337820767766393qq\x03677670287331zz\x03".toList
    NoCtl (replace (replace t FootnotesTree.fnBacklinkText []) FootnotesTree.nbspPlaceholder []) ∧
    ¬ NoCtl (FootnotesTree.postprocess t) := by decide

/-! ## 2. The footnote tree processor writes exactly these placeholders -/

/-- **`makeFootnotesDiv` writes `FN_BACKLINK_TEXT` and `NBSP_PLACEHOLDER` and nothing else of STX/ETX**: the
    back-link element holds `FN_BACKLINK_TEXT` as text (no tail, no child), and `addBacklink` changes one string only,
    the text of the last `p`, by appending `NBSP_PLACEHOLDER` — so when every text and tail of the `li` is `FnWF`, every
    text and tail of the result is. -/
theorem C10X_footnote_treeprocessor_writes (id : Str) (index : Nat) {li li' : Node}
    (hli : li.Forall (StrsP FnWF))
    (h : FootnotesTree.addBacklink li (FootnotesTree.backlink id index) = some li') :
    (FootnotesTree.backlink id index).text = some FootnotesTree.fnBacklinkText ∧ li'.Forall (StrsP FnWF) := by
  refine ⟨rfl, addBacklink_strs (fun _ => fnWF_append_nbsp) hli ?_ h⟩
  rw [Node.forall_iff]
  refine ⟨⟨fun t ht => ?_, fun t ht => by cases ht⟩, fun c hc => by cases hc⟩
  rw [backlink_text, Option.some.injEq] at ht
  subst ht
  exact fnWF_backlink

/-- (the trees are shown serialised) -/
example :
    (FootnotesTree.addBacklink
      { FootnotesTree.el "li" with children := [{ FootnotesTree.el "p" with text := some "x".toList }] }
      (FootnotesTree.backlink "1".toList 1)).map (Ser.serialize .xhtml) =
    some ("<li><p>x\x02qq3936677670287331zz\x03<a class=\"footnote-backref\" href=\"#fnref:1\" " ++
      "title=\"Jump back to footnote 1 in the text\">\x02zz1337820767766393qq\x03</a></p></li>").toList := by decide +kernel

/-! ## 3. F-C10-6: an abbreviation that is a number -/

/-- **F-C10-6 (defect, kernel-checked on the model; the implementation answers the same):** `AbbrTreeprocessor`
    (priority 7) runs before `UnescapeTreeprocessor` (0).  The backslash escape `\*` is held in the tree as the escape
    token `STX 42 ETX`; the abbreviation `42` matches inside it (`\b42\b`: STX and ETX are not word characters), the
    token is cut into the text `STX`, an `abbr` element and the tail `ETX`, and `UnescapeTreeprocessor` no longer
    recognises it: STX and ETX reach the output, and the `*` is lost.
    `markdown.markdown('\\*\n*[42]:T', extensions=['abbr'])` is `'<p>\x02<abbr title="T">42</abbr>\x03</p>'`. -/
theorem C10X_leak_digits_abbr :
    PipelineX.convertX { abbr := true } {} "\\*\n*[42]:T".toList =
      .ok "<p>\x02<abbr title=\"T\">42</abbr>\x03</p>".toList := by decide +kernel

/-- **F-C10-6, second form:** an entity is held in the tree as the raw-HTML placeholder `STX wzxhzdk:0 ETX`; the
    abbreviation `0` matches its number, and `RawHtmlPostprocessor` no longer recognises the placeholder.
    `markdown.markdown('&amp;\n*[0]:T', extensions=['abbr'])` is `'<p>\x02wzxhzdk:<abbr title="T">0</abbr>\x03</p>'`. -/
theorem C10X_leak_digits_abbr_rawhtml :
    PipelineX.convertX { abbr := true } {} "&amp;\n*[0]:T".toList =
      .ok "<p>\x02wzxhzdk:<abbr title=\"T\">0</abbr>\x03</p>".toList := by decide +kernel

/-- the table of the witness violates the hypothesis of `C10X_abbr_stage`, a table of ordinary abbreviations (digits
    among other characters are fine) satisfies it -/
example : noDigitsAbbr [("42".toList, "T".toList)] = false ∧
    noDigitsAbbr [("HTML".toList, "Hyper Text".toList), ("W3C".toList, "x".toList), ("٤٢".toList, "y".toList)] = true := by
  decide

/-- **The abbreviation stage keeps "ordinary characters and escape tokens only"** (`FNode`: what the inline stage
    hands to the tree processors on the domain of `C10`), when no abbreviation holds STX or ETX and **no abbreviation
    is a number** (`noDigitsAbbr`; ASCII digits — the class in which the converter writes the codes of its tokens):
    `finditer` of `\b(?:k1|k2|…)\b` then cuts a text only between tokens.  Without the last hypothesis the statement
    is false: `C10X_leak_digits_abbr`. -/
theorem C10X_abbr_stage {abbrs : List (Str × Str)} {t : Node} (h : t.Forall FNode)
    (hn : ∀ kv ∈ abbrs, NoCtl kv.1 ∧ NoCtl kv.2) (hd : noDigitsAbbr abbrs = true) :
    (AbbrTree.run abbrs t).Forall FNode :=
  abbr_run_fnode h (abbrsOK_of hn hd)

/-- … and `UnescapeTreeprocessor` after it restores every escape token: no STX and no ETX is left in the tree. -/
theorem C10X_abbr_then_unescape {abbrs : List (Str × Str)} {t u : Node} (h : t.Forall FNode)
    (hn : ∀ kv ∈ abbrs, NoCtl kv.1 ∧ NoCtl kv.2) (hd : noDigitsAbbr abbrs = true)
    (hu : TreeProc.unescapeTree (AbbrTree.run abbrs t) = some u) : TreeNoCtl u :=
  unescapeTree_fnode (C10X_abbr_stage h hn hd) hu

/-- the abbreviation `a` next to an escape token: the token survives the stage and is restored (tree shown
    serialised) -/
example :
    (TreeProc.unescapeTree (AbbrTree.run [("a".toList, "T".toList)]
      { tag := .name "p".toList, text := some ("a".toList ++ escToken 42 ++ "a 42 a".toList) })).map
        (Ser.serialize .xhtml) =
      some "<p><abbr title=\"T\">a</abbr>*<abbr title=\"T\">a</abbr> 42 <abbr title=\"T\">a</abbr></p>".toList := by
  decide +kernel

/-- the same with the abbreviation `42`: the token is cut, STX and ETX stay -/
example :
    (TreeProc.unescapeTree (AbbrTree.run [("42".toList, "T".toList)]
      { tag := .name "p".toList, text := some ("a".toList ++ escToken 42) })).map (Ser.serialize .xhtml) =
      some "<p>a\x02<abbr title=\"T\">42</abbr>\x03</p>".toList := by decide +kernel

/-- an input that *spells* a footnote placeholder as an abbreviation (excluded by the property text): the
    placeholder is cut and its STX and ETX reach the output; the implementation answers the same -/
example :
    PipelineX.convertX { abbr := true, footnotes := true } {} "[^1]\n\n[^1]: x\n*[qq3936677670287331zz]:T".toList =
      .ok ("<p><sup id=\"fnref:1\"><a class=\"footnote-ref\" href=\"#fn:1\">1</a></sup></p>\n<div class=\"footnote\">\n" ++
        "<hr />\n<ol>\n<li id=\"fn:1\">\n<p>x\x02<abbr title=\"T\">qq3936677670287331zz</abbr>\x03" ++
        "<a class=\"footnote-backref\" href=\"#fnref:1\" title=\"Jump back to footnote 1 in the text\">&#8617;</a></p>\n" ++
        "</li>\n</ol>\n</div>").toList := by decide +kernel

end MdVerif.NoCtlX
