/-
C16, documented-rendering clause — "each bundled extension renders its documented syntax as documented".  This
file: **wiki links**, end to end on the extension pipeline model (`Model/PipelineX.lean`, `convertX` with
`wikilinks := true`, every other extension off, both output formats, default configuration of the extension).

`Spec/WikiDoc.lean` says how a link is written (`printWiki pre label post`: a paragraph `pre[[label]]post`) and
which HTML it stands for (`specWiki`: `<p>pre<a class="wikilink" href="/Label_with_underscores/">label</a>post</p>`).
Helper lemmas: `Lemmas/WikiRender.lean` — the sixteen core patterns and the wiki-link pattern in the order of the
pattern table (`reference`, `link`, … come *before* `wikilink`: `[[label]]` is first taken by `short_reference`
as a reference to the undefined `[label]`, a match without a node, and only then by the wiki-link pattern),
`InlineProcessor.run` over an arbitrary pattern table on a paragraph with one stashed element (`runX_one`), the
serializer (attributes sorted: `class` before `href`), the end of `convert`.  Core Lean only.

Well-formedness (`WikiOK`, decidable): `pre` and `post` are running text (ASCII letters, digits, space, `.`, `,`),
`pre` does not start with a space or a digit; the label is not empty, over ASCII letters, digits, space and `-`,
has no space at either end and no two spaces in a row.  Kernel-checked examples of what happens outside at the end
(same on the implementation).
-/
import MdVerif.Spec.WikiDoc
import MdVerif.Lemmas.WikiRender

namespace MdVerif.WikiDoc
open Py

/-! ### examples of the vocabulary -/

example : printWiki "see ".toList "Front Page".toList ".".toList = "see [[Front Page]].".toList := by decide
example : specWiki "see ".toList "Front Page".toList ".".toList =
    "<p>see <a class=\"wikilink\" href=\"/Front_Page/\">Front Page</a>.</p>".toList := by decide
example : wikiUrl "a-b 2".toList = "/a-b_2/".toList := by decide
example : WikiOK "see ".toList "Front Page".toList ".".toList = true := by decide
example : WikiOK [] "a-b 2".toList [] = true := by decide
example : LabelOK "a  b".toList = false := by decide
example : LabelOK " a ".toList = false := by decide
example : LabelOK [] = false := by decide
example : LabelOK "a.b".toList = false := by decide
example : singleSpaced "a b c".toList = true := by decide
example : StartOK "1 x".toList = false := by decide

/-! ### the steps -/

/-- **the wiki-link pattern** finds `[[label]]` behind bracket-free text and returns the label -/
theorem C16_wiki_found (pre label post : Str) (hpre : pre.all textCh = true) (hpost : post.all textCh = true)
    (hl : LabelOK label = true) :
    InlineX.wikiScan (printWiki pre label post) 0 = some (label, pre.length, pre.length + (label.length + 4)) := by
  have hp := labelOK_parts hpre hpost hl
  have := wikiScan_at pre label post (InlineRef.plain_not_mem hp.pre (by decide)) hp.wiki (labelOK_facts hl).1 0
  simpa using this

/-- **`WikiLinksInlineProcessor.handleMatch`** on a well-formed label: an `a` element with the label as text, the
    target `/` + label with `_` for spaces + `/`, and the class `wikilink` -/
theorem C16_wiki_element (label : Str) (hl : LabelOK label = true) :
    InlineX.wikiNode label =
      .el { tag := .name "a".toList,
            attrs := [("href".toList, wikiUrl label), ("class".toList, "wikilink".toList)], text := some label } :=
  wikiNode_el hl

/-- **the core patterns come first**: `short_reference` takes `[[label]]` as a reference to `[label]`, which is not
    defined — a match without a node, from the first bracket to behind the last; `reference` and `link` find nothing.
    (So the wiki-link pattern gets its turn; with a definition of `[label]` in the document it would not.) -/
theorem C16_wiki_core_patterns (cfg : Inline.Cfg) (hrefs : cfg.refs = []) (st : Inline.St) (pre label post : Str)
    (hpre : pre.all textCh = true) (hpost : post.all textCh = true) (hl : LabelOK label = true) :
    Inline.findMatch cfg 2 (printWiki pre label post) 0 st = some (none, st) ∧
    Inline.findMatch cfg 3 (printWiki pre label post) 0 st = some (none, st) ∧
    Inline.findMatch cfg 6 (printWiki pre label post) 0 st =
      some (some ⟨.none, pre.length, ((pre.length + label.length + 4 : Nat) : Int)⟩, st) ∧
    Inline.findMatch cfg 6 (printWiki pre label post) (pre.length + label.length + 4) st = some (none, st) :=
  findMatch_wiki cfg hrefs st (labelOK_parts hpre hpost hl)

/-! ### end to end -/

/-- **C16, wiki links render as documented.**  For every well-formed paragraph `pre[[label]]post`
    `Markdown(extensions=['wikilinks']).convert` returns exactly the documented HTML — in both output formats
    (`cfg.fmt` is arbitrary), for every tab length `> 0`. -/
theorem C16_wikilink_renders (cfg : Pipeline.Cfg) (hbl : cfg.blockLevel = TreeProc.defaultBlockLevel)
    (htab : 0 < cfg.tab) (pre label post : Str) (h : WikiOK pre label post = true) :
    PipelineX.convertX { wikilinks := true } cfg (printWiki pre label post) = .ok (specWiki pre label post) :=
  convertX_wiki cfg hbl htab h

/-- concrete instances, evaluated by the kernel on the model (same on the implementation) -/
example : PipelineX.convertX { wikilinks := true } {} "see [[Front Page]].".toList =
    .ok "<p>see <a class=\"wikilink\" href=\"/Front_Page/\">Front Page</a>.</p>".toList := by decide +kernel
example : PipelineX.convertX { wikilinks := true } { fmt := .html } "[[a-b 2]]".toList =
    .ok "<p><a class=\"wikilink\" href=\"/a-b_2/\">a-b 2</a></p>".toList := by decide +kernel

/-! ### outside the statement (behaviour of the code) -/

/-- a run of spaces in the label becomes one `_` in the target; the text keeps the spaces -/
example : PipelineX.convertX { wikilinks := true } {} "[[a  b]]".toList =
    .ok "<p><a class=\"wikilink\" href=\"/a_b/\">a  b</a></p>".toList := by decide +kernel

/-- spaces around the label are stripped -/
example : PipelineX.convertX { wikilinks := true } {} "[[ a ]]".toList =
    .ok "<p><a class=\"wikilink\" href=\"/a/\">a</a></p>".toList := by decide +kernel

/-- a blank label gives nothing -/
example : PipelineX.convertX { wikilinks := true } {} "[[ ]]".toList = .ok "<p></p>".toList := by decide +kernel

/-- a character outside `[\w0-9_ -]`: not a wiki link -/
example : PipelineX.convertX { wikilinks := true } {} "[[a.b]]".toList = .ok "<p>[[a.b]]</p>".toList := by
  decide +kernel

/-- an underscore in the label is kept (not covered by `WikiOK`, which keeps to letters, digits, space, `-`) -/
example : PipelineX.convertX { wikilinks := true } {} "[[a_b]]".toList =
    .ok "<p><a class=\"wikilink\" href=\"/a_b/\">a_b</a></p>".toList := by decide +kernel

end MdVerif.WikiDoc
