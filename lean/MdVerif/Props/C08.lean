/-
C08 — "If B begins with a paragraph, heading or horizontal rule, then converting A, a blank line, and B yields the
rendering of A followed by the rendering of B.  Earlier content never changes how later, unrelated blocks are parsed,
and later content never changes earlier blocks."

This file composes the two halves on the pipeline model `Pipeline.convert` (`Model/Pipeline.lean`):
* `Props/C08Block.lean` — the block parser: the tree of `T_A ++ T_B` is the tree of `T_A` followed by the tree of `T_B`;
* `Props/C08Inline.lean` — inline stage, tree processors, serializer, postprocessors: the output for `div[csA ++ csB]`
  is the output for `div[csA]`, a newline, the output for `div[csB]`.
Bridges (helper lemmas in `Lemmas/C08Compose.lean`): the normaliser works on "A, blank line, B" part by part
(`C08_normalize_split`); the raw-HTML preprocessor is the identity without `&`; the block trees of such sources are
plain, without references, and their top-level children are block-level elements without tails
(`C08_block_trees_plain`).  Core Lean only.

Domain of `C08` (every hypothesis is an explicit decidable predicate or an equation about a run of the model):
* sources `A`, `B` without `[`, `&`, `<`, `>` (`srcOk`) — hence no raw HTML, no entities, no links/references and no
  reference definitions; `>` is excluded because the inline half needs texts without it (no block quotes, therefore;
  `C08_partial` needs the plainness of the block trees only, see there);
* `A` is not blank (a blank `A` is converted to `""` by the early exit of `convert`) and does not end with a carriage
  return (it would fuse with the line feed of the blank line: `C08_counter_cr`);
* the first block of normalised `B` `startsPHR` (begins with a paragraph, heading or rule: `Props/C08Block.lean`);
* `hcode`: the normalised `A` ends with an odd number of line feeds (e.g. the source ends with one newline), or its
  block tree does not end with a code block.  This is a limitation of the proof, not of the property: in the
  remaining case the two trees differ by the `"\n\n"` that `A`'s final empty block appends to the code text
  (`C08_counter_even_filler` in `Props/C08Block.lean`), which `PrettifyTreeprocessor` strips again — tests on the
  model and on the implementation show equal outputs there too;
* configuration: `xhtml` output, `ESCAPED_CHARS` without STX, `div` and the block-stage tags are block-level;
* the hypotheses the inline half keeps: the three block parses and the three inline runs return (fuel), at most
  10000 inline stash entries, and `hr`: no placeholder is left in the result of the combined run (or in the two
  separate results).

Statement: `convert (A ++ "\n\n" ++ B) = .ok (outA ++ "\n" ++ outB)` when `convert A = .ok outA`, `convert B = .ok outB`
and the block tree of `A` is not empty (`C08`); when the block tree of `A` is empty — `A` consists of STX/ETX only —
the combined document is converted as `B` alone (`C08_empty_A`), i.e. the join is `outA ++ outB` with `outA = ""`.
-/
import MdVerif.Lemmas.C08Compose

namespace MdVerif.C08
open Py Block Normalize InlineLocal Inline

/-! ### bridges -/

/-- **Normalisation of "A, blank line, B".**  Unless `A` (after the removal of STX/ETX) ends with a carriage return,
    `normalize_whitespace` of `A ++ "\n\n" ++ B` is that of `A` followed by that of `B`. -/
theorem C08_normalize_split (tab : Nat) (A B : Str) (h : (stripCtl A).getLast? ≠ some '\r') :
    normalize tab (A ++ nn ++ B) = normalize tab A ++ normalize tab B :=
  normalize_split tab A B h

/-- the normalised text ends with a blank line (what `C08_text` of the block half needs) -/
theorem C08_normalize_ends (tab : Nat) (s : Str) : ∃ X, normalize tab s = X ++ nn :=
  normalize_ends_nn tab s

/-- the excluded point: a carriage return at the end of `A` and the first line feed of the blank line are one CRLF -/
theorem C08_counter_cr :
    normalize 4 ("a\r".toList ++ nn ++ "b".toList) ≠ normalize 4 "a\r".toList ++ normalize 4 "b".toList := by
  decide +kernel

example : (stripCtl "# T\n\n- a\n".toList).getLast? ≠ some '\r' := by decide +kernel

/-- **The block trees of the domain.**  For a source without `[ & < >`: the text handed to the block parser is the
    normalised source (the raw-HTML preprocessor does nothing); the block tree is the bare `div` around children
    whose texts and tails are plain (`plainTreeLB okI`: no `[ & < >`, no placeholder); the top-level children are
    block-level elements without tail; no reference is defined. -/
theorem C08_block_trees_plain (pc : Pipeline.Cfg) (hbl : blockLevelOk pc.blockLevel = true) {src : Str}
    (h : src.all srcOk = true) {r : Node} {f : Refs}
    (hp : parseDocument pc.tab (Pipeline.prepare pc src) = some (r, f)) :
    Pipeline.prepare pc src = normalize pc.tab src ∧ r = root r.children ∧ f = [] ∧
      plainTreeLB okI r.children = true ∧
      ∀ c ∈ r.children, blockChild pc.blockLevel c = true ∧ c.tail = none := by
  obtain ⟨q, a⟩ := prepare_eq pc h
  rw [q] at hp
  obtain ⟨pl, e⟩ := block_tree_plain a hp
  exact ⟨q, parse_root hp, e, pl, top_children_block hbl hp⟩

example : "# T\n\n- a *b*\n- `c`\n\n    code\n".toList.all srcOk = true := by decide +kernel
example : blockLevelOk ({} : Pipeline.Cfg).blockLevel = true ∧ divBlock ({} : Pipeline.Cfg).blockLevel = true ∧
    ({} : Pipeline.Cfg).esc.contains Inline.STX = false := by decide +kernel

/-- **The block half at source level**: for sources of the domain, the block tree of `A ++ "\n\n" ++ B` is the
    tree of `A` followed by the tree of `B`, exactly. -/
theorem C08_block_half (pc : Pipeline.Cfg) {A B : Str} (hA : A.all srcOk = true) (hB : B.all srcOk = true)
    (hCR : (stripCtl A).getLast? ≠ some '\r')
    (hb : startsPHR pc.tab ((splitS nn (normalize pc.tab B)).headD []) = true)
    {ra rb rab : Node} {fa fb fab : Refs}
    (pA : parseDocument pc.tab (Pipeline.prepare pc A) = some (ra, fa))
    (pB : parseDocument pc.tab (Pipeline.prepare pc B) = some (rb, fb))
    (pAB : parseDocument pc.tab (Pipeline.prepare pc (A ++ nn ++ B)) = some (rab, fab))
    (hcode : (splitS nn (normalize pc.tab A)).getLast? = some ['\n'] ∨ noTrailingCode ra) :
    rab = root (ra.children ++ rb.children) ∧ fab = [] ∧ fa = [] ∧ fb = [] := by
  obtain ⟨qA, aA⟩ := prepare_eq pc hA
  obtain ⟨qB, aB⟩ := prepare_eq pc hB
  obtain ⟨qAB, -⟩ := prepare_eq pc (srcOk_compose hA hB)
  rw [qA] at pA; rw [qB] at pB; rw [qAB, normalize_split pc.tab A B hCR] at pAB
  obtain ⟨X, hX⟩ := normalize_ends_nn pc.tab A
  obtain ⟨-, rfl⟩ := block_tree_plain aA pA
  obtain ⟨-, rfl⟩ := block_tree_plain aB pB
  rw [hX] at pA pAB hcode
  obtain ⟨e1, e2⟩ := text_compose hb pA pB pAB hcode
  exact ⟨e1, e2, rfl, rfl⟩

/-! ### the property -/

/-- **C08, all remaining hypotheses explicit.**  The conversion of `A`, a blank line, `B` is the conversion of `A`, a
    newline, the conversion of `B`; it raises iff one of the two raises (`chr()` out of range in unescape). -/
theorem C08_partial (pc : Pipeline.Cfg) (hfmt : pc.fmt = .xhtml) (hesc : pc.esc.contains Inline.STX = false)
    (hd : divBlock pc.blockLevel = true) (hbl : blockLevelOk pc.blockLevel = true)
    {A B : Str} (hA : A.all srcOk = true) (hB : B.all srcOk = true)
    (hCR : (stripCtl A).getLast? ≠ some '\r') (hnA : isBlankDoc A = false)
    (hb : startsPHR pc.tab ((splitS nn (normalize pc.tab B)).headD []) = true)
    {ra rb rab : Node} {fa fb fab : Refs}
    (pA : parseDocument pc.tab (normalize pc.tab A) = some (ra, fa))
    (pB : parseDocument pc.tab (normalize pc.tab B) = some (rb, fb))
    (pAB : parseDocument pc.tab (normalize pc.tab (A ++ nn ++ B)) = some (rab, fab))
    (hcode : (splitS nn (normalize pc.tab A)).getLast? = some ['\n'] ∨ noTrailingCode ra)
    (hne : ra.children ≠ [])
    {rA rB r : Node} {tA tB t : St}
    (eA : Inline.run { esc := pc.esc, refs := [] } (root ra.children) = some (rA, tA))
    (eB : Inline.run { esc := pc.esc, refs := [] } (root rb.children) = some (rB, tB))
    (eAB : Inline.run { esc := pc.esc, refs := [] } (root (ra.children ++ rb.children)) = some (r, t))
    (hNA : tA.stash.length ≤ 10000) (hNB : tB.stash.length ≤ 10000) (hN : t.stash.length ≤ 10000)
    (hr : plainTreeB okI r = true ∨ (plainTreeB okI rA = true ∧ plainTreeB okI rB = true)) :
    Pipeline.convert pc (A ++ nn ++ B) =
      match Pipeline.convert pc A, Pipeline.convert pc B with
      | .ok oA, .ok oB => .ok (oA ++ ['\n'] ++ oB)
      | _, _ => .err :=
  convert_compose pc hfmt hesc hd hbl hA hB hCR hnA hb pA pB pAB hcode hne eA eB eAB hNA hNB hN hr

/-- **C08.**  `convert A = outA`, `convert B = outB`, `B` begins with a paragraph, heading or rule:
    `convert (A ++ "\n\n" ++ B) = outA ++ "\n" ++ outB`. -/
theorem C08 (pc : Pipeline.Cfg) (hfmt : pc.fmt = .xhtml) (hesc : pc.esc.contains Inline.STX = false)
    (hd : divBlock pc.blockLevel = true) (hbl : blockLevelOk pc.blockLevel = true)
    {A B : Str} (hA : A.all srcOk = true) (hB : B.all srcOk = true)
    (hCR : (stripCtl A).getLast? ≠ some '\r') (hnA : isBlankDoc A = false)
    (hb : startsPHR pc.tab ((splitS nn (normalize pc.tab B)).headD []) = true)
    {outA outB : Str} (cA : Pipeline.convert pc A = .ok outA) (cB : Pipeline.convert pc B = .ok outB)
    {ra rb rab : Node} {fa fb fab : Refs}
    (pA : parseDocument pc.tab (normalize pc.tab A) = some (ra, fa))
    (pB : parseDocument pc.tab (normalize pc.tab B) = some (rb, fb))
    (pAB : parseDocument pc.tab (normalize pc.tab (A ++ nn ++ B)) = some (rab, fab))
    (hcode : (splitS nn (normalize pc.tab A)).getLast? = some ['\n'] ∨ noTrailingCode ra)
    (hne : ra.children ≠ [])
    {rA rB r : Node} {tA tB t : St}
    (eA : Inline.run { esc := pc.esc, refs := [] } (root ra.children) = some (rA, tA))
    (eB : Inline.run { esc := pc.esc, refs := [] } (root rb.children) = some (rB, tB))
    (eAB : Inline.run { esc := pc.esc, refs := [] } (root (ra.children ++ rb.children)) = some (r, t))
    (hNA : tA.stash.length ≤ 10000) (hNB : tB.stash.length ≤ 10000) (hN : t.stash.length ≤ 10000)
    (hr : plainTreeB okI r = true ∨ (plainTreeB okI rA = true ∧ plainTreeB okI rB = true)) :
    Pipeline.convert pc (A ++ nn ++ B) = .ok (outA ++ ['\n'] ++ outB) := by
  rw [C08_partial pc hfmt hesc hd hbl hA hB hCR hnA hb pA pB pAB hcode hne eA eB eAB hNA hNB hN hr, cA, cB]

/-- **C08 when the block tree of `A` is empty** (`A` is not blank, but consists of STX/ETX characters only, which the
    normaliser removes): the combined document is converted as `B` alone — `outA` is empty and no newline is
    inserted.  No hypothesis on the inline stage is needed. -/
theorem C08_empty_A (pc : Pipeline.Cfg) {A B : Str} (hA : A.all srcOk = true) (hB : B.all srcOk = true)
    (hCR : (stripCtl A).getLast? ≠ some '\r') (hnA : isBlankDoc A = false)
    (hb : startsPHR pc.tab ((splitS nn (normalize pc.tab B)).headD []) = true)
    {ra rb rab : Node} {fa fb fab : Refs}
    (pA : parseDocument pc.tab (normalize pc.tab A) = some (ra, fa))
    (pB : parseDocument pc.tab (normalize pc.tab B) = some (rb, fb))
    (pAB : parseDocument pc.tab (normalize pc.tab (A ++ nn ++ B)) = some (rab, fab))
    (hempty : ra.children = []) :
    Pipeline.convert pc (A ++ nn ++ B) = Pipeline.convert pc B :=
  convert_compose_emptyA pc hA hB hCR hnA hb pA pB pAB hempty

/-! ### the hypotheses are satisfiable by a non-trivial input, and the conclusion computed -/

section Example

/-- A: a heading, a list with emphasis and a code span whose last item continues with an indented block; the source
    ends with one newline (odd case) -/
def srcA : Str := "# T\n\n- a *b*\n- `c`\n\n    code\n".toList
/-- B: a paragraph with a lazy rule after it, then a heading -/
def srcB : Str := "para **x**\n---\n\n## h\n".toList

example : srcA.all srcOk = true ∧ srcB.all srcOk = true ∧ (stripCtl srcA).getLast? ≠ some '\r' ∧
    isBlankDoc srcA = false ∧ startsPHR 4 ((splitS nn (normalize 4 srcB)).headD []) = true ∧
    (splitS nn (normalize 4 srcA)).getLast? = some ['\n'] := by decide +kernel

/-- the three block parses and the three inline runs return, the block tree of `A` has two children, 2 + 1 = 3 stash
    entries, no placeholder is left in the combined result -/
example :
    (match parseDocument 4 (normalize 4 srcA), parseDocument 4 (normalize 4 srcB),
        parseDocument 4 (normalize 4 (srcA ++ nn ++ srcB)) with
     | some (ra, _), some (rb, _), some _ =>
       (match Inline.run {} (root ra.children), Inline.run {} (root rb.children),
          Inline.run {} (root (ra.children ++ rb.children)) with
        | some (_, tA), some (_, tB), some (r, t) =>
          decide (ra.children.length = 2) && decide (tA.stash.length = 2) && decide (tB.stash.length = 1) &&
            decide (t.stash.length = 3) && plainTreeB okI r
        | _, _, _ => false)
     | _, _, _ => false) = true := by decide +kernel

/-- the conclusion on this input -/
example :
    (match Pipeline.convert {} srcA, Pipeline.convert {} srcB, Pipeline.convert {} (srcA ++ nn ++ srcB) with
     | .ok a, .ok b, .ok ab => decide (ab = a ++ ['\n'] ++ b) && decide (a.length = 88) && decide (b.length = 43)
     | _, _, _ => false) = true := by decide +kernel

/-- `C08_empty_A`: `A` = one STX character -/
example : isBlankDoc [Normalize.STX] = false ∧
    (parseDocument 4 (normalize 4 [Normalize.STX])).map (fun x => x.1.children.length) = some 0 ∧
    Pipeline.convert {} ([Normalize.STX] ++ nn ++ srcB) = Pipeline.convert {} srcB := by decide +kernel

end Example

end MdVerif.C08
