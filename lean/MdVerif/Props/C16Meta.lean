/-
C16 for the `meta` extension (`markdown/extensions/meta.py`): "bundled extensions render their syntax as documented and
change nothing else".

Models: `Meta.run` (`Model/Ext/Meta.lean`, = `MetaPreprocessor.run`: the lines it returns and `md.Meta` as the list of
its items) and `PipelineM.convertM on x cfg src` (`Model/PipelineM.lean`, = `Markdown(extensions=[…] + ['meta']).convert`
together with `md.Meta`; `x` are the eleven extension flags of `PipelineX.convertX`, `cfg` tab length / output format /
escaped characters / block-level tags), both validated by `harness/corr/meta.py` (0 disagreements on 3·10⁵ cases) and
`harness/mirror/mirror_meta.py`.  The documented syntax is `Spec/MetaHeader.lean`.

  * `C16_meta_position`        the preprocessor stands between `normalize_whitespace` and `fenced_code_block`/`html_block`
                               in the registry computed from the generated registration table
  * `C16_meta_off`             without the extension `convertM` is `convertX`
  * `C16_meta_documented`      a documented header (optional `---`, keyword lines with additional lines, then a blank
                               line or `---`/`...`) followed by ANY lines: `Meta.run` returns exactly those lines and
                               the documented dictionary (keys lower-cased, values stripped, repeated keys merged)
  * `C16_meta_suffix`          for every input the lines handed on are a suffix of the lines received
  * `C16_meta_noninterference` a document whose first line is no meta data (not blank, not the opener `---`/`--- …`,
                               not `keyword:`): `Meta.run` returns the lines and `{}`; `convert` with `meta` is `convert`
                               without it — for every combination of the other extensions, every configuration
  * `C16_meta_body_untouched`  `convert` with `meta` on `header ++ terminator ++ body` is `convert` WITHOUT `meta` on
                               `body` alone (same output, or same `ood`/`err`/`oof` answer), and `md.Meta` is the
                               documented dictionary — nothing of the header reaches the later stages, nothing of the
                               body is altered, for every combination of the other extensions

The model is that of the REPAIRED code ("fix: meta: …", F-C16-3): `BEGIN_RE`/`END_RE` reach the end of the line, and
`END_RE` is only honoured once an opening deliminator or a keyword has been seen (`began or key is not None`).  Before
the repair any first line starting with `...` or `---` was swallowed (`convert('...and so on\n\ntext') == '<p>text</p>'`,
`convert('----\ntext') == '<p>text</p>'`, `convert('... and so on\n\ntext') == '<p>text</p>'`: all lost their first
block) and a keyword `---x:` at the margin ended the header; these witnesses are now covered by
`C16_meta_noninterference` (examples at the end).  By design a first line `---` (alone or followed by white space) is
the YAML opener and is consumed; a blank first line is popped (harmless).  Both are kept as kernel-checked examples.
-/
import MdVerif.Lemmas.MetaPipe
import MdVerif.Model.Dispatch

namespace MdVerif.PipelineM
open Py Pipeline PipelineX Meta MetaSpec MetaRun MetaPipe

/-! ### hypotheses, with inhabitants -/

/-- the header of the documentation page, with a repeated key and an indented keyword -/
def exEntries : List Entry := [
  { key := "Title".toList, raw := "   My Document".toList },
  { key := "Summary".toList, raw := " A brief description".toList, conts := [(4, "of my document.".toList)] },
  { key := "Authors".toList, raw := " Waylan Limberg <w@l.org>".toList, conts := [(9, "John Doe".toList)] },
  { key := "title".toList, raw := " again".toList },
  { indent := 2, key := "blank-value".toList, raw := [] }]

example : exEntries.all (fun e => e.ok && Entry.clean e) = true := by decide
example : (headerLines (some "---".toList) exEntries).map String.ofList =
    ["---", "Title:   My Document", "Summary: A brief description", "    of my document.",
     "Authors: Waylan Limberg <w@l.org>", "         John Doe", "title: again", "  blank-value:"] := by decide
example : (specDict exEntries).map (fun kv => (String.ofList kv.1, kv.2.map String.ofList)) =
    [("title", ["My Document", "again"]), ("summary", ["A brief description", "of my document."]),
     ("authors", ["Waylan Limberg <w@l.org>", "John Doe"]), ("blank-value", [""])] := by decide
example : beginMatch "---".toList = true ∧ cleanLine "---".toList = true := by decide
example : endMatch "...".toList = true ∧ cleanLine "...".toList = true := by decide
example : notMetaStart "# A heading: with a colon".toList = true ∧ cleanLine "# A heading: with a colon".toList = true := by
  decide
example : notMetaStart "Plain words, then: a colon".toList = true := by decide
example : notMetaStart "    key: value in a code block".toList = true := by decide
example : firstLine 4 "\tkey: v\r\nnext".toList = "    key: v".toList := by decide

/-! ### position in the registry -/

/-- `meta` (27) runs after `normalize_whitespace` (30) and before `fenced_code_block` (25) and `html_block` (20): the
    order computed by the registry model from the registration table regenerated from the source -/
theorem C16_meta_position :
    Dispatch.order ["core", "fenced_code", "meta"] "preprocessors" =
      ["normalize_whitespace", "meta", "fenced_code_block", "html_block"] ∧
    Dispatch.order ["core", "meta"] "preprocessors" = ["normalize_whitespace", "meta", "html_block"] := by decide

/-- without the `meta` extension `convertM` is `convertX` (and `md.Meta` is empty): the model with the meta step is a
    conservative extension of the model without it -/
theorem C16_meta_off (x : Exts) (cfg : Cfg) (src : Str) : convertM false x cfg src = (convertX x cfg src, []) :=
  convertM_off x cfg src

/-! ### the documented syntax -/

/-- **Documented rendering.**  Lines made of an optional opening deliminator `open_` (`---`, or `---`, white space and
    anything), the
    lines of a non-empty list of well-formed entries `es` (`Entry.ok`: keyword over `[A-Za-z0-9_-]` indented by at most
    three blanks, a colon, the value; additional lines indented by four blanks or more, not blank), a terminator
    line (blank, or `---`/`...` optionally followed by white space and anything) and then ANY lines `body`:
    `MetaPreprocessor.run` returns exactly `body`, and `md.Meta` is the documented dictionary `specDict es` — lower-cased
    keys in the order of their first occurrence, each with the list of its stripped lines, a repeated key extending
    its list. -/
theorem C16_meta_documented (open_ : Option Str) (es : List Entry) (term : Str) (body : List Str)
    (ho : ∀ b, open_ = some b → beginMatch b = true) (hne : es ≠ []) (hes : ∀ e ∈ es, e.ok = true)
    (ht : isBlank term = true ∨ endMatch term = true) :
    Meta.run (headerLines open_ es ++ term :: body) = (body, specDict es) :=
  run_header open_ es term body ho hne hes ht

example : Meta.run (headerLines none exEntries ++ [] :: ["---".toList, "k: not meta".toList]) =
    (["---".toList, "k: not meta".toList], specDict exEntries) :=
  C16_meta_documented none exEntries [] _ (by simp) (by decide) (by decide) (Or.inl rfl)

/-- **Nothing is rewritten.**  For EVERY list of lines the preprocessor returns a suffix of it: it only ever removes lines
    from the top, it never alters or reorders a line that it hands on. -/
theorem C16_meta_suffix (ls : List Str) : (Meta.run ls).1 <:+ ls := run_suffix ls

/-! ### non-interference -/

/-- **Non-interference, preprocessor level.**  A first line that is not blank, is not the opening deliminator (`---` alone
    or followed by white space) and is not a keyword line (`notMetaStart`): the preprocessor returns the lines as they
    are, and an empty dictionary. -/
theorem C16_meta_run_noninterference (l : Str) (r : List Str) (h : notMetaStart l = true) :
    Meta.run (l :: r) = (l :: r, []) :=
  run_inert l r h

/-- no colon in the first line is enough for "not a keyword line" -/
theorem C16_meta_no_colon (l : Str) (h1 : isBlank l = false) (h2 : beginMatch l = false) (h3 : ':' ∉ l) :
    notMetaStart l = true := by
  simp [notMetaStart, h1, h2, metaMatch_none_of_no_colon h3]

/-- **Non-interference, end to end.**  When the first line of the normalised source (`firstLine cfg.tab src`: what the
    preprocessor sees first) is no meta data, enabling `meta` changes nothing: the same outcome as without it — for all
    eleven other extensions in any combination, every configuration, every source — and `md.Meta` is empty. -/
theorem C16_meta_noninterference (x : Exts) (cfg : Cfg) (src : Str)
    (h : notMetaStart (firstLine cfg.tab src) = true) :
    convertM true x cfg src = (convertX x cfg src, []) :=
  convertM_inert x cfg src h

/-- the same with the hypothesis on the source text itself: its first line (up to the first line feed) has no STX,
    ETX, carriage return or tab (`cleanLine`; the normalisation then leaves it alone) and is no meta data -/
theorem C16_meta_noninterference_src (x : Exts) (cfg : Cfg) (src : Str)
    (hc : cleanLine (srcFirstLine src) = true) (h : notMetaStart (srcFirstLine src) = true) :
    convertM true x cfg src = (convertX x cfg src, []) := by
  apply convertM_inert
  rw [firstLine_of_src cfg.tab src hc]; exact h

example : convertM true { tables := true, toc := true } {} "# A heading: with a colon\n\nk: v\n".toList =
    (convertX { tables := true, toc := true } {} "# A heading: with a colon\n\nk: v\n".toList, []) :=
  C16_meta_noninterference_src _ _ _ (by decide) (by decide)

/-! ### the body is untouched -/

/-- **The header is consumed, the body untouched.**  Source = the lines of a documented header (optional opening
    deliminator, well-formed entries without STX/ETX/CR/tab), a terminator line (empty, or `---…`/`...…`), a line feed,
    and ANY body that is not blank: converting it with `meta` enabled gives exactly what converting the body alone gives
    WITHOUT `meta` (the same output, or the same `ood`/`err`/`oof` answer: the header leaves no trace in the later
    stages and the body reaches them unchanged), and `md.Meta` is the documented dictionary — for all eleven other
    extensions in any combination and every configuration.  (`<` inside the header — `Author: <a@b.c>` — is allowed.) -/
theorem C16_meta_body_untouched (x : Exts) (cfg : Cfg) (open_ : Option Str) (es : List Entry) (term body : Str)
    (ho : ∀ b, open_ = some b → beginMatch b = true ∧ cleanLine b = true) (hne : es ≠ [])
    (hes : ∀ e ∈ es, e.ok = true ∧ Entry.clean e = true)
    (ht : term = [] ∨ (endMatch term = true ∧ cleanLine term = true))
    (hb : Normalize.isBlankDoc body = false) :
    convertM true x cfg (joinLines (headerLines open_ es ++ [term]) ++ '\n' :: body) =
      (convertX x cfg body, specDict es) :=
  convertM_header x cfg open_ es term body ho hne hes ht hb

/-- the plain form: `header ++ "\n\n" ++ body` -/
theorem C16_meta_body_untouched_plain (x : Exts) (cfg : Cfg) (es : List Entry) (body : Str) (hne : es ≠ [])
    (hes : ∀ e ∈ es, e.ok = true ∧ Entry.clean e = true) (hb : Normalize.isBlankDoc body = false) :
    convertM true x cfg (joinLines (es.flatMap Entry.lines) ++ ['\n', '\n'] ++ body) =
      (convertX x cfg body, specDict es) := by
  have h := C16_meta_body_untouched x cfg none es [] body (by simp) hne hes (Or.inl rfl) hb
  have hl : es.flatMap Entry.lines ≠ [] := by
    cases es with
    | nil => exact absurd rfl hne
    | cons e r => simp [Entry.lines]
  have : joinLines (headerLines none es ++ [[]]) ++ '\n' :: body =
      joinLines (es.flatMap Entry.lines) ++ ['\n', '\n'] ++ body := by
    simp only [headerLines, Option.toList_none, List.nil_append, joinLines]
    rw [join_append _ hl (by simp)]
    simp [join]
  rw [← this]; exact h

example : convertM true { fencedCode := true, footnotes := true } {}
      (joinLines (headerLines (some "---".toList) exEntries ++ ["...".toList]) ++ '\n' :: "# Head[^1]\n\n```\nk: v\n```\n\n[^1]: n".toList) =
    (convertX { fencedCode := true, footnotes := true } {} "# Head[^1]\n\n```\nk: v\n```\n\n[^1]: n".toList, specDict exEntries) :=
  C16_meta_body_untouched _ _ _ _ _ _ (by decide) (by decide) (by decide) (by decide) (by decide)

/-! ### the witnesses of F-C16-3, repaired; the points excluded by design (kernel-checked) -/

/-- F-C16-3, first witness: before the repair `Markdown(extensions=['meta']).convert('...and so on\n\ntext')` was
    `'<p>text</p>'` (the first paragraph swallowed: `END_RE` without `$` matched any line starting with `...`, and was
    honoured with no header open).  Now non-interference applies. -/
example : notMetaStart "...and so on".toList = true := by decide
example : convertM true {} {} "...and so on\n\ntext".toList = (convertX {} {} "...and so on\n\ntext".toList, []) :=
  C16_meta_noninterference_src _ _ _ (by decide) (by decide)
example : (convertM true {} {} "...and so on\n\ntext".toList).1 = .ok "<p>...and so on</p>\n<p>text</p>".toList := by
  decide +kernel

/-- F-C16-3, second witness: a rule of four dashes on the first line was taken for the opening deliminator
    (`convert('----\ntext')` was `'<p>text</p>'`).  Repaired likewise. -/
example : notMetaStart "----".toList = true := by decide
example : (convertM true {} {} "----\ntext".toList).1 = .ok "<hr />\n<p>text</p>".toList := by decide +kernel

/-- F-C16-3, third witness: a first line that IS an end deliminator (`... and so on` with a blank after the dots, `...`)
    was popped and dropped although nothing was open (`convert('... and so on\n\ntext')` was `'<p>text</p>'`).  Now
    `END_RE` needs an opener or a keyword before it. -/
example : notMetaStart "... and so on".toList = true ∧ notMetaStart "...".toList = true := by decide
example : Meta.run ["... and so on".toList, [], "text".toList] = (["... and so on".toList, [], "text".toList], []) := by
  decide
example : (convertM true {} {} "... and so on\n\ntext".toList).1 = .ok "<p>... and so on</p>\n<p>text</p>".toList := by
  decide +kernel

/-- a keyword that starts with `---` is a keyword (before the repair such a line at the margin ended the header) -/
example : Meta.run ["a: b".toList, "---x: v".toList, "k: w".toList] =
    ([], [("a".toList, ["b".toList]), ("---x".toList, ["v".toList]), ("k".toList, ["w".toList])]) := by decide

/-- the end deliminators still end a header: after the opener, or after a keyword -/
example : Meta.run ["---".toList, "...".toList, "body".toList] = (["body".toList], []) := by decide
example : Meta.run ["a: b".toList, "... x".toList, "body".toList] = (["body".toList], [("a".toList, ["b".toList])]) := by
  decide

/-- BY DESIGN: a first line `---` (alone or followed by white space) is the YAML opener and is consumed — a document
    that starts with such a rule loses it when `meta` is enabled (hence the `!beginMatch` clause of `notMetaStart`) -/
example : (convertM true {} {} "---\n\ntext".toList).1 = .ok "<p>text</p>".toList ∧
    convertX {} {} "---\n\ntext".toList = .ok "<hr />\n<p>text</p>".toList := by decide +kernel

/-- a blank first line is popped (harmless for the output: the block parser drops leading blank lines) -/
example : Meta.run [[], "k: v".toList] = (["k: v".toList], []) := by decide

/-- an additional line before any keyword is not meta data: nothing is consumed -/
example : Meta.run ["    indented".toList, "k: v".toList] = (["    indented".toList, "k: v".toList], []) := by decide

/-- a header that is not followed by a blank line ends at the first line that is neither a keyword nor an additional
    line; that line stays -/
example : Meta.run ["k: v".toList, "text".toList] = (["text".toList], [("k".toList, ["v".toList])]) := by decide

/-- the deliminators: what follows `---` / `...` must be nothing or start with white space -/
example : beginMatch "--- yaml".toList = true ∧ beginMatch "----".toList = false ∧ beginMatch "---x".toList = false ∧
    endMatch "... ".toList = true ∧ endMatch "....".toList = false ∧ endMatch "---\tx".toList = true := by decide

end MdVerif.PipelineM
