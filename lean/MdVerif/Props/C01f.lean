/-
C01, the whole block grammar with the whole emphasis grammar — Canonical Markdown renders to the prescribed structure;
nesting one construct inside another, or choosing a different spelling, never changes the rendering.

`C01_nest_full`: for every well-formed document of the sub-grammar `Nest2Doc` (`Spec/DocNest2.lean`) and EVERY spelling,

    Pipeline.convert {} (print d sp) = .ok (spec d).

`Nest2Doc`: every block, at every depth, is
* a thematic break, or a paragraph / ATX heading / Setext heading whose inline content is `deep2Run` — the content of
  `C01_em_nested` (`Props/C01b.lean`): words, backslash escapes, code spans without `<`, and `em` / `strong` whose
  content is words, escapes, code spans and again `em` / `strong` around words, escapes and code spans (all the
  emphasis nesting `WF` allows), with every delimiter and fence choice of `print`;
* a block quote of such blocks — also of lists —, in either of its spellings;
* a bullet or ordered list, tight or loose, whose items are made of such blocks — also of quotes.
There is no bound on the depth.  This is the union of `C01_nest` (`Props/C01e.lean`: the same block grammar with one
level of emphasis around words) and `C01_em_nested` (the same inline grammar in flat documents); it contains `NestDoc`
(`C01_full_covers_nest`) and the documents of `Deep2Doc` without code blocks (`C01_full_covers_deep2`).  With `WF` it
is the whole `Doc` grammar except: indented code blocks inside or beside the nesting, links / images / autolinks /
hard breaks, and the one excluded junction (an escaped backslash directly before a code span, `noBsBeforeCode`).

How it is proved: `Lemmas/DocParseNest2{Tree,Block,Doc}.lean` are `Lemmas/DocParseNest{Tree,Block,Doc}.lean` carried
over to texts `Txt.mix t0 (segs : List Seg2)` of `Lemmas/DocParse3.lean`.  The block stage (`…2Block`) and the shape of
`print` (`…2Doc`) go through unchanged — they use of a text line only that the block processors leave it alone
(`RawOK`) — with the lemmas of `C01_em_nested` in place of those of `C01_inline_mix`.  The tree stages (`…2Tree`) are
new where the inline processor's stack is concerned: the elements it makes of a text now have children and
grandchildren; each is pushed when it is made and again (if it has children) every time its parent is popped, and
popping it visits everything below it once more without effect (`StillBelow`; `C01_full_tree_inline` accounts for the
fuel with a bound instead of an exact count).

Tested (real implementation, `harness/corr/nest2.py`): 0 differences on 49 200 (document, spelling) pairs of `Nest2Doc`,
nested to depth 5; the generator and the predicate agree on 250 of 250 generated documents.
-/
import MdVerif.Model.Pipeline
import MdVerif.Spec.Doc
import MdVerif.Spec.DocNest
import MdVerif.Spec.DocNest2
import MdVerif.Props.C01b
import MdVerif.Lemmas.DocParseNest2Doc

namespace MdVerif.DocNest2
open Py Block DocSpec Escape Inline DocParse DocParse2 CodeLaw

/-! ### the later stages on trees with texts of two levels of emphasis -/

/-- **Inline stage** on a `<div>` of element trees (`NT`) whose texts are lines with emphasis to two levels: every text
    is processed where it sits; the elements made of it (`Txt.inl`, with their children and grandchildren) stand before
    the block children; the HTML stash is untouched. -/
theorem C01_full_tree_inline (cfg : Inline.Cfg) (hE : EscOK cfg.esc) (hs : EscSup cfg.esc) (ts : List NT)
    (hok : NT.oks cfg.esc ts) (html : List Str) :
    ∃ st', st'.html = html ∧
      Inline.run cfg (divOf (ts.map (NT.src cfg.esc))) html = some (divOf (ts.map (NT.mid cfg.esc)), st') :=
  run_nt cfg hE hs ts hok html

/-- **Paths below which nothing is left to do are skipped by the stack loop**: every element below them is left alone
    when visited (`StillBelow`), so popping them and what they push changes neither the tree nor the stashes; it costs
    at most their weight in fuel. -/
theorem C01_full_skip (cfg : Inline.Cfg) (g2 : Nat) (root : Node) (stack : List Path) (st : Inline.St) (n : Nat)
    (pre : List Path) (hn : mStack root pre ≤ n)
    (h : ∀ q ∈ pre, ∀ cur, getAt root q = some cur → ∃ b, b + 1 ≤ g2 ∧ StillBelow cfg b cur) :
    ∃ k, k ≤ n ∧ ∀ g, runLoop cfg g2 (g + k) root (pre ++ stack) st = runLoop cfg g2 g root stack st :=
  runLoop_skipStill cfg g2 root stack st n pre hn h

/-- **Rendering** of such trees: start tag, the text with its inline elements (or a line feed when there is no text
    but there are children), the block children each followed by a line feed, end tag; `<hr />` for a rule. -/
theorem C01_full_tree_render (cfg : Pipeline.Cfg) (hE : EscOK cfg.esc) (hs : EscSup cfg.esc)
    (hbl : cfg.blockLevel = TreeProc.defaultBlockLevel) (hfmt : cfg.fmt = .xhtml)
    (refs : List (Str × Str × Option Str)) (ts : List NT) (hne : ts ≠ []) (hok : NT.oks cfg.esc ts) :
    Probe.render cfg refs (divOf (ts.map (NT.src cfg.esc))) = .ok (join ['\n'] (NT.outs ts)) :=
  render_nt cfg hE hs hbl hfmt refs ts hne hok

/-! ### the printed form -/

/-- **Every printed block of the sub-grammar**, at the top level or below it, in every spelling: groups of good lines
    whose chunks append the tree whose rendering is `specBlock b`; below the top level it is also a block that a loose
    list item can hold (`OkB`). -/
theorem C01_full_print (b : DocSpec.Block) (top : Bool) (mode : Option Bool) (st : PSt)
    (hq : isNest2Block b = true) (hw : wfBlock mode b = true) :
    ∃ (k : NKid) (st' : PSt), printBlock top b st = (flatLines k.gs, st') ∧ st'.defs = st.defs ∧
      NKidOK Generated.escapedChars k ∧ k.t.out = specBlock b ∧ k.t.isBqN = isQuote b ∧ k.t.isListN = isList b ∧
      (top = false → ∃ B, OkB Generated.escapedChars B ∧ B.groups Generated.escapedChars 0 = k.gs ∧
        B.tree false = k.t) :=
  printBlock_n b top mode st hq hw

/-! ### C01 on the sub-grammar -/

/-- **C01 for nested documents with nested emphasis.**  `d` well-formed and in `Nest2Doc` — flat blocks whose inline
    content is words, escapes, code spans and emphasis to two levels; block quotes and lists nested in each other to
    any depth —: under EVERY spelling the converter returns `spec d`. -/
theorem C01_nest_full (d : Doc) (sp : Spelling) (hwf : WF d = true) (hq : Nest2Doc d = true) :
    Pipeline.convert {} (print d sp) = .ok (spec d) :=
  convert_nest d sp hwf hq

/-- **Spelling never changes the rendering**: two spellings of the same well-formed document of `Nest2Doc` convert to
    the same HTML. -/
theorem C01_full_spelling (d : Doc) (sp sp' : Spelling) (hwf : WF d = true) (hq : Nest2Doc d = true) :
    Pipeline.convert {} (print d sp) = Pipeline.convert {} (print d sp') := by
  rw [C01_nest_full d sp hwf hq, C01_nest_full d sp' hwf hq]

theorem deep2Run_of_mixRun (c : List DocSpec.Inline) (h : mixRun c = true) : deep2Run c = true := by
  have h1 : DocSpec.MixDoc [.para c] = true := by simpa [DocSpec.MixDoc, isMixBlock] using h
  have := C01b_chain [.para c] (Or.inr (Or.inl h1))
  simpa [DocSpec.Deep2Doc, isDeep2Block] using this

mutual
theorem nest2_of_nest : (b : DocSpec.Block) → isNestBlock b = true → isNest2Block b = true
  | .rule, _ => by rw [isNest2Block]
  | .para c, h => by rw [isNestBlock] at h; rw [isNest2Block]; exact deep2Run_of_mixRun c h
  | .atx _ c, h => by rw [isNestBlock] at h; rw [isNest2Block]; exact deep2Run_of_mixRun c h
  | .setext _ c, h => by rw [isNestBlock] at h; rw [isNest2Block]; exact deep2Run_of_mixRun c h
  | .code _, h => by rw [isNestBlock] at h; cases h
  | .quote bs, h => by rw [isNestBlock] at h; rw [isNest2Block]; exact nest2_of_nestBlocks bs h
  | .ulist _ items, h => by rw [isNestBlock] at h; rw [isNest2Block]; exact nest2_of_nestItems items h
  | .olist _ items, h => by rw [isNestBlock] at h; rw [isNest2Block]; exact nest2_of_nestItems items h
theorem nest2_of_nestBlocks : (bs : List DocSpec.Block) → isNestBlocks bs = true → isNest2Blocks bs = true
  | [], _ => by rw [isNest2Blocks]
  | b :: r, h => by
    rw [isNestBlocks] at h
    simp only [Bool.and_eq_true] at h
    rw [isNest2Blocks, nest2_of_nest b h.1, nest2_of_nestBlocks r h.2]; rfl
theorem nest2_of_nestItems : (items : List (List DocSpec.Block)) → isNestItems items = true →
    isNest2Items items = true
  | [], _ => by rw [isNest2Items]
  | it :: r, h => by
    rw [isNestItems] at h
    simp only [Bool.and_eq_true] at h
    rw [isNest2Items, nest2_of_nestBlocks it h.1, nest2_of_nestItems r h.2]; rfl
end

/-- the sub-grammar of `C01_nest` (one level of emphasis around words) is contained -/
theorem C01_full_covers_nest (d : Doc) (h : NestDoc d = true) : Nest2Doc d = true :=
  nest2_of_nestBlocks d h

/-- the flat documents of `C01_em_nested` are contained, as long as they hold no indented code block -/
theorem C01_full_covers_deep2 (d : Doc) (h : DocSpec.Deep2Doc d = true) (hc : d.all (fun b => !isCode b) = true) :
    Nest2Doc d = true := by
  induction d with
  | nil => rw [Nest2Doc, isNest2Blocks]
  | cons b r ih =>
    simp only [DocSpec.Deep2Doc, List.all_cons, Bool.and_eq_true] at h hc
    have hb : isNest2Block b = true := by
      cases b with
      | rule => rw [isNest2Block]
      | para c => rw [isNest2Block]; exact h.1
      | atx l c => rw [isNest2Block]; exact h.1
      | setext l c => rw [isNest2Block]; exact h.1
      | code ls => simp [isCode] at hc
      | quote _ => simp [isDeep2Block] at h
      | ulist _ _ => simp [isDeep2Block] at h
      | olist _ _ => simp [isDeep2Block] at h
    have hr : isNest2Blocks r = true := ih (by simpa [DocSpec.Deep2Doc] using h.2) hc.2
    rw [Nest2Doc, isNest2Blocks, hb, hr]; rfl

/-! ### the hypotheses are satisfiable; instances evaluated by the kernel -/

/-- quotes, loose and tight lists four deep in each other; in their paragraphs and headings `strong` in `em`, `em` in
    `strong`, with code spans and escapes at both levels -/
def sampleFull : Doc :=
  [.para [.text (S "intro "), .em [.text (S "now "), .strong [.code (S "x*"), .text (S " y")]]],
   .quote [.ulist true [[.para [.strong [.em [.text (S "one")], .text (S " "), .esc '*'], .text (S " and "), .code (S "a*b")],
                         .quote [.para [.strong [.text (S "deep "), .em [.esc '_', .text (S "q")]], .text (S " quote")],
                                 .olist false [[.para [.text (S "x "), .em [.strong [.text (S "y")], .text (S " z")]],
                                                .ulist false [[.para [.em [.code (S "z")]]]]],
                                               [.para [.text (S "w")]]]],
                         .atx 2 [.em [.text (S "head "), .strong [.code (S "c")]]]],
                        [.para [.text (S "two")]]],
           .para [.text (S "after")]],
   .olist true [[.para [.em [.strong [.text (S "a")]], .text (S " b")],
                 .quote [.rule, .setext 1 [.strong [.text (S "t "), .em [.text (S "u")]]]]],
                [.para [.text (S "c")]]]]

def sampleFullSp : Spelling :=
  ⟨[0, 1, 7, 2, 1, 0, 1, 3, 1, 5, 2, 4, 1, 1, 0, 3, 2, 5, 1, 0, 2, 7, 1, 1, 4, 0, 2, 1, 3, 1, 1, 2, 1, 1, 0, 3, 1, 1, 2, 2,
    1, 0, 1, 1]⟩

example : WF sampleFull = true ∧ Nest2Doc sampleFull = true ∧ NestDoc sampleFull = false := by decide

example : print sampleFull sampleFullSp =
    ("intro _now **```x*``` y**_\n\n > + __*one* \\*__ and ```a*b```\n >\n >     > **deep _\\_q_** quote\n >\n" ++
     " >     > 2. x *__y__ z*\n >     >     + _``z``_\n >     > 4. w\n >\n >     ## _head **``c``**_ ##\n >\n" ++
     " > + two\n >\n > after\n\n1. _**a**_ b\n\n    > - - - \n    >\n    > **t _u_**\n    > =\n\n2. c").toList := by
  decide +kernel

example : spec sampleFull =
    ("<p>intro <em>now <strong><code>x*</code> y</strong></em></p>\n<blockquote>\n<ul>\n<li>\n" ++
     "<p><strong><em>one</em> *</strong> and <code>a*b</code></p>\n<blockquote>\n" ++
     "<p><strong>deep <em>_q</em></strong> quote</p>\n<ol>\n<li>x <em><strong>y</strong> z</em><ul>\n" ++
     "<li><em><code>z</code></em></li>\n</ul>\n</li>\n<li>w</li>\n</ol>\n</blockquote>\n" ++
     "<h2><em>head <strong><code>c</code></strong></em></h2>\n</li>\n<li>\n<p>two</p>\n</li>\n</ul>\n<p>after</p>\n" ++
     "</blockquote>\n<ol>\n<li>\n<p><em><strong>a</strong></em> b</p>\n<blockquote>\n<hr />\n" ++
     "<h1><strong>t <em>u</em></strong></h1>\n</blockquote>\n</li>\n<li>\n<p>c</p>\n</li>\n</ol>").toList := by
  decide +kernel

example : Pipeline.convert {} (print sampleFull sampleFullSp) = .ok (spec sampleFull) :=
  C01_nest_full _ _ (by decide) (by decide)

/-- the same instance evaluated by the kernel on the model, independently of the theorem -/
example : Pipeline.convert {} (print sampleFull sampleFullSp) = .ok (spec sampleFull) := by
  decide +kernel

/-- an indented code block is not in the sub-grammar; nor is an escaped backslash directly before a code span -/
example : Nest2Doc [.ulist true [[.para [.text (S "a")], .para [.text (S "b")], .code [S "c"]]]] = false ∧
    Nest2Doc [.quote [.para [.em [.esc '\\', .code (S "x")]]]] = false := by decide

end MdVerif.DocNest2
