/-
C09 — Output depends only on the normalised text: CRLF or CR line endings instead of LF, tabs instead of the
equivalent spaces to the next tab stop, whitespace-only lines instead of empty lines, stray STX/ETX control
characters, and extra blank lines before or after the document never change the output.

Only property statements live here.  Helper lemmas are in `MdVerif/Lemmas/Normalize.lean`, the vocabulary of the
statements (`respell`, `splitsCRLF`, `col`, `isBlankish`, …) in `MdVerif/Spec/Normalize.lean`.

Shape: every statement is about `runSteps tab defaultSteps`, the interpreter of the step list of
`NormalizeWhitespace.run` (`= normalize tab`, `C09_steps`): two source texts that differ only in one of the ways
listed above are mapped to the *same* normalised text — and everything downstream of the preprocessor sees only
that text.  The blank lines before/after the document are not removed by the normaliser; what is proved for them is
that they come out as exactly that many extra empty lines (`C09_leading_blank`, `C09_trailing_blank`); that the
block parser ignores them is not part of this file.

Exceptions that the statements had to make, each one checked against the implementation:
* F-C09-1 (defect, REPAIRED in commit a0e7e3c): the former pattern `(?<=\n) +\n` could not match at offset 0, so a
  whitespace-only **first** line was not emptied; `C09_ws_line` needed a line break before the line and
  `C09_leading_blank` a side condition on the first line.  The repaired pattern `(?<![^\n]) +\n` also accepts the
  start of the text: `C09_ws_first_line` is now a theorem, `C09_leading_blank` is unconditional, and the former
  counterexample is the positive example `C09_first_line_example`.
* inherent: `"\r"`, empty line, `"\n"` spells the single line break `"\r\n"` (`splitsCRLF`); a text ending in `\r`
  followed by `\n` likewise (`C09_trailing_blank`); `tab_length = 0` deletes tabs, which can join `\r` and `\n`.
-/
import MdVerif.Model.Normalize
import MdVerif.Spec.Normalize
import MdVerif.Lemmas.Normalize
import MdVerif.Generated.Tables

namespace MdVerif.Normalize
open Py

/-! ### the interpreted step list is the model -/

/-- the composition of the named steps is the interpreter run on the step list of the source -/
theorem C09_steps (tab : Nat) (s : Str) : normalize tab s = runSteps tab defaultSteps s := rfl

/-- the step list recognised by the translator in the *current source* of `NormalizeWhitespace.run`
    (`Generated.normalizeSteps`, regenerated on every run) is the step list all theorems below are about: a removed,
    added or reordered normalisation step in the source breaks this obligation -/
def stepOfName : String → Option Step
  | "stripStx" => some .stripStx | "stripEtx" => some .stripEtx | "crlf" => some .crlf | "cr" => some .cr
  | "append2nl" => some .append2nl | "expandtabs" => some .expandtabs | "wsLine" => some .wsLineRegex
  | _ => none

theorem C09_steps_of_source :
    Generated.normalizeSteps = "joinLines" :: (["stripStx", "stripEtx", "crlf", "cr", "append2nl", "expandtabs", "wsLine"] ++ ["splitLines"]) ∧
    (Generated.normalizeSteps.filterMap stepOfName) = defaultSteps := by decide

/-! ### (a) line terminators -/

/-- **Line endings.**  Let `ls` be lines (no `\n`, no `\r` in them).  Spell every gap between two lines with any of
    `"\n"`, `"\r\n"`, `"\r"`, independently per gap and per respelling.  Two such respellings normalise to the same
    text, provided neither contains the one unreadable configuration `"\r"`, empty line, `"\n"` (`splitsCRLF`). -/
theorem C09_line_endings (tab : Nat) (ls ends₁ ends₂ : List Str)
    (hlines : ∀ l ∈ ls, isLine l = true)
    (h₁ : ∀ e ∈ ends₁, isTerminator e = true) (h₂ : ∀ e ∈ ends₂, isTerminator e = true)
    (s₁ : splitsCRLF ends₁ ls = false) (s₂ : splitsCRLF ends₂ ls = false) :
    runSteps tab defaultSteps (respell ends₁ ls) = runSteps tab defaultSteps (respell ends₂ ls) :=
  normalize_respell tab ls ends₁ ends₂ hlines h₁ h₂ s₁ s₂

/-- the hypotheses of `C09_line_endings` hold for mixed terminators around an empty line -/
example :
    let ls : List Str := ["ab".toList, [], "c\x02".toList, "d".toList]
    (∀ l ∈ ls, isLine l = true) ∧
    (∀ e ∈ [CRLF, CR, LF], isTerminator e = true) ∧ (∀ e ∈ [LF, CRLF, CR], isTerminator e = true) ∧
    splitsCRLF [CRLF, CR, LF] ls = false ∧ splitsCRLF [LF, CRLF, CR] ls = false ∧
    respell [CRLF, CR, LF] ls = "ab\r\n\rc\x02\nd".toList := by decide

/-- the excluded configuration is real: `a`, CR, empty line, LF, `b` *is* the text `a\r\nb`, one line break, while
    the LF spelling has two -/
example :
    let ls : List Str := ["a".toList, [], "b".toList]
    splitsCRLF [CR, LF] ls = true ∧ respell [CR, LF] ls = "a\r\nb".toList ∧
    runSteps 4 defaultSteps (respell [CR, LF] ls) ≠ runSteps 4 defaultSteps (respell [LF, LF] ls) := by decide

/-- **Line endings, one terminator throughout.**  `sep.join(ls)` normalises alike for `sep` any of `"\n"`,
    `"\r\n"`, `"\r"`: no side condition (empty lines included). -/
theorem C09_line_endings_uniform (tab : Nat) (ls : List Str) (sep₁ sep₂ : Str)
    (hlines : ∀ l ∈ ls, isLine l = true) (h₁ : isTerminator sep₁ = true) (h₂ : isTerminator sep₂ = true) :
    runSteps tab defaultSteps (join sep₁ ls) = runSteps tab defaultSteps (join sep₂ ls) :=
  normalize_join tab ls sep₁ sep₂ hlines h₁ h₂

example : (∀ l ∈ (["a".toList, [], [], "b ".toList] : List Str), isLine l = true) ∧
    isTerminator CR = true ∧ isTerminator CRLF = true ∧ isTerminator LF = true := by decide

/-! ### (b) STX / ETX -/

/-- **Control characters.**  The normalised text of `s` is that of `s` without its STX and ETX characters. -/
theorem C09_ctl (tab : Nat) (s : Str) :
    runSteps tab defaultSteps s = runSteps tab defaultSteps (stripCtl s) :=
  (normalize_stripCtl tab s).symm

/-- two texts that are equal up to STX/ETX characters (anywhere, any number) normalise alike -/
theorem C09_ctl_congr (tab : Nat) (s s' : Str) (h : stripCtl s' = stripCtl s) :
    runSteps tab defaultSteps s' = runSteps tab defaultSteps s :=
  normalize_congr_ctl tab h

example : stripCtl "\x02a\x03\x03b\r\x02\n".toList = stripCtl "ab\x03\r\n".toList := by decide

/-- inserting one STX or ETX anywhere changes nothing (also between the `\r` and the `\n` of a CRLF) -/
theorem C09_ctl_insert (tab : Nat) (a b : Str) (c : Char) (hc : c = STX ∨ c = ETX) :
    runSteps tab defaultSteps (a ++ c :: b) = runSteps tab defaultSteps (a ++ b) := by
  apply normalize_congr_ctl
  rw [stripCtl_append, stripCtl_append, stripCtl_cons]
  rcases hc with h | h <;> subst h <;> rfl

/-! ### (c) tabs -/

/-- **Tabs.**  For a positive tab length, a tab is worth the spaces up to the next tab stop, where the column
    `col tab pre` of the tab is counted as `expandtabs` does on the normalised text: from the last `\n` *or* `\r`,
    STX/ETX not counted, earlier tabs expanded.  No hypothesis on `pre` and `post`. -/
theorem C09_tab (tab : Nat) (htab : tab > 0) (pre post : Str) :
    runSteps tab defaultSteps (pre ++ '\t' :: post) =
      runSteps tab defaultSteps (pre ++ List.replicate (tab - col tab pre % tab) ' ' ++ post) :=
  normalize_tab tab htab pre post

example : col 4 "x\ry\x02\tz".toList = 5 ∧ col 4 "abcd\n".toList = 0 ∧ col 8 "\t\t ".toList = 17 := by decide

/-- `tab_length = 0` is excluded for a reason: `expandtabs(0)` deletes the tab ("zero spaces"), but only after the
    line endings have been converted — in `\r`, tab, `\n` the tab has already kept `\r` and `\n` apart (two line
    breaks), whereas the text without it is one CRLF.  (`pre = "a\r"`, `post = "\nb"`; the implementation agrees.) -/
example : runSteps 0 defaultSteps ("a\r".toList ++ '\t' :: "\nb".toList) ≠
    runSteps 0 defaultSteps ("a\r".toList ++ List.replicate (0 - col 0 "a\r".toList % 0) ' ' ++ "\nb".toList) := by
  decide

/-! ### (d) whitespace-only lines -/

/-- **Whitespace-only lines.**  A line made of spaces, tabs (and STX/ETX) that is preceded by a line feed
    normalises like the empty line — for every tab length. -/
theorem C09_ws_line (tab : Nat) (a ws b : Str) (hws : ∀ c ∈ ws, isBlankish c = true) :
    runSteps tab defaultSteps (a ++ '\n' :: ws ++ '\n' :: b) = runSteps tab defaultSteps (a ++ '\n' :: '\n' :: b) :=
  normalize_ws_line tab a ws b hws

example : ∀ c ∈ " \t \x02  \t".toList, isBlankish c = true := by decide

/-- **Whitespace-only first line.**  The first line needs no line break in front of it: a document whose first line
    is made of spaces, tabs (and STX/ETX) normalises like the document with an empty first line — for every tab
    length.  (Before the repair a0e7e3c this was false: finding F-C09-1.) -/
theorem C09_ws_first_line (tab : Nat) (ws b : Str) (hws : ∀ c ∈ ws, isBlankish c = true) :
    runSteps tab defaultSteps (ws ++ '\n' :: b) = runSteps tab defaultSteps ('\n' :: b) :=
  normalize_ws_first_line tab ws b hws

example : ∀ c ∈ "  \t\x03 ".toList, isBlankish c = true := by decide

/-- **Formerly F-C09-1.**  Up to commit a0e7e3c the look-behind `(?<=\n)` failed at offset 0, a whitespace-only
    *first* line was kept, and these two documents normalised differently (the kernel-checked statement here was
    the inequality).  With the repaired pattern `(?<![^\n]) +\n` they normalise alike. -/
theorem C09_first_line_example :
    runSteps 4 defaultSteps "    \nfoo".toList = runSteps 4 defaultSteps "\nfoo".toList := by decide

example : normalize 4 "    \nfoo".toList = normalize 4 "\nfoo".toList := by decide
example : normalize 4 "    \nfoo".toList = "\nfoo\n\n".toList := by decide
example : normalize 8 " \t\x02\r\n    foo".toList = "\n    foo\n\n".toList := by decide

/-! ### (e) what the normalised text is made of -/

/-- no STX and no ETX in the normalised text -/
theorem C09_no_ctl_out (tab : Nat) (s : Str) :
    STX ∉ runSteps tab defaultSteps s ∧ ETX ∉ runSteps tab defaultSteps s :=
  ⟨fun h => (mem_normalize h).2.1 rfl, fun h => (mem_normalize h).2.2.1 rfl⟩

/-- no carriage return and no tab in the normalised text (every tab length: `expandtabs(0)` deletes tabs) -/
theorem C09_no_cr_out (tab : Nat) (s : Str) :
    '\r' ∉ runSteps tab defaultSteps s ∧ '\t' ∉ runSteps tab defaultSteps s :=
  ⟨fun h => (mem_normalize h).2.2.2.1 rfl, fun h => (mem_normalize h).2.2.2.2 rfl⟩

/-- nothing is invented: a character of the normalised text is a space, a line feed, or a character of the source -/
theorem C09_out_chars (tab : Nat) (s : Str) (c : Char) (h : c ∈ runSteps tab defaultSteps s) :
    c = ' ' ∨ c = '\n' ∨ c ∈ s :=
  (mem_normalize h).1

/-! ### (f) normalising twice -/

/-- Normalisation is not idempotent (it appends `"\n\n"` every time), but that is all: normalising a normalised text
    returns it with two more line feeds. -/
theorem C09_renormalize (tab : Nat) (s : Str) :
    runSteps tab defaultSteps (runSteps tab defaultSteps s) = runSteps tab defaultSteps s ++ ['\n', '\n'] :=
  normalize_normalize tab s

example : runSteps 4 defaultSteps (runSteps 4 defaultSteps "a".toList) ≠ runSteps 4 defaultSteps "a".toList := by
  decide

/-! ### (g) blank lines after and before the document -/

/-- **Trailing line feeds.**  `k` more line feeds at the end of the source are `k` more line feeds at the end of the
    normalised text (`k` more empty lines at the end of the line list), unless the source ends in `\r` (up to STX/ETX):
    then the first added `\n` completes a CRLF. -/
theorem C09_trailing_blank (tab : Nat) (s : Str) (k : Nat) (h : (stripCtl s).getLast? ≠ some '\r') :
    runSteps tab defaultSteps (s ++ List.replicate k '\n') = runSteps tab defaultSteps s ++ List.replicate k '\n' :=
  normalize_trailing tab s k h

example : (stripCtl "a\r\n \t".toList).getLast? ≠ some '\r' ∧ (stripCtl ([] : Str)).getLast? ≠ some '\r' := by
  decide

/-- the excluded case: `a\r` followed by `\n` is `a` and one CRLF -/
example : runSteps 4 defaultSteps ("a\r\x02".toList ++ List.replicate 1 '\n') = runSteps 4 defaultSteps "a\r".toList := by
  decide

/-- **Leading line feeds.**  `k` more line feeds in front of the source are `k` more line feeds in front of the
    normalised text — unconditionally.  (Before the repair a0e7e3c of F-C09-1 this needed the first line of the
    source to be empty or to have a visible character.) -/
theorem C09_leading_blank (tab : Nat) (s : Str) (k : Nat) :
    runSteps tab defaultSteps (List.replicate k '\n' ++ s) = List.replicate k '\n' ++ runSteps tab defaultSteps s :=
  normalize_leading tab s k

/-- the formerly excluded case -/
example : runSteps 4 defaultSteps ('\n' :: "  \nfoo".toList) = '\n' :: runSteps 4 defaultSteps "  \nfoo".toList := by
  decide

/-! ### the blank-document shortcut of `convert` -/

/-- `not source.strip()` holds exactly when every character of the source is white space (`str.isspace`) -/
theorem C09_blank_doc (s : Str) : isBlankDoc s = s.all isSpace :=
  isBlankDoc_eq_all s

end MdVerif.Normalize
