/-
C16 (non-interference clause) for `fenced_code`: enabling the extension does not change a document that does not use
its syntax.

Only property statements live here.  Helper lemmas are in `MdVerif/Lemmas/FencedCodeAttrs.lean`.

The extension acts through one preprocessor (`FencedBlockPreprocessor.run`, model `fencedRunA`; `fencedRun` is the same
loop without the `{attrs}` branch).  Everything else it registers is nothing.  So non-interference is: on a text without
an opening fence the preprocessor returns the text unchanged and puts nothing in the stash.

* `C16_fenced_inert`             no ``` and no ~~~ anywhere in the text;
* `C16_fenced_inert_linestart`   stronger: no LINE starts with ``` or ~~~ (`^` under `re.MULTILINE`);
* `C16_fenced_preserves_outside` complete lines without an opening fence in front of any text are copied unchanged and
                                 do not influence what happens to the rest;
* `C16_fencedRunA_extends`, `C16_fencedRunA_total`   `fencedRunA` agrees with `fencedRun` wherever that one is
                                 defined, is defined everywhere, and its loop terminates within the fuel given.
-/
import MdVerif.Lemmas.FencedCodeAttrs

namespace MdVerif.Fenced
open Py Code

/-- **inert without fences.**  A text that contains neither three consecutive backticks nor three consecutive tildes
    has no fenced block: the pattern does not match, the preprocessor returns the text unchanged and stashes nothing -/
theorem C16_fenced_inert (text : Str)
    (h1 : Py.contains text "```".toList = false) (h2 : Py.contains text "~~~".toList = false) :
    fenceFind text = none ∧ fencedRun text = .ok text [] ∧ fencedRunA text = .ok text [] := by
  have f1 : find "```".toList text = none := by simpa [Py.contains] using h1
  have f2 : find "~~~".toList text = none := by simpa [Py.contains] using h2
  have hf : fenceFindFrom text 0 = none := fenceScan_none_of_find _ _ _ f1 f2
  refine ⟨hf, ?_, ?_⟩
  · simp only [fencedRun, fencedLoop, hf]
  · simp only [fencedRunA, fencedLoopA, hf]

-- the hypotheses on a concrete input: inline code, a two-backtick span, tildes, braces, `hl_lines`
example : Py.contains "a `b` ``c`` ~~d~~ {.py}\nhl_lines=\"1\"".toList "```".toList = false ∧
    Py.contains "a `b` ``c`` ~~d~~ {.py}\nhl_lines=\"1\"".toList "~~~".toList = false := by decide

/-- **inert without a fence at a line start.**  The opening fence must stand at the start of a line, so fences
    elsewhere (inside a line, indented) do not make a block either -/
theorem C16_fenced_inert_linestart (text : Str) (h : noFenceLine text = true) :
    fenceFind text = none ∧ fencedRun text = .ok text [] ∧ fencedRunA text = .ok text [] := by
  have hf : fenceFindFrom text 0 = none := fenceScan_none_of_lines true 0 text (by simpa [noFenceLine] using h)
  refine ⟨hf, ?_, ?_⟩
  · simp only [fencedRun, fencedLoop, hf]
  · simp only [fencedRunA, fencedLoopA, hf]

-- the hypothesis on a concrete input that does contain fences, none of them at a line start
example : noFenceLine "a ``` b\n ~~~\n    ```\n``x\n~~ ~".toList = true := by decide
-- and a text for which it fails
example : noFenceLine "a\n```\nb".toList = false := by decide

/-- **text outside blocks is preserved.**  Put complete lines `q`, none of which starts with a fence, in front of any
    text: the preprocessor copies them unchanged, and what it does to the rest — the new text and the stash — is what
    it does to the rest alone -/
theorem C16_fenced_preserves_outside (q rest t : Str) (st : List Str) (hq : noFenceLine q = true)
    (h : fencedRunA rest = .ok t st) :
    fencedRunA (q ++ "\n".toList ++ rest) = .ok (q ++ "\n".toList ++ t) st := by
  rw [fencedRunA_prefix (q ++ "\n".toList) rest (Or.inr ⟨q, rfl, hq⟩), h]; rfl

/-- the same for the loop without the `{attrs}` branch -/
theorem C16_fenced_preserves_outside_base (q rest t : Str) (st : List Str) (hq : noFenceLine q = true)
    (h : fencedRun rest = .ok t st) :
    fencedRun (q ++ "\n".toList ++ rest) = .ok (q ++ "\n".toList ++ t) st := by
  rw [fencedRun_prefix (q ++ "\n".toList) rest (Or.inr ⟨q, rfl, hq⟩), h]; rfl

-- the hypotheses on a concrete input: two plain lines in front of a block
example : noFenceLine "# t\nx ``` y".toList = true ∧
    fencedRunA "```\n*c*\n```".toList =
      .ok ("\n".toList ++ placeholder 0 ++ "\n".toList) ["<pre><code>*c*\n</code></pre>".toList] := by decide

/-- `fencedRunA` extends `fencedRun`: wherever the latter is defined (no block with a non-empty `{attrs}` part is
    met) the two agree -/
theorem C16_fencedRunA_extends (text : Str) (h : fencedRun text ≠ .ood) : fencedRunA text = fencedRun text :=
  fencedLoopA_eq _ _ _ _ h

-- the hypothesis on a concrete input
example : fencedRun "```py\na\n```".toList ≠ .ood := by decide

/-- `fencedRunA` is defined everywhere and its loop makes progress: a replaced block and a skipped opening fence both
    move `index` forward, so `text.length + 1` iterations always suffice -/
theorem C16_fencedRunA_total (text : Str) (fuel : Nat) (h : text.length + 1 ≤ fuel) :
    fencedLoopA fuel text 0 [] = fencedRunA text ∧ fencedRunA text ≠ .fuel ∧ fencedRunA text ≠ .ood := by
  have h1 := fencedLoopA_stable (text.length + 1) fuel text 0 [] (by omega) (by omega)
  exact ⟨h1.1.symm, h1.2.1, h1.2.2⟩

-- the hypothesis on a concrete input
example : "```{.a}\nb\n```".toList.length + 1 ≤ 20 := by decide

-- the `{attrs}` branch on concrete inputs: first class = language, other classes and the id on `<pre>`, key=value
-- ignored; braces that do not match make the opening fence be skipped
example : fencedRunA "```{.py #i .x k=v}\n<b>\n```".toList =
    .ok ("\n".toList ++ placeholder 0 ++ "\n".toList)
      ["<pre id=\"i\" class=\"x\"><code class=\"language-py\">&lt;b&gt;\n</code></pre>".toList] := by decide
example : fencedRunA "```{.a}x}\nq\n```\n~~~\nz\n~~~".toList =
    .ok ("```{.a}x}\nq\n```\n\n".toList ++ placeholder 0 ++ "\n".toList) ["<pre><code>z\n</code></pre>".toList] := by
  decide

end MdVerif.Fenced
