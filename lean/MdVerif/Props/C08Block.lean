/-
C08 (block-parser half) — "If B begins with a paragraph, heading or horizontal rule, then converting A, a blank
line, and B yields the rendering of A followed by the rendering of B.  Earlier content never changes how later,
unrelated blocks are parsed, and later content never changes earlier blocks."

Only property statements live here; the model is `MdVerif/Model/Block.lean` (`dispatch`, `parseBlocks`,
`parseDocumentWith`, `parseDocument`), the helper lemmas and the vocabulary (`withKids`, `startsPHR`, `fillCode`,
`nn`, `startsPHR0`, and the observers `kidTags`, `firstCodeText` used in the examples) are in
`MdVerif/Lemmas/BlockLocal.lean` (the lemmas in the namespace `MdVerif.Block.Local`).  Core Lean only.

Vocabulary
* `withKids p ks`        the element `p` with the children `ks`
* `startsPHR tab b`      the block `b` *begins with a paragraph, an ATX heading, a Setext heading or a rule*: it is not
                         empty, does not start with a newline, is not indented by `tab` spaces, is not blank, and
                         `dispatch` sends it to the hash-header processor with the heading at offset 0 — or after a
                         text that itself `startsPHR` —, to the Setext processor, to the rule processor with the rule
                         on the first line — or after lines that themselves `startsPHR` —, to the blockquote processor
                         with the quote after lines that `startsPHR` ("lazy" paragraph, then quote), or to the
                         paragraph processor.  NOT: a list item, a quote, a reference definition, code.
                         `C08_startsPHR_unfold` is the defining equation; `startsPHR0` is the non-recursive special
                         case (heading / rule at the very start).
* `nn`                   the separator `"\n\n"` of `parseChunk`
* `fillCode p`           what the final empty block of a text does to the tree: if the last child is a `pre/code`,
                         its text gets `"\n\n"` appended (otherwise nothing)

Contents
1. fuel: `C08_fuel_mono`, `C08_fuel_irrelevant`
2. later content never changes earlier blocks: `C08_rest_untouched` (one turn of the loop),
   `C08_rest_untouched_loop`, `C08_rest_untouched_loop_inv` (the loop)
3. earlier content never changes how later blocks are parsed:
   `C08_frame_turn`, `C08_frame` (a parent with at least one child is read only through its own fields and its last
   child), `C08_refs_frame` (the references are never read), `C08_parent_kept` (outside tight lists the parent's own
   fields are not written, and children are never removed), `C08_sibling_blind` (a block that `startsPHR` does not
   even look at the last child)
4. the composition on block lists: `C08_blocks`, `C08_blocks_inv`
5. the composition on texts: `C08_text_odd` (exact), `C08_text_even` (exact up to the `"\n\n"` that the last, empty
   block of A puts into a trailing code block of A), `C08_text` (both, for `parseDocument`), `C08_last_block`
6. kernel-checked boundary cases (`C08_counter_…`)
-/
import MdVerif.Model.Block
import MdVerif.Lemmas.BlockLocal

namespace MdVerif.Block
open Py Local

/-! ### 1. fuel -/

/-- **Fuel monotonicity.**  A result of `parseBlocks` obtained with fuel `f` is obtained with every fuel `g ≥ f`. -/
theorem C08_fuel_mono (tab : Nat) {f g : Nat} (hfg : f ≤ g) {st : List BState} {refs : Refs} {p : Node}
    {bs : List Str} {r : Node × Refs} (h : parseBlocks tab f st refs p bs = some r) :
    parseBlocks tab g st refs p bs = some r :=
  parseBlocks_fuel_mono tab hfg _ _ _ _ _ h

/-- … hence the result does not depend on the fuel, once there is one. -/
theorem C08_fuel_irrelevant (tab : Nat) {f g : Nat} {st : List BState} {refs : Refs} {p : Node} {bs : List Str}
    {r r' : Node × Refs} (h1 : parseBlocks tab f st refs p bs = some r) (h2 : parseBlocks tab g st refs p bs = some r') :
    r = r' :=
  parseBlocks_fuel_det tab h1 h2

example : (parseBlocks 4 3 [] [] (Node.el "div") ["# h".toList, "p".toList]).isSome = true := by decide +kernel
example : (parseBlocks 4 1 [] [] (Node.el "div") ["# h".toList, "p".toList]).isSome = false := by decide +kernel

/-! ### 2. later content never changes earlier blocks -/

/-- **No processor looks past `blocks[0]`.**  For every callback `pb`, state, reference table, parent and block `b`:
    one turn of the loop with `extra` behind the pending blocks `rest` gives the same element, the same references,
    and the same pending blocks with `extra` still behind them (and fails iff it failed without `extra`). -/
theorem C08_rest_untouched (tab : Nat) (pb : PB) (st : List BState) (refs : Refs) (parent : Node) (b : Str)
    (rest extra : List Str) :
    dispatch tab pb st refs parent b (rest ++ extra) =
      (dispatch tab pb st refs parent b rest).map (fun r => (r.1, r.2.1, r.2.2 ++ extra)) :=
  dispatch_rest tab pb st refs parent b rest extra

/-- **Later content never changes earlier blocks.**  If the loop turns `bs` into `(p1, r1)` with fuel `f`, and from
    there `extra` into `res` with fuel `g`, then on `bs ++ extra` it gives `res` (with fuel `f + g`): the blocks `bs`
    are parsed to exactly what they are parsed to without `extra`. -/
theorem C08_rest_untouched_loop {tab f g : Nat} {st : List BState} {refs : Refs} {p : Node} {bs extra : List Str}
    {p1 : Node} {r1 : Refs} {res : Node × Refs}
    (h1 : parseBlocks tab f st refs p bs = some (p1, r1)) (h2 : parseBlocks tab g st r1 p1 extra = some res) :
    parseBlocks tab (f + g) st refs p (bs ++ extra) = some res :=
  parseBlocks_append h1 h2

/-- … and conversely every successful run on `bs ++ extra` is a run on `bs` followed by a run on `extra`. -/
theorem C08_rest_untouched_loop_inv {tab f : Nat} {st : List BState} {refs : Refs} {p : Node} {bs extra : List Str}
    {res : Node × Refs} (h : parseBlocks tab f st refs p (bs ++ extra) = some res) :
    ∃ p1 r1, parseBlocks tab f st refs p bs = some (p1, r1) ∧ parseBlocks tab f st r1 p1 extra = some res :=
  parseBlocks_append_inv h

/-! ### 3. earlier content never changes how later blocks are parsed -/

/-- **The frame, one turn.**  A parent that has at least one child (`ks ≠ []`) is read by every processor only
    through its own fields and its last child (followed downwards by `get_level`): with further children `cs` in
    front, one turn of the loop does the same and leaves `cs` in front.  Any state, any block. -/
theorem C08_frame_turn (tab f : Nat) (st : List BState) (refs : Refs) (p : Node) (cs ks : List Node) (hks : ks ≠ [])
    (b : Str) (rest : List Str) :
    dispatch tab (parseBlocks tab f) st refs (withKids p (cs ++ ks)) b rest =
      (dispatch tab (parseBlocks tab f) st refs (withKids p ks) b rest).map
        (fun r => (withKids r.1 (cs ++ r.1.children), r.2.1, r.2.2)) :=
  dispatch_frame (parseBlocks_frame tab f) (parseBlocks_good tab f) (p := withKids p ks) hks cs tab st refs b rest

/-- **The frame.**  The same for the whole loop, on any list of blocks. -/
theorem C08_frame (tab f : Nat) (st : List BState) (refs : Refs) (p : Node) (cs ks : List Node) (hks : ks ≠ [])
    (bs : List Str) :
    parseBlocks tab f st refs (withKids p (cs ++ ks)) bs =
      (parseBlocks tab f st refs (withKids p ks) bs).map (fun r => (withKids r.1 (cs ++ r.1.children), r.2)) :=
  parseBlocks_frame tab f st refs (withKids p ks) cs bs hks

-- a parent whose last child is an unfinished list, with an earlier code block in front
example : ([{ Node.el "ul" with children := [Node.el "li"] }] : List Node) ≠ [] := by simp

/-- **The references are written, never read**: starting with `r0` already in the table gives the same tree, and
    the same new entries behind `r0`. -/
theorem C08_refs_frame (tab f : Nat) (st : List BState) (r0 refs : Refs) (p : Node) (bs : List Str) :
    parseBlocks tab f st (r0 ++ refs) p bs = (parseBlocks tab f st refs p bs).map (fun r => (r.1, r0 ++ r.2)) :=
  parseBlocks_refs tab f st r0 refs p bs

/-- **What is left of the parent.**  The loop never leaves a parent that had children without children; and unless
    the innermost state is the tight-list state, it does not touch the parent's own tag, attributes, text and tail. -/
theorem C08_parent_kept {tab f : Nat} {st : List BState} {refs : Refs} {p : Node} {bs : List Str} {q : Node} {r : Refs}
    (h : parseBlocks tab f st refs p bs = some (q, r)) :
    (p.children ≠ [] → q.children ≠ []) ∧ (isstate st .list = false → withKids q [] = withKids p []) :=
  parseBlocks_good tab f st refs p bs q r h

/-- the defining equation of `startsPHR` (with `startsPHR tab b = startsPHRAux tab (b.length + 1) b`; the recursion
    is on proper prefixes of the block, so the counter never runs out) -/
theorem C08_startsPHR_unfold (tab n : Nat) (b : Str) : startsPHRAux tab (n + 1) b =
    (!b.isEmpty && !startsWith b ['\n'] && !startsWith b (spaces tab) && !isBlank b &&
    match hashSearch b with
    | some (s, _, _, _) => (b.take s).isEmpty || startsPHRAux tab n (b.take s)
    | none =>
      setextMatch b ||
      match hrSearch b with
      | some (s, _) => (rstripC '\n' (b.take s)).isEmpty || startsPHRAux tab n (rstripC '\n' (b.take s))
      | none =>
        !(listItemMatch tab true false b).isSome && !(listItemMatch tab false true b).isSome &&
        match quoteSearch b with
        | some q => startsPHRAux tab n (b.take q)
        | none => (refSearch b).isNone) :=
  startsPHRAux_succ tab n b

/-- the non-recursive special case `startsPHR0` (not empty, not indented, not blank, no leading newline, and: a
    heading at offset 0, a Setext heading, a rule on the first line, or a plain paragraph) implies `startsPHR` -/
theorem C08_startsPHR_of_startsPHR0 {tab : Nat} {b : Str} (h : startsPHR0 tab b = true) : startsPHR tab b = true := by
  rw [startsPHR, startsPHRAux_succ]
  simp only [startsPHR0, Bool.and_eq_true] at h
  obtain ⟨h1, h2⟩ := h
  simp only [Bool.and_eq_true]
  refine ⟨h1, ?_⟩
  cases hh : hashSearch b with
  | some m =>
    obtain ⟨s, e, lv, hd⟩ := m
    rw [hh] at h2
    have : s = 0 := by simpa using h2
    simp [this]
  | none =>
    rw [hh] at h2
    dsimp only at h2 ⊢
    cases hx : setextMatch b with
    | true => simp
    | false =>
      rw [hx] at h2
      simp only [Bool.false_or] at h2 ⊢
      cases hr : hrSearch b with
      | some m =>
        obtain ⟨s, e⟩ := m
        rw [hr] at h2
        have : s = 0 := by simpa using h2
        simp [this, rstripC, rstripP, lstripP]
      | none =>
        rw [hr] at h2
        simp only [Bool.and_eq_true] at h2 ⊢
        obtain ⟨⟨h3, h4⟩, h5⟩ := h2
        refine ⟨h3, ?_⟩
        cases hq : quoteSearch b with
        | some q => simp [hq] at h4
        | none => simpa using h5

example : startsPHR 4 "# Title #\nrest of the block".toList = true := by decide +kernel
example : startsPHR 4 "Title\n=====\n- then a list".toList = true := by decide +kernel
example : startsPHR 4 "* * *\n    then code".toList = true := by decide +kernel
example : startsPHR 4 "a *paragraph*\n- with a lazy line".toList = true := by decide +kernel
example : startsPHR 4 "a paragraph\n## then a heading\nmore\n---\nend".toList = true := by decide +kernel
example : startsPHR 4 "a paragraph\n> then a quote".toList = true := by decide +kernel
example : startsPHR0 4 "---".toList = true ∧ startsPHR0 4 "plain".toList = true ∧ startsPHR0 4 "# h".toList = true := by
  decide +kernel
-- what it excludes
example : startsPHR 4 "- item".toList = false ∧ startsPHR 4 "1. item".toList = false ∧
    startsPHR 4 "> quote".toList = false ∧ startsPHR 4 "    code".toList = false ∧
    startsPHR 4 "[a]: /url".toList = false ∧ startsPHR 4 "para\n[a]: /url".toList = false ∧
    startsPHR 4 "\nfoo".toList = false ∧ startsPHR 4 [] = false ∧ startsPHR 4 "  ".toList = false := by decide +kernel

/-- **Blocks that begin with a paragraph, heading or rule are blind to their siblings.**  Outside the tight-list
    state, for *any* parent `p` and any children `cs` — the last of which may be an unfinished list, quote or code
    block —: running the loop on `b :: rest` where `b` `startsPHR` does to `p` with the children `cs` exactly what it
    does to `p` without children, with `cs` left in front; and the result has at least one child behind `cs`. -/
theorem C08_sibling_blind (tab f : Nat) (st : List BState) (hst : isstate st .list = false) (refs : Refs) (p : Node)
    (cs : List Node) (b : Str) (hb : startsPHR tab b = true) (rest : List Str) :
    parseBlocks tab f st refs (withKids p cs) (b :: rest) =
        (parseBlocks tab f st refs (withKids p []) (b :: rest)).map
          (fun r => (withKids r.1 (cs ++ r.1.children), r.2)) ∧
      ∀ q r, parseBlocks tab f st refs (withKids p []) (b :: rest) = some (q, r) → q.children ≠ [] := by
  have h := parseBlocks_blind tab f _ st refs (withKids p []) cs b rest hst hb
  rw [pre_withKids, List.append_nil] at h
  exact h

example : isstate [] .list = false ∧ isstate [.list, .detabbed] .list = false ∧ isstate [.blockquote] .list = false := by
  decide +kernel

/-! ### 4. the composition on block lists -/

/-- **C08 on block lists.**  Top level (state `[]`, empty reference table, root `div`; the statement holds for every
    state that is not the tight-list state, see `parseBlocks_compose`).  `as` is *any* list of blocks — unfinished
    lists, quotes, code included —, `b` begins with a paragraph, heading or rule.  If `as` alone gives the tree `ra`
    and the references `fa`, and `b :: bs` alone gives `rb`, `fb`, then `as ++ b :: bs` gives the `div` whose children
    are those of `ra` followed by those of `rb`, and the references `fa ++ fb`. -/
theorem C08_blocks {tab f g : Nat} {as : List Str} {b : Str} {bs : List Str} {ra rb : Node} {fa fb : Refs}
    (hb : startsPHR tab b = true)
    (hA : parseBlocks tab f [] [] (Node.el "div") as = some (ra, fa))
    (hB : parseBlocks tab g [] [] (Node.el "div") (b :: bs) = some (rb, fb)) :
    parseBlocks tab (f + g) [] [] (Node.el "div") (as ++ b :: bs) =
      some (withKids (Node.el "div") (ra.children ++ rb.children), fa ++ fb) := by
  have h := parseBlocks_compose (isstate_nil _) hb hA (by rw [shell_div]; exact hB)
  rw [h]
  have hs : shell rb = Node.el "div" := (parseBlocks_good tab g _ _ _ _ _ _ hB).2 (isstate_nil _)
  have : pre ra.children rb = withKids (Node.el "div") (ra.children ++ rb.children) := by
    rw [← hs]; rfl
  rw [this]

-- A = an unfinished list and an unfinished quote, B = a heading followed by a list
example : startsPHR 4 "# B".toList = true ∧
    (parseBlocks 4 20 [] [] (Node.el "div") ["- a\n- b".toList, "> q".toList]).map (kidTags ·.1) =
      some ["ul".toList, "blockquote".toList] ∧
    (parseBlocks 4 20 [] [] (Node.el "div") ["# B".toList, "- c".toList]).map (kidTags ·.1) =
      some ["h1".toList, "ul".toList] ∧
    (parseBlocks 4 40 [] [] (Node.el "div") (["- a\n- b".toList, "> q".toList] ++ ["# B".toList, "- c".toList])).map
      (kidTags ·.1) = some ["ul".toList, "blockquote".toList, "h1".toList, "ul".toList] := by decide +kernel

/-- … and conversely: whenever `as ++ b :: bs` is parsed (the fuel sufficed), `as` and `b :: bs` are parsed with the
    same fuel, and the result is the concatenation. -/
theorem C08_blocks_inv {tab f : Nat} {as : List Str} {b : Str} {bs : List Str} {root : Node} {refs : Refs}
    (hb : startsPHR tab b = true)
    (h : parseBlocks tab f [] [] (Node.el "div") (as ++ b :: bs) = some (root, refs)) :
    ∃ ra fa rb fb, parseBlocks tab f [] [] (Node.el "div") as = some (ra, fa) ∧
      parseBlocks tab f [] [] (Node.el "div") (b :: bs) = some (rb, fb) ∧
      root = withKids (Node.el "div") (ra.children ++ rb.children) ∧ refs = fa ++ fb := by
  obtain ⟨ra, fa, rb, fb, h1, h2, e1, e2⟩ := parseBlocks_compose_inv (isstate_nil _) hb h
  rw [shell_div] at h2
  refine ⟨ra, fa, rb, fb, h1, h2, ?_, e2⟩
  have hs : shell rb = Node.el "div" := (parseBlocks_good tab f _ _ _ _ _ _ h2).2 (isstate_nil _)
  rw [e1, ← hs]; rfl

/-! ### 5. the composition on texts

`parseDocumentWith tab fuel T` splits `T` at `"\n\n"` and runs the loop.  The input of the block parser always ends
with `"\n\n"` (`NormalizeWhitespace` appends it), so its last block is `""` (an even number of newlines at the end of
the text) or `"\n"` (an odd number): `C08_last_block`.  For `TA ++ TB` the seam is

* odd: `… ; "\n" ++ b ; …` — the empty-block processor takes the `"\n"` and hands `b` back: exactly `TA`'s blocks
  followed by `TB`'s;
* even: `… ; b ; …` — the final `""` of `TA` has disappeared.  That block does nothing, except that a trailing code
  block of `TA` gets `"\n\n"` appended to its text (`fillCode`).  This is the only difference at tree level
  (`C08_counter_even_filler`); `prettify` strips the trailing whitespace of code blocks later, so it does not reach
  the rendering. -/

/-- the last block of a text that ends with a blank line is `""` or `"\n"` -/
theorem C08_last_block (X : Str) :
    (splitS nn (X ++ nn)).getLast? = some [] ∨ (splitS nn (X ++ nn)).getLast? = some ['\n'] :=
  last_block_of_ends_nn X

example : (splitS nn "foo\n\n".toList).getLast? = some [] := by decide +kernel
example : (splitS nn "foo\n\n\n".toList).getLast? = some ['\n'] := by decide +kernel

/-- **C08 on texts, odd case** (`TA` ends with the block `"\n"`, e.g. the source of A ended with a newline): the
    tree of `TA ++ TB` is the tree of `TA` followed by the tree of `TB`, exactly; the references are concatenated. -/
theorem C08_text_odd {tab f g : Nat} {TA TB : Str} {ra rb : Node} {fa fb : Refs}
    (hl : (splitS nn TA).getLast? = some ['\n'])
    (hb : startsPHR tab ((splitS nn TB).headD []) = true)
    (hA : parseDocumentWith tab f TA = some (ra, fa)) (hB : parseDocumentWith tab g TB = some (rb, fb)) :
    parseDocumentWith tab (f + g) (TA ++ TB) =
      some (withKids (Node.el "div") (ra.children ++ rb.children), fa ++ fb) := by
  rw [parseDocumentWith_append_odd hl hb hA hB]
  have hs : shell rb = Node.el "div" := (parseBlocks_good tab g _ _ _ _ _ _ hB).2 (isstate_nil _)
  rw [← hs]; rfl

/-- **C08 on texts, even case** (`TA` ends with the block `""`): the tree of `TA ++ TB` is `ka` followed by the tree
    of `TB`, where the tree of `TA` is `ka` after `fillCode` — i.e. `ka` itself unless it ends with a code block. -/
theorem C08_text_even {tab f g : Nat} {TA TB : Str} {ra rb : Node} {fa fb : Refs}
    (hl : (splitS nn TA).getLast? = some [])
    (hb : startsPHR tab ((splitS nn TB).headD []) = true)
    (hA : parseDocumentWith tab f TA = some (ra, fa)) (hB : parseDocumentWith tab g TB = some (rb, fb)) :
    ∃ ka : List Node, ra = fillCode (withKids (Node.el "div") ka) ∧
      parseDocumentWith tab (f + g) (TA ++ TB) = some (withKids (Node.el "div") (ka ++ rb.children), fa ++ fb) := by
  obtain ⟨pa', e1, e2⟩ := parseDocumentWith_append_even hl hb hA hB
  have hs : shell rb = Node.el "div" := (parseBlocks_good tab g _ _ _ _ _ _ hB).2 (isstate_nil _)
  have hs' : shell pa' = Node.el "div" := by
    have h1 : shell ra = Node.el "div" := (parseBlocks_good tab f _ _ _ _ _ _ hA).2 (isstate_nil _)
    have h2 : shell (fillCode pa') = shell pa' := ((emptyP_good [] [] pa' [] []).2 (isstate_nil _))
    rw [← h1, e1, h2]
  refine ⟨pa'.children, ?_, ?_⟩
  · rw [e1]; congr 1; rw [← hs']; cases pa'; rfl
  · rw [e2, ← hs]; rfl

/-- `fillCode` changes nothing unless the last child is a `pre` whose first child is a `code` -/
theorem C08_fillCode_id {p : Node} (h : ∀ sib, p.last? = some sib → preCode sib = none) : fillCode p = p :=
  fillCode_eq_self h

/-- **C08 on texts**, for `parseDocument` (fuel `fuelFor`), `TA` any text that ends with a blank line, the first
    block of `TB` beginning with a paragraph, heading or rule.  Whenever the three runs return (they always do by
    the informal argument at `fuelFor`, which is not formalised), the references of `TA ++ TB` are those of `TA`
    followed by those of `TB`, and its tree is `ka ++ (tree of TB)` where the tree of `TA` is `ka`, possibly after
    `fillCode`. -/
theorem C08_text {tab : Nat} {X TB : Str} {ra rb rab : Node} {fa fb fab : Refs}
    (hb : startsPHR tab ((splitS nn TB).headD []) = true)
    (hA : parseDocument tab (X ++ nn) = some (ra, fa)) (hB : parseDocument tab TB = some (rb, fb))
    (hAB : parseDocument tab (X ++ nn ++ TB) = some (rab, fab)) :
    ∃ ka : List Node, (ra = withKids (Node.el "div") ka ∨ ra = fillCode (withKids (Node.el "div") ka)) ∧
      rab = withKids (Node.el "div") (ka ++ rb.children) ∧ fab = fa ++ fb := by
  rcases C08_last_block X with hl | hl
  · obtain ⟨ka, e1, e2⟩ := C08_text_even hl hb hA hB
    have := parseBlocks_fuel_det tab hAB e2
    simp only [Prod.mk.injEq] at this
    exact ⟨ka, Or.inr e1, this.1, this.2⟩
  · have e2 := C08_text_odd hl hb hA hB
    have := parseBlocks_fuel_det tab hAB e2
    simp only [Prod.mk.injEq] at this
    have hs : shell ra = Node.el "div" := (parseBlocks_good tab _ _ _ _ _ _ _ hA).2 (isstate_nil _)
    exact ⟨ra.children, Or.inl (by rw [← hs]; cases ra; rfl), this.1, this.2⟩

/-! ### 6. boundary cases (kernel-checked) -/

/-- `startsPHR` is needed: a block that begins with a list item joins the unfinished list of A … -/
example : (parseDocument 4 "- a\n\n".toList).map (kidTags ·.1) = some ["ul".toList] ∧
    (parseDocument 4 "- b\n\n".toList).map (kidTags ·.1) = some ["ul".toList] ∧
    (parseDocument 4 "- a\n\n- b\n\n".toList).map (kidTags ·.1) = some ["ul".toList] := by decide +kernel

/-- … an indented block after a list is a continuation of the item, not a code block … -/
theorem C08_counter_indented :
    (parseDocument 4 "- a\n\n".toList).map (kidTags ·.1) = some ["ul".toList] ∧
    (parseDocument 4 "    b\n\n".toList).map (kidTags ·.1) = some ["pre".toList] ∧
    (parseDocument 4 "- a\n\n    b\n\n".toList).map (kidTags ·.1) = some ["ul".toList] := by decide +kernel

/-- … and a quote joins the quote before it. -/
example : (parseDocument 4 "> a\n\n> b\n\n".toList).map (kidTags ·.1) = some ["blockquote".toList] := by decide +kernel

/-- `ks ≠ []` is needed in the frame: without a child, the children in front are the siblings that are looked at -/
theorem C08_counter_frame_empty :
    (dispatch 4 (parseBlocks 4 9) [] [] (withKids (Node.el "div") ([Node.el "pre"] ++ [])) "    x".toList []).map
        (fun r => kidTags r.1) = some ["pre".toList, "pre".toList] ∧
    (dispatch 4 (parseBlocks 4 9) [] [] (withKids (Node.el "div") ([Node.el "ul"] ++ [])) "    x".toList []).map
        (fun r => kidTags r.1) = some ["ul".toList] := by decide +kernel

/-- the state condition of `C08_sibling_blind` is needed: in the tight-list state a paragraph block becomes the
    tail of the last child, or the text of the parent when there is none -/
theorem C08_counter_list_state :
    (parseBlocks 4 5 [.list] [] (withKids (Node.el "li") [Node.el "ul"]) ["x".toList]).map
        (fun r => (r.1.text, r.1.children.map (·.tail))) = some (none, [some "\nx".toList]) ∧
    (parseBlocks 4 5 [.list] [] (withKids (Node.el "li") []) ["x".toList]).map
        (fun r => (r.1.text, r.1.children.map (·.tail))) = some (some "x".toList, []) := by decide +kernel

/-- the even case is exact only up to `fillCode`: alone, the code block of A ends with `"\n\n\n"`; followed by B,
    with `"\n"` -/
theorem C08_counter_even_filler :
    (parseDocument 4 "    c\n\n".toList).map (firstCodeText ·.1) = some (some "c\n\n\n".toList) ∧
    (parseDocument 4 ("    c\n\n".toList ++ "x\n\n".toList)).map (firstCodeText ·.1) = some (some "c\n".toList) ∧
    (parseDocument 4 ("    c\n\n".toList ++ "x\n\n".toList)).map (kidTags ·.1) = some ["pre".toList, "p".toList] := by
  decide +kernel

/-- in the odd case nothing is lost -/
example :
    (parseDocument 4 "    c\n\n\n".toList).map (firstCodeText ·.1) = some (some "c\n\n".toList) ∧
    (parseDocument 4 ("    c\n\n\n".toList ++ "x\n\n".toList)).map (firstCodeText ·.1) = some (some "c\n\n".toList) := by
  decide +kernel

end MdVerif.Block
