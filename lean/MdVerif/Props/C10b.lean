/-
C10 (continued) — "The output never contains the STX/ETX control characters or any of the placeholder tokens the
converter uses internally …": the leak-free inline subset widened (a) to the exact region of F-C10-4 and (b) by
reference-style links.

`Props/C10.lean` proves `C10_partial_emph` for sources that have no backtick, or no backslash and no `>`.  Here:

(a) `C10_partial_emph2`: the source has no `<`, `&`, `[`, `]` and its normalised text has **no backslash immediately
    followed by a backtick** (`C10DomainE2`) — code spans, backslash escapes, hard line breaks, `*`/`_` emphasis of any
    nesting and all block constructs together; this is exactly what F-C10-4 excludes.
(b) `C10_partial_links`: brackets are allowed as well — reference links `[text][label]`, `[text][]`, `[label]` with any
    inline content in the text, and their definitions `[label]: url "title"` — as long as the normalised text has
    none of the adjacencies backslash–backtick, `![` (images) and `](` (inline links) (`C10DomainL`).  The attribute
    values of such links come from the definitions, never from inline text, which is why nothing can leak into them;
    F-C10-1/2 need an inline link or an image.

Vocabulary: `MdVerif/Spec/NoCtlB.lean`; helper lemmas: `MdVerif/Lemmas/PlaceholdersB*.lean`.  Core Lean only.

1. `C10b_backtick_runs`: without backslash–backtick adjacency, `BACKTICK_RE` matches at an offset iff a run of `m`
   backticks starts there and a later maximal run has exactly `m` backticks (`Opens`).
2. `C10b_span_behind_placeholders` ("a code span never encloses an earlier placeholder"): on a text in which the
   pattern matches nowhere at or before an STX (`BtSafe`: a fresh text, or one in which some spans have already been
   replaced), the first match lies behind every STX; replacing it by a placeholder keeps the text `BtSafe`.
3. `C10b_no_second_pass_span`: once the pattern has run over a text (`BtDone`), replacing stretches by placeholders or
   tokens (`C10b_done_replace`) and cutting pieces out before non-backticks (`C10b_done_cut`) keeps it without a match —
   so when `InlineProcessor.run` visits the text of a nested element again, no code span can form around an escape
   token.  (With a backslash before a backtick this fails: `C10_second_pass_code_leak` in `Props/C10.lean`.)
4. `C10b_block_keeps_adjacency`: the block parser creates none of the three adjacencies.
5. The link patterns: `C10b_inline_link_off`, `C10b_image_off`, `C10b_reference_stash_ok`.
6. The inline engine with these invariants: `C10b_ids_bounded`, `C10b_all_visited_pp`, `C10b_all_visited_run`.
7. End to end: `C10_partial_links`, `C10_partial_emph2`.
-/
import MdVerif.Lemmas.PlaceholdersB

namespace MdVerif.NoCtl
open Py Inline

/-! ## 1–3. `BACKTICK_RE` on texts with placeholders -/

/-- **Matches in terms of backtick runs.**  In a text without a backslash immediately before a backtick,
    `BACKTICK_RE` fails at offset `j` exactly when no code span can open there: there is no `m ≥ 1` such that `m`
    backticks stand at `j` and, after at least one more character, a run of exactly `m` backticks follows that is
    neither preceded nor followed by a backtick. -/
theorem C10b_backtick_runs {s : Str} (h : NoAdj s) {j : Nat} (hj : j ≤ s.length) : FailsAt s j ↔ ¬ Opens s j :=
  failsAt_iff h hj

/-- under the same hypothesis the "escaped backslashes" alternative of `BACKTICK_RE` never matches -/
theorem C10b_backtick_kind {s : Str} (h : NoAdj s) {si : Nat} {m : BtMatch} (hm : btFind s si = some m) :
    m.kind = .code := btFind_kind h hm

/-- **A code span never encloses an earlier placeholder.**  If the pattern matches nowhere at or before an STX of `s`
    (`BtSafe`), its first match is a code span `pre ‖ n backticks, G, n backticks ‖ rest` with no STX in `G` and
    `rest`; and with any placeholder-like string `t` in place of the span, the text is again `BtSafe` and without
    backslash–backtick adjacency. -/
theorem C10b_span_behind_placeholders {s : Str} (h : NoAdj s) (hs : BtSafe s) {m : BtMatch} (hm : btFind s 0 = some m) :
    ∃ pre n G rest, s = pre ++ (List.replicate n '`' ++ G ++ List.replicate n '`') ++ rest ∧ 1 ≤ n ∧ G ≠ [] ∧
      m = ⟨.code, pre.length, pre.length + n + G.length + n, G⟩ ∧ STX ∉ G ∧ STX ∉ rest ∧
      ∀ t, SepOK t → NoAdj (pre ++ t ++ rest) ∧ BtSafe (pre ++ t ++ rest) :=
  bt_first_match h hs hm

/-- a text without STX is `BtSafe`; a text in which the pattern matches nowhere is `BtSafe` -/
theorem C10b_safe_start {s : Str} : (STX ∉ s → BtSafe s) ∧ (BtDone s → BtSafe s) :=
  ⟨btSafe_of_no_stx, BtDone.safe⟩

example : NoAdj "a `b` \\* ``c`d`` \\\\ e".toList ∧ BtSafe "a `b` \\* ``c`d`` \\\\ e".toList ∧
    ¬ NoAdj "*_`\\``_*".toList := ⟨by decide, btSafe_of_no_stx (by decide), by decide⟩

/-- **No match appears by replacing.**  In a text where the pattern matches nowhere, replacing a stretch `M` that
    neither starts nor ends with a backtick by a placeholder-like string gives a text where it matches nowhere. -/
theorem C10b_done_replace {X M Y T : Str} (h : NoAdj (X ++ M ++ Y)) (hd : BtDone (X ++ M ++ Y)) (hM : M ≠ [])
    (hh : M.head? ≠ some '`') (hl : M.getLast? ≠ some '`') (hT : SepOK T) :
    BtDone (X ++ T ++ Y) ∧ NoAdj (X ++ T ++ Y) :=
  ⟨btDone_replace h hd hM hh hl hT, noAdj_replace h hM hT⟩

/-- **No match appears by cutting.**  A piece that ends before a non-backtick (or at the end of the text). -/
theorem C10b_done_cut {X S Y : Str} (h : NoAdj (X ++ S ++ Y)) (hd : BtDone (X ++ S ++ Y)) (hY : Y.head? ≠ some '`') :
    BtDone S ∧ NoAdj S := ⟨btDone_cut h hd hY, h.infix ⟨X, Y, rfl⟩⟩

example : SepOK (placeholder 7) ∧ SepOK (escToken 42) ∧ SepOK "**".toList :=
  ⟨sepOK_placeholder 7, sepOK_escToken 42, by refine ⟨by decide, by decide, by decide⟩⟩

/-- **No second-pass code span.**  `handleInline` returns a text in which `BACKTICK_RE` matches nowhere; every string
    it stores in the stash has that property too (`StOKB`, `StrB`). -/
theorem C10b_no_second_pass_span {cfg : Cfg} (hcfg : EscOK cfg.esc) (hrefs : RefsOK cfg) {data : Str} {st : St}
    {d : Str} {st' : St} (hs : StrT st.stash.length (some data)) (hst : StOKB st.stash)
    (h : handleInlineTop cfg data st = some (d, st')) : BtDone d ∧ Adj3 d ∧ StOKB st'.stash :=
  let r := hiSpecB hcfg hrefs data st d st' hs hst h
  ⟨r.1.2.2.2, r.1.2.2.1, r.2.1⟩

/-! ## 4. The block parser -/

/-- **The block parser creates none of the three adjacencies** (nor any character outside the domain): every tail
    and every non-atomic text of the block tree is an infix of the parsed text or a newline-join of such; the urls and
    titles of the reference definitions consist of characters of the text. -/
theorem C10b_block_keeps_adjacency (tab : Nat) {text : Str}
    (hp : (∀ c ∈ text, c ≠ STX ∧ c ≠ ETX ∧ domCharB c = true) ∧ Adj3 text) {root : Node} {refs : Block.Refs}
    (hr : Block.parseDocument tab text = some (root, refs)) :
    root.Forall (fun n => Adj3 (n.tail.getD []) ∧ (n.textAtomic = false → Adj3 (n.text.getD []))) ∧
    ∀ r ∈ refs, NoCtl r.2.1 ∧ NoCtl (r.2.2.getD []) := by
  have hP : Blk.AllC (fun c => Blk.okc c && domCharB c) text ∧ Adj3 text := by
    refine ⟨fun c hc => ?_, hp.2⟩
    have := hp.1 c hc
    simp [Blk.okc, this.1, this.2.1, this.2.2]
  obtain ⟨h1, h2, -⟩ := BlkB.parseDocument_strs strDom_adj3 tab text hP hr
  exact ⟨Node.Forall.mono (fun _ hn => ⟨hn.2.1.2, fun ha => (hn.2.2 ha).2⟩) root h1,
    fun r hr' => ⟨(allC_domB (h2 r hr').1).1, (allC_domB (h2 r hr').2).1⟩⟩

/-! ## 5. The link patterns -/

/-- without `](` the inline-link pattern matches nowhere -/
theorem C10b_inline_link_off (cfg : Cfg) (stash : List StashItem) {data : Str} (hp : NoPair ']' '(' data)
    (suf : Str) (prev : Option Char) (i : Nat) : linkScan cfg stash 3 data prev suf i = none :=
  linkScan_inline_none cfg stash hp suf prev i

/-- without `![` the three image patterns match nowhere -/
theorem C10b_image_off (cfg : Cfg) (stash : List StashItem) {pi : Nat} (hpi : pi = 4 ∨ pi = 5 ∨ pi = 7) (data : Str)
    {suf : Str} (hp : NoPair '!' '[' suf) (prev : Option Char) (i : Nat) :
    linkScan cfg stash pi data prev suf i = none := linkScan_image_none cfg stash hpi data suf prev i hp

/-- **reference / short reference**: the match is `[text][label]` resp. `[label]`; with a definition it returns an `a`
    element whose `href`/`title` are those of the definition (no STX/ETX: `RefsOK`) and whose text lies between the
    brackets of the data (cut before `]`: well formed, no new `BACKTICK_RE` match); without one it returns nothing to
    stash.  `DataB pi k data`: the data while pattern `pi` is at work. -/
theorem C10b_reference_stash_ok {cfg : Cfg} (hrefs : RefsOK cfg) (stash : List StashItem) {pi k : Nat}
    (hpi : pi = 2 ∨ pi = 6) {data : Str} (hd : DataB pi k data) {i : Nat} {t : Str}
    (hbr : data.drop i = '[' :: t) {f : Found} (h : linkHandle cfg stash pi data i (i + 1) = some f) :
    FoundOKB k pi data f := linkHandle_ref_ok hrefs stash hpi hd hbr h

/-! ## 6. The inline engine with the widened invariants -/

/-- **`ids_bounded`** on the widened domain: on a text of the tree (`StrT`: tokens in range, in the domain, no
    adjacency, `BtSafe`) `handleInline` returns a text of the same kind in which moreover `BACKTICK_RE` matches nowhere
    (`StrB`), and a closed stash (`StOKB`: stashed `code` elements have an atomic text without STX/ETX). -/
theorem C10b_ids_bounded {cfg : Cfg} (hcfg : EscOK cfg.esc) (hrefs : RefsOK cfg) : HISpecB cfg := hiSpecB hcfg hrefs

/-- **`all_visited`, `processPlaceholders`**: every placeholder is replaced; the rebuilt strings are again without
    adjacency and without a `BACKTICK_RE` match. -/
theorem C10b_all_visited_pp {st : St} (hst : StOKB st.stash) {data : Str} {isText : Bool} {parent parent' : Node}
    {res : List Node} (hs : StrB st.stash.length (some data)) (hslot : (if isText then parent.text else parent.tail) = none)
    (hflag : (if isText then parent.textAtomic else parent.tailAtomic) = false)
    (h : ppTop st data false parent isText = some (res, parent')) :
    StrB 0 (if isText then parent'.text else parent'.tail) ∧
    ∀ n ∈ res, CleanB n ∧ n.Forall (WNodeB st.stash.length) := by
  have o := ppTopB_spec hst hs (by simpa [slot] using hslot) hflag h
  exact ⟨by simpa [slot] using o.slotOK, fun n hn => ⟨(o.res n hn).2, (o.res n hn).1⟩⟩

/-- **`all_visited`, `InlineProcessor.run`** -/
theorem C10b_all_visited_run {cfg : Cfg} (hhi : HISpecB cfg) {tree t : Node} {html : List Str} {st : St}
    (ht : tree.Forall (WNodeB 0)) (h : run cfg tree html = some (t, st)) :
    t.Forall (WNodeB 0) ∧ st.html = html := run_specB hhi ht h

/-! ## 7. End to end -/

/-- **End to end, with reference links.**  For a source without `<`, `&` whose normalised text has none of the
    adjacencies backslash–backtick, `![`, `](`, whatever `Markdown.convert` returns (`Pipeline.convert`; any tab length,
    output format and block-level set; the escapable characters must be ordinary ones) contains neither STX nor ETX.
    Inside: everything of `C10_partial_emph2`, brackets, and reference links in all three spellings with their
    definitions. -/
theorem C10_partial_links (cfg : Pipeline.Cfg) (hcfg : EscOK cfg.esc) {src out : Str}
    (hd : C10DomainL cfg.tab src) (h : Pipeline.convert cfg src = .ok out) : NoCtl out :=
  convert_noctlL hcfg hd h

example : C10DomainL 4 "see [the *docs* `x`][Doc], [doc] and [undefined] \\[a\\] (b)\n\n[doc]: /u(v) \"T `t`\"".toList ∧
    ¬ C10DomainL 4 "[a](b)".toList ∧ ¬ C10DomainL 4 "![a][b]".toList := ⟨by decide, by decide, by decide⟩

example : Pipeline.convert {} "see [the *docs* `x`][Doc] and [doc]\n\n[doc]: /u \"T\"".toList =
    .ok "<p>see <a href=\"/u\" title=\"T\">the <em>docs</em> <code>x</code></a> and <a href=\"/u\" title=\"T\">doc</a></p>".toList := by
  decide +kernel

/-- **End to end, the exact region of F-C10-4.**  For a source without `<`, `&`, `[`, `]` whose normalised text has
    no backslash immediately followed by a backtick, the output contains neither STX nor ETX.  `C10_partial_emph` and
    `C10_partial_plain` are special cases (`C10b_domain_widens`). -/
theorem C10_partial_emph2 (cfg : Pipeline.Cfg) (hcfg : EscOK cfg.esc) {src out : Str}
    (hd : C10DomainE2 cfg.tab src) (h : Pipeline.convert cfg src = .ok out) : NoCtl out :=
  convert_noctlB hcfg hd h

example : C10DomainE2 4 "a `b > c` \\* d *e `f` \\_ g*  \nh __i__ > j\n\n> q `r`\n\n    code > x\n\n* l1 \\\\\n* `l2`".toList ∧
    EscOK ({} : Pipeline.Cfg).esc := ⟨by decide, escOK_default⟩

/-- STX/ETX in the source do not matter, unless their deletion creates the adjacency -/
example : C10DomainE2 4 "a\x02`b`\x03 \\* c".toList ∧ ¬ C10DomainE2 4 "\\\x02`".toList := ⟨by decide, by decide⟩

example : Pipeline.convert {} "a `b > c` \\* d *e `f` \\_ g*".toList =
    .ok "<p>a <code>b &gt; c</code> * d <em>e <code>f</code> _ g</em></p>".toList := by decide +kernel

/-- the domain without brackets is inside the one with reference links -/
theorem C10b_domain_links {tab : Nat} {s : Str} (h : C10DomainE2 tab s) : C10DomainL tab s := domainL_of_E2 h

/-- the domain of `C10_partial_emph` is inside the new one (for a positive tab length the normaliser creates no
    adjacency in a text that has no backtick or no backslash) -/
theorem C10b_domain_widens {tab : Nat} {s : Str} (h : C10DomainE s) : C10DomainE2 tab s := by
  have key : ∀ esc, DomS esc s → C10DomainE2 tab s := by
    intro esc hd
    refine ⟨fun c hc => ?_, ?_⟩
    · have := hd c hc
      cases esc <;> simp [domChar] at this <;> simp [this]
    have hn : ∀ c ∈ Normalize.normalize tab s, domChar esc c = true := by
      intro c hc
      rcases (Normalize.mem_normalize hc).1 with rfl | rfl | hm
      · cases esc <;> decide
      · cases esc <;> decide
      · exact hd c hm
    cases esc with
    | true => exact noAdj_of_no_backtick (dom_no_backtick hn)
    | false => exact noAdj_of_no_backslash (dom_no_backslash hn)
  rcases h with h | h
  · exact key true h
  · exact key false h

end MdVerif.NoCtl
