/-
C05 on the extension model — "the output … built only from Markdown's element vocabulary … with only href, title,
src and alt attributes": with bundled extensions enabled the vocabulary grows, extension by extension, and by nothing
else.

`PipelineX.treeX x cfg src` is the element tree that `Markdown.convert` hands to the serializer when the extensions
`x` are enabled (11 flags: fenced_code, tables, admonition, def_list, abbr, footnotes, sane_lists, nl2br, wikilinks,
attr_list, toc; `Model/PipelineX.lean`).  For every flag set, configuration and source:

  **every element of the tree has a name of `tagOkX x` and attribute names of `keyOkX x`** (`C05X_tree_vocab`),

where (`Lemmas/VocabXPipe.lean`)

  `tagOkX x`  = Markdown's vocabulary (p h1–h6 ul ol li blockquote pre code hr br em strong a img), `div` (the wrapper,
                the admonition, the footnote list, the table of contents), and
                tables: `table thead tbody tr th td` · def_list: `dl dt dd` · abbr: `abbr` · footnotes: `sup`;
  `keyOkX x`  = `href title src alt`, and
                tables: `style` · admonition, footnotes, wikilinks, toc: `class` · sane_lists: `start` ·
                footnotes, toc: `id` · attr_list: every name of its key grammar (`alKey`).

Flag by flag: `C05X_core` (no flag: the vocabulary of C05 and the wrapper), `C05X_vocab_mono` (a flag only adds),
`C05X_flag_needed` (each addition is needed: kernel-checked documents on which the model — as the implementation —
produces the element / attribute, and the name is outside the vocabulary without the flag).  nl2br and fenced_code
add nothing to the tree (`br` is in the core vocabulary; fenced blocks travel in the raw-HTML stash).

attr_list can set ARBITRARY attribute names within its key grammar (documented behaviour): `C05X_attr_list_keys`
says what it can set — `class`, or what `sanitize_name` returns: only characters of `NAME_RE`'s complement class —
and `C05X_attr_list_not_names` shows that such a name need not be an XML name (`1a`, `wéird`), so that the output can
fail to be a well-formed XHTML fragment for the strict reader; without attr_list every name is a name
(`C05X_names`).

The serialiser/reader round trip C14 applies to the tree whenever it is `WFTree` (`C05X_roundtrip`): beyond the names
this asks for pairwise distinct attribute names and empty void elements, which this file does not derive.

Only property statements live here; proofs in `MdVerif/Lemmas/VocabX{Inline,Block,Tree,Pipe}.lean`.  Core Lean only.
-/
import MdVerif.Lemmas.VocabXPipe
import MdVerif.Props.C14

namespace MdVerif.C05
open Py PipelineX VocabX Ser
open BlockExt (NI allNodes)

/-! ### 1. the vocabulary of the tree -/

/-- **Vocabulary of the extension model.**  For every set of enabled extensions `x`, every configuration and every
    source: each element of the tree handed to the serializer (`NI`: the element and all its descendants) has a tag
    that is an ordinary name accepted by `tagOkX x` and only attributes whose names are accepted by `keyOkX x`
    (`qtX x`) — never a comment, a processing instruction, a `None`-tag or a `QName`. -/
theorem C05X_tree_vocab (x : Exts) (cfg : Pipeline.Cfg) (src : Str) (u : Node) (html : List Str)
    (h : treeX x cfg src = .ok u html) : NI (qtX x) u := treeX_NI x cfg src u html h

/-- the same, read off one element and its children -/
theorem C05X_tree_vocab_node (x : Exts) {n : Node} (h : NI (qtX x) n) :
    (∃ t, n.tag = .name t ∧ tagOkX x t = true) ∧ (∀ kv ∈ n.attrs, keyOkX x kv.1 = true) ∧
      ∀ c ∈ n.children, NI (qtX x) c := by
  rw [BlockExt.NI_iff] at h
  obtain ⟨h1, h2⟩ := h
  cases ht : n.tag with
  | name t =>
    rw [ht] at h1
    simp only [qtX, Bool.and_eq_true, List.all_eq_true] at h1
    exact ⟨⟨t, rfl, h1.1⟩, h1.2, h2⟩
  | comment => rw [ht] at h1; simp [qtX] at h1
  | pi => rw [ht] at h1; simp [qtX] at h1
  | none => rw [ht] at h1; simp [qtX] at h1
  | qname q => rw [ht] at h1; simp [qtX] at h1

/-! ### 2. flag by flag -/

/-- **no extension**: the vocabulary of C05 and the wrapper `div`; `href`, `title`, `src`, `alt` -/
theorem C05X_core (t k : Str) :
    tagOkX {} t = (Vocab2.hasTag Vocab2.vocabTags t || t = "div".toList) ∧ keyOkX {} k = Vocab2.attrOk k := by
  simp [tagOkX, keyOkX]

/-- what each extension adds, spelt out (one flag at a time) -/
theorem C05X_single_flags (t k : Str) :
    tagOkX { tables := true } t = (tagOkX {} t || Vocab2.hasTag tableTags t) ∧
    keyOkX { tables := true } k = (keyOkX {} k || k = "style".toList) ∧
    tagOkX { defList := true } t = (tagOkX {} t || Vocab2.hasTag defListTags t) ∧
    keyOkX { defList := true } k = keyOkX {} k ∧
    tagOkX { admonition := true } t = tagOkX {} t ∧
    keyOkX { admonition := true } k = (keyOkX {} k || k = "class".toList) ∧
    tagOkX { footnotes := true } t = (tagOkX {} t || t = "sup".toList) ∧
    keyOkX { footnotes := true } k = (keyOkX {} k || k = "class".toList || k = "id".toList) ∧
    tagOkX { abbr := true } t = (tagOkX {} t || t = "abbr".toList) ∧
    keyOkX { abbr := true } k = keyOkX {} k ∧
    tagOkX { nl2br := true } t = tagOkX {} t ∧ keyOkX { nl2br := true } k = keyOkX {} k ∧
    tagOkX { wikilinks := true } t = tagOkX {} t ∧
    keyOkX { wikilinks := true } k = (keyOkX {} k || k = "class".toList) ∧
    tagOkX { saneLists := true } t = tagOkX {} t ∧
    keyOkX { saneLists := true } k = (keyOkX {} k || k = "start".toList) ∧
    tagOkX { toc := true } t = tagOkX {} t ∧
    keyOkX { toc := true } k = (keyOkX {} k || k = "class".toList || k = "id".toList) ∧
    tagOkX { fencedCode := true } t = tagOkX {} t ∧ keyOkX { fencedCode := true } k = keyOkX {} k ∧
    tagOkX { attrList := true } t = tagOkX {} t ∧
    keyOkX { attrList := true } k = (keyOkX {} k || alKey k) := by
  simp [tagOkX, keyOkX]

/-- **a flag only adds**: enabling more extensions keeps every name of the vocabulary -/
theorem C05X_vocab_mono (x y : Exts)
    (hle : (x.tables → y.tables) ∧ (x.admonition → y.admonition) ∧ (x.defList → y.defList) ∧ (x.abbr → y.abbr) ∧
      (x.footnotes → y.footnotes) ∧ (x.saneLists → y.saneLists) ∧ (x.wikilinks → y.wikilinks) ∧
      (x.attrList → y.attrList) ∧ (x.toc → y.toc)) (t k : Str) :
    (tagOkX x t = true → tagOkX y t = true) ∧ (keyOkX x k = true → keyOkX y k = true) := by
  obtain ⟨h1, h2, h3, h4, h5, h6, h7, h8, h9⟩ := hle
  constructor
  · intro h
    simp only [tagOkX, Bool.or_eq_true, Bool.and_eq_true, decide_eq_true_eq] at h ⊢
    rcases h with ((((h | h) | h) | h) | h) | h
    · exact Or.inl (Or.inl (Or.inl (Or.inl (Or.inl h))))
    · exact Or.inl (Or.inl (Or.inl (Or.inl (Or.inr h))))
    · exact Or.inl (Or.inl (Or.inl (Or.inr ⟨h1 h.1, h.2⟩)))
    · exact Or.inl (Or.inl (Or.inr ⟨h3 h.1, h.2⟩))
    · exact Or.inl (Or.inr ⟨h4 h.1, h.2⟩)
    · exact Or.inr ⟨h5 h.1, h.2⟩
  · intro h
    simp only [keyOkX, Bool.or_eq_true, Bool.and_eq_true, decide_eq_true_eq] at h ⊢
    rcases h with ((((h | h) | h) | h) | h) | h
    · exact Or.inl (Or.inl (Or.inl (Or.inl (Or.inl h))))
    · exact Or.inl (Or.inl (Or.inl (Or.inl (Or.inr ⟨h1 h.1, h.2⟩))))
    · refine Or.inl (Or.inl (Or.inl (Or.inr ⟨?_, h.2⟩)))
      rcases h.1 with ((h' | h') | h') | h'
      · exact Or.inl (Or.inl (Or.inl (h2 h')))
      · exact Or.inl (Or.inl (Or.inr (h5 h')))
      · exact Or.inl (Or.inr (h7 h'))
      · exact Or.inr (h9 h')
    · exact Or.inl (Or.inl (Or.inr ⟨h6 h.1, h.2⟩))
    · refine Or.inl (Or.inr ⟨?_, h.2⟩)
      rcases h.1 with h' | h'
      · exact Or.inl (h5 h')
      · exact Or.inr (h9 h')
    · exact Or.inr ⟨h8 h.1, h.2⟩

/-- the serialisation of the tree, for the examples -/
def serX (x : Exts) (src : String) : Str :=
  match treeX x {} src.toList with
  | .ok u _ => serialize .xhtml u
  | _ => []

/-- **each addition is needed** — tables: the six elements and `style`; the model's tree for a two-column table
    (as `markdown.markdown(…, extensions=['tables'])` writes it), and the names are outside the core vocabulary -/
theorem C05X_flag_needed_tables :
    serX { tables := true } "| a | b |\n|---|:-:|\n| c | d |" =
      ("<div>\n<table>\n<thead>\n<tr>\n<th>a</th>\n<th style=\"text-align: center;\">b</th>\n</tr>\n</thead>\n" ++
       "<tbody>\n<tr>\n<td>c</td>\n<td style=\"text-align: center;\">d</td>\n</tr>\n</tbody>\n</table>\n</div>\n").toList ∧
    tableTags.all (fun t => !tagOkX {} t.toList) = true ∧ keyOkX {} "style".toList = false := by
  refine ⟨by decide +kernel, by decide, by decide⟩

/-- def_list: `dl dt dd`; admonition: `div.admonition`, `p.admonition-title` -/
theorem C05X_flag_needed_deflist_admonition :
    serX { defList := true } "term\n: def" = "<div>\n<dl>\n<dt>term</dt>\n<dd>def</dd>\n</dl>\n</div>\n".toList ∧
    defListTags.all (fun t => !tagOkX {} t.toList) = true ∧
    serX { admonition := true } "!!! note \"T\"\n    body" =
      ("<div>\n<div class=\"admonition note\">\n<p class=\"admonition-title\">T</p>\n<p>body</p>\n</div>\n" ++
       "</div>\n").toList ∧
    keyOkX {} "class".toList = false := by
  refine ⟨by decide +kernel, by decide, by decide +kernel, by decide⟩

/-- footnotes: `sup#fnref…`, `a.footnote-ref`, `div.footnote`, `li#fn…`, the (duplicated) `a.footnote-backref` -/
theorem C05X_flag_needed_footnotes :
    serX { footnotes := true } "x[^1] y[^1]\n\n[^1]: note" =
      ("<div>\n<p>x<sup id=\"fnref:1\"><a class=\"footnote-ref\" href=\"#fn:1\">1</a></sup> y<sup id=\"fnref2:1\">" ++
       "<a class=\"footnote-ref\" href=\"#fn:1\">1</a></sup></p>\n<div class=\"footnote\">\n<hr />\n<ol>\n" ++
       "<li id=\"fn:1\">\n<p>note\x02qq3936677670287331zz\x03<a class=\"footnote-backref\" href=\"#fnref:1\" " ++
       "title=\"Jump back to footnote 1 in the text\">\x02zz1337820767766393qq\x03</a>" ++
       "<a class=\"footnote-backref\" href=\"#fnref2:1\" title=\"Jump back to footnote 1 in the text\">" ++
       "\x02zz1337820767766393qq\x03</a></p>\n</li>\n</ol>\n</div>\n</div>\n").toList ∧
    tagOkX {} "sup".toList = false ∧ keyOkX {} "id".toList = false := by
  refine ⟨by decide +kernel, by decide, by decide⟩

/-- abbr: `abbr`; wikilinks: `a.wikilink`; sane_lists: `ol start`; toc: `div.toc`, heading `id`; nl2br: `br` -/
theorem C05X_flag_needed_inline :
    serX { abbr := true } "The HTML spec\n\n*[HTML]: Hyper Text" =
      "<div>\n<p>The <abbr title=\"Hyper Text\">HTML</abbr> spec</p>\n</div>\n".toList ∧
    tagOkX {} "abbr".toList = false ∧
    serX { wikilinks := true } "[[Wiki Link]]" =
      "<div>\n<p><a class=\"wikilink\" href=\"/Wiki_Link/\">Wiki Link</a></p>\n</div>\n".toList ∧
    serX { saneLists := true } "5. five\n6. six" =
      "<div>\n<ol start=\"5\">\n<li>five</li>\n<li>six</li>\n</ol>\n</div>\n".toList ∧
    serX {} "5. five\n6. six" = "<div>\n<ol>\n<li>five</li>\n<li>six</li>\n</ol>\n</div>\n".toList ∧
    keyOkX {} "start".toList = false ∧
    serX { toc := true } "[TOC]\n\n# Head" =
      ("<div>\n<div class=\"toc\">\n<ul>\n<li><a href=\"#head\">Head</a></li>\n</ul>\n</div>\n" ++
       "<h1 id=\"head\">Head</h1>\n</div>\n").toList ∧
    serX { nl2br := true } "a\nb" = "<div>\n<p>a<br />\nb</p>\n</div>\n".toList := by
  refine ⟨by decide +kernel, by decide, by decide +kernel, by decide +kernel, by decide +kernel, by decide,
    by decide +kernel, by decide +kernel⟩

/-! ### 3. attr_list -/

/-- **what attr_list can set**: a name accepted by `keyOkX x` is one of the fixed names of the enabled extensions,
    or — with attr_list — a name made of the characters that `sanitize_name` keeps (`AttrList.nameChar`, the
    complement class of `NAME_RE`: letters, digits, `_`, `:`, `-`, `.`, and the non-ASCII name characters of XML);
    `class` and `id` (written `.c` and `#i`) are such names. -/
theorem C05X_attr_list_keys (x : Exts) (k : Str) (h : keyOkX x k = true) :
    k ∈ ["href", "title", "src", "alt", "style", "class", "start", "id"].map String.toList ∨
      (x.attrList = true ∧ k.all AttrList.nameChar = true) := by
  simp only [keyOkX, Bool.or_eq_true, Bool.and_eq_true, decide_eq_true_eq] at h
  rcases h with ((((h | h) | h) | h) | h) | h
  · left
    simp only [Vocab2.attrOk, Vocab2.attrNames, List.any_cons, List.any_nil, Bool.or_false, Bool.or_eq_true,
      decide_eq_true_eq] at h
    rcases h with h | h | h | h <;> subst h <;> decide
  · left; rw [h.2]; decide
  · left; rw [h.2]; decide
  · left; rw [h.2]; decide
  · left; rw [h.2]; decide
  · exact Or.inr ⟨h.1, h.2⟩

/-- every name that `assign_attrs` writes is `class` or a sanitised name, and these are in the grammar -/
theorem C05X_attr_list_assign (a : AttrList.Attrs) (kv : Str × Str) :
    ∀ p ∈ AttrList.assignStep a kv, p.1 ∈ a.map Prod.fst ∨ alKey p.1 = true := keysLe_assignStep a kv

/-- **the grammar is wider than XML names** (documented behaviour of attr_list, not a defect of C05, which is about
    the converter without extensions): `{: #i .c 1a=2 wéird=1 }` sets the attributes `1a` and `wéird`; the first is no
    XML name, the second is none for the strict reader of `Spec/Reader.lean` (ASCII names), which therefore rejects
    the output — the tree is not `WFTree`. -/
theorem C05X_attr_list_not_names :
    serX { attrList := true } "para\n{: #i .c 1a=2 wéird=1 }" =
      "<div>\n<p 1a=\"2\" class=\"c\" id=\"i\" wéird=\"1\">para</p>\n</div>\n".toList ∧
    alKey "1a".toList = true ∧ alKey "wéird".toList = true ∧ isName "wéird".toList = false ∧
    (readForest .xhtml (serX { attrList := true } "para\n{: #i .c 1a=2 wéird=1 }")).isNone = true := by
  refine ⟨by decide +kernel, by decide, by decide, by decide, by decide +kernel⟩

/-! ### 4. names and the round trip -/

/-- **without attr_list every tag and every attribute name is a name** (`Ser.isName`), and no element is a raw-text
    element (`script`, `style`): the first two conditions of `WFTree` -/
theorem C05X_names (x : Exts) (hal : x.attrList = false) (t k : Str) :
    (tagOkX x t = true → isName t = true ∧ isRawTextTag t = false) ∧ (keyOkX x k = true → isName k = true) := by
  constructor
  · intro h
    simp only [tagOkX, Bool.or_eq_true, Bool.and_eq_true, decide_eq_true_eq] at h
    have key : ∀ l : List String, Vocab2.hasTag l t = true → (∀ s ∈ l, isName s.toList = true ∧ isRawTextTag s.toList = false) →
        isName t = true ∧ isRawTextTag t = false := by
      intro l hl hall
      simp only [Vocab2.hasTag, List.any_eq_true, decide_eq_true_eq] at hl
      obtain ⟨s, hs, rfl⟩ := hl
      exact hall s hs
    rcases h with ((((h | h) | h) | h) | h) | h
    · exact key _ h (by decide)
    · subst h; decide
    · exact key _ h.2 (by decide)
    · exact key _ h.2 (by decide)
    · rw [h.2]; decide
    · rw [h.2]; decide
  · intro h
    rcases C05X_attr_list_keys x k h with h' | h'
    · simp only [List.map_cons, List.map_nil, List.mem_cons, List.not_mem_nil, or_false] at h'
      rcases h' with h' | h' | h' | h' | h' | h' | h' | h' <;> subst h' <;> decide
    · rw [hal] at h'; cases h'.1

/-- **the round trip of C14 applies** to the tree whenever it is well formed in the sense of `WFTree` (names — see
    `C05X_names` —, pairwise distinct attribute names, empty void elements): the serialisation reads back, with the
    strict reader, to the elements, attributes and texts of the tree. -/
theorem C05X_roundtrip (x : Exts) (cfg : Pipeline.Cfg) (src : Str) (u : Node) (html : List Str)
    (_h : treeX x cfg src = .ok u html) (hw : WFTree u = true) :
    readForest cfg.fmt (serialize cfg.fmt u) = some (canon u) := C14_roundtrip cfg.fmt u hw

/-- the trees of all the examples above except the attr_list one are `WFTree` -/
example : (match treeX { tables := true } {} "| a | b |\n|---|:-:|\n| c | d |".toList with
    | .ok u _ => WFTree u | _ => false) = true ∧
    (match treeX { footnotes := true } {} "x[^1] y[^1]\n\n[^1]: note".toList with
    | .ok u _ => WFTree u | _ => false) = true ∧
    (match treeX { attrList := true } {} "para\n{: #i .c 1a=2 wéird=1 }".toList with
    | .ok u _ => WFTree u | _ => true) = false := by
  refine ⟨by decide +kernel, by decide +kernel, by decide +kernel⟩

end MdVerif.C05
