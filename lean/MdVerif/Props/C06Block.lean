/-
C06 (block-parser half) — "Every letter of running text in the source appears in the rendered text exactly once and in
the same order: conversion only removes markup characters and adds tags, it never drops, repeats or moves the reader's
words, whatever markup surrounds them."  Domain: documents without raw HTML, entity references or link/reference syntax.

This file: the block parser (`MdVerif/Model/Block.lean`: `parseDocument`, `parseBlocks`, `dispatch`, the eleven core
processors) conserves letters.  Definitions are in `MdVerif/Spec/Letters.lean`:

* `LetterClass isLetter` — the only assumption on "letter": not white space, not a decimal digit (`\d`, the marker of
  an ordered list), none of `# = - _ * + . > &`.  All alphabets of all scripts qualify (`stdLetter` is the largest class).
* `letters s`, `docLetters tree` (document order; in a `code` element, whose text is stored HTML-escaped, an entity
  reference `&…;` is markup: `code_escape` turns `>` into `&gt;`), `queueLetters blocks`.
* `plain s` — the domain: none of `[` (link / reference syntax), `&` (entity references), `<` (raw HTML).
* `inv isLetter tab state parent blocks` — the invariant of the loop (decidable): `treeOk` on the tree, `plain` pending
  blocks, `listInv` (in state `list` the parent is the `li`, at most one block is pending, and it is indented or follows
  an element whose tail `ParagraphProcessor` may write).  It is what makes *in the same order* true: each processor
  adds its letters at the END of the document order only because no tail with letters sits on the `ul`/`ol`/`li`/
  `blockquote`/`pre` elements that later blocks are added into.
* `ConservesPB` (hypothesis on the recursive call, the same shape as what is proved of `parseBlocks`),
  `TurnConserves` (one turn of the loop), `CallConserves` (one call).

Results: every processor conserves (`C06_*_conserves`), hence `dispatch` (`C06_dispatch_conserves`), hence
`parseBlocks` with any fuel (`C06_parseBlocks_conserves`), hence for every `tab_length` and every `plain` text
`docLetters root = letters text` (`C06_parseDocument_conserves`).  No hypothesis beyond the domain was needed.
Helper lemmas: `MdVerif/Lemmas/BlockConserveStr.lean`, `MdVerif/Lemmas/BlockConserve.lean`.  Core Lean only.
-/
import MdVerif.Lemmas.BlockConserve

namespace MdVerif.Letters
open Py MdVerif.Block

variable {isLetter : Char → Bool} {tab : Nat} {pb : PB} {state : List BState} {refs refs' : Refs}
  {parent parent' : Node} {b : Str} {rest blocks' : List Str}

/-! ### the hypotheses are satisfiable -/

/-- `LetterClass`: the largest class … -/
example : LetterClass stdLetter := stdLetter_class
/-- … and every sub-class of it, e.g. the ASCII letters, or the letters of any script -/
example : LetterClass (fun c => c.isAlpha && stdLetter c) :=
  stdLetter_class.mono (fun c hc => by simp only [Bool.and_eq_true] at hc; exact hc.2)
example : letters stdLetter "- Żółć **and** 1. #x > y_".toList = "Żółćandxy".toList := by decide +kernel
/-- `plain`: a document with lists, code, a quote, a header, emphasis -/
example : plain "# T\n\n- a *b*\n\n      c > d\n\n> 1. e\n\nf\n===".toList = true := by decide +kernel
/-- `inv` at the start of a document (`inv_start`: for every plain text) -/
example : inv stdLetter 4 [] (Node.el "div") (splitS ['\n', '\n'] "# T\n\n- a".toList) = true := by decide +kernel
/-- `inv` in the middle of a tight list item: parent `li` with a header, one pending block -/
example : inv stdLetter 4 [.list] ((Node.el "li").append (mkText "h1" "T".toList)) ["b c".toList] = true := by
  decide +kernel
/-- `ConservesPB`: `parseBlocks` itself, with any fuel (`C06_parseBlocks_conserves` below) -/
example : ConservesPB stdLetter 4 (parseBlocks 4 0) := conserves_iff.mp (parseBlocks_conserves stdLetter_class 4 0)

/-! ### the eleven processors -/

/-- `EmptyBlockProcessor` (a block that is empty or starts with a newline): the rest of the block goes back -/
theorem C06_empty_conserves (hL : LetterClass isLetter) (hinv : inv isLetter tab state parent (b :: rest) = true)
    (hb : (b.isEmpty || startsWith b ['\n']) = true)
    (hr : emptyP refs parent b rest = (parent', refs', blocks')) :
    TurnConserves isLetter tab state parent b rest parent' blocks' :=
  (emptyP_step hL hinv hb hr).turn

/-- `ListIndentProcessor`: the indented block goes to the end of the innermost list item that its indentation reaches -/
theorem C06_indent_conserves (hL : LetterClass isLetter) (hpb : ConservesPB isLetter tab pb)
    (hinv : inv isLetter tab state parent (b :: rest) = true)
    (hr : indentP tab pb state refs parent b rest = some (parent', refs', blocks')) :
    TurnConserves isLetter tab state parent b rest parent' blocks' :=
  (indentP_step hL (conserves_iff.mpr hpb) hinv hr).turn

/-- `CodeBlockProcessor` (never in state `list`: there `ListIndentProcessor` takes the indented block): the indented
    lines go, escaped, into the `code`; the lines after them go back -/
theorem C06_code_conserves (hL : LetterClass isLetter) (hinv : inv isLetter tab state parent (b :: rest) = true)
    (hnl : isstate state .list = false)
    (hr : codeP tab refs parent b rest = (parent', refs', blocks')) :
    TurnConserves isLetter tab state parent b rest parent' blocks' :=
  (codeP_step hL hinv hnl hr).turn

/-- `HashHeaderProcessor`: the lines before the header are parsed first, the lines after it go back -/
theorem C06_hash_conserves (hL : LetterClass isLetter) (hpb : ConservesPB isLetter tab pb)
    (hinv : inv isLetter tab state parent (b :: rest) = true) (hns : startsWith b (spaces tab) = false)
    {m : Nat × Nat × Nat × Str} (hm : hashSearch b = some m)
    (hr : hashP tab pb state refs parent b rest m = some (parent', refs', blocks')) :
    TurnConserves isLetter tab state parent b rest parent' blocks' :=
  (hashP_step hL (conserves_iff.mpr hpb) hinv hns hm hr).turn

/-- `SetextHeaderProcessor`: the underline has no letters, the lines after it go back -/
theorem C06_setext_conserves (hL : LetterClass isLetter) (hinv : inv isLetter tab state parent (b :: rest) = true)
    (hm : setextMatch b = true) (hr : setextP refs parent b rest = (parent', refs', blocks')) :
    TurnConserves isLetter tab state parent b rest parent' blocks' :=
  (setextP_step hL hinv hm hr).turn

/-- `HRProcessor`: the rule has no letters; the lines before it are parsed first, the lines after it go back -/
theorem C06_hr_conserves (hL : LetterClass isLetter) (hpb : ConservesPB isLetter tab pb)
    (hinv : inv isLetter tab state parent (b :: rest) = true) (hns : startsWith b (spaces tab) = false)
    {m : Nat × Nat} (hm : hrSearch b = some m)
    (hr : hrP pb state refs parent b rest m = some (parent', refs', blocks')) :
    TurnConserves isLetter tab state parent b rest parent' blocks' :=
  (hrP_step hL (conserves_iff.mpr hpb) hinv hns hm hr).turn

/-- `OListProcessor`: the items (`get_items`) have the letters of the block; each is parsed into its `li` -/
theorem C06_olist_conserves (hL : LetterClass isLetter) (hpb : ConservesPB isLetter tab pb)
    (hinv : inv isLetter tab state parent (b :: rest) = true) (hns : startsWith b (spaces tab) = false)
    (hm : (listItemMatch tab true false b).isSome = true)
    (hr : listP tab pb state refs parent b rest "ol" = some (parent', refs', blocks')) :
    TurnConserves isLetter tab state parent b rest parent' blocks' :=
  (listP_step hL (conserves_iff.mpr hpb) (Or.inl rfl) hinv hns (Or.inl hm) hr).turn

/-- `UListProcessor` -/
theorem C06_ulist_conserves (hL : LetterClass isLetter) (hpb : ConservesPB isLetter tab pb)
    (hinv : inv isLetter tab state parent (b :: rest) = true) (hns : startsWith b (spaces tab) = false)
    (hm : (listItemMatch tab false true b).isSome = true)
    (hr : listP tab pb state refs parent b rest "ul" = some (parent', refs', blocks')) :
    TurnConserves isLetter tab state parent b rest parent' blocks' :=
  (listP_step hL (conserves_iff.mpr hpb) (Or.inr rfl) hinv hns (Or.inr hm) hr).turn

/-- `BlockQuoteProcessor`: the lines before the quote are parsed first; the cleaned quote goes into the `blockquote` -/
theorem C06_quote_conserves (hL : LetterClass isLetter) (hpb : ConservesPB isLetter tab pb)
    (hinv : inv isLetter tab state parent (b :: rest) = true) (hns : startsWith b (spaces tab) = false) {q : Nat}
    (hr : quoteP pb state refs parent b rest q = some (parent', refs', blocks')) :
    TurnConserves isLetter tab state parent b rest parent' blocks' :=
  (quoteP_step hL (conserves_iff.mpr hpb) hinv hns hr).turn

/-- `ReferenceProcessor` consumes a definition — outside the domain: on a `plain` block it never fires -/
theorem C06_reference_inert (hp : plain b = true) : refSearch b = none := refSearch_none_of_plain hp

/-- `ParagraphProcessor`: a new `p`, or — in a tight list item — the text of the `li` / the tail of its last child -/
theorem C06_paragraph_conserves (hL : LetterClass isLetter) (hinv : inv isLetter tab state parent (b :: rest) = true)
    (hns : startsWith b (spaces tab) = false)
    (hr : paraP state refs parent b rest = (parent', refs', blocks')) :
    TurnConserves isLetter tab state parent b rest parent' blocks' :=
  (paraP_step hL hinv hns hr).turn

/-! ### the loop -/

/-- **One turn of the loop conserves letters.**  If the recursive call `pb` conserves letters (`ConservesPB`, the
    statement proved of `parseBlocks` below), then whichever processor `dispatch` runs on the first pending block `b`:
    the tree and the queue afterwards have, together, exactly the letters of the tree, of `b` and of the rest of the queue
    before, in this order — nothing dropped, repeated or moved — and the invariant holds again. -/
theorem C06_dispatch_conserves (hL : LetterClass isLetter) (hpb : ConservesPB isLetter tab pb)
    (hinv : inv isLetter tab state parent (b :: rest) = true)
    (hr : dispatch tab pb state refs parent b rest = some (parent', refs', blocks')) :
    TurnConserves isLetter tab state parent b rest parent' blocks' :=
  (dispatch_step hL (conserves_iff.mpr hpb) hinv hr).turn

/-- **`parseBlocks` conserves letters**, with any fuel, whenever it returns: the letters of the pending blocks are
    added, in order, at the end of the document order of the parent. -/
theorem C06_parseBlocks_conserves (hL : LetterClass isLetter) (tab fuel : Nat) :
    ConservesPB isLetter tab (parseBlocks tab fuel) :=
  conserves_iff.mp (parseBlocks_conserves hL tab fuel)

/-- the invariant holds when the document is started -/
theorem C06_inv_start (hL : LetterClass isLetter) (tab : Nat) {text : Str} (hp : plain text = true) :
    inv isLetter tab [] (Node.el "div") (splitS ['\n', '\n'] text) = true := inv_start hL tab hp

/-- **C06 for the block parser.**  For every class of letters, every `tab_length` and every text of the domain (no `[`,
    `&`, `<`): the element tree that `parseDocument` builds has exactly the letters of the text, each once, in the order
    of the text. -/
theorem C06_parseDocument_conserves (hL : LetterClass isLetter) {tab : Nat} {text : Str} (hp : plain text = true)
    {root : Node} {refs : Refs} (hr : parseDocument tab text = some (root, refs)) :
    docLetters isLetter root = letters isLetter text :=
  (parseDocumentWith_conserves hL hp hr).1

/-- … with any fuel, and the tree is `treeOk` -/
theorem C06_parseDocumentWith_conserves (hL : LetterClass isLetter) {tab fuel : Nat} {text : Str}
    (hp : plain text = true) {root : Node} {refs : Refs} (hr : parseDocumentWith tab fuel text = some (root, refs)) :
    docLetters isLetter root = letters isLetter text ∧ treeOk isLetter root = true :=
  parseDocumentWith_conserves hL hp hr

/-! ### the theorem at work, and why the hypotheses are there -/

/-- nested list, indented code with `>`, quote, setext header: the letters, once, in order -/
example : (parseDocument 4 "- a *b*\n\n      c > d\n\n> 1. e\n\nf\n===".toList).map
    (fun r => docLetters stdLetter r.1) = some "abcdef".toList := by decide +kernel

/-- the tree stores `>` of the code as `&gt;`: these `g`, `t` are not letters of the document -/
example : (parseDocument 4 "    a > b".toList).map (fun r => r.1.children.map (fun pre => pre.children.map (·.text))) =
    some [[some "a &gt; b\n".toList]] := by decide +kernel

/-- `plain` is needed (and is the domain of the property): a reference definition is consumed -/
example : plain "[a]: /u\n\nxy".toList = false ∧
    (parseDocument 4 "[a]: /u\n\nxy".toList).map (fun r => docLetters (fun c => c.isAlpha && stdLetter c) r.1) =
      some "xy".toList ∧
    letters (fun c => c.isAlpha && stdLetter c) "[a]: /u\n\nxy".toList = "auxy".toList := by decide +kernel

/-- `not_decimal` is needed: the marker of an ordered list is markup -/
example : (parseDocument 4 "1. a".toList).map (fun r => docLetters (fun c => c.isAlphanum) r.1) = some "a".toList ∧
    letters (fun c => c.isAlphanum) "1. a".toList = "1a".toList := by decide +kernel

end MdVerif.Letters
