/-
C01 — Canonical Markdown renders to the prescribed structure; nesting and spelling never change the rendering.
Part i: inline images.  A paragraph may be one line of words, escapes, code spans, emphasised words and INLINE IMAGES
`![alt](src)` / `![alt](src "title")` / `![alt](src 'title')` (`imgRun`, `Spec/DocFlat3.lean`; the alt text is plain
words by well-formedness — the image pattern does not render the alt text, `spec` prescribes it as an attribute value —,
destinations of `wfDest` without `_` and `&`).  `ImgDoc` is `LinkDoc` (`Props/C01h.lean`) with such paragraphs and
contains it (`C01_img_covers_link`).

    WF d → ImgDoc d → inlineStyle d sp → Pipeline.convert {} (print d sp) = .ok (spec d)          (`C01_inline_images`)

**Not for all spellings**, as in part h: `print` draws the STYLE of every link and image from the spelling
(`linkStyle`): 0 inline, 1 inline with `<dest>` (on `<` the model answers out of domain), 2–4 the reference styles
(`![alt][id]`, `![alt][]`, `![alt]` with a definition at the end: the subject of C15, `Props/C15Forms.lean`).
`inlineStyle d sp`: the printed source has no `<` and no reference definition.

**Links and images are not mixed in one paragraph** of `ImgDoc` (`isImgBlock`: a paragraph is of `BrDoc`, or a line with
links, or a line with images).  The link pattern (3) runs over the whole line before the image pattern (4): with both
in a line the stash is not in document order.  That case is the LAST part of this file (`MixedDoc`,
`C01_links_images_mixed`).

How it is proved.  `Lemmas/DocParse6Def.lean`: the line `C₀ ![alt₁](d₁) C₁ … ![altₘ](dₘ) Cₘ` at every stage (`imStage`),
what the loop returns and stashes (`imRes`, `imStash`).  `Lemmas/DocParse6Loop.lean` (`C01i_img_loop`): the pattern
loop — the passes on the contents are those of `Lemmas/RefTextPass.lean`; patterns 2 (reference) and 3 (link) skip every
`![` (look-behind `(?<!\!)`), pattern 4 takes the images out left to right (`<img>` has no text: nothing nested), 5–13
find nothing, 14/15 take the emphases.  `Lemmas/DocParse6Back.lean` (`C01i_img_elem`): `__processPlaceholders`, the second
visits, prettify, unescape, the serializer — the paragraph (or heading: any of the tags p, h1–h6) as an `Elem` of
`Lemmas/DocParse2.lean`.  `Lemmas/DocParse6Print.lean` (`C01i_img_print`, `C01i_img_out`): the printed form under
`printInlines` with the style drawn from the spelling, the block-stage facts of the line, the specification side.
`Lemmas/DocParse6.lean`: the paragraph as a piece, the blocks, the document.

**Links in headings** (second half of the file, namespace `DocLinkH`): an ATX or Setext heading may be one line of
words, escapes, code spans, emphasised words and INLINE LINKS (`linkRunH`); `LinkHDoc` is `LinkDoc` with such headings.

    WF d → LinkHDoc d → inlineStyle d sp → Pipeline.convert {} (print d sp) = .ok (spec d)         (`C01_heading_links`)

No `firstLinkOK` for headings: a heading line that starts with `[a\]: b](u)` is not a reference definition — the
hash-header and Setext processors run before the reference processor (`sampleH`).  Proof (`Lemmas/DocParse6H.lean`): the
inline stages of `Lemmas/RefTextInl*.lean`, stated there for the tag `p`, hold for `h1` … `h6` (`hElem_ok`); the
hash-header and Setext processors on content that may start with `[` (`produces_atx_rawH`, `produces_setext_rawH`).

**Everything together** (`LinkImgDoc`, `Lemmas/DocParse6All.lean`): paragraphs of `BrDoc`, or one line with links, or one
line with images; headings of `Deep2Doc`, or with links, or with images (the `<img>` element of
`Lemmas/DocParse6Back.lean` is stated for the six heading tags; the image line satisfies `RawOK`).

    WF d → LinkImgDoc d → inlineStyle d sp → Pipeline.convert {} (print d sp) = .ok (spec d)       (`C01_links_images`)

**Links and images in the same line** (`MixedDoc`, namespace `DocMix`, `Lemmas/DocParse6M*.lean`): a paragraph or heading
may be one line of words, escapes, code spans, emphasised words, inline links and inline images IN ANY ORDER.

    WF d → MixedDoc d → inlineStyle d sp → Pipeline.convert {} (print d sp) = .ok (spec d)   (`C01_links_images_mixed`)

The pattern loop (`C01i_mixed_loop`): pattern 2 skips every `[text](` and `![`; pattern 3 takes the links out left to
right while the images stay source (its scan passes `![…](…)` — `SkipA`); pattern 4 then takes the images; the stash
holds all `<a>` elements before all `<img>` elements, the placeholders in the line are in document order, and
`__processPlaceholders` finds every element where its placeholder says (`C01i_mixed_elem`).  Contains everything above
(`C01_mixed_covers_linkImg`).

**… and hard breaks** (`MixedBrDoc`, namespace `DocMixB`, `Lemmas/DocParse6N*.lean`): a paragraph may have SEVERAL lines of
such items with hard breaks (two spaces and a line feed) between them.

    WF d → MixedBrDoc d → inlineStyle d sp → Pipeline.convert {} (print d sp) = .ok (spec d)  (`C01_links_images_breaks`)

A third kind of use: after the links (pattern 3) and the images (4) the line-break pattern (10) takes the hard breaks
out; the stash holds the `<a>`, then the `<img>`, then the `<br>` elements (`C01i_br_loop`).  The block parser on a
paragraph whose lines may start with a link (`C01i_br_block`): the reference pattern is searched at EVERY line start of
a block, so a link that starts any line of the paragraph must not look like `[a]: b](u)` (`lineLinksOK` — the gap of
`C01h_wf_gap`, for every line).  Contains everything above (`C01_mixedBr_covers_mixed`).

Still outside: images inside link texts, two levels of emphasis in a line with links or images, `_` / `&` in
destinations, the reference styles and `<dest>` (`inlineStyle`), links and images inside block quotes and lists.

Tested before proving: `harness/corr/imgdoc.py` (modes `img`, `imglink`, `himg`, `hlink`, `all`, `mixall`: 12 000 pairs
each; `brmix`: 6 000 pairs; no difference between model, specification and implementation).
-/
import MdVerif.Props.C01h
import MdVerif.Lemmas.DocParse6All
import MdVerif.Lemmas.DocParse6M
import MdVerif.Lemmas.DocParse6N

namespace MdVerif.DocImg
open Py Inline Escape DocSpec CodeLaw DocParse Block DocParse2 RefText DocLink

/-- **The printed form of content with images.**  Content `A`, then the images `ls` each with the content after it
    (`joinImgs`): the definitions of the printer's state grow by `extra`; when they do not grow and no `<` is printed,
    every image is printed in the inline style — the line is a chunk followed by `![alt](dest "title")content` for
    every image (`imStage`), with what the stages need of every part (`ChunkW`, `ImgsW`). -/
theorem C01i_img_print (ls : List ImgIt) (A : List DocSpec.Inline) (st : PSt) (hA : mixOK A = true)
    (hls : ∀ l ∈ ls, ImgOK l) :
    ∃ (s : Str) (st' : PSt) (extra : List Str), printInlines none true true (joinImgs A ls) st = (s, st') ∧
      st'.defs = st.defs ++ extra ∧
      (extra = [] → '<' ∉ s → ∃ (C0 : Chunk) (is : List MUse),
        (∀ m n0, s = C0.raw ESC ++ imStage ESC 0 false m n0 is) ∧ ChunkW A C0 ∧ ImgsW ls is) :=
  printImgs_rel ls A st hA hls

/-- **The inline pattern loop on the line**: `__handleInline` returns the line with every item and every image a
    placeholder (`imRes`) and adds the code spans, the escapes, the `<img>` elements and the emphases to the stash, in
    this order (`imStash`). -/
theorem C01i_img_loop (cfg : Inline.Cfg) (hE : EscOK cfg.esc) (hrb : ']' ∈ cfg.esc) (C0 : Chunk) (us : List MUse)
    (h0 : ChunkOK cfg.esc C0) (hus : ∀ u ∈ us, MUseOK cfg.esc u) (st : St) :
    handleInlineTop cfg (imgRaw cfg.esc C0 us) st =
      some (imRes cfg.esc st.stash.length C0 us,
        { st with stash := st.stash ++ imStash cfg.esc st.stash.length C0 us }) :=
  loopOK_imgs cfg hE hrb C0 us h0 hus st

/-- **The element through the inline processor and the tree stages**: the contract of `C01b_render_elems`, for a
    paragraph and for the six heading tags. -/
theorem C01i_img_elem (cfg : Inline.Cfg) (hE : EscOK cfg.esc) (hrb : ']' ∈ cfg.esc) (tg : Str)
    (htg : tg ∈ ["p", "h1", "h2", "h3", "h4", "h5", "h6"].map String.toList) (C0 : Chunk) (us : List MUse)
    (h0 : ChunkOK cfg.esc C0) (hus : ∀ u ∈ us, MUseOK cfg.esc u) (hne : us ≠ []) :
    ElemOK cfg (iElem tg cfg.esc C0 us) :=
  iElem_ok cfg hE hrb tg htg C0 us h0 hus hne (loopOK_imgs cfg hE hrb C0 us h0 hus)

/-- **The output is the specification's**: the contents rendered by `specInlines`, every image as
    `<img alt="alt" src="dest" title="title" />`. -/
theorem C01i_img_out (ls : List ImgIt) (is : List MUse) (h : ImgsW ls is) (A : List DocSpec.Inline) (C0 : Chunk)
    (hW : ChunkW A C0) : C0.out ++ imOut is = specInlines (joinImgs A ls) :=
  imOut_spec ls is h A C0 hW

/-- **`ImgDoc` contains `LinkDoc`.** -/
theorem C01_img_covers_link (d : Doc) (h : DocSpec.LinkDoc d = true) : DocSpec.ImgDoc d = true := by
  simp only [DocSpec.LinkDoc, DocSpec.ImgDoc, List.all_eq_true] at h ⊢
  intro b hb
  have := h b hb
  cases b with
  | para c => simp only [isLinkBlock] at this; simp [isImgBlock, this]
  | rule => exact this
  | code _ => exact this
  | atx _ _ => exact this
  | setext _ _ => exact this
  | quote _ => exact this
  | ulist _ _ => exact this
  | olist _ _ => exact this

/-- **Inline images.**  `d` well-formed; every block a rule, an indented code block without `<`, an ATX or Setext
    heading of `Deep2Doc`, a paragraph of `LinkDoc` (two levels of emphasis and hard breaks, or one line with inline
    links), or a paragraph that is one line of words, escapes, code spans, emphasised words and inline images with
    destinations without `_` and `&`; the spelling draws the inline style for every link and image (`inlineStyle`: the
    printed source has no `<` and no reference definition): the converter returns `spec d`. -/
theorem C01_inline_images (d : Doc) (sp : Spelling) (hwf : WF d = true) (hs : DocSpec.ImgDoc d = true)
    (hsp : DocSpec.inlineStyle d sp = true) : Pipeline.convert {} (print d sp) = .ok (spec d) :=
  convert_imgDoc d sp hwf hs hsp

/-- **Spelling never changes the rendering** on `ImgDoc`, among the spellings of the inline style. -/
theorem C01_img_spelling (d : Doc) (sp sp' : Spelling) (hwf : WF d = true) (hs : DocSpec.ImgDoc d = true)
    (hsp : DocSpec.inlineStyle d sp = true) (hsp' : DocSpec.inlineStyle d sp' = true) :
    Pipeline.convert {} (print d sp) = Pipeline.convert {} (print d sp') := by
  rw [C01_inline_images d sp hwf hs hsp, C01_inline_images d sp' hwf hs hsp']

/-! ### the hypotheses are satisfiable; instances evaluated by the kernel -/

/-- a paragraph that starts with an image (a title), goes on with words, strong, an escaped `!` directly before a
    second image (`#` in its destination) and words; a heading; a paragraph that ends with an image directly after a
    code span with a bracket; a paragraph with a link; a code block -/
def sampleImg : Doc :=
  [.para [.image (S "the logo") (S "http://x.org/a-b.png?c=1") (some (S "a title")), .text (S " and "),
     .strong [.text (S "b")], .esc '!', .image (S "two") (S "/p/q.png#frag") none, .text (S " end")],
   .atx 2 [.em [.text (S "t")]],
   .para [.text (S "see "), .code (S "k]"), .image (S "x1") (S "u") none],
   .para [.link [.text (S "a link")] (S "/l") none, .text (S " here")],
   .code [S "raw"]]

example : WF sampleImg = true ∧ DocSpec.ImgDoc sampleImg = true ∧ DocSpec.LinkDoc sampleImg = false := by decide

example : DocSpec.inlineStyle sampleImg ⟨[5, 15, 5, 25, 15, 5, 5, 5, 15, 5, 5, 25, 5, 15, 5, 5, 5, 5]⟩ = true ∧
    DocSpec.inlineStyle sampleImg ⟨[0, 0, 10, 5, 0, 0, 5, 0, 20]⟩ = true ∧
    DocSpec.inlineStyle sampleImg ⟨[2, 2, 0, 2, 0, 4, 0, 2, 0, 2, 5, 2, 0, 0, 2, 0, 0, 2, 2, 2, 2, 0, 0]⟩ = false := by
  decide +kernel

example : print sampleImg ⟨[5, 15, 5, 25, 15, 5, 5, 5, 15, 5, 5, 25, 5, 15, 5, 5, 5, 5]⟩ =
    (" ![the logo](http://x.org/a-b.png?c=1 'a title') and __b__\\!![two](/p/q.png#frag) end\n\n## _t_ ##\n\n" ++
     "   see ```k]```![x1](u)\n\n [a link](/l) here\n\n    raw").toList := by decide +kernel

/-- a spelling outside `inlineStyle`: the first image in a reference style, with its definition at the end -/
example : print sampleImg ⟨[2, 2, 0, 2, 0, 4, 0, 2, 0, 2, 5, 2, 0, 0, 2, 0, 0, 2, 2, 2, 2, 0, 0]⟩ =
    ("  ![the logo][r-1] and **b**\\!![two](/p/q.png#frag) end\n\n## *t*\n\nsee ```k]```![x1](u)\n\n" ++
     "[a link](/l) here\n\n    raw\n\n[r-1]: http://x.org/a-b.png?c=1 \"a title\"").toList := by decide +kernel

example : spec sampleImg =
    ("<p><img alt=\"the logo\" src=\"http://x.org/a-b.png?c=1\" title=\"a title\" /> and <strong>b</strong>!" ++
     "<img alt=\"two\" src=\"/p/q.png#frag\" /> end</p>\n<h2><em>t</em></h2>\n" ++
     "<p>see <code>k]</code><img alt=\"x1\" src=\"u\" /></p>\n<p><a href=\"/l\">a link</a> here</p>\n" ++
     "<pre><code>raw\n</code></pre>").toList := by decide +kernel

example : Pipeline.convert {} (print sampleImg ⟨[5, 15, 5, 25, 15, 5, 5, 5, 15, 5, 5, 25, 5, 15, 5, 5, 5, 5]⟩) =
    .ok (spec sampleImg) :=
  C01_inline_images _ _ (by decide) (by decide) (by decide +kernel)

/-- the same instances evaluated by the kernel on the model, independently of the theorem -/
example : Pipeline.convert {} (print sampleImg ⟨[5, 15, 5, 25, 15, 5, 5, 5, 15, 5, 5, 25, 5, 15, 5, 5, 5, 5]⟩) =
    .ok (spec sampleImg) := by decide +kernel

/-- what is outside the sub-grammar: `_` or `&` in a destination, a link and an image in one paragraph, an image in a
    link text, an image in a heading (see `LinkImgDoc` for the last) -/
example : DocSpec.ImgDoc [.para [.image (S "a") (S "x_y") none]] = false ∧
    DocSpec.ImgDoc [.para [.image (S "a") (S "x&y") none]] = false ∧
    DocSpec.ImgDoc [.para [.image (S "a") (S "u") none, .link [.text (S "b")] (S "v") none]] = false ∧
    DocSpec.ImgDoc [.para [.link [.image (S "a") (S "u") none] (S "v") none]] = false ∧
    DocSpec.ImgDoc [.atx 1 [.image (S "a") (S "u") none]] = false := by decide

end MdVerif.DocImg

/-! ## links in headings -/

namespace MdVerif.DocLinkH
open Py Inline Escape DocSpec CodeLaw DocParse Block DocParse2 RefText DocLink

/-- `LinkHDoc` contains `LinkDoc`. -/
theorem C01_linkH_covers_link (d : Doc) (h : DocSpec.LinkDoc d = true) : DocSpec.LinkHDoc d = true := by
  simp only [DocSpec.LinkDoc, DocSpec.LinkHDoc, List.all_eq_true] at h ⊢
  intro b hb
  have := h b hb
  cases b <;> simp_all [isLinkBlock, isLinkHBlock, isDeep2Block]

/-- **C01 on documents with inline links in paragraphs and in headings.**  A well-formed document (`WF`) of rules,
    code blocks, paragraphs of `LinkDoc` and ATX / Setext headings that are a line of words, escapes, code spans,
    emphasised words and inline links around such content (`LinkHDoc`), printed under any spelling that draws the inline
    style for every link (`inlineStyle`: no `<` in the printed source, no reference definition added), converts to
    what the specification prescribes. -/
theorem C01_heading_links (d : Doc) (sp : Spelling) (hwf : WF d = true) (hs : DocSpec.LinkHDoc d = true)
    (hsp : DocSpec.inlineStyle d sp = true) : Pipeline.convert {} (print d sp) = .ok (spec d) :=
  convert_linkHDoc d sp hwf hs hsp

/-- **Spelling never changes the rendering** on `LinkHDoc`, among the spellings of the inline style. -/
theorem C01_linkH_spelling (d : Doc) (sp sp' : Spelling) (hwf : WF d = true) (hs : DocSpec.LinkHDoc d = true)
    (hsp : DocSpec.inlineStyle d sp = true) (hsp' : DocSpec.inlineStyle d sp' = true) :
    Pipeline.convert {} (print d sp) = Pipeline.convert {} (print d sp') := by
  rw [C01_heading_links d sp hwf hs hsp, C01_heading_links d sp' hwf hs hsp']

/-- an ATX heading with a link (emphasis in its text, `#` in its destination, a title) between words; a Setext heading
    that STARTS with a link with escaped brackets in its text — `[\[a\] b](u)`, which would be excluded at the start of
    a paragraph (`firstLinkOK`) —, then words and a code span; a paragraph with a link -/
def sampleH : Doc :=
  [.atx 2 [.text (S "see "), .link [.text (S "the "), .em [.text (S "docs")]] (S "/p/q.html#frag") (some (S "a title")),
     .text (S " now")],
   .setext 1 [.link [.esc '[', .text (S "a"), .esc ']', .text (S " b")] (S "u") none, .text (S " and "),
     .code (S "k")],
   .para [.text (S "then "), .link [.text (S "c")] (S "http://x.org/v") none]]

example : WF sampleH = true ∧ DocSpec.LinkHDoc sampleH = true ∧ DocSpec.LinkDoc sampleH = false := by decide

example : DocSpec.inlineStyle sampleH ⟨[5, 15, 5, 25, 15, 5, 5, 5, 15, 5, 5, 25, 5, 15, 5, 5, 5, 5]⟩ = true ∧
    DocSpec.inlineStyle sampleH ⟨[10, 0, 5, 0, 10, 15, 0, 5, 20, 5, 0, 10, 15, 0, 0, 5, 0, 0]⟩ = true ∧
    DocSpec.inlineStyle sampleH ⟨[0, 5, 1, 0, 10, 1, 0, 5, 2, 5, 0, 0, 15, 3, 0, 0]⟩ = false := by
  decide +kernel

example : print sampleH ⟨[5, 15, 5, 25, 15, 5, 5, 5, 15, 5, 5, 25, 5, 15, 5, 5, 5, 5]⟩ =
    ("## see [the _docs_](/p/q.html#frag 'a title') now ##\n\n   [\\[a\\] b](u) and `k`\n======\n\n" ++
     " then [c](http://x.org/v)").toList := by decide +kernel

example : print sampleH ⟨[10, 0, 5, 0, 10, 15, 0, 5, 20, 5, 0, 10, 15, 0, 0, 5, 0, 0]⟩ =
    ("## see [the *docs*](/p/q.html#frag \"a title\") now #\n\n  [\\[a\\] b](u) and ```k```\n========\n\n" ++
     " then [c](http://x.org/v)").toList := by decide +kernel

/-- a spelling outside `inlineStyle`: the first link is printed with `<dest>` -/
example : print sampleH ⟨[0, 5, 1, 0, 10, 1, 0, 5, 2, 5, 0, 0, 15, 3, 0, 0]⟩ =
    ("## see [the _docs_](</p/q.html#frag> \"a title\") now\n\n  [\\[a\\] b](u) and ```k```\n==\n\n" ++
     " then [c](http://x.org/v)").toList := by decide +kernel

example : spec sampleH =
    ("<h2>see <a href=\"/p/q.html#frag\" title=\"a title\">the <em>docs</em></a> now</h2>\n" ++
     "<h1><a href=\"u\">[a] b</a> and <code>k</code></h1>\n" ++
     "<p>then <a href=\"http://x.org/v\">c</a></p>").toList := by decide +kernel

example : Pipeline.convert {} (print sampleH ⟨[5, 15, 5, 25, 15, 5, 5, 5, 15, 5, 5, 25, 5, 15, 5, 5, 5, 5]⟩) =
    .ok (spec sampleH) :=
  C01_heading_links _ _ (by decide) (by decide) (by decide +kernel)

/-- the same by evaluation of the model -/
example : Pipeline.convert {} (print sampleH ⟨[5, 15, 5, 25, 15, 5, 5, 5, 15, 5, 5, 25, 5, 15, 5, 5, 5, 5]⟩) =
    .ok (spec sampleH) := by decide +kernel

/-- outside the sub-grammar: an image in a heading, a hard break in a heading with a link (not well-formed either), `_`
    in a destination -/
example : DocSpec.LinkHDoc [.atx 1 [.image (S "a") (S "u") none]] = false ∧
    DocSpec.LinkHDoc [.atx 1 [.text (S "a"), .br, .link [.text (S "b")] (S "u") none]] = false ∧
    DocSpec.LinkHDoc [.setext 1 [.link [.text (S "a")] (S "x_y") none]] = false := by decide

end MdVerif.DocLinkH

/-! ## everything together: links or images, in paragraphs and in headings -/

namespace MdVerif.DocImg
open Py Inline Escape DocSpec CodeLaw DocParse Block DocParse2 RefText DocLink

/-- `LinkImgDoc` contains `ImgDoc`. -/
theorem C01_linkImg_covers_img (d : Doc) (h : DocSpec.ImgDoc d = true) : DocSpec.LinkImgDoc d = true := by
  simp only [DocSpec.ImgDoc, DocSpec.LinkImgDoc, List.all_eq_true] at h ⊢
  intro b hb
  have := h b hb
  cases b <;> simp_all [isImgBlock, isLinkImgBlock, isDeep2Block]

/-- `LinkImgDoc` contains `LinkHDoc`. -/
theorem C01_linkImg_covers_linkH (d : Doc) (h : DocSpec.LinkHDoc d = true) : DocSpec.LinkImgDoc d = true := by
  simp only [DocSpec.LinkHDoc, DocSpec.LinkImgDoc, List.all_eq_true] at h ⊢
  intro b hb
  have := h b hb
  cases b <;> simp_all [isLinkHBlock, isLinkImgBlock, isDeep2Block]

/-- **Images in headings**: an ATX or Setext heading that is one line of words, escapes, code spans, emphasised words
    and inline images prints as lines that are a piece with the output the specification prescribes (the contract
    `BlockPrints` of `Lemmas/DocParse5.lean`: under every spelling that adds no definition and prints no `<`). -/
theorem C01i_heading_images (l : Nat) (c : List DocSpec.Inline) (hp : imgRun c = true) (hl : (imgSplit c).2 ≠ []) :
    (wfBlock none (.atx l c) = true → BlockPrints (.atx l c)) ∧
      (wfBlock none (.setext l c) = true → BlockPrints (.setext l c)) :=
  ⟨fun hw => blockPrints_imgAtx l c hp hw hl, fun hw => blockPrints_imgSetext l c hp hw hl⟩

/-- **Inline links and inline images in flat documents.**  `d` well-formed; every block a rule, an indented code block
    without `<`, a paragraph of `BrDoc` (two levels of emphasis, hard breaks), or a paragraph / ATX heading / Setext
    heading that is one line of words, escapes, code spans, emphasised words and EITHER inline links around such content
    OR inline images (destinations without `_` and `&`; no bracket in the text of a link that starts a paragraph); the
    spelling draws the inline style for every link and image: the converter returns `spec d`.  Contains
    `C01_inline_links` (part h), `C01_inline_images` and `C01_heading_links`. -/
theorem C01_links_images (d : Doc) (sp : Spelling) (hwf : WF d = true) (hs : DocSpec.LinkImgDoc d = true)
    (hsp : DocSpec.inlineStyle d sp = true) : Pipeline.convert {} (print d sp) = .ok (spec d) :=
  convert_linkImgDoc d sp hwf hs hsp

/-- **Spelling never changes the rendering** on `LinkImgDoc`, among the spellings of the inline style. -/
theorem C01_linkImg_spelling (d : Doc) (sp sp' : Spelling) (hwf : WF d = true) (hs : DocSpec.LinkImgDoc d = true)
    (hsp : DocSpec.inlineStyle d sp = true) (hsp' : DocSpec.inlineStyle d sp' = true) :
    Pipeline.convert {} (print d sp) = Pipeline.convert {} (print d sp') := by
  rw [C01_links_images d sp hwf hs hsp, C01_links_images d sp' hwf hs hsp']

/-- an ATX heading with a link (an escaped bracket in its text, `#` in its destination, a title); a Setext heading that
    starts with a link whose text has brackets; a paragraph with an image; an ATX heading that is an image; a paragraph
    with a link around strong -/
def sampleAll : Doc :=
  [.atx 1 [.text (S "see "), .link [.text (S "a"), .esc ']'] (S "/p/q.html#frag") (some (S "T 1"))],
   .setext 2 [.link [.esc '[', .code (S "a]: x")] (S "url") none, .text (S " tail")],
   .para [.image (S "pic") (S "i.png") (some (S "cap")), .text (S " and "), .em [.text (S "w")]],
   .atx 3 [.image (S "in head") (S "h.png") none],
   .para [.text (S "go "), .link [.strong [.text (S "there")]] (S "ftp://x/y") none]]

example : WF sampleAll = true ∧ DocSpec.LinkImgDoc sampleAll = true ∧ DocSpec.LinkHDoc sampleAll = false ∧
    DocSpec.ImgDoc sampleAll = false := by decide

example : DocSpec.inlineStyle sampleAll ⟨[5, 15, 5, 25, 15, 5, 5, 5, 15, 5, 5, 25, 5, 15, 5, 5, 5, 5]⟩ = true ∧
    DocSpec.inlineStyle sampleAll ⟨[0, 5, 1, 0, 10, 1, 0, 5, 2, 5, 0, 0, 15, 3, 0, 0]⟩ = false := by decide +kernel

example : print sampleAll ⟨[5, 15, 5, 25, 15, 5, 5, 5, 15, 5, 5, 25, 5, 15, 5, 5, 5, 5]⟩ =
    ("# see [a\\]](/p/q.html#frag 'T 1') #\n\n [\\[```a]: x```](url) tail\n--------\n\n" ++
     "   ![pic](i.png 'cap') and _w_\n\n### ![in head](h.png) ###\n\n go [__there__](ftp://x/y)").toList := by
  decide +kernel

/-- a spelling outside `inlineStyle`: the image in the heading in the collapsed reference style -/
example : print sampleAll ⟨[0, 5, 1, 0, 10, 1, 0, 5, 2, 5, 0, 0, 15, 3, 0, 0]⟩ =
    ("# see [a\\]](/p/q.html#frag 'T 1')\n\n[\\[``a]: x``](url) tail\n---\n\n  ![pic](i.png \"cap\") and *w*\n\n" ++
     "### ![in head][]\n\ngo [**there**](ftp://x/y)\n\n[in head]: h.png").toList := by decide +kernel

example : spec sampleAll =
    ("<h1>see <a href=\"/p/q.html#frag\" title=\"T 1\">a]</a></h1>\n" ++
     "<h2><a href=\"url\">[<code>a]: x</code></a> tail</h2>\n" ++
     "<p><img alt=\"pic\" src=\"i.png\" title=\"cap\" /> and <em>w</em></p>\n" ++
     "<h3><img alt=\"in head\" src=\"h.png\" /></h3>\n" ++
     "<p>go <a href=\"ftp://x/y\"><strong>there</strong></a></p>").toList := by decide +kernel

example : Pipeline.convert {} (print sampleAll ⟨[5, 15, 5, 25, 15, 5, 5, 5, 15, 5, 5, 25, 5, 15, 5, 5, 5, 5]⟩) =
    .ok (spec sampleAll) :=
  C01_links_images _ _ (by decide) (by decide) (by decide +kernel)

/-- the same by evaluation of the model -/
example : Pipeline.convert {} (print sampleAll ⟨[5, 15, 5, 25, 15, 5, 5, 5, 15, 5, 5, 25, 5, 15, 5, 5, 5, 5]⟩) =
    .ok (spec sampleAll) := by decide +kernel

/-- outside: a link and an image in one heading, an image inside a link text, a hard break in a line with images -/
example : DocSpec.LinkImgDoc [.atx 1 [.image (S "a") (S "u") none, .link [.text (S "b")] (S "v") none]] = false ∧
    DocSpec.LinkImgDoc [.para [.link [.image (S "a") (S "u") none] (S "v") none]] = false ∧
    DocSpec.LinkImgDoc [.para [.image (S "a") (S "u") none, .br, .text (S "b")]] = false := by decide

end MdVerif.DocImg

/-! ## links and images in the same line -/

namespace MdVerif.DocMix
open Py Inline Escape DocSpec CodeLaw DocParse Block DocParse2 RefText DocLink DocImg

/-- **The inline pattern loop on a line with links and images in any order**: `__handleInline` returns the line with
    every item and every use a placeholder, in document order (`gRes`); the stash is NOT in document order — the link
    pattern (3) runs over the whole line before the image pattern (4): code spans, escapes, then for every link the
    emphases of its text and its `<a>` element, then all `<img>` elements, then the emphases of the contents
    (`gStash`). -/
theorem C01i_mixed_loop (cfg : Inline.Cfg) (hE : EscOK cfg.esc) (hrb : ']' ∈ cfg.esc) (C0 : Chunk) (gs : List GUse)
    (h0 : ChunkOK cfg.esc C0) (hgs : ∀ g ∈ gs, GUseOK cfg.esc g) (st : St) :
    handleInlineTop cfg (gRaw cfg.esc C0 gs) st =
      some (gRes cfg.esc st.stash.length C0 gs,
        { st with stash := st.stash ++ gStash cfg.esc st.stash.length C0 gs }) :=
  loopOK_mixed cfg hE hrb C0 gs h0 hgs st

/-- **The element through the inline processor and the tree stages** (tags p, h1–h6): `__processPlaceholders` finds
    every element where its placeholder says, whatever the order of the stash. -/
theorem C01i_mixed_elem (cfg : Inline.Cfg) (hE : EscOK cfg.esc) (hrb : ']' ∈ cfg.esc) (tg : Str)
    (htg : tg ∈ ["p", "h1", "h2", "h3", "h4", "h5", "h6"].map String.toList) (C0 : Chunk) (gs : List GUse)
    (h0 : ChunkOK cfg.esc C0) (hgs : ∀ g ∈ gs, GUseOK cfg.esc g) (hvis : ∀ u, GUse.lk u ∈ gs → u.T.Vis)
    (hne : gs ≠ []) : ElemOK cfg (gElem tg cfg.esc C0 gs) :=
  gElem_ok cfg hE hrb tg htg C0 gs h0 hgs hvis hne (loopOK_mixed cfg hE hrb C0 gs h0 hgs)

/-- **`MixedDoc` contains `LinkImgDoc`.** -/
theorem C01_mixed_covers_linkImg (d : Doc) (h : DocSpec.LinkImgDoc d = true) : DocSpec.MixedDoc d = true := by
  simp only [DocSpec.LinkImgDoc, DocSpec.MixedDoc, List.all_eq_true] at h ⊢
  intro b hb
  have hb' := h b hb
  cases b with
  | para c =>
    simp only [isLinkImgBlock, Bool.or_eq_true] at hb'
    simp only [isMixedBlock, Bool.or_eq_true]
    rcases hb' with (h1 | h1) | h1
    · exact Or.inl h1
    · exact Or.inr (mixedRun_of_linkRun c h1)
    · exact Or.inr (mixedRun_of_imgRun c h1)
  | atx l c =>
    simp only [isLinkImgBlock, Bool.or_eq_true] at hb'
    simp only [isMixedBlock, Bool.or_eq_true]
    rcases hb' with (h1 | h1) | h1
    · exact Or.inl h1
    · exact Or.inr (mixedRunH_of_linkRunH c h1)
    · exact Or.inr (mixedRunH_of_imgRun c h1)
  | setext l c =>
    simp only [isLinkImgBlock, Bool.or_eq_true] at hb'
    simp only [isMixedBlock, Bool.or_eq_true]
    rcases hb' with (h1 | h1) | h1
    · exact Or.inl h1
    · exact Or.inr (mixedRunH_of_linkRunH c h1)
    · exact Or.inr (mixedRunH_of_imgRun c h1)
  | rule => exact hb'
  | code _ => exact hb'
  | quote _ => exact hb'
  | ulist _ _ => exact hb'
  | olist _ _ => exact hb'

/-- **Inline links and inline images, also in the same line.**  `d` well-formed; every block a rule, an indented code
    block without `<`, a paragraph of `BrDoc`, or a paragraph / ATX heading / Setext heading that is one line of words,
    escapes, code spans, emphasised words, inline links around such content and inline images, IN ANY ORDER
    (destinations without `_` and `&`; no bracket in the text of a link that starts a paragraph); the spelling draws
    the inline style for every link and image: the converter returns `spec d`.  Contains `C01_links_images`. -/
theorem C01_links_images_mixed (d : Doc) (sp : Spelling) (hwf : WF d = true) (hs : DocSpec.MixedDoc d = true)
    (hsp : DocSpec.inlineStyle d sp = true) : Pipeline.convert {} (print d sp) = .ok (spec d) :=
  convert_mixedDoc d sp hwf hs hsp

/-- **Spelling never changes the rendering** on `MixedDoc`, among the spellings of the inline style. -/
theorem C01_mixed_spelling (d : Doc) (sp sp' : Spelling) (hwf : WF d = true) (hs : DocSpec.MixedDoc d = true)
    (hsp : DocSpec.inlineStyle d sp = true) (hsp' : DocSpec.inlineStyle d sp' = true) :
    Pipeline.convert {} (print d sp) = Pipeline.convert {} (print d sp') := by
  rw [C01_links_images_mixed d sp hwf hs hsp, C01_links_images_mixed d sp' hwf hs hsp']

/-- a paragraph image – words – link (emphasis in its text, a title) – escaped `!` – image (a title) – link around a code
    span, all touching; an ATX heading link – space – image; a Setext heading image – link with an escaped bracket –
    words; a plain paragraph -/
def sampleMixed : Doc :=
  [.para [.image (S "logo") (S "l.png") none, .text (S " see "),
     .link [.em [.text (S "the")], .text (S " docs")] (S "/d.html#s") (some (S "T 1")), .esc '!',
     .image (S "badge two") (S "http://x.org/b.svg") (some (S "b")), .link [.code (S "c]")] (S "u") none],
   .atx 2 [.link [.text (S "home")] (S "/h") none, .text (S " "), .image (S "icon") (S "i.png") none],
   .setext 1 [.image (S "pic") (S "p.png") none, .link [.esc '[', .text (S "x")] (S "v") none, .text (S " end")],
   .para [.text (S "plain "), .strong [.text (S "b")]]]

example : WF sampleMixed = true ∧ DocSpec.MixedDoc sampleMixed = true ∧ DocSpec.LinkImgDoc sampleMixed = false := by
  decide

example : DocSpec.inlineStyle sampleMixed ⟨[5, 15, 5, 25, 15, 5, 5, 5, 15, 5, 5, 25, 5, 15, 5, 5, 5, 5, 0, 10, 5, 0]⟩ = true ∧
    DocSpec.inlineStyle sampleMixed ⟨[0, 0, 10, 5, 0, 0, 5, 0, 20, 0, 5, 10, 0, 15]⟩ = true ∧
    DocSpec.inlineStyle sampleMixed ⟨[0, 2]⟩ = false := by decide +kernel

example : print sampleMixed ⟨[5, 15, 5, 25, 15, 5, 5, 5, 15, 5, 5, 25, 5, 15, 5, 5, 5, 5, 0, 10, 5, 0]⟩ =
    (" ![logo](l.png) see [_the_ docs](/d.html#s 'T 1')\\!![badge two](http://x.org/b.svg 'b')[`c]`](u)\n\n" ++
     "## [home](/h) ![icon](i.png) #\n\n ![pic](p.png)[\\[x](v) end\n======\n\nplain **b**").toList := by decide +kernel

/-- a spelling outside `inlineStyle`: the first image in a reference style -/
example : print sampleMixed ⟨[0, 2]⟩ =
    ("![logo][r-1] see [*the* docs](/d.html#s \"T 1\")\\!![badge two](http://x.org/b.svg \"b\")[`c]`](u)\n\n" ++
     "## [home](/h) ![icon](i.png)\n\n![pic](p.png)[\\[x](v) end\n=\n\nplain **b**\n\n[r-1]: l.png").toList := by
  decide +kernel

example : spec sampleMixed =
    ("<p><img alt=\"logo\" src=\"l.png\" /> see <a href=\"/d.html#s\" title=\"T 1\"><em>the</em> docs</a>!" ++
     "<img alt=\"badge two\" src=\"http://x.org/b.svg\" title=\"b\" /><a href=\"u\"><code>c]</code></a></p>\n" ++
     "<h2><a href=\"/h\">home</a> <img alt=\"icon\" src=\"i.png\" /></h2>\n" ++
     "<h1><img alt=\"pic\" src=\"p.png\" /><a href=\"v\">[x</a> end</h1>\n" ++
     "<p>plain <strong>b</strong></p>").toList := by decide +kernel

example : Pipeline.convert {} (print sampleMixed
    ⟨[5, 15, 5, 25, 15, 5, 5, 5, 15, 5, 5, 25, 5, 15, 5, 5, 5, 5, 0, 10, 5, 0]⟩) = .ok (spec sampleMixed) :=
  C01_links_images_mixed _ _ (by decide) (by decide) (by decide +kernel)

/-- the same by evaluation of the model -/
example : Pipeline.convert {} (print sampleMixed
    ⟨[5, 15, 5, 25, 15, 5, 5, 5, 15, 5, 5, 25, 5, 15, 5, 5, 5, 5, 0, 10, 5, 0]⟩) = .ok (spec sampleMixed) := by
  decide +kernel

/-- still outside: an image inside a link text, a hard break in a line with links or images, `_` in a destination -/
example : DocSpec.MixedDoc [.para [.link [.image (S "a") (S "u") none] (S "v") none]] = false ∧
    DocSpec.MixedDoc [.para [.image (S "a") (S "u") none, .br, .link [.text (S "b")] (S "v") none]] = false ∧
    DocSpec.MixedDoc [.atx 1 [.image (S "a") (S "x_y") none]] = false := by decide

end MdVerif.DocMix

/-! ## … and hard breaks: paragraphs of several lines with links and images -/

namespace MdVerif.DocMixB
open Py Inline Escape DocSpec CodeLaw DocParse Block DocParse2 RefText DocLink DocImg

/-- **The inline pattern loop on a text with links, images and hard breaks in any order**: after the links (pattern 3)
    and the images (pattern 4) the line-break pattern (10) takes the hard breaks out; the stash holds the `<a>`
    elements, then the `<img>` elements, then the `<br>` elements (`bStash`), the placeholders in the text are in
    document order (`bRes`). -/
theorem C01i_br_loop (cfg : Inline.Cfg) (hE : EscOK cfg.esc) (hrb : ']' ∈ cfg.esc) (C0 : Chunk) (gs : List BUse)
    (h0 : ChunkOK cfg.esc C0) (hgs : ∀ g ∈ gs, BUseOK cfg.esc g) (st : St) :
    handleInlineTop cfg (bRaw cfg.esc C0 gs) st =
      some (bRes cfg.esc st.stash.length C0 gs,
        { st with stash := st.stash ++ bStash cfg.esc st.stash.length C0 gs }) :=
  loopOK_mixedBr cfg hE hrb C0 gs h0 hgs st

/-- **The block parser on a paragraph whose lines may start with a link**: every line starts like paragraph text or with
    `[`, a text without brackets, `](`; the first line indented by at most three spaces: one paragraph — no line is a
    reference definition (the reference pattern is searched at every line start of the block). -/
theorem C01i_br_block (i : Nat) (hi3 : i ≤ 3) (Ls : List Str) (hne : Ls ≠ [])
    (hL : ∀ l ∈ Ls, LinkLineStart l ∧ '\n' ∉ l) (hol : olMarker (joinLines Ls) = none) :
    Produces 4 (spaces i ++ joinLines Ls) { tag := .name "p".toList, text := some (joinLines Ls) } :=
  produces_para_multiL i hi3 Ls hne hL hol

/-- **`MixedBrDoc` contains `MixedDoc`.** -/
theorem C01_mixedBr_covers_mixed (d : Doc) (h : DocSpec.MixedDoc d = true) : DocSpec.MixedBrDoc d = true := by
  simp only [DocSpec.MixedDoc, DocSpec.MixedBrDoc, List.all_eq_true] at h ⊢
  intro b hb
  have hb' := h b hb
  cases b with
  | para c =>
    simp only [isMixedBlock, Bool.or_eq_true] at hb'
    simp only [isMixedBrBlock, Bool.or_eq_true]
    exact Or.inl hb'
  | atx _ _ => exact hb'
  | setext _ _ => exact hb'
  | rule => exact hb'
  | code _ => exact hb'
  | quote _ => exact hb'
  | ulist _ _ => exact hb'
  | olist _ _ => exact hb'

/-- **Inline links, inline images and hard breaks.**  `d` well-formed; every block a rule, an indented code block
    without `<`, a paragraph of `BrDoc`, an ATX / Setext heading that is one line of words, escapes, code spans,
    emphasised words, inline links and inline images, or a PARAGRAPH OF SEVERAL LINES of such items with hard breaks
    between the lines (destinations without `_` and `&`; no bracket in the text of a link that starts a line of a
    paragraph); the spelling draws the inline style for every link and image: the converter returns `spec d`.
    Contains `C01_links_images_mixed`. -/
theorem C01_links_images_breaks (d : Doc) (sp : Spelling) (hwf : WF d = true) (hs : DocSpec.MixedBrDoc d = true)
    (hsp : DocSpec.inlineStyle d sp = true) : Pipeline.convert {} (print d sp) = .ok (spec d) :=
  convert_mixedBrDoc d sp hwf hs hsp

/-- **Spelling never changes the rendering** on `MixedBrDoc`, among the spellings of the inline style. -/
theorem C01_mixedBr_spelling (d : Doc) (sp sp' : Spelling) (hwf : WF d = true) (hs : DocSpec.MixedBrDoc d = true)
    (hsp : DocSpec.inlineStyle d sp = true) (hsp' : DocSpec.inlineStyle d sp' = true) :
    Pipeline.convert {} (print d sp) = Pipeline.convert {} (print d sp') := by
  rw [C01_links_images_breaks d sp hwf hs hsp, C01_links_images_breaks d sp' hwf hs hsp']

/-- a paragraph of four lines: words and a link, break; an image (a title) and words, break; a link (strong in its
    text, a title) at the start of the line, an escaped `!`, break; an escaped `#`, words, a code span, an image; a
    heading with a link and an image; a paragraph of `BrDoc` -/
def sampleBr : Doc :=
  [.para [.text (S "Contact "), .link [.text (S "the team")] (S "/team") none, .br,
     .image (S "map") (S "m.png") (some (S "where")), .text (S " second line"), .br,
     .link [.strong [.text (S "mail")], .text (S " us")] (S "http://x.org/m?a=1") (some (S "T")), .esc '!', .br,
     .esc '#', .text (S "not a heading "), .code (S "k"), .image (S "end") (S "e.png") none],
   .atx 3 [.link [.text (S "h")] (S "/h") none, .image (S "i") (S "i.png") none],
   .para [.text (S "one"), .br, .text (S "two")]]

example : WF sampleBr = true ∧ DocSpec.MixedBrDoc sampleBr = true ∧ DocSpec.MixedDoc sampleBr = false := by decide

example : DocSpec.inlineStyle sampleBr ⟨[5, 15, 5, 25, 15, 5, 5, 5, 15, 5, 5, 25, 5, 15, 5, 5, 5, 5, 0, 10, 5, 0]⟩ = true ∧
    DocSpec.inlineStyle sampleBr ⟨[0, 0, 10, 5, 0, 0, 5, 0, 20, 0, 5, 10, 0, 15]⟩ = true ∧
    DocSpec.inlineStyle sampleBr ⟨[0, 2]⟩ = false := by decide +kernel

example : print sampleBr ⟨[5, 15, 5, 25, 15, 5, 5, 5, 15, 5, 5, 25, 5, 15, 5, 5, 5, 5, 0, 10, 5, 0]⟩ =
    (" Contact [the team](/team)  \n![map](m.png 'where') second line  \n" ++
     "[__mail__ us](http://x.org/m?a=1 'T')\\!  \n\\#not a heading `k`![end](e.png)\n\n" ++
     "### [h](/h)![i](i.png) #\n\n one  \ntwo").toList := by decide +kernel

example : spec sampleBr =
    ("<p>Contact <a href=\"/team\">the team</a><br />\n<img alt=\"map\" src=\"m.png\" title=\"where\" /> second line<br />\n" ++
     "<a href=\"http://x.org/m?a=1\" title=\"T\"><strong>mail</strong> us</a>!<br />\n" ++
     "#not a heading <code>k</code><img alt=\"end\" src=\"e.png\" /></p>\n" ++
     "<h3><a href=\"/h\">h</a><img alt=\"i\" src=\"i.png\" /></h3>\n<p>one<br />\ntwo</p>").toList := by decide +kernel

example : Pipeline.convert {} (print sampleBr
    ⟨[5, 15, 5, 25, 15, 5, 5, 5, 15, 5, 5, 25, 5, 15, 5, 5, 5, 5, 0, 10, 5, 0]⟩) = .ok (spec sampleBr) :=
  C01_links_images_breaks _ _ (by decide) (by decide) (by decide +kernel)

/-- the same by evaluation of the model -/
example : Pipeline.convert {} (print sampleBr
    ⟨[5, 15, 5, 25, 15, 5, 5, 5, 15, 5, 5, 25, 5, 15, 5, 5, 5, 5, 0, 10, 5, 0]⟩) = .ok (spec sampleBr) := by
  decide +kernel

/-- outside: a link with a bracket in its text at the start of a LINE after a hard break (`lineLinksOK`; elsewhere in
    the line it is fine), a hard break in a heading (not well-formed either) -/
example : DocSpec.MixedBrDoc [.para [.text (S "a"), .br, .link [.esc ']', .text (S "b")] (S "u") none]] = false ∧
    DocSpec.MixedBrDoc [.para [.text (S "a"), .br, .text (S "c "), .link [.esc ']', .text (S "b")] (S "u") none]] = true ∧
    DocSpec.MixedBrDoc [.atx 1 [.text (S "a"), .br, .image (S "b") (S "u") none]] = false := by decide

end MdVerif.DocMixB
