/-
C02 — conversion is total: never raises, always terminates.  The block-parser part: TERMINATION.

Only property statements live here.  Helper lemmas are in `MdVerif/Lemmas/BlockFuel.lean`.

The model `parseBlocks` (`Model/Block.lean`) runs the `while blocks:` loop of `BlockParser.parseBlocks` and all
the recursive `parseBlocks` / `parseChunk` calls of the processors on an explicit fuel and answers `none` when the
fuel runs out.  `C02_parseDocument_total` says that this never happens with the fuel `fuelFor text.length =
2 * len + 10` that `parseDocument` uses: for every text, of any length and nesting, and every tab length, the loop
and every recursive call terminate.  (Python's own limit, `RecursionError`, is not part of the model: ~300 nested
list levels hit it, finding F-C02-3.)

Shape of the argument (all of it proved below, nothing assumed):
* measure `mu blocks = Σ (len b + 1)`;
* `C02_dispatch_progress`: one turn of the loop succeeds and leaves a block list of strictly smaller measure,
  provided the callback (the recursive call) terminates on the block lists it is given;
* `C02_recursive_calls_smaller`: those block lists are smaller than `[b]` — except for `ListIndentProcessor`, which
  may pass on a block list as large as `[b]`, but only when the state is not `detabbed`, and then in state
  `detabbed`, where it does not fire again;
* hence `parseBlocks` needs at most `2 * mu blocks + 1` fuel, `2 * mu blocks` in state `detabbed`
  (`C02_parseBlocks_total`), and more fuel never changes a result (`C02_parseBlocks_fuel_mono`).
-/
import MdVerif.Model.Block
import MdVerif.Lemmas.BlockFuel

namespace MdVerif.Block
open Py

/-! ### the measure and the two notions the statements use (definitions in `Lemmas/BlockFuel.lean`)

* `mu blocks = Σ (len b + 1)`;
* `Progress r b rest`: `r = some (parent', refs', blocks')` with `mu blocks' ≤ mu rest + len b`, i.e.
  `mu blocks' < mu (b :: rest)`;
* `Small pb n`: the callback `pb` answers `some …` on every block list of measure `≤ n`, in every state;
  `SmallD pb state n`: the same in the state `state ++ [detabbed]` only;
* `Called state b st bl`: `mu bl ≤ len b`, or `state` is not detabbed, `st = state ++ [detabbed]` and
  `mu bl ≤ len b + 1`. -/

example : mu ["ab".toList, [], "c".toList] = 6 := by decide

/-- **C02 (block parser).** `parseDocument` never runs out of fuel: `BlockParser.parseDocument` terminates on every
    input.  The hypothesis `0 < tab` (a meaningful `tab_length`) is not needed by the proof; see
    `C02_parseDocument_total_any_tab`. -/
theorem C02_parseDocument_total (tab : Nat) (text : Str) (_htab : 0 < tab) : (parseDocument tab text).isSome :=
  parseDocument_total tab text

example : 0 < 4 := by decide
example : (parseDocument 4 "- x\n\n        code\n\n> q\n\n".toList).isSome := by decide +kernel

/-- the same for every tab length, 0 included (with `tab_length=0` the real code turns every non-blank block into
    a code block; it terminates as well) -/
theorem C02_parseDocument_total_any_tab (tab : Nat) (text : Str) : (parseDocument tab text).isSome :=
  parseDocument_total tab text

/-- the fuel `parseBlocks` needs: `2 * mu blocks + 1`, and `2 * mu blocks` when the state is `detabbed`; with that
    much fuel the loop and all its recursive calls terminate, whatever the state, parent and references -/
theorem C02_parseBlocks_total (tab f : Nat) (state : List BState) (refs : Refs) (parent : Node) (blocks : List Str)
    (hf : 2 * mu blocks + (if isstate state .detabbed then 0 else 1) ≤ f) :
    (parseBlocks tab f state refs parent blocks).isSome :=
  parseBlocks_total tab f state refs parent blocks hf

example : 2 * mu ["> a".toList] + (if isstate [] .detabbed then 0 else 1) ≤ 9 := by decide
/-- the bound is not vacuous: with too little fuel the model does answer `none` -/
example : (parseBlocks 4 1 [] [] (Node.el "div") ["> a".toList]).isNone = true := by decide +kernel

/-- more fuel never changes a result -/
theorem C02_parseBlocks_fuel_mono (tab f k : Nat) (state : List BState) (refs : Refs) (parent : Node)
    (blocks : List Str) (r : Node × Refs)
    (h : parseBlocks tab f state refs parent blocks = some r) :
    parseBlocks tab (f + k) state refs parent blocks = some r :=
  parseBlocks_fuel_mono k h

example : (parseBlocks 4 3 [] [] (Node.el "div") ["> a".toList]).isSome = true := by decide +kernel

/-- the result of `parseDocument` is the result with any larger fuel: the fuel is not observable -/
theorem C02_parseDocument_fuel_irrelevant (tab f : Nat) (text : Str) (hf : fuelFor text.length ≤ f) :
    parseDocumentWith tab f text = parseDocument tab text := by
  obtain ⟨r, hr⟩ := Option.isSome_iff_exists.1 (parseDocument_total tab text)
  rw [hr]
  simp only [parseDocument, parseDocumentWith, parseChunk] at hr ⊢
  have := parseBlocks_fuel_mono (f - fuelFor text.length) hr
  rwa [Nat.add_sub_cancel' hf] at this

example : fuelFor "> a\n\n".toList.length ≤ 1000 := by decide

/-- **progress of one turn of the loop.**  If the callback terminates on every block list of measure `≤ len b`
    and — when the state is not `detabbed` — on every block list of measure `≤ len b + 1` in the state with
    `detabbed` pushed, then the first applicable processor succeeds and the block list it leaves has measure
    `≤ mu rest + len b < mu (b :: rest)`. -/
theorem C02_dispatch_progress (tab : Nat) (pb : PB) (state : List BState) (refs : Refs) (parent : Node) (b : Str)
    (rest : List Str) (hS : Small pb b.length)
    (hD : isstate state .detabbed = false → SmallD pb state (b.length + 1)) :
    Progress (dispatch tab pb state refs parent b rest) b rest :=
  dispatch_progress tab pb state refs parent b rest hS hD

/-- the hypotheses of `C02_dispatch_progress` are satisfiable: `parseBlocks` with enough fuel is such a callback -/
example (tab : Nat) : Small (parseBlocks tab 21) 10 :=
  fun st refs parent bl h => parseBlocks_total tab 21 st refs parent bl (by simp only [need]; split <;> omega)
example (tab : Nat) (state : List BState) : SmallD (parseBlocks tab 22) state 11 :=
  fun refs parent bl h => parseBlocks_total tab 22 _ refs parent bl
    (by simp only [need, isstate_append_detabbed, if_true]; omega)

/-- **the recursive calls of a turn are smaller.**  The result of a turn on block `b` in state `state` depends on
    the callback only through calls `Called state b st bl`: two callbacks that agree on all block lists of measure
    `≤ len b` — and, when `state` is not detabbed, on the block lists of measure `≤ len b + 1` in state
    `state ++ [detabbed]` — give the same turn.  So every recursive `parseBlocks`/`parseChunk` call made while
    processing `b` is on a smaller block list, with the one exception of `ListIndentProcessor`. -/
theorem C02_recursive_calls_smaller (tab : Nat) (pb pb' : PB) (state : List BState) (refs : Refs) (parent : Node)
    (b : Str) (rest : List Str)
    (hagree : ∀ st refs parent bl, Called state b st bl → pb st refs parent bl = pb' st refs parent bl) :
    dispatch tab pb state refs parent b rest = dispatch tab pb' state refs parent b rest := by
  have h1 : LeOn state b pb pb' := fun st rf par bl r hc h => by rw [← hagree st rf par bl hc]; exact h
  have h2 : LeOn state b pb' pb := fun st rf par bl r hc h => by rw [hagree st rf par bl hc]; exact h
  cases h : dispatch tab pb state refs parent b rest with
  | some r => exact (dispatch_mono h1 h).symm
  | none =>
    cases h' : dispatch tab pb' state refs parent b rest with
    | none => rfl
    | some r => rw [dispatch_mono h2 h'] at h; cases h

/-- the exception is real: in a loose list item the indent processor passes the block on unchanged (level 0), so a
    callback that fails on block lists as large as `[b]` makes the turn fail -/
example : dispatch 4 (fun _ _ _ bl => if mu bl ≤ 5 then some (Node.el "x", []) else none) []
    [] (Node.el "li") "    a".toList [] = none := by decide +kernel
example : Called [] "    a".toList ([] ++ [.detabbed]) ["    a".toList] := Or.inr ⟨rfl, rfl, by decide⟩

end MdVerif.Block
