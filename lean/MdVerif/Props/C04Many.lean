/-
C04 — Raw HTML passes through verbatim and unwrapped: SEVERAL raw items in one document, END TO END.

Only property statements live here.  `Props/C04Text.lean` proves the whole of `Markdown.convert` (model
`PipelineH.convertH`) for ONE raw item between flat Markdown (`C04_text_end_to_end`, `_anywhere`, `_unit_anywhere`) and,
for the preprocessor alone, several raw items (`C04_text_many_once`).  Here: several raw items end to end.

* `C04_text_end_to_end_many`: the document
      `[A0 ¶] R1 ¶ [A1 ¶] R2 ¶ … ¶ Rn [¶ An]`     (`¶` a blank line, `n ≥ 1`)
  where every `A_i` is a well-formed flat Markdown document (rules, paragraphs, ATX and Setext headings of words and
  backslash escapes — the sub-grammar of `C01_flat`) in ANY spelling, or ABSENT (absent between two raw items: the raw
  items are adjacent, `R1 ¶ R2`), and every `R_i` is a raw item at the left margin — a block element
  `<name attrs trail> body </name>` with any body of the HTML grammar, or a unit: comment, processing instruction,
  `<!DOCTYPE …>`, `<hr>`, self-closing block tag — converts to
      `[out(A0) "\n"] R1 "\n\n" [out(A1) "\n"] R2 "\n\n" … Rn ["\n\n" out(An)]`:
  the rendered Markdown pieces, and between them EACH raw item's SOURCE TEXT character for character, exactly once, in
  source order, not wrapped in `<p>`, the Markdown syntax inside it untouched.
* `C04_text_end_to_end_adjacent`: two raw items separated by one blank line and nothing else convert to themselves.
* `C04_text_end_to_end_many_pieces`: the same for every configuration that keeps what the proof uses and for "pieces"
  (`Lemmas/DocParse.lean`) in the place of flat documents.

Helper lemmas: `MdVerif/Lemmas/C04Many.lean` (on top of `Lemmas/C04EndToEnd.lean`: the list-generic stage lemmas;
`Lemmas/HtmlTokMany.lean`: the preprocessor on several raw items; `Lemmas/StashAtomic.lean`: one pass of
`RawHtmlPostprocessor` restores a wrapped placeholder).  Statement tested before proving on the real implementation
and on the model: `harness/corr/c04many.py` (8000 documents, 1–5 raw items, half of them with adjacent raw items;
every raw item checked against the hypotheses below by the Lean predicates).
-/
import MdVerif.Lemmas.C04Many
import MdVerif.Props.C04Text

namespace MdVerif.HtmlTok
open Py Extract HtmlFrag C04Many

/-- **C04, end to end, several raw items.**  `first` is a well-formed flat Markdown document in some spelling, or
    absent (`C04E2E.flatOk`); `items` lists raw items (`C04Many.Raw`: `.block name attrs trail body` or `.unit u`), each
    with the flat Markdown document that follows it, or none.  The source is `first ¶` (`C04E2E.srcBefore`) and then
    `C04Many.srcItems`: every raw item's text, a blank line, the document behind it and another blank line (nothing
    behind the last one); the output is the output of `first` and a line feed (`C04E2E.outBefore`) and then
    `C04Many.outItems`: every raw item's SOURCE TEXT verbatim, a blank line, the output of the document behind it and a
    line feed.  So every raw item is copied to the output exactly as written, exactly once, in order, unwrapped, and
    the Markdown between the raw items is converted as usual — also when two raw items are adjacent.

    Hypotheses on each raw item (`C04Many.Raw.OK`) — those of `C04_text_end_to_end_anywhere` for a block element
    (well-formed start tag with a block-level name other than `hr`; well-formed body that does not close the element;
    input normalisation leaves its lines alone; a space or `>` behind the tag name, F-C04-4) and those of
    `C04_text_end_to_end_unit_anywhere` for a unit. -/
theorem C04_text_end_to_end_many (first : Option (DocSpec.Doc × DocSpec.Spelling))
    (items : List (Raw × Option (DocSpec.Doc × DocSpec.Spelling))) (hne : items ≠ [])
    (hfirst : C04E2E.flatOk first = true) (hitems : ∀ x ∈ items, x.1.OK ∧ C04E2E.flatOk x.2 = true) :
    PipelineH.convertH {} (C04E2E.srcBefore first ++ srcItems items) =
      .ok (C04E2E.outBefore first ++ outItems items) :=
  convertH_flat_many first items hne hfirst hitems

/-- the shape of source and output for three raw items, spelled out: `R1 ¶ A1 ¶ R2 ¶ R3 ¶ A3` (a document between the
    first two, the second and third adjacent) gives `R1 "\n\n" out(A1) "\n" R2 "\n\n" R3 "\n\n" out(A3)` -/
example (R1 R2 R3 : Raw) (d1 d3 : DocSpec.Doc) (s1 s3 : DocSpec.Spelling) :
    srcItems [(R1, some (d1, s1)), (R2, none), (R3, some (d3, s3))] =
      R1.text ++ nn ++ (DocSpec.print d1 s1 ++ nn) ++ (R2.text ++ nn ++ [] ++ (R3.text ++ (nn ++ DocSpec.print d3 s3))) ∧
    outItems [(R1, some (d1, s1)), (R2, none), (R3, some (d3, s3))] =
      R1.text ++ ['\n', '\n'] ++ (DocSpec.spec d1 ++ ['\n']) ++
        (R2.text ++ ['\n', '\n'] ++ [] ++ (R3.text ++ (['\n', '\n'] ++ DocSpec.spec d3))) := ⟨rfl, rfl⟩

/-- **C04, end to end, adjacent raw items.**  Two raw items separated by a blank line, nothing else in the document:
    `Markdown.convert` returns the two source texts, a blank line between them. -/
theorem C04_text_end_to_end_adjacent (R1 R2 : Raw) (h1 : R1.OK) (h2 : R2.OK) :
    PipelineH.convertH {} (R1.text ++ nn ++ R2.text) = .ok (R1.text ++ ['\n', '\n'] ++ R2.text) := by
  have := C04_text_end_to_end_many none [(R1, none), (R2, none)] (by simp) rfl
    (by intro x hx; simp at hx; rcases hx with rfl | rfl <;> exact ⟨‹_›, rfl⟩)
  simpa [C04E2E.srcBefore, C04E2E.outBefore, C04E2E.srcAfter, C04E2E.outAfter, srcItems, outItems] using this

/-- the same for every configuration that keeps what the proof uses (`EscOK`: the usual escapable characters are
    escapable; `PhFree`: no character of an HTML placeholder is; default block-level list; XHTML output) and for any
    blocks around the raw items that are "pieces" in the sense of `Lemmas/DocParse.lean`; the raw items as the
    extractor sees them (`RawSec`, with `SecOK`: `RawSec.OK`, lines left alone by input normalisation, recognised as
    block-level by `RawHtmlPostprocessor.isblocklevel`, `>` as last character) -/
theorem C04_text_end_to_end_many_pieces (cfg : Pipeline.Cfg) (hE : DocParse.EscOK cfg.esc) (hF : C04E2E.PhFree cfg.esc)
    (hbl : cfg.blockLevel = TreeProc.defaultBlockLevel) (hfmt : cfg.fmt = .xhtml) (htab : 0 < cfg.tab)
    (A : List DocParse.Piece) (hPA : ∀ p ∈ A, DocParse.PieceOK cfg.esc cfg.tab p)
    (secs : List Sec) (hne : secs ≠ []) (h : ∀ x ∈ secs, SecOK cfg.esc cfg.tab x) :
    PipelineH.convertH cfg (C04E2E.preSrc A ++ srcMany secs) = .ok (C04E2E.preOut A ++ outMany secs) :=
  convertH_many cfg hE hF hbl hfmt htab A hPA secs hne h

/-! #### the hypotheses are satisfiable: the block of `Props/C04Text.lean` (attributes in all quoting styles,
    Markdown-looking text with a blank line, nested elements, a comment holding a closing tag, stray end tag), a
    comment, a processing instruction, `<hr class="x">`; `DocParse.sampleFlat` has every kind of flat block -/

def exBlock : Raw := .block exName exAttrs [] exBody
def exComment : Raw := .unit (commentUnit " *x*\n\n# h <div> - ".toList)
def exPi : Raw := .unit (piUnit "php echo \"</div>\"; $a->b ".toList)
def exHr : Raw := .unit (hrUnit "hr".toList [⟨" ".toList, "class".toList, .dq "x".toList⟩] [])

theorem exBlock_ok : exBlock.OK :=
  ⟨by decide +kernel, by decide, by decide, by decide +kernel, by decide +kernel, by decide +kernel, by decide⟩
theorem exComment_ok : exComment.OK :=
  ⟨commentUnit_ok _ (by decide), by decide +kernel, by decide +kernel, by decide +kernel⟩
theorem exPi_ok : exPi.OK := ⟨piUnit_ok _ (by decide), by decide +kernel, by decide +kernel, by decide +kernel⟩
theorem exHr_ok : exHr.OK :=
  ⟨hrUnit_ok _ _ _ (by decide +kernel) (by decide), by decide +kernel, by decide +kernel, by decide +kernel⟩

example : exComment.text = "<!-- *x*\n\n# h <div> - -->".toList ∧ exPi.text = "<?php echo \"</div>\"; $a->b ?>".toList ∧
    exHr.text = "<hr class=\"x\">".toList := by decide +kernel

/-- an instance of the theorem: a flat document, the block, the comment directly behind it, another flat document, the
    processing instruction and `<hr class="x">` at the end -/
example : PipelineH.convertH {}
    (C04E2E.srcBefore (some (DocParse.sampleFlat, ⟨[]⟩)) ++
      srcItems [(exBlock, none), (exComment, some (DocParse.sampleFlat, ⟨[2, 3, 3, 1, 4, 2, 2, 2, 5, 3, 10, 1]⟩)),
        (exPi, none), (exHr, none)]) =
    .ok (C04E2E.outBefore (some (DocParse.sampleFlat, ⟨[]⟩)) ++
      outItems [(exBlock, none), (exComment, some (DocParse.sampleFlat, ⟨[2, 3, 3, 1, 4, 2, 2, 2, 5, 3, 10, 1]⟩)),
        (exPi, none), (exHr, none)]) :=
  C04_text_end_to_end_many _ _ (by simp) (by decide) (by
    intro x hx
    simp only [List.mem_cons, List.mem_nil_iff, or_false] at hx
    rcases hx with rfl | rfl | rfl | rfl
    · exact ⟨exBlock_ok, rfl⟩
    · exact ⟨exComment_ok, by decide⟩
    · exact ⟨exPi_ok, rfl⟩
    · exact ⟨exHr_ok, rfl⟩)

/-- small instances evaluated by the kernel on the model, independently of the theorem (= the real code on these
    inputs): Markdown, a block, a comment directly behind it, Markdown, a block; and three adjacent raw items -/
example : PipelineH.convertH {} "one\n\n<div>*x*</div>\n\n<!-- c -->\n\ntwo\n\n<p>y</p>".toList =
    .ok "<p>one</p>\n<div>*x*</div>\n\n<!-- c -->\n\n<p>two</p>\n<p>y</p>".toList := by decide +kernel
example : PipelineH.convertH {} "<div>*a*</div>\n\n<?php echo 1 ?>\n\n<hr class=\"x\">".toList =
    .ok "<div>*a*</div>\n\n<?php echo 1 ?>\n\n<hr class=\"x\">".toList := by decide +kernel

/-- the boundary "a blank line between adjacent raw items" (F-C04-6 region): with a single line feed between them the
    second item is still extracted and restored, but the stash entry of the first lacks its final line feed, so ONE line
    feed separates them in the output instead of a blank line -/
example : PipelineH.convertH {} "<div>a</div>\n<div>b</div>".toList = .ok "<div>a</div>\n<div>b</div>".toList := by
  decide +kernel

end MdVerif.HtmlTok
