/-
C08 at SOURCE level — "If B begins with a paragraph, heading or horizontal rule, then converting A, a blank line, and B
yields the rendering of A followed by the rendering of B."

`Props/C08.lean` proves the property on `Pipeline.convert` under operational hypotheses (the results of the three
block parses and of the three inline runs, "no placeholder is left in the result", `xhtml` output, `hcode`: the tree of
`A` does not end with a code block unless …).  Here these are discharged: the hypotheses are conditions on the two
source texts, on the configuration, and the three successful conversions.

    convert (A ++ "\n\n" ++ B) = ok out,  convert A = ok outA,  convert B = ok outB   ⟹   out = outA ++ "\n" ++ outB

for both output formats, every tab length and block-level set (`C08_src`).

How the hypotheses of `C08` went away
* the three block parses return: part of a successful conversion (and always: `C02_parseDocument_total_any_tab`);
* the three inline runs return: they are part of the three successful conversions.  (The model's `Inline.run` has a
  linear fuel for its stack loop; that it always suffices is the open inequality `C02_run_total_full`.  A run on the
  combined tree gets more fuel than the runs on the parts but also has more to do, so none of the three successes
  follows from the others by fuel monotonicity; all three are hypotheses.  On 20 000 random pairs of the domain the
  model answered `ok` 60 000 times.)
* "no placeholder is left in the results" (`hr`): proved from the leak-free domain of `C10b` (`C10DomainL`, closed
  under "A, blank line, B": `domainL_compose`): the result of the inline stage holds escape tokens only (`run_specB`),
  and a text that is related by the renaming relation of `C08Inline` to anything and has only such tokens is plain
  (`Lemmas/C08Src.lean`, `Lemmas/C08SrcEven.lean`);
* `fmt = xhtml`: the vocabulary invariant of C05 (`DocOk`, kept by the inline stage: `run_ok`) says that `hr` elements
  have no content, which is all the `html` serializer needs (`topChild_of_runLoop_fmt`);
* the block tree of `A` is not empty: a visible character of the source survives normalisation, its block is not blank,
  and a non-blank block without reference syntax always adds a child (`Lemmas/C08SrcBlock.lean`);
* `hcode` (the case `C08_counter_even_filler` of the block half: `A` ends with an even number of line feeds and with a
  code block; alone, its last — empty — block appends `"\n\n"` to the code text, followed by `B` it does not): the text
  is an `AtomicString`; `InlineProcessor.run` does not read it (`Runs_poke`, `Lemmas/C08SrcPoke.lean`: a run on the
  tree is a run on the tree with that text replaced, same states), `PrettifyTreeprocessor` rewrites the text of the
  `code` of a `pre` to `rstrip(text) + "\n"` (`prettify_poke`), and every top-level code block of a block tree has the
  shape that needs (`parseDocument_shape`, `Lemmas/C08SrcShape.lean`).  So the two outputs agree although the trees
  differ.

Three forms: `C08_src` (the three conversions of the model succeed ⟹ equation); `C08_src_total` (on the domain the model
answers `ok` or `oof`, never `err`/`ood`: unless one of the three answers is `oof`, all three are `ok` and the equation
holds); `C08_src_big` (no hypothesis on any conversion: for `convertBig` — the model with the stack loop of the inline
stage on a fuel for which termination is proved — the three conversions succeed and the equation holds; `convertBig`
agrees with the model wherever the model answers `ok`: `C08_src_big_agrees`).  Corollaries: `C08_src_from_combined` (from
the success of the combined conversion of the model alone) and `C08_src_big_parts` (documents of several parts).

What is left besides the source domain: `hstash` — each of the three conversions makes at most 10000 inline stash
entries (the placeholder ids are `%04d`; the renaming argument of the inline half needs ids of equal length; no bound
on the growth of the stash is proved anywhere).  It is stated with the computed number `stashCount`.

Tested before proving (real implementation, PYTHONPATH = pristine clone): 60 000 random pairs (A, B) satisfying the
source hypotheses (generators of `harness/oracle/c08.py` restricted to the domain), 0 violations (xhtml; 5 000 of them
also html), the model agrees on 20 000 of them; 3 842 of the pairs are in the former `hcode` gap; 6 000 documents of
3–5 parts, 0 violations; the Python port of the hypotheses agrees with the Lean definitions on 600 pairs.  Core Lean only.
-/
import MdVerif.Lemmas.C08SrcEven
import MdVerif.Lemmas.C08SrcTotal
import MdVerif.Lemmas.C08SrcBig

namespace MdVerif.C08Src
open Py Block InlineLocal Inline NoCtl MdVerif.C08

/-! ### vocabulary -/

/-- **the source domain**: no `<`, `&` (raw HTML, entities), no `[` (links, images, references and their
    definitions), no `>` (block quotes; `code_escape` would put `&gt;` into code spans); the normalised text has no
    backslash immediately before a backtick (the leak F-C10-4) and no `](`.  Inside: headings, rules, lists of any
    nesting, indented code, code spans, backslash escapes, hard line breaks, `*`/`_` emphasis of any nesting,
    unfinished constructs of all these kinds. -/
def C08Dom (tab : Nat) (s : Str) : Prop := C10DomainL tab s ∧ s.all srcOk = true

instance (tab : Nat) (s : Str) : Decidable (C08Dom tab s) := by unfold C08Dom; infer_instance

/-- a purely character-level sufficient condition: none of `< & [ ] >`, and no backtick or no backslash -/
def simpleDom (s : Str) : Bool :=
  s.all (fun c => c != '<' && c != '&' && c != '[' && c != ']' && c != '>') &&
    (s.all (fun c => c != '`') || s.all (fun c => c != '\\'))

theorem C08Dom_of_simpleDom (tab : Nat) {s : Str} (h : simpleDom s = true) : C08Dom tab s := by
  simp only [simpleDom, Bool.and_eq_true, Bool.or_eq_true, List.all_eq_true, bne_iff_ne, ne_eq] at h
  obtain ⟨h1, h2⟩ := h
  refine ⟨C10b_domain_links (C10b_domain_widens ?_), ?_⟩
  · rcases h2 with h2 | h2
    · left; intro c hc
      have := h1 c hc
      simp [domChar, this.1.1.1.1, this.1.1.1.2, this.1.1.2, this.1.2, h2 c hc]
    · right; intro c hc
      have := h1 c hc
      simp [domChar, this.1.1.1.1, this.1.1.1.2, this.1.1.2, this.1.2, this.2, h2 c hc]
  · rw [List.all_eq_true]
    intro c hc
    have := h1 c hc
    simp [srcOk, this.1.1.1.1, this.1.1.1.2, this.1.1.2, this.2]

example : simpleDom "# T\n\n- a *b* \\*\n\n    code".toList = true ∧ simpleDom "a `b` *c*\n---".toList = true := by decide

/-- the top-level elements of the block tree of `s` (used in the examples) -/
def blockKids (pc : Pipeline.Cfg) (s : Str) : List Node :=
  match parseDocument pc.tab (Normalize.normalize pc.tab s) with
  | some (r, _) => r.children
  | none => []

/-- the text of the first child (the `code` of a `pre`; used in the examples) -/
def firstText (pre : Node) : Option Str :=
  match pre.children with
  | code :: _ => code.text
  | [] => none

/-- the number of inline stash entries that the conversion of `src` makes (0 when a fuel of the model runs out) -/
def stashCount (pc : Pipeline.Cfg) (src : Str) : Nat :=
  match parseDocument pc.tab (Pipeline.prepare pc src) with
  | some (rt, refs) =>
    (match Inline.run { esc := pc.esc, refs := refs.reverse } rt with
     | some (_, st) => st.stash.length
     | none => 0)
  | none => 0

/-! ### the property -/

/-- **C08 at source level.**  `A`, `B` in the domain `C08Dom`; `A` has a visible character (`hasVisible`: not white
    space, not STX/ETX) and does not end with a carriage return; the first block of `B` begins with a paragraph,
    heading or rule (`startsPHR`, `Props/C08Block.lean`); at most 10000 stash entries.  If the three conversions
    succeed, the conversion of `A`, a blank line, `B` is the conversion of `A`, a newline, the conversion of `B` — in
    both output formats, for every tab length; `A` may end in an unfinished list, in a code block, with or without
    newlines. -/
theorem C08_src (pc : Pipeline.Cfg) (hcfg : EscOK pc.esc)
    (hd : divBlock pc.blockLevel = true) (hbl : blockLevelOk pc.blockLevel = true)
    {A B : Str} (dA : C08Dom pc.tab A) (dB : C08Dom pc.tab B)
    (hCR : (Normalize.stripCtl A).getLast? ≠ some '\r') (hvis : hasVisible A = true)
    (hb : startsPHR pc.tab ((splitS nn (Normalize.normalize pc.tab B)).headD []) = true)
    (hstash : stashCount pc A ≤ 10000 ∧ stashCount pc B ≤ 10000 ∧ stashCount pc (A ++ nn ++ B) ≤ 10000)
    {out outA outB : Str} (cAB : Pipeline.convert pc (A ++ nn ++ B) = .ok out)
    (cA : Pipeline.convert pc A = .ok outA) (cB : Pipeline.convert pc B = .ok outB) :
    out = outA ++ ['\n'] ++ outB := by
  refine convert_compose_all pc hcfg hd hbl dA.1 dB.1 dA.2 dB.2 hCR hvis hb ?_ cAB cA cB
  intro src hsrc rt refs t st hp hr
  have hc : stashCount pc src = st.stash.length := by simp only [stashCount, hp, hr]
  simp only [List.mem_cons, List.not_mem_nil, or_false] at hsrc
  rcases hsrc with rfl | rfl | rfl
  · rw [← hc]; exact hstash.1
  · rw [← hc]; exact hstash.2.1
  · rw [← hc]; exact hstash.2.2

/-- the domain is closed under "A, blank line, B" (unless `A` ends with a carriage return) -/
theorem C08_src_domain_compose {tab : Nat} {A B : Str} (dA : C08Dom tab A) (dB : C08Dom tab B)
    (hCR : (Normalize.stripCtl A).getLast? ≠ some '\r') : C08Dom tab (A ++ nn ++ B) :=
  ⟨domainL_compose dA.1 dB.1 hCR, srcOk_compose dA.2 dB.2⟩

/-- **On the domain the model never answers `err` or `ood`**: the conversion succeeds, or a fuel of the model ran out
    (`oof`; by `C02_convert_oof_only_stack_loop` that can only be the linear fuel of the stack loop of
    `InlineProcessor.run`).  `EscTwo`: the escapable characters have codes of at least two digits (`C05_full_total`). -/
theorem C08_src_outcomes (pc : Pipeline.Cfg) (hcfg : EscOK pc.esc) (h2 : AmpFull.EscTwo pc.esc) {s : Str}
    (d : C08Dom pc.tab s) : Pipeline.convert pc s = .oof ∨ ∃ out, Pipeline.convert pc s = .ok out :=
  convert_ok_or_oof pc hcfg h2 d.1

/-- **C08 at source level, all answers of the model.**  Under the source hypotheses of `C08_src`: unless the model
    runs out of fuel on one of the three documents, the three conversions succeed and the conversion of `A`, a blank
    line, `B` is the conversion of `A`, a newline, the conversion of `B`. -/
theorem C08_src_total (pc : Pipeline.Cfg) (hcfg : EscOK pc.esc) (h2 : AmpFull.EscTwo pc.esc)
    (hd : divBlock pc.blockLevel = true) (hbl : blockLevelOk pc.blockLevel = true)
    {A B : Str} (dA : C08Dom pc.tab A) (dB : C08Dom pc.tab B)
    (hCR : (Normalize.stripCtl A).getLast? ≠ some '\r') (hvis : hasVisible A = true)
    (hb : startsPHR pc.tab ((splitS nn (Normalize.normalize pc.tab B)).headD []) = true)
    (hstash : stashCount pc A ≤ 10000 ∧ stashCount pc B ≤ 10000 ∧ stashCount pc (A ++ nn ++ B) ≤ 10000) :
    (Pipeline.convert pc A = .oof ∨ Pipeline.convert pc B = .oof ∨ Pipeline.convert pc (A ++ nn ++ B) = .oof) ∨
    ∃ outA outB, Pipeline.convert pc A = .ok outA ∧ Pipeline.convert pc B = .ok outB ∧
      Pipeline.convert pc (A ++ nn ++ B) = .ok (outA ++ ['\n'] ++ outB) := by
  rcases C08_src_outcomes pc hcfg h2 dA with h | ⟨outA, cA⟩
  · exact Or.inl (Or.inl h)
  rcases C08_src_outcomes pc hcfg h2 dB with h | ⟨outB, cB⟩
  · exact Or.inl (Or.inr (Or.inl h))
  rcases C08_src_outcomes pc hcfg h2 (C08_src_domain_compose dA dB hCR) with h | ⟨out, cAB⟩
  · exact Or.inl (Or.inr (Or.inr h))
  refine Or.inr ⟨outA, outB, cA, cB, ?_⟩
  rw [cAB, C08_src pc hcfg hd hbl dA dB hCR hvis hb hstash cAB cA cB]

example : AmpFull.EscTwo ({} : Pipeline.Cfg).esc := C05.C05_escTwo_default

/-! ### the same without any hypothesis on the success of a conversion: a provably sufficient fuel

`convertBig` (`Lemmas/C08SrcBig.lean`) is `Pipeline.convert` with the stack loop of the inline stage run on
`bigFuel tree + runFuel tree` turns instead of the model's `runFuel tree`; for that fuel termination is proved
(`C02_run_total_bigfuel`).  It agrees with the model wherever the model answers `ok` (`C08_src_big_agrees`), it always
answers `ok` on the domain (`C08_src_big_total`), and C08 holds for it outright (`C08_src_big`). -/

/-- the number of inline stash entries of the conversion with the big fuel -/
def stashCountBig (pc : Pipeline.Cfg) (src : Str) : Nat :=
  match parseDocument pc.tab (Pipeline.prepare pc src) with
  | some (rt, refs) =>
    (match runBig { esc := pc.esc, refs := refs.reverse } rt with
     | some (_, st) => st.stash.length
     | none => 0)
  | none => 0

/-- where the model answers `ok out`, `convertBig` answers `ok out` (every source, every configuration): more fuel
    never changes a result (`C02_run_fuel_mono`) -/
theorem C08_src_big_agrees {pc : Pipeline.Cfg} {src out : Str} (h : Pipeline.convert pc src = .ok out) :
    convertBig pc src = .ok out := convertBig_of_convert h

/-- on the domain `convertBig` always answers `ok` -/
theorem C08_src_big_total (pc : Pipeline.Cfg) (hcfg : EscOK pc.esc) {s : Str} (d : C08Dom pc.tab s) :
    ∃ out, convertBig pc s = .ok out := convertBig_total pc hcfg d.1

/-- **C08 at source level, unconditionally** (for the conversion with the provably sufficient fuel): under the source
    hypotheses of `C08_src` the three conversions succeed and the conversion of `A`, a blank line, `B` is the
    conversion of `A`, a newline, the conversion of `B`. -/
theorem C08_src_big (pc : Pipeline.Cfg) (hcfg : EscOK pc.esc)
    (hd : divBlock pc.blockLevel = true) (hbl : blockLevelOk pc.blockLevel = true)
    {A B : Str} (dA : C08Dom pc.tab A) (dB : C08Dom pc.tab B)
    (hCR : (Normalize.stripCtl A).getLast? ≠ some '\r') (hvis : hasVisible A = true)
    (hb : startsPHR pc.tab ((splitS nn (Normalize.normalize pc.tab B)).headD []) = true)
    (hstash : stashCountBig pc A ≤ 10000 ∧ stashCountBig pc B ≤ 10000 ∧ stashCountBig pc (A ++ nn ++ B) ≤ 10000) :
    ∃ outA outB, convertBig pc A = .ok outA ∧ convertBig pc B = .ok outB ∧
      convertBig pc (A ++ nn ++ B) = .ok (outA ++ ['\n'] ++ outB) := by
  obtain ⟨outA, cA⟩ := C08_src_big_total pc hcfg dA
  obtain ⟨outB, cB⟩ := C08_src_big_total pc hcfg dB
  obtain ⟨out, cAB⟩ := C08_src_big_total pc hcfg (C08_src_domain_compose dA dB hCR)
  refine ⟨outA, outB, cA, cB, ?_⟩
  rw [cAB]
  congr 1
  refine convertBig_compose pc hcfg hd hbl dA.1 dB.1 dA.2 dB.2 hCR hvis hb ?_ cAB cA cB
  intro src hsrc rt refs t st hp hr
  have hc : stashCountBig pc src = st.stash.length := by simp only [stashCountBig, hp, hr]
  simp only [List.mem_cons, List.not_mem_nil, or_false] at hsrc
  rcases hsrc with rfl | rfl | rfl
  · rw [← hc]; exact hstash.1
  · rw [← hc]; exact hstash.2.1
  · rw [← hc]; exact hstash.2.2

/-- **from the success of the combined conversion alone**: if the model converts `A`, a blank line, `B` to `out`, then
    `out` is the conversion of `A`, a newline, the conversion of `B`, where the parts are converted with the provably
    sufficient fuel (these conversions always succeed) — and whenever the model itself answers on `A` or on `B`, it
    answers exactly these.  (That the model answers on the parts whenever it answers on the whole is the open fuel
    inequality `C02_run_total_full`.) -/
theorem C08_src_from_combined (pc : Pipeline.Cfg) (hcfg : EscOK pc.esc)
    (hd : divBlock pc.blockLevel = true) (hbl : blockLevelOk pc.blockLevel = true)
    {A B : Str} (dA : C08Dom pc.tab A) (dB : C08Dom pc.tab B)
    (hCR : (Normalize.stripCtl A).getLast? ≠ some '\r') (hvis : hasVisible A = true)
    (hb : startsPHR pc.tab ((splitS nn (Normalize.normalize pc.tab B)).headD []) = true)
    (hstash : stashCountBig pc A ≤ 10000 ∧ stashCountBig pc B ≤ 10000 ∧ stashCountBig pc (A ++ nn ++ B) ≤ 10000)
    {out : Str} (cAB : Pipeline.convert pc (A ++ nn ++ B) = .ok out) :
    ∃ outA outB, convertBig pc A = .ok outA ∧ convertBig pc B = .ok outB ∧ out = outA ++ ['\n'] ++ outB ∧
      (∀ o, Pipeline.convert pc A = .ok o → o = outA) ∧ (∀ o, Pipeline.convert pc B = .ok o → o = outB) := by
  obtain ⟨outA, outB, cA, cB, cbig⟩ := C08_src_big pc hcfg hd hbl dA dB hCR hvis hb hstash
  refine ⟨outA, outB, cA, cB, ?_, ?_, ?_⟩
  · have := C08_src_big_agrees cAB
    rw [cbig] at this
    injection this with e
    exact e.symm
  · intro o ho
    have := C08_src_big_agrees ho
    rw [cA] at this
    injection this with e
    exact e.symm
  · intro o ho
    have := C08_src_big_agrees ho
    rw [cB] at this
    injection this with e
    exact e.symm

/-! ### documents of several parts

Iterating `C08_src_big` (which has no hypothesis on the conversions, so it can be iterated): a document made of parts
`d, e₁, …, eₙ` separated by blank lines, every `eᵢ` beginning with a paragraph, heading or rule, renders part by part. -/

/-- `d`, a blank line, `e₁`, a blank line, …, `eₙ` -/
def blankJoin (d : Str) (es : List Str) : Str := es.foldl (fun acc e => acc ++ nn ++ e) d

/-- the documents `d`, `d ⏎⏎ e₁`, `d ⏎⏎ e₁ ⏎⏎ e₂`, … -/
def accs (d : Str) : List Str → List Str
  | [] => [d]
  | e :: r => d :: accs (d ++ nn ++ e) r

/-- the output of `convertBig` (empty when it does not answer `ok`) -/
def outBig (pc : Pipeline.Cfg) (s : Str) : Str :=
  match convertBig pc s with
  | .ok o => o
  | _ => []

theorem noCR_compose {d e : Str} (he : (Normalize.stripCtl e).getLast? ≠ some '\r') :
    (Normalize.stripCtl (d ++ nn ++ e)).getLast? ≠ some '\r' := by
  rw [Normalize.stripCtl_append, Normalize.stripCtl_append]
  have hnn : Normalize.stripCtl nn = nn := by decide
  rw [hnn]
  cases hs : Normalize.stripCtl e with
  | nil => simp [nn]
  | cons c r =>
    rw [hs] at he
    rw [List.getLast?_append]
    rw [List.getLast?_eq_some_getLast (l := c :: r) (by simp)] at he ⊢
    simpa using he

/-- **C08 for documents of several parts.**  `d` and all `eᵢ` in the domain, none ending with a carriage return, `d`
    with a visible character, every `eᵢ` beginning with a paragraph, heading or rule, at most 10000 stash entries in
    every part and every partial document: the conversion (with the provably sufficient fuel) of the whole document is
    the conversions of the parts joined by newlines. -/
theorem C08_src_big_parts (pc : Pipeline.Cfg) (hcfg : EscOK pc.esc)
    (hd : divBlock pc.blockLevel = true) (hbl : blockLevelOk pc.blockLevel = true) :
    ∀ (es : List Str) (d : Str), C08Dom pc.tab d → (Normalize.stripCtl d).getLast? ≠ some '\r' → hasVisible d = true →
      (∀ e ∈ es, C08Dom pc.tab e ∧ (Normalize.stripCtl e).getLast? ≠ some '\r' ∧
        startsPHR pc.tab ((splitS nn (Normalize.normalize pc.tab e)).headD []) = true) →
      (∀ x ∈ accs d es ++ es, stashCountBig pc x ≤ 10000) →
      convertBig pc (blankJoin d es) =
        .ok (es.foldl (fun acc e => acc ++ ['\n'] ++ outBig pc e) (outBig pc d)) := by
  intro es
  induction es with
  | nil =>
    intro d dd _ _ _ _
    obtain ⟨o, ho⟩ := C08_src_big_total pc hcfg dd
    simp [blankJoin, outBig, ho]
  | cons e r ih =>
    intro d dd hcr hv hes hst
    obtain ⟨de, hcre, hbe⟩ := hes e (by simp)
    have hs : stashCountBig pc d ≤ 10000 ∧ stashCountBig pc e ≤ 10000 ∧ stashCountBig pc (d ++ nn ++ e) ≤ 10000 := by
      refine ⟨hst d (by simp [accs]), hst e (by simp), hst (d ++ nn ++ e) ?_⟩
      cases r <;> simp [accs]
    obtain ⟨oa, ob, ca, cb, cab⟩ := C08_src_big pc hcfg hd hbl dd de hcr hv hbe hs
    have hv' : hasVisible (d ++ nn ++ e) = true := by
      simp only [hasVisible, List.any_append, Bool.or_eq_true] at hv ⊢
      exact Or.inl (Or.inl hv)
    have := ih (d ++ nn ++ e) (C08_src_domain_compose dd de hcr) (noCR_compose hcre) hv'
      (fun x hx => hes x (List.mem_cons_of_mem _ hx))
      (fun x hx => hst x (by
        simp only [accs, List.cons_append, List.mem_cons, List.mem_append] at hx ⊢
        rcases hx with hx | hx
        · exact Or.inr (Or.inl hx)
        · exact Or.inr (Or.inr (Or.inr hx))))
    have e1 : outBig pc d = oa := by simp [outBig, ca]
    have e2 : outBig pc e = ob := by simp [outBig, cb]
    have e3 : outBig pc (d ++ nn ++ e) = oa ++ ['\n'] ++ ob := by unfold outBig; rw [cab]
    simp only [blankJoin, List.foldl_cons] at this ⊢
    rw [this, e3, e1, e2]

/-! ### the hypotheses are satisfiable by a non-trivial input, and the conclusion computed -/

section Example

/-- A: a heading, a list with emphasis and a backslash escape, a paragraph with a code span, an indented code block;
    no newline at the end: the even case with a trailing code block, which `Props/C08.lean` excludes -/
def srcA : Str := "# T\n\n- a *b* \\*\n\ntext `c`\n\n    code x".toList
/-- B: a paragraph with a lazy rule after it and a hard line break, then a heading -/
def srcB : Str := "para **x**  \ny\n---\n\n## h\n".toList

example : EscOK ({} : Pipeline.Cfg).esc := escOK_default
example : divBlock ({} : Pipeline.Cfg).blockLevel = true ∧ blockLevelOk ({} : Pipeline.Cfg).blockLevel = true := by
  decide +kernel
example : C08Dom 4 srcA ∧ C08Dom 4 srcB := by decide +kernel
example : (Normalize.stripCtl srcA).getLast? ≠ some '\r' ∧ hasVisible srcA = true ∧
    startsPHR 4 ((splitS nn (Normalize.normalize 4 srcB)).headD []) = true := by decide +kernel
example : stashCount {} srcA = 3 ∧ stashCount {} srcB = 2 ∧ stashCount {} (srcA ++ nn ++ srcB) = 5 := by
  decide +kernel

/-- the block trees differ (the code text of `A` alone carries the filler), the outputs agree -/
example : (blockKids {} srcA).getLast?.bind firstText = some "code x\n\n\n".toList ∧
    ((blockKids {} (srcA ++ nn ++ srcB)).drop 3).head?.bind firstText = some "code x\n".toList := by
  decide +kernel

/-- the hypothesis of `C08_src_big`, and its conclusion computed -/
example : stashCountBig {} srcA = 3 ∧ stashCountBig {} srcB = 2 ∧ stashCountBig {} (srcA ++ nn ++ srcB) = 5 := by
  decide +kernel
example :
    (match convertBig {} srcA, convertBig {} srcB, convertBig {} (srcA ++ nn ++ srcB) with
     | .ok a, .ok b, .ok ab => decide (ab = a ++ ['\n'] ++ b) && decide (a.length = 104)
     | _, _, _ => false) = true := by decide +kernel

/-- the three conversions succeed and the conclusion holds on this input, in both formats -/
example :
    (match Pipeline.convert {} srcA, Pipeline.convert {} srcB, Pipeline.convert {} (srcA ++ nn ++ srcB) with
     | .ok a, .ok b, .ok ab => decide (ab = a ++ ['\n'] ++ b) && decide (a.length = 104) && decide (b.length = 56)
     | _, _, _ => false) = true := by decide +kernel
example :
    (match Pipeline.convert { fmt := .html } srcA, Pipeline.convert { fmt := .html } srcB,
        Pipeline.convert { fmt := .html } (srcA ++ nn ++ srcB) with
     | .ok a, .ok b, .ok ab => decide (ab = a ++ ['\n'] ++ b) && decide (b.length = 52)
     | _, _, _ => false) = true := by decide +kernel

/-- three parts: `C08_src_big_parts` computed -/
example : convertBig {} (blankJoin srcA [srcB, "last *part*".toList]) =
    .ok (outBig {} srcA ++ ['\n'] ++ outBig {} srcB ++ ['\n'] ++ outBig {} "last *part*".toList) := by decide +kernel
example : (accs srcA [srcB, "last *part*".toList] ++ [srcB, "last *part*".toList]).all
    (fun x => decide (stashCountBig {} x ≤ 10000)) = true := by decide +kernel

end Example

/-! ### the excluded points are real (kernel-checked; the implementation gives the same outputs) -/

/-- `hvis`: an `A` that consists of an STX only is not blank for `convert`, but it has no visible character and its
    block tree is empty; the combined document is converted as `B` alone, without the newline -/
theorem C08_src_counter_empty_tree :
    Normalize.isBlankDoc [Normalize.STX] = false ∧ hasVisible [Normalize.STX] = false ∧
    (blockKids {} [Normalize.STX]).isEmpty = true ∧
    Pipeline.convert {} [Normalize.STX] = .ok [] ∧
    Pipeline.convert {} ([Normalize.STX] ++ nn ++ "b".toList) = Pipeline.convert {} "b".toList := by decide +kernel

/-- `hCR` is a hypothesis of the proof (the normaliser does not work part by part when `A` ends with a carriage return:
    `C08_counter_cr` in `Props/C08.lean`: the CR and the first LF of the blank line are one CRLF), not a counterexample
    of the property: one LF is left, and with the LF of the CRLF it still is a blank line -/
example : Pipeline.convert {} ("a\r".toList ++ nn ++ "b".toList) = .ok "<p>a</p>\n<p>b</p>".toList := by decide +kernel

/-- outside `C08Dom` the property is false on the model and on the implementation: the leaks of `Props/C08Inline.lean`
    (`C08_counterexample_alt`, `C08_counterexample_href`) at the level of `convert` -/
theorem C08_src_counter_leak :
    Pipeline.convert {} "`a`".toList = .ok "<p><code>a</code></p>".toList ∧
    Pipeline.convert {} "![a [*x*](y)](z)".toList = .ok "<p><img alt=\"a \x02klzzwxh:0000\x03\" src=\"z\" /></p>".toList ∧
    Pipeline.convert {} ("`a`".toList ++ nn ++ "![a [*x*](y)](z)".toList) =
      .ok "<p><code>a</code></p>\n<p><img alt=\"a \x02klzzwxh:0001\x03\" src=\"z\" /></p>".toList ∧
    ¬ C08Dom 4 "![a [*x*](y)](z)".toList := by
  refine ⟨by decide +kernel, by decide +kernel, by decide +kernel, by decide +kernel⟩

end MdVerif.C08Src
