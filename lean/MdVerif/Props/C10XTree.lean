/-
C10 on the extension model — "The output never contains the STX/ETX control characters or any of the placeholder
tokens the converter uses internally …" for `PipelineX.convertX` (`Markdown(extensions=[…]).convert`): the LATE TREE
PROCESSORS when attribute values may hold escape tokens, and **attr_list** end to end.

After the inline stage the tree holds escape tokens `STX <code> ETX` (for `\*` etc.) in texts and tails only (`FNode`,
`Spec/NoCtl.lean`).  `AttrListTreeprocessor` (priority 8, between `prettify` 10 and `unescape` 0) cuts
`{: #id .cls key="value" }` out of texts and tails and moves the pieces into attributes — escape tokens included:
`{: title="a \* b" }` gives the attribute value `a STX 42 ETX b`.  `UnescapeTreeprocessor` restores attribute values
too.  So between the two the invariant is `FNodeX` (`Spec/NoCtlX.lean`): attribute NAMES free of STX/ETX, attribute
VALUES, texts and tails made of ordinary characters and WHOLE escape tokens, `code` texts free of STX/ETX.

Why no token is ever cut: every cut the processor makes (regexes `BASE_RE`, `HEADER_RE`, `BLOCK_RE`, `INLINE_RE`, the
`re.Scanner` lexicon, `split('=')`, `strip('"')`, `rstrip('#')`, `rstrip()`) is at an ordinary character that is not an
ASCII digit — blank, `=`, `}`, `{`, `:`, quote, line feed, `.`, `#` — and a token is `STX digits ETX`
(`C10X_cut_outside_tokens`).  Why no name holds a token: `sanitize_name` replaces every character outside `NAME_RE`'s
class, STX and ETX among them, by `_` (`C10X_attr_names`; the key `\*` becomes `_42_`).

Outside the domain (not claimed): F-C10-3 — attr_list and the raw-HTML stash, `*x*{ &amp; }` gives
`<em _wzxhzdk:0_="&amp;">` — needs `&` (or `<`), which the source domain `C10DomainL` excludes.

Vocabulary: `Spec/NoCtl.lean`, `Spec/NoCtlB.lean`, `Spec/NoCtlX.lean`; helper lemmas: `Lemmas/PlaceholdersXTree.lean`,
`Lemmas/PlaceholdersXAttr.lean`, `Lemmas/PlaceholdersXAttrAll.lean`.  Core Lean only.

1. attr_list, function by function: `C10X_cut_outside_tokens`, `C10X_attr_scanner`, `C10X_attr_names`,
   `C10X_attr_assign`, `C10X_attr_placement`, `C10X_attr_element`.
2. Stage theorems on `FNodeX`: `C10X_attr_list_stage`, `C10X_prettify_x`, `C10X_abbr_stage_x`, `C10X_unescape_x`,
   `C10X_unescape_x_total`.
3. End to end: `C10X_partial_attr_list` (attr_list, nl2br, wikilinks on or off), `C10X_partial_attr_list_nl`.
-/
import MdVerif.Lemmas.PlaceholdersXAttrAll

namespace MdVerif.NoCtlX
open MdVerif.NoCtl Py AttrList AttrListTree

/-! ## 1. `AttrListTreeprocessor`, function by function -/

/-- **A cut outside tokens keeps well-formedness.**  A string made of ordinary characters and escape tokens
    (`WF true 0`; with `esc = false`: a string without STX/ETX) that is cut at an ordinary character which is not an
    ASCII digit (`Cut c`) falls into two strings of the same kind: the cut cannot lie inside `STX digits ETX`. -/
theorem C10X_cut_outside_tokens {esc : Bool} {a b : Str} {c : Char} (h : WF esc 0 (a ++ c :: b)) (hc : Cut c) :
    WF esc 0 a ∧ WF esc 0 b := wf0_cut h hc

/-- every character at which `attr_list` cuts is such a character; a digit, STX, ETX are not -/
example : Cut ' ' ∧ Cut '=' ∧ Cut '}' ∧ Cut '{' ∧ Cut ':' ∧ Cut '"' ∧ Cut '\'' ∧ Cut '\n' ∧ Cut '.' ∧ Cut '#' ∧
    ¬ Cut '4' ∧ ¬ Cut STX ∧ ¬ Cut ETX := by decide

/-- **The scanner** (`get_attrs_and_remainder`: `re.Scanner` with the lexicon `k="v"`, `k='v'`, `k=v`, word, blank;
    handlers `split('=', 1)`, `strip('"')`, `.cls`, `#id`): on a string of ordinary characters and escape tokens every
    key, every value and the unparsed remainder are again such strings. -/
theorem C10X_attr_scanner {s : Str} (hs : WF true 0 s) :
    (∀ kv ∈ (getAttrsAndRemainder s).1, WF true 0 kv.1 ∧ WF true 0 kv.2) ∧ WF true 0 (getAttrsAndRemainder s).2 :=
  getAttrsAndRemainder_wf hs

/-- tokens next to `=`, quotes, `.`, `#`, blanks and `}`: keys and values hold whole tokens, the scan stops at `}` -/
example :
    getAttrsAndRemainder ("k=".toList ++ escToken 42 ++ " .c".toList ++ escToken 42 ++ " #".toList ++ escToken 42 ++
      "x ".toList ++ escToken 42 ++ "=v t=\"a ".toList ++ escToken 42 ++ "\" u} ".toList ++ escToken 35) =
    ([("k".toList, escToken 42), (".".toList, "c".toList ++ escToken 42), ("id".toList, escToken 42 ++ "x".toList),
      (escToken 42, "v".toList), ("t".toList, "a ".toList ++ escToken 42), ("u".toList, "u".toList)],
     "} ".toList ++ escToken 35) := by decide +kernel

/-- **Attribute names** (`sanitize_name`, `NAME_RE.sub('_', name)`): no STX, no ETX, whatever the key. -/
theorem C10X_attr_names (name : Str) : NoCtl (sanitizeName name) := sanitizeName_noctl name

/-- the key `\*`, i.e. the token `STX 42 ETX`, becomes `_42_` -/
example : sanitizeName (escToken 42) = "_42_".toList ∧ sanitizeName ("k".toList ++ escToken 95) = "k_95_".toList := by
  decide

/-- **`assign_attrs`**: from attributes with names free of STX/ETX and well-formed values (`attrsTok`) and a
    well-formed attribute string, the new attributes are of the same kind (a class is appended to the old `class`
    value behind a blank; other keys are sanitized) and the returned remainder is well formed. -/
theorem C10X_attr_assign {a : Attrs} (ha : attrsTok a) {g : Str} (hg : WF true 0 g) (strict : Bool) :
    attrsTok (assignAttrs a g strict).1 ∧ WF true 0 (assignAttrs a g strict).2 := assignAttrs_tok ha hg strict

example :
    assignAttrs [("class".toList, "x".toList ++ escToken 42)]
      (escToken 42 ++ "=1 .c".toList ++ escToken 42 ++ " t='".toList ++ escToken 39 ++ "'".toList) false =
    ([("class".toList, "x".toList ++ escToken 42 ++ " c".toList ++ escToken 42), ("_42_".toList, "1".toList),
      ("t".toList, escToken 39)], []) := by decide +kernel

/-- **Placement** (`HEADER_RE.search`, `BLOCK_RE.search`, `INLINE_RE.match`): the captured group and the text that
    stays (before the match, resp. behind the closing brace) are well formed. -/
theorem C10X_attr_placement {s : Str} (hs : WF true 0 s) :
    (∀ pre g, headerSearch s = some (pre, g) → WF true 0 pre ∧ WF true 0 g) ∧
    (∀ pre g, blockSearch s = some (pre, g) → WF true 0 pre ∧ WF true 0 g) ∧
    (∀ g rest, inlineMatch s = some (g, rest) → WF true 0 g ∧ WF true 0 rest) :=
  ⟨fun _ _ h => headerSearch_wf h hs, fun _ _ h => blockSearch_wf h hs, fun _ _ h => inlineMatch_wf h hs⟩

example :
    headerSearch ("T ".toList ++ escToken 42 ++ " ## {: a=".toList ++ escToken 42 ++ " }".toList) =
      some ("T ".toList ++ escToken 42 ++ " ##".toList, "a=".toList ++ escToken 42 ++ " ".toList) ∧
    inlineMatch ("{: a=".toList ++ escToken 125 ++ " } t ".toList ++ escToken 42 ++ " } u".toList) =
      some ("a=".toList ++ escToken 125 ++ " } t ".toList ++ escToken 42 ++ " ".toList, " u".toList) := by
  decide +kernel

/-- **One element** (`blockApply`: the text or a child's tail of a block-level element, with the `#`-cleanup of
    headers; `inlineApply`: the tail of an inline element): new attributes `attrsTok`, new string well formed; a
    string without STX/ETX stays without. -/
theorem C10X_attr_element {a : Attrs} (ha : attrsTok a) {s : Str} (hs : WF true 0 s) (header hashes : Bool) :
    attrsTok (blockApply header hashes a s).1 ∧ WF true 0 (blockApply header hashes a s).2 ∧
    (NoCtl s → NoCtl (blockApply header hashes a s).2) ∧
    attrsTok (inlineApply a s).1 ∧ WF true 0 (inlineApply a s).2 :=
  ⟨blockApply_tok header hashes ha hs, blockApply_str header hashes a hs,
    fun hn => noCtl_of_wf (blockApply_str header hashes a (WF.of_noCtl (esc := false) hn)),
    (inlineApply_tok ha hs).1, (inlineApply_tok ha hs).2⟩

/-- `# Title {: #top title="a \* b" }` after the inline stage: the value holds the escape token of `\*` -/
example :
    blockApply true true [] ("Title ## {: #top title=\"a ".toList ++ escToken 42 ++ " b\" }".toList) =
      ([("id".toList, "top".toList), ("title".toList, "a ".toList ++ escToken 42 ++ " b".toList)], "Title".toList) := by
  decide +kernel

/-! ## 2. The stage theorems on `FNodeX` -/

/-- **`AttrListTreeprocessor.run` keeps `FNodeX`.**  If every element of the tree has a tag and attribute names
    without STX/ETX, attribute values, text and tail made of ordinary characters and whole escape tokens, and (for a
    `code` element) a text without STX/ETX, then so has every element of the tree that `attr_list` returns — for any
    set of block-level tags. -/
theorem C10X_attr_list_stage (bl : List Str) {t : Node} (h : t.Forall FNodeX) :
    (AttrListTree.run bl t).Forall FNodeX := attrList_run_fnodeX bl h

/-- a tree that satisfies the hypothesis and uses the syntax: a heading whose attribute list holds a token, with an
    `em` child whose tail is an attribute list with a token as KEY -/
example :
    let t : Node :=
      { tag := .name "h1".toList
        text := some "T ".toList
        children := [{ tag := .name "em".toList, text := some "e".toList,
                       tail := some ("{: ".toList ++ escToken 42 ++ "=v } ## {: title=\"a ".toList ++ escToken 42 ++
                         "\" }".toList) }] }
    t.Forall FNodeX ∧
    (AttrListTree.run TreeProc.defaultBlockLevel t).attrs = [("title".toList, "a ".toList ++ escToken 42)] ∧
    (AttrListTree.run TreeProc.defaultBlockLevel t).children.map (fun c => (c.attrs, c.tail)) =
      [([("_42_".toList, "v".toList)], some [])] := by
  intro t
  refine ⟨?_, by decide +kernel, by decide +kernel⟩
  have w42 : WF true 0 (escToken 42) := wf_escToken (by decide)
  simp only [t, Node.Forall, Node.ForallL, FNodeX, tagNoCtl, attrsTok, WFO, NoCtlO, isCode, and_true]
  refine ⟨⟨by decide, by simp, .nil, WF.of_noCtl (by decide), by decide⟩, by decide, by simp, ?_, WF.of_noCtl (by decide),
    by decide⟩
  exact WF.append (WF.append (WF.append (WF.append (WF.of_noCtl (by decide)) w42) (WF.of_noCtl (by decide))) w42)
    (WF.of_noCtl (by decide))

/-- **`PrettifyTreeprocessor.run` keeps `FNodeX`** (it never touches attributes). -/
theorem C10X_prettify_x {t : Node} (h : t.Forall FNodeX) (bl : List Str) : (TreeProc.prettify t bl).Forall FNodeX :=
  prettify_fnodeX h bl

/-- **`AbbrTreeprocessor.run` keeps `FNodeX`** when no abbreviation and no title holds STX or ETX and no abbreviation
    consists of ASCII digits only (for a number the statement is false: `C10X_leak_digits_abbr`, F-C10-6).  The
    attributes of existing elements are not touched; the new `abbr` elements get the title of the table. -/
theorem C10X_abbr_stage_x {abbrs : List (Str × Str)} {t : Node} (h : t.Forall FNodeX)
    (hn : ∀ kv ∈ abbrs, NoCtl kv.1 ∧ NoCtl kv.2) (hd : noDigitsAbbr abbrs = true) :
    (AbbrTree.run abbrs t).Forall FNodeX := abbr_run_fnodeX h hn hd

example : (∀ kv ∈ [("HTML".toList, "Hyper Text".toList), ("W3C".toList, "Consortium".toList)], NoCtl kv.1 ∧ NoCtl kv.2) ∧
    noDigitsAbbr [("HTML".toList, "Hyper Text".toList), ("W3C".toList, "Consortium".toList)] = true ∧
    noDigitsAbbr [("42".toList, "x".toList)] = false := by decide

/-- **`UnescapeTreeprocessor.run` on `FNodeX` leaves no STX and no ETX** — in tags, attribute names, attribute values
    (restored by `unescape` like texts), texts and tails. -/
theorem C10X_unescape_x {t u : Node} (h : t.Forall FNodeX) (hr : TreeProc.unescapeTree t = some u) : TreeNoCtl u :=
  unescapeTree_fnodeX h hr

/-- … and it does not raise on such a tree (`chr` is applied to acceptable codes only). -/
theorem C10X_unescape_x_total {t : Node} (h : t.Forall FNodeX) : ∃ u, TreeProc.unescapeTree t = some u :=
  unescapeTree_fnodeX_some h

example :
    let t : Node := { tag := .name "h1".toList, attrs := [("title".toList, "a ".toList ++ escToken 42 ++ " b".toList)],
                      text := some ("T ".toList ++ escToken 35) }
    t.Forall FNodeX ∧
    (TreeProc.unescapeTree t).map (fun u => (u.attrs, u.text)) =
      some ([("title".toList, "a * b".toList)], some "T #".toList) := by
  intro t
  refine ⟨?_, by decide +kernel⟩
  simp only [t, Node.Forall, Node.ForallL, FNodeX, tagNoCtl, attrsTok, WFO, NoCtlO, isCode, and_true]
  refine ⟨by decide, ?_, .nil, WF.append (WF.of_noCtl (by decide)) (wf_escToken (by decide)), by decide⟩
  intro kv hkv
  simp only [List.mem_singleton] at hkv
  subst hkv
  exact ⟨by decide, WF.append (WF.append (WF.of_noCtl (by decide)) (wf_escToken (by decide))) (WF.of_noCtl (by decide))⟩

/-! ## 3. End to end -/

/-- **End to end with attr_list** (and the inline-stage extensions).  attr_list, nl2br and wikilinks are on or off,
    the eight other extensions are off (`AttrFlagsOnly`).  For a source without `<`, `&` whose normalised text has none
    of the adjacencies backslash–backtick, `![`, `](` (`C10DomainL`, the domain of `C10_partial_links`) and — when
    wikilinks is on — no `[` immediately followed by a blank (`C10DomainW`, see `C10X_blank_wikilink_leak`), whatever
    `convertX` returns (any tab length, output format, block-level set; escapable characters ordinary ones) contains
    neither STX nor ETX. -/
theorem C10X_partial_attr_list {x : PipelineX.Exts} (hx : AttrFlagsOnly x)
    (cfg : Pipeline.Cfg) (hcfg : EscOK cfg.esc) {src out : Str} (hd : C10DomainW x.wikilinks cfg.tab src)
    (h : PipelineX.convertX x cfg src = .ok out) : NoCtl out := convertX_noctl_attr hx hcfg hd.1 hd.2 h

/-- **End to end with attr_list and nl2br** (wikilinks off): the domain is that of `C10_partial_links`. -/
theorem C10X_partial_attr_list_nl {x : PipelineX.Exts} (hx : AttrFlagsOnly x) (hw : x.wikilinks = false)
    (cfg : Pipeline.Cfg) (hcfg : EscOK cfg.esc) {src out : Str} (hd : C10DomainL cfg.tab src)
    (h : PipelineX.convertX x cfg src = .ok out) : NoCtl out :=
  convertX_noctl_attr hx hcfg hd (by rw [hw]; intro h; cases h) h

/-- sources that USE the syntax and satisfy the hypotheses: an attribute list on a heading with an escape in a quoted
    value, on an `em`, on a code span with an escaped KEY, on a reference link with an escaped `}`, on a paragraph -/
example : AttrFlagsOnly { attrList := true, nl2br := true } ∧ AttrFlagsOnly { attrList := true, wikilinks := true } ∧
    ¬ AttrFlagsOnly { attrList := true, abbr := true } ∧ EscOK ({} : Pipeline.Cfg).esc ∧
    C10DomainL 4 ("# Title {: #top .big title=\"a \\* b\" }\n\n*em*{: .c } and `x`{: \\*=\\_ } [t][r]{: k='\\}' }\n" ++
      "para \\# end\n{: k=v .\\* }\n\n[r]: /u \"T\"").toList ∧
    C10DomainW true 4 "[[Wiki Page]]{: title=\"\\* w\" } *e*{: .c }\nnext".toList :=
  ⟨by decide, by decide, by decide, escOK_default, by decide +kernel, by decide +kernel⟩

/-- kernel-checked conversions (the outputs are those of `markdown.markdown(src, extensions=['attr_list'])`) -/
example : PipelineX.convertX { attrList := true } {} "# Title {: #top .big title=\"a \\* b\" }".toList =
    .ok "<h1 class=\"big\" id=\"top\" title=\"a * b\">Title</h1>".toList := by decide +kernel

example : PipelineX.convertX { attrList := true } {} "*em*{: .c }".toList =
    .ok "<p><em class=\"c\">em</em></p>".toList := by decide +kernel

example : PipelineX.convertX { attrList := true } {} "para\n{: k=v }".toList =
    .ok "<p k=\"v\">para</p>".toList := by decide +kernel

/-- … with nl2br: escapes as key (`\*` ↦ `_42_`), as class, as value; a reference link; an escaped `}` in a value -/
example : PipelineX.convertX { attrList := true, nl2br := true } {}
    ("# Title {: #top .big title=\"a \\* b\" }\n\n*em*{: .c } and `x`{: \\*=\\_ } [t][r]{: k='\\}' }\n" ++
      "para \\# end\n{: k=v .\\* }\n\n[r]: /u \"T\"").toList =
    .ok ("<h1 class=\"big\" id=\"top\" title=\"a * b\">Title</h1>\n<p class=\"*\" k=\"v\"><em class=\"c\">em</em> and " ++
      "<code _42_=\"_\">x</code> <a href=\"/u\" k=\"}\" title=\"T\">t</a><br />\npara # end<br /></p>").toList := by
  decide +kernel

/-- … with wikilinks and nl2br -/
example : PipelineX.convertX { attrList := true, nl2br := true, wikilinks := true } {}
    "[[Wiki Page]]{: title=\"\\* w\" } *e*{: .c }\nnext".toList =
    .ok ("<p><a class=\"wikilink\" href=\"/Wiki_Page/\" title=\"* w\">Wiki Page</a> <em class=\"c\">e</em><br />\n" ++
      "next</p>").toList := by decide +kernel

end MdVerif.NoCtlX
