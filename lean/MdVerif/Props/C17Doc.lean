/-
C17 at the tree and document level — generated anchors are unique, every heading has an id, the toc links resolve.

`Props/C17.lean` proves the bookkeeping on heading *lists* (`Model/Ext/Toc.lean`).  Here the same statements are
proved for `TocTree.run` (`Model/Ext/TocTree.lean`: `TocTreeprocessor.run` in its default configuration — marker
`[TOC]`, `toc_depth = 6`, `baselevel = 1`, no anchor links / permalinks, `slugify = toc.slugify`) on **every**
element tree, and for the end-to-end model `PipelineX.treeX` with `toc := true` (any other extension flags).

Observations on a tree (`Lemmas/TocTreeDoc.lean`): `TocTree.idsOf n` every `id` attribute in document order;
`hdIds n` the `id` attribute (or `none`) of every heading element `[Hh][1-6]` in document order; `hdLevels n` their
levels; `headingIds n` the heading ids that exist; `hrefs n` every `href` attribute in document order;
`fillIds hd gen` = `hd` with the `k`-th missing id replaced by the `k`-th element of `gen`; `unesc` =
`UnescapeTreeprocessor.unescape` (`none` when `chr` would raise), `ue` the same as a total function.

The model is that of the code **after the repair of F-C17-4**: `used_ids` holds the ids as the output will show
them (`unescape(el.attrib["id"])`).  Before the repair `used_ids` held the raw attribute values, so that an explicit
id written with a backslash escape (`# x {#a\-b}`, stored as `a STX 45 ETX b` until the unescape tree processor runs)
did not reserve `a-b`: `'# x {#a\\-b}\n\n# a b'` gave two headings with `id="a-b"`.

Core Lean only.
-/
import MdVerif.Lemmas.TocTreeDoc
import MdVerif.Lemmas.FnTreeDoc
import MdVerif.Lemmas.FnDoc

namespace MdVerif.C17Doc
open MdVerif.Py MdVerif.Toc MdVerif.TocTree MdVerif.TocTreeDoc MdVerif.PipelineX MdVerif.FnTreeDoc MdVerif.FnDoc

/-! ## `TocTreeprocessor.run` on an arbitrary tree -/

/-- **Ids after `TocTreeprocessor.run`, every input tree.**  If `run` succeeds on `t` (`used` = the unescaped ids of
    `t`, i.e. `used_ids`), there is a list `gen` of generated ids such that
    * the heading ids of the result are those of `t` with every missing one filled from `gen`, in document order
      (so every heading has an id, explicit ids are kept, `|gen|` = number of headings that had none);
    * the generated ids are pairwise distinct, non-empty, none of them is an id that occurs anywhere in `t`
      (on a heading or not; compared as the output shows them: unescaped), and the final unescape tree processor
      leaves them as they are;
    * no other id appears: the ids of the result are among those of `t` plus `gen` (as multisets; an id carried by
      an element that `[TOC]` replaces disappears);
    * the heading levels are unchanged.
    No hypothesis on `t`: any tags, attributes, nesting (headings inside headings included). -/
theorem C17_tree_ids_distinct (env : Env) (bl : List Str) (t t' : Node) (h : run env bl t = .ok t') :
    ∃ used gen : List Str, usedIds (idsOf t) = some used ∧
      hdIds t' = (fillIds (hdIds t) gen).map some ∧ gen.length = missing (hdIds t) ∧
      gen.Nodup ∧ (∀ g ∈ gen, g ∉ used ∧ g ≠ [] ∧ unesc g = some g) ∧
      (∃ l, (idsOf t').Sublist l ∧ l.Perm (idsOf t ++ gen)) ∧ hdLevels t' = hdLevels t := by
  obtain ⟨used, gen, toks, w, hused, -, hn, hf, hl, hh, hsp, -, -, hlv, -⟩ := run_spec h
  exact ⟨used, gen, hused, hh, hl, hn,
    fun g hg => ⟨(hf g hg).1, (hf g hg).2.1, unesc_of_no_stx g (hf g hg).2.2⟩, hsp, hlv⟩

/-- **Every heading has an id** after `run` (default configuration: `toc_depth` covers all levels). -/
theorem C17_tree_every_heading_has_id (env : Env) (bl : List Str) (t t' : Node) (h : run env bl t = .ok t') :
    (hdIds t').length = (hdIds t).length ∧ ∀ o ∈ hdIds t', o.isSome = true := by
  obtain ⟨_, gen, _, hh, hl, -⟩ := C17_tree_ids_distinct env bl t t' h
  rw [hh]
  refine ⟨by simp [fillIds_length _ _ hl], ?_⟩
  intro o ho
  obtain ⟨a, -, rfl⟩ := List.mem_map.mp ho
  rfl

/-- **Explicit ids are kept**: the `k`-th heading of `t` carries the id `i` ⇒ so does the `k`-th heading of the
    result; a heading without id gets one of the generated (fresh) ids. -/
theorem C17_tree_explicit_ids_kept (env : Env) (bl : List Str) (t t' : Node) (h : run env bl t = .ok t') (k : Nat) :
    (∀ i, (hdIds t)[k]? = some (some i) → (hdIds t')[k]? = some (some i)) ∧
    ((hdIds t)[k]? = some none → ∃ g used, usedIds (idsOf t) = some used ∧ g ∉ used ∧ g ≠ [] ∧
      (hdIds t')[k]? = some (some g)) := by
  obtain ⟨used, gen, hused, hh, hl, -, hf, -⟩ := C17_tree_ids_distinct env bl t t' h
  rw [hh]
  refine ⟨fun i hi => ?_, fun hk => ?_⟩
  · simp [fillIds_explicit _ _ hl k i hi]
  · obtain ⟨g, hg, hq⟩ := fillIds_generated _ _ hl k hk
    exact ⟨g, used, hused, (hf g hg).1, (hf g hg).2.1, by simp [hq]⟩

/-- **All ids pairwise distinct.**  If the ids of the input tree (as the output shows them: `used`) are pairwise
    distinct, then so are all ids of the result, as the output shows them (`ue` = unescape) — in particular the
    heading ids.  (Explicit ids are not made unique by the code: two headings that both say `{#x}` keep `x`; that
    is the only way to get a duplicate, hence the hypothesis.) -/
theorem C17_tree_ids_nodup (env : Env) (bl : List Str) (t t' : Node) (h : run env bl t = .ok t') (used : List Str)
    (hused : usedIds (idsOf t) = some used) (hnd : used.Nodup) :
    ((idsOf t').map ue).Nodup ∧ ((headingIds t').map ue).Nodup := by
  obtain ⟨used', gen, hused', -, -, hn, hf, ⟨l, hsub, hperm⟩, -⟩ := C17_tree_ids_distinct env bl t t' h
  rw [hused] at hused'
  cases hused'
  have hgen : gen.map ue = gen := by
    have : ∀ g ∈ gen, ue g = id g := fun g hg => by simp [ue, (hf g hg).2.2]
    rw [List.map_congr_left this, List.map_id]
  have h1 : ((idsOf t').map ue).Nodup := by
    have hp := hperm.map ue
    rw [List.map_append, hgen, ← usedIds_eq_map hused] at hp
    exact (hsub.map ue).nodup (hp.nodup_iff.mpr (nodup_used_gen hnd hn (fun g hg => (hf g hg).1)))
  exact ⟨h1, ((headingIds_sublist t').map ue).nodup h1⟩

/-- **The toc links resolve, in document order.**  The result of `run` is the walked tree `w` with every marker
    element replaced (`replNode` = `replace_marker`) by one `div` = `build_toc_div` of the tokens `toks`; the
    replacement leaves the headings alone; there is one token per heading, in document order, with the heading's
    level and the heading's id as the output shows it; and the `href`s of the `div`, in document order, are exactly
    `#` + those ids.  (Nesting: `div` is built from `nestToc toks`, for which `C17_nest_outline` holds.) -/
theorem C17_toc_links_resolve_tree (env : Env) (bl : List Str) (t t' : Node) (h : run env bl t = .ok t') :
    ∃ (toks : List Tok) (w : Node), t' = replNode (buildDiv bl toks) w ∧ hdIds w = hdIds t' ∧
      toks.map (·.level) = hdLevels t' ∧
      toks.map (fun k => some k.id) = (hdIds t').map (·.bind unesc) ∧
      hrefs (buildDiv bl toks) = toks.map (fun k => '#' :: k.id) ∧
      hrefs (buildDiv bl toks) = (headingIds t').map (fun i => '#' :: ue i) := by
  obtain ⟨used, gen, toks, w, -, ht', -, -, -, hh, -, hk, hv, -, hhr⟩ := run_spec h
  have hw : hdIds w = hdIds t' := by
    rw [ht']; exact ((replNode_spec _ (buildDiv_plain bl toks) w).2.1).symm
  refine ⟨toks, w, ht', hw, hv, hk, hhr, ?_⟩
  rw [hhr, headingIds_of_all_some hh]
  rw [hh] at hk
  simp only [List.map_map] at hk
  have : ∀ (l : List Tok) (m : List Str), l.map (fun k => some k.id) = m.map ((·.bind unesc) ∘ some) →
      l.map (fun k => '#' :: k.id) = m.map (fun i => '#' :: ue i) := by
    intro l
    induction l with
    | nil => intro m hm; cases m <;> simp_all
    | cons a r ih =>
      intro m hm
      cases m with
      | nil => simp at hm
      | cons b m =>
        simp only [List.map_cons, List.cons.injEq, Function.comp] at hm ⊢
        refine ⟨?_, ih m hm.2⟩
        have : unesc b = some a.id := hm.1.symm
        simp [ue, this]
  exact this _ _ hk

/-! ## the document level: `PipelineX.treeX` with `toc := true` -/

/-- **Ids of a converted document, toc on against toc off.**  `u` = the element tree that `Markdown.convert` hands to
    the serializer with the extensions `x` (toc among them), `u0` = the same with toc switched off — "the ids
    assigned elsewhere in the Markdown": attr_list `{#id}`, footnotes `fn:…`/`fnref:…`.  For **every** source: the
    heading ids of `u` are those of `u0` with each missing one filled from a list `gen` of generated ids, in
    document order; the generated ids are pairwise distinct, non-empty and differ from every id of `u0`; no other
    id appears; heading levels agree.  All other flags arbitrary. -/
theorem C17_doc_ids_distinct (x : Exts) (cfg : Pipeline.Cfg) (src : Str) (u u0 : Node) (html html0 : List Str)
    (hx : x.toc = true) (h : treeX x cfg src = .ok u html)
    (h0 : treeX { x with toc := false } cfg src = .ok u0 html0) :
    ∃ gen : List Str, hdIds u = (fillIds (hdIds u0) gen).map some ∧ gen.length = missing (hdIds u0) ∧
      gen.Nodup ∧ (∀ g ∈ gen, g ∉ idsOf u0 ∧ g ≠ []) ∧
      (∃ l, (idsOf u).Sublist l ∧ l.Perm (idsOf u0 ++ gen)) ∧ hdLevels u = hdLevels u0 := by
  obtain ⟨t, t', hrun, hu, hu0, -⟩ := treeX_toc_inv hx h h0
  obtain ⟨gen, hn, hf, hl, hh, hsp, hlv⟩ := run_unescape_spec hrun hu hu0
  exact ⟨gen, hh, hl, hn, fun g hg => ⟨(hf g hg).1, (hf g hg).2.1⟩, hsp, hlv⟩

/-- **Every heading of a document converted with toc has an id** (every source, any other flags). -/
theorem C17_doc_every_heading_has_id (x : Exts) (cfg : Pipeline.Cfg) (src : Str) (u : Node) (html : List Str)
    (hx : x.toc = true) (h : treeX x cfg src = .ok u html) : ∀ o ∈ hdIds u, o.isSome = true := by
  obtain ⟨t, t', -, hrun, hu⟩ := treeX_toc_on hx h
  exact run_unescape_all_some hrun hu

/-- **All ids of a document converted with toc are pairwise distinct** — heading ids in particular — provided the
    ids the document has without toc are (two explicit `{#x}` are not made unique by the code, and nothing else
    can produce a duplicate).  Every source, any other flags, explicit ids with or without backslash escapes. -/
theorem C17_doc_ids_nodup (x : Exts) (cfg : Pipeline.Cfg) (src : Str) (u u0 : Node) (html html0 : List Str)
    (hx : x.toc = true) (h : treeX x cfg src = .ok u html)
    (h0 : treeX { x with toc := false } cfg src = .ok u0 html0) (hnd : (idsOf u0).Nodup) :
    (idsOf u).Nodup ∧ (headingIds u).Nodup := by
  obtain ⟨gen, -, -, hn, hf, ⟨l, hsub, hperm⟩, -⟩ := C17_doc_ids_distinct x cfg src u u0 html html0 hx h h0
  have h1 : (idsOf u).Nodup :=
    hsub.nodup (hperm.nodup_iff.mpr (nodup_used_gen hnd hn (fun g hg => (hf g hg).1)))
  exact ⟨h1, (headingIds_sublist u).nodup h1⟩

/-! ## the statements on concrete documents (kernel-checked) -/

/-- what the examples look at: all ids and the heading ids of the tree, `none` if `treeX` does not answer `ok` -/
def obsIds : TreeResult → Option (List Str × List (Option Str))
  | .ok u _ => some (idsOf u, hdIds u)
  | _ => none

theorem obsIds_some {r : TreeResult} {p : List Str × List (Option Str)} (h : obsIds r = some p) :
    ∃ u html, r = .ok u html ∧ idsOf u = p.1 := by
  cases r with
  | ok u html => simp only [obsIds, Option.some.injEq] at h; exact ⟨u, html, rfl, by rw [← h]⟩
  | oof => cases h
  | err => cases h
  | ood => cases h

/-- the F-C17-4 witness `# x {#a\-b}` / `# a b` / `[TOC]`, toc + attr_list -/
def w1 : Str := "# x {#a\\-b}\n\n# a b\n\n[TOC]".toList
/-- `# x {#a\_1}` / `# a` / `# a` -/
def w2 : Str := "# x {#a\\_1}\n\n# a\n\n# a".toList

/-- the hypotheses of `C17_doc_ids_nodup` hold on `w1`: both conversions answer `ok`, without toc the only id is the
    explicit `a-b` -/
example : obsIds (treeX { toc := false, attrList := true } {} w1) = some (["a-b".toList], [some "a-b".toList, none]) ∧
    ["a-b".toList].Nodup := by decide +kernel

/-- … and with toc the second heading gets `a-b_1` (before the repair of F-C17-4: `a-b` again) -/
example : obsIds (treeX { toc := true, attrList := true } {} w1) =
    some (["a-b".toList, "a-b_1".toList], [some "a-b".toList, some "a-b_1".toList]) := by decide +kernel

/-- `{#a\_1}` reserves `a_1`: the two `# a` get `a` and `a_2` -/
example : obsIds (treeX { toc := true, attrList := true } {} w2) =
    some (["a_1".toList, "a".toList, "a_2".toList], [some "a_1".toList, some "a".toList, some "a_2".toList]) := by
  decide +kernel

/-- the hypothesis `hnd` is needed: two equal explicit ids stay (not a claim of C17) -/
example : obsIds (treeX { toc := true, attrList := true } {} "# a {#x}\n\n# b {#x}".toList) =
    some (["x".toList, "x".toList], [some "x".toList, some "x".toList]) := by decide +kernel

/-- toc with footnotes and attr_list: the footnote ids `fn:1`, `fnref:1` count as used — a heading `fn 1` cannot take
    them (`slugify` never produces `:`), an explicit `{#b}` is kept, duplicates get `_1` -/
example : obsIds (treeX { toc := true, attrList := true, footnotes := true } {}
      "# b[^1]\n\n## b {#b}\n\n# b\n\n[^1]: n".toList) =
    some (["b_1".toList, "fnref:1".toList, "b".toList, "b_2".toList, "fn:1".toList],
      [some "b_1".toList, some "b".toList, some "b_2".toList]) := by decide +kernel

/-- the toc links of `w1` in the output tree: the `[TOC]` paragraph has become the `div` whose `href`s are `#` + the
    two heading ids, in document order -/
example : (match treeX { toc := true, attrList := true } {} w1 with
      | .ok u _ => some (hrefs u, headingIds u) | _ => none) =
    some (["#a-b".toList, "#a-b_1".toList], ["a-b".toList, "a-b_1".toList]) := by decide +kernel

/-! ## footnotes: the tree functions and the converted document

`Props/C17.lean` proves the id bookkeeping on lists (`processRefs`, `backlinks`).  Here: the tree functions of
`Model/Ext/FootnotesTree.lean` / the footnote pattern of `Model/InlineX.lean` do what that list model says
(`C17_fn_div_tree`, `C17_fn_ref_pattern`), and the statements and the three known defects on converted documents
(`treeX {footnotes := true}`), kernel-checked; and, for every source, `C17_doc_fn_refs_resolve`: every reference
link of the converted document is the id of an `li` of the document (invariants through the whole inline stage:
`Lemmas/InlineXNodes.lean`, `Lemmas/InlineXSkel.lean`).  (Not proved for every source: that every stashed `sup` is
placed exactly once — F-C17-3 shows it is false in general.) -/

/-- **`makeFootnotesDiv` on the tree.**  The footnote `div` is `div.footnote > hr, ol > li…` with one `li` per
    footnote, in the order of the definitions; the `li` of `(ID, text)` has the id `fn:ID` (and no other
    attribute); when the parsed text produced at least one element the `li` carries, after the back-links the
    parsed text may hold (none: the block parser makes no `a`), exactly the back-link `#fnref:ID`; when it
    produced none the `li` is empty — no back-link (F-C17-1).  Any block parser `parse`. -/
theorem C17_fn_div_tree (parse : Block.Refs → Str → Option (Node × Block.Refs)) (fnCount : Block.Refs → Nat)
    (fns : List (Str × Str)) (log log' : Block.Refs) (div : Node)
    (h : FootnotesTree.makeDiv parse fnCount fns log = .ok (some div, log')) :
    ∃ lis, div = { tag := .name "div".toList, attrs := [("class".toList, "footnote".toList)],
                   children := [{ tag := .name "hr".toList }, { tag := .name "ol".toList, children := lis }] } ∧
      AllPairs (LiOk parse) fns lis :=
  makeDiv_spec parse fnCount fns log log' div h

/-- what `LiOk` says, spelled out -/
example (parse : Block.Refs → Str → Option (Node × Block.Refs)) (f : Str × Str) (li : Node) :
    LiOk parse f li ↔
      (li.tag = .name "li".toList ∧ li.attrs = [("id".toList, Footnotes.footnoteId f.1)] ∧
       ∃ sur lg lg', parse lg f.2 = some (sur, lg') ∧
        ((sur.children = [] ∧ li.children = []) ∨
         (sur.children ≠ [] ∧ hrefsOfClass "footnote-backref" (shapeKids li.children) =
            hrefsOfClass "footnote-backref" (shapeKids sur.children) ++ [firstBacklink f.1]))) := Iff.rfl

/-- **The reference pattern.**  `FootnoteInlineProcessor.handleMatch` accepts a match only for a defined footnote
    `ID`; the element it returns is a `sup` whose id is the one `makeFootnoteRefId(ID, found=True)` hands out in the
    current state — `C17_ref_ids_distinct`: pairwise distinct over a whole run — and whose link is `#fn:ID`, the id
    of the `li` of that footnote (`C17_fn_div_tree`); the bookkeeping moves on by exactly that call. -/
theorem C17_fn_ref_pattern (xc : InlineX.XCfg) (data : Str) (si : Nat) (x x' : InlineX.XSt) (f : Inline.Found)
    (h : InlineX.findX xc .footnote data si x = some (some f, x')) :
    ∃ id, id ∈ xc.fnKeys ∧
      f.node = .el (InlineX.fnRefNode xc.fnKeys id (Footnotes.footnoteRefId id true x.fn).1) ∧
      x'.fn = (Footnotes.footnoteRefId id true x.fn).2 ∧ x'.st = x.st ∧
      idsOfTag "sup" (shape (InlineX.fnRefNode xc.fnKeys id (Footnotes.footnoteRefId id true x.fn).1)) =
        [(Footnotes.footnoteRefId id true x.fn).1] ∧
      hrefsOfClass "footnote-ref" (shape (InlineX.fnRefNode xc.fnKeys id (Footnotes.footnoteRefId id true x.fn).1)) =
        ['#' :: Footnotes.footnoteId id] := by
  obtain ⟨id, h1, h2, h3, h4⟩ := findX_footnote_spec xc data si x x' f h
  exact ⟨id, h1, h2, h3, h4, (fnRefNode_shape _ _ _).1, (fnRefNode_shape _ _ _).2⟩

/-- a converted document (`[^1]` twice, `[^2]` once): every reference link is the id of an `li`, every back-link the
    id of a `sup`, the footnote referenced twice has two distinct `sup` ids and two back-links -/
example : obsFn (treeX { footnotes := true } {} "a[^1] b[^1] c[^2]\n\n[^1]: n\n\n[^2]: m".toList) =
    some (["#fn:1".toList, "#fn:1".toList, "#fn:2".toList], ["fn:1".toList, "fn:2".toList],
      ["fnref:1".toList, "fnref2:1".toList, "fnref:2".toList],
      ["#fnref:1".toList, "#fnref2:1".toList, "#fnref:2".toList]) := by decide +kernel

/-- **F-C17-1** on the document model (`'x[^a] y[^a]\n\n[^a]:'`): the footnote with an empty body is referenced
    twice (`fnref:a`, `fnref2:a`) and gets no back-link at all -/
example : obsFn (treeX { footnotes := true } {} "x[^a] y[^a]\n\n[^a]:".toList) =
    some (["#fn:a".toList, "#fn:a".toList], ["fn:a".toList], ["fnref:a".toList, "fnref2:a".toList], []) := by
  decide +kernel

/-- **F-C17-2** on the document model (`'y\n\n[^1]: note'`): the unused footnote's back-link `#fnref:1` has no
    target — there is no `sup` -/
example : obsFn (treeX { footnotes := true } {} "y\n\n[^1]: note".toList) =
    some ([], ["fn:1".toList], [], ["#fnref:1".toList]) := by decide +kernel

/-- **F-C17-3** on the document model (`'a[^1] ![alt[^1]](u)\n\n[^1]: note'`): the reference inside the image alt
    text is flattened to text but was counted — the second back-link `#fnref2:1` has no target -/
example : obsFn (treeX { footnotes := true } {} "a[^1] ![alt[^1]](u)\n\n[^1]: note".toList) =
    some (["#fn:1".toList], ["fn:1".toList], ["fnref:1".toList], ["#fnref:1".toList, "#fnref2:1".toList]) := by
  decide +kernel

/-! ### every reference of a converted document resolves -/

/-- **References and footnotes of a converted document, every source.**  Flags (`FnFlags`): footnotes on; tables, abbr,
    attr_list, toc off (attr_list could forge an `a.footnote-ref`); fenced_code, admonition, def_list, sane_lists,
    nl2br, wikilinks arbitrary.  `keys0` / `keys1` = the keys of the footnote table before / after
    `makeFootnotesDiv` has parsed the footnote texts (`fnKeysX`).  In the tree `u` handed to the serializer
    * every `a.footnote-ref` links to `#fn:K` (as the output shows it) for a `K ∈ keys1`: a reference is only made
      for a defined footnote, and nothing else makes such an element;
    * for every `K ∈ keys0` there is an `li` with the id `fn:K`: the `li`s of `makeFootnotesDiv` survive the inline
      stage, the duplicates pass, prettify and unescape. -/
theorem C17_doc_fn_refs (x : Exts) (cfg : Pipeline.Cfg) (src : Str) (u : Node) (html : List Str) (hf : FnFlags x)
    (h : treeX x cfg src = .ok u html) :
    ∃ keys0 keys1, fnKeysX x cfg src = some (keys0, keys1) ∧
      (∀ r ∈ refHrefs u, ∃ k ∈ keys1, r = '#' :: ue (Footnotes.footnoteId k)) ∧
      (∀ k ∈ keys0, ue (Footnotes.footnoteId k) ∈ liIds u) :=
  doc_fn_spec hf h

/-- **Every footnote reference links to an existing footnote**: `refsResolve u` — every `href` of an
    `a.footnote-ref` is `#` + the id of an `li` of `u` — for every source whose footnote texts define no further
    footnote (`hk`: the table has the same keys before and after they are parsed; otherwise the implementation
    mutates the table it iterates over: `RuntimeError`, or, for the last footnote, a reference whose footnote never
    gets an `li` — the model answers `ood` there, `hk` is what is left of that case in the statement). -/
theorem C17_doc_fn_refs_resolve (x : Exts) (cfg : Pipeline.Cfg) (src : Str) (u : Node) (html : List Str)
    (hf : FnFlags x) (h : treeX x cfg src = .ok u html) (keys : List Str)
    (hk : fnKeysX x cfg src = some (keys, keys)) : refsResolve u = true :=
  doc_refs_resolve hf h keys hk

/-- the hypotheses on a concrete document: the flags, and the footnote table (`1`, `2`) is the same before and after -/
example : FnFlags { footnotes := true, nl2br := true, wikilinks := true } ∧
    fnKeysX { footnotes := true, nl2br := true, wikilinks := true } {}
      "a[^1] b[^1] [[w]] c[^2]\n\n[^1]: n\n\n[^2]: *m*[^1]".toList =
      some (["1".toList, "2".toList], ["1".toList, "2".toList]) := by
  refine ⟨⟨rfl, rfl, rfl, rfl, rfl⟩, ?_⟩
  decide +kernel

/-- … and the conclusion, computed: a reference inside a footnote text included -/
example : obsFn (treeX { footnotes := true, nl2br := true, wikilinks := true } {}
      "a[^1] b[^1] [[w]] c[^2]\n\n[^1]: n\n\n[^2]: *m*[^1]".toList) =
    some (["#fn:1".toList, "#fn:1".toList, "#fn:2".toList, "#fn:1".toList], ["fn:1".toList, "fn:2".toList],
      ["fnref:1".toList, "fnref2:1".toList, "fnref:2".toList, "fnref3:1".toList],
      ["#fnref:1".toList, "#fnref2:1".toList, "#fnref3:1".toList, "#fnref:2".toList]) := by decide +kernel

/-- `attrList := false` is needed: with attr_list any link can be given the class `footnote-ref` -/
example : (match treeX { footnotes := true, attrList := true } {} "[x](#fn:zz){: .footnote-ref }\n\n[^1]: n".toList with
      | .ok u _ => some (refsResolve u) | _ => none) = some false := by decide +kernel

end MdVerif.C17Doc
