/-
C03 — code is literal, for INDENTED code blocks and CODE SPANS with extensions enabled, end to end through the
pipeline model with extensions (`PipelineX.convertX x`, i.e. `markdown.markdown(src, extensions=[…])` with any subset
`x` of fenced_code, tables, admonition, def_list, abbr, footnotes, sane_lists, nl2br, wikilinks, attr_list, toc — 2048
configurations): "Text placed in an indented code block … or a backtick code span appears in the output character
for character, changed only by HTML-escaping of `&`, `<` and `>` and by trimming of trailing whitespace … No
Markdown, HTML or entity syntax inside code is ever interpreted, whatever surrounds the code."

The statements are those of `Props/C03.lean` (`C03_block_top`, `C03_span_top`, `C03_block_after_paragraph`, core
pipeline) with the SAME domains of code bodies and the SAME answers: the body may be full of the syntax of the
enabled extensions — table rows, `[^1]` and `[^1]: …`, `*[A]: b`, `!!! note`, `: def`, `{: #id }`, `[TOC]`, `[[wiki]]`,
fences — and none of it is interpreted.  Fenced blocks with extensions are in `Props/C03Fenced.lean`.

Only property statements live here; the vocabulary is in `Spec/CodeLaw.lean`, the helper lemmas in
`Lemmas/CodeX.lean`, `Lemmas/CodeXTree.lean`, `Lemmas/CodeXSpan.lean`, `Lemmas/CodeXPara.lean`.

Why nothing leaks (what the proofs follow):
* block parser: `CodeBlockProcessor` (80) is asked before table (75), deflist (25), footnote (17), abbr (16); of the
  two extension processors asked before it, admonition (105) needs `!!!` at the START of a line (every line of the
  block is indented) and `defindent` (85) needs a list before the block;
* inline: the text of `code` is an `AtomicString`, which the footnote, wikilink and nl2br patterns never see; a
  span's `<code>` sits in the stash while they run;
* `attr_list` reads the tail of the last child / the text of BLOCK-level elements and the tail of inline ones — never
  the text of `code`; `abbr` skips `AtomicString`s; `toc` does not look into `pre` and `code`;
* `fenced_code` needs its fence at the start of a line.

Two hypotheses beyond those of `Props/C03.lean`:
* `0 < tab`: with `tab_length = 0` "indented by 0 spaces" is no indentation at all and the admonition processor does
  see `!!! note` (`C03X_tab0_counterexample`);
* `hadm`: with admonition enabled the text has no `!!!` followed (after an optional blank) by a non-ASCII character,
  for which the model answers "outside the modelled domain" (`PipelineX.admNonAscii`; the implementation itself is
  literal there too: tested).

Part 1.  `C03X_block_top`, `C03X_block_extensions_inert`.
Part 2.  `C03X_span_top`, `C03X_span_extensions_inert`; what `attr_list` does do next to a span: `C03X_span_attr_list_boundary`.
Part 3.  `C03X_block_after_paragraph`, `C03X_block_after_paragraph_inert`.
-/
import MdVerif.Props.C03
import MdVerif.Lemmas.CodeXPara

namespace MdVerif.CodeX
open Py Block CodeLaw Pipeline PipelineX

/-- every modelled extension enabled -/
def everyExt : Exts :=
  { fencedCode := true, tables := true, admonition := true, defList := true, abbr := true, footnotes := true,
    saneLists := true, nl2br := true, wikilinks := true, attrList := true, toc := true }

/-! ### Part 1: an indented code block, end to end, any extensions -/

/-- **C03 for indented code blocks with extensions, end to end.**  Enable any subset `x` of the eleven modelled
    extensions (fenced_code, tables, admonition, def_list, abbr, footnotes, sane_lists, nl2br, wikilinks, attr_list,
    toc).  The document is one indented code block of the domain of `C03_block_top`: runs of code lines (`isCodeRun`:
    any characters but `<`, LF, CR, tab, STX, ETX; a character other than a space on every line; closed character
    references) separated by any number of blank lines, every line indented by `tab` spaces.
    `Markdown.convert` returns exactly what the core pipeline returns: `<pre><code>`, the code escaped by
    `code_escape` with the trailing white space of every run of lines and of the whole block removed (`trimSpec`), a
    line feed, `</code></pre>` — even when the code is full of the syntax of the enabled extensions: `| a | b |` and
    `|---|---|`, `[^1]` and `[^1]: note`, `*[A]: x`, `!!! note`, `: def`, `{: #id }`, `[TOC]`, `[[w]]`, fences,
    `///Footnotes Go Here///`.  Any tab length > 0, both output formats. -/
theorem C03X_block_top (x : Exts) (tab : Nat) (htab : 0 < tab) (fmt : Ser.Fmt) (first : List Str)
    (more : List (Nat × List Str))
    (h1 : isCodeRun first = true) (h2 : more.all (fun er => isCodeRun er.2) = true)
    (h3 : (allLines first more).any (fun l => !isBlank l) = true)
    (hadm : (x.admonition && admNonAscii (codeSource tab first more ++ ['\n', '\n'])) = false) :
    convertX x { tab := tab, fmt := fmt } (codeSource tab first more) =
      .ok ("<pre><code>".toList ++ Code.codeEscape (trimSpec first more) ++ "\n</code></pre>".toList) :=
  convertX_codeBlock x tab htab fmt first more ⟨h1, fun er her => List.all_eq_true.1 h2 er her, h3⟩ hadm

-- the hypotheses on a concrete input: every extension on; a table, a footnote definition (trailing spaces), an
-- abbreviation definition; one blank line; an admonition with a definition list; three blank lines; a wiki link, an
-- attribute list, the toc marker, a fence, the footnote place marker and an `&`
example : 0 < 4 ∧
    isCodeRun ["| a | b |".toList, "|---|---|".toList, "[^1]: n  ".toList, "*[A]: b".toList] = true ∧
    [(0, ["!!! note".toList, "T".toList, ":   d".toList]),
     (2, ["[[w]] {: #i}".toList, "[TOC]".toList, "```".toList, "A & B ///Footnotes Go Here///".toList])].all
      (fun er => isCodeRun er.2) = true ∧
    (allLines ["| a | b |".toList, "|---|---|".toList, "[^1]: n  ".toList, "*[A]: b".toList]
      [(0, ["!!! note".toList, "T".toList, ":   d".toList]),
       (2, ["[[w]] {: #i}".toList, "[TOC]".toList, "```".toList, "A & B ///Footnotes Go Here///".toList])]).any
      (fun l => !isBlank l) = true ∧
    (everyExt.admonition && admNonAscii (codeSource 4 ["| a | b |".toList, "|---|---|".toList, "[^1]: n  ".toList, "*[A]: b".toList]
      [(0, ["!!! note".toList, "T".toList, ":   d".toList]),
       (2, ["[[w]] {: #i}".toList, "[TOC]".toList, "```".toList, "A & B ///Footnotes Go Here///".toList])] ++ ['\n', '\n'])) = false := by
  decide +kernel
-- … the source spelt out, and what the model computes there with every extension on (by the kernel, not by the theorem)
example : codeSource 4 ["| a | b |".toList, "|---|---|".toList, "[^1]: n  ".toList, "*[A]: b".toList]
      [(0, ["!!! note".toList, "T".toList, ":   d".toList]),
       (2, ["[[w]] {: #i}".toList, "[TOC]".toList, "```".toList, "A & B ///Footnotes Go Here///".toList])] =
    "    | a | b |\n    |---|---|\n    [^1]: n  \n    *[A]: b\n\n    !!! note\n    T\n    :   d\n\n\n\n    [[w]] {: #i}\n    [TOC]\n    ```\n    A & B ///Footnotes Go Here///".toList := by
  decide +kernel
example : convertX everyExt {}
      "    | a | b |\n    |---|---|\n    [^1]: n  \n    *[A]: b\n\n    !!! note\n    T\n    :   d\n\n\n\n    [[w]] {: #i}\n    [TOC]\n    ```\n    A & B ///Footnotes Go Here///".toList =
    .ok "<pre><code>| a | b |\n|---|---|\n[^1]: n  \n*[A]: b\n\n!!! note\nT\n:   d\n\n\n\n[[w]] {: #i}\n[TOC]\n```\nA &amp; B ///Footnotes Go Here///\n</code></pre>".toList := by
  decide +kernel

/-- the same as a non-interference statement: on an indented code block, enabling extensions changes nothing -/
theorem C03X_block_extensions_inert (x : Exts) (tab : Nat) (htab : 0 < tab) (fmt : Ser.Fmt) (first : List Str)
    (more : List (Nat × List Str))
    (h1 : isCodeRun first = true) (h2 : more.all (fun er => isCodeRun er.2) = true)
    (h3 : (allLines first more).any (fun l => !isBlank l) = true)
    (hadm : (x.admonition && admNonAscii (codeSource tab first more ++ ['\n', '\n'])) = false) :
    convertX x { tab := tab, fmt := fmt } (codeSource tab first more) =
      Pipeline.convert { tab := tab, fmt := fmt } (codeSource tab first more) := by
  rw [C03X_block_top x tab htab fmt first more h1 h2 h3 hadm, ← convertX_core,
    C03X_block_top {} tab htab fmt first more h1 h2 h3 rfl]

/-- **why `0 < tab`**: with `tab_length = 0` a "code block indented by 0 spaces" is plain text — the core pipeline
    still makes it a code block (every block starts with zero spaces), but with admonition enabled the admonition
    processor, which is asked first, sees `!!! note` at the start of a line -/
theorem C03X_tab0_counterexample :
    codeSource 0 ["!!! note".toList] [] = "!!! note".toList ∧
    convertX {} { tab := 0 } "!!! note".toList = .ok "<pre><code>!!! note\n</code></pre>".toList ∧
    convertX { admonition := true } { tab := 0 } "!!! note".toList =
      .ok "<div class=\"admonition note\">\n<p class=\"admonition-title\">Note</p>\n</div>".toList := by
  decide +kernel

/-- **why `hadm`**: the point where the MODEL gives no answer (the implementation is literal there, too) -/
theorem C03X_admNonAscii_excluded :
    isCodeRun ["!!! é".toList] = true ∧ admNonAscii (codeSource 4 ["!!! é".toList] [] ++ ['\n', '\n']) = true ∧
    convertX { admonition := true } {} (codeSource 4 ["!!! é".toList] []) = .ood ∧
    convertX { tables := true, footnotes := true, attrList := true } {} (codeSource 4 ["!!! é".toList] []) =
      .ok "<pre><code>!!! é\n</code></pre>".toList := by
  decide +kernel

/-! ### Part 2: a code span, end to end, any extensions -/

/-- **C03 for code spans with extensions, end to end.**  Enable any subset `x` of the eleven modelled extensions.
    The document is one line of the domain of `C03_span_top`: text `a` (ASCII letters and spaces, not starting with a
    space), a fence of `k + 1` backticks, a body (`isCodeChar` characters, closed references, `spanBodyOk`), the same
    fence, text `b` (letters and spaces).  `Markdown.convert` returns exactly what the core pipeline returns:
    `<p>a<code>` + `code_escape(body.strip())` + `</code>b</p>` — the body trimmed at both ends, `&`, `<`, `>`
    escaped, and nothing else happens to it, even when it is full of the syntax of the enabled extensions: `[^1]`,
    `[[w]]`, `*[A]: x`, `| a |`, `{: #i }`, `[TOC]`, `!!! note`.  The footnote, wikilink and nl2br patterns never see
    the body (it sits in the stash as an `AtomicString` while they run on the words and the placeholder); `abbr` skips
    it; `attr_list` reads the tail `b` and the text `a`, never the text of `<code>`; a line that starts with three
    backticks is no fenced block (the fence pattern needs a second line).  Any tab length > 0, any fence length,
    both output formats. -/
theorem C03X_span_top (x : Exts) (tab : Nat) (htab : 0 < tab) (fmt : Ser.Fmt) (k : Nat) (a body b : Str)
    (ha : isSpanContext a = true) (hb : b.all isWordSp = true)
    (h1 : body.all isCodeChar = true) (h2 : refsClosed body = true) (h3 : spanBodyOk (k + 1) body = true)
    (hadm : (x.admonition && admNonAscii (spanSource (k + 1) a body b ++ ['\n', '\n'])) = false) :
    convertX x { tab := tab, fmt := fmt } (spanSource (k + 1) a body b) =
      .ok ("<p>".toList ++ a ++ "<code>".toList ++ Code.codeEscape (strip body) ++ "</code>".toList ++ b ++
        "</p>".toList) :=
  convertX_span x tab htab fmt k a body b ⟨ha, hb, h1, h2, h3⟩ hadm

-- the hypotheses on concrete inputs: every extension on; a body full of extension syntax; a line that starts with
-- a fence of three backticks
example : 0 < 4 ∧ isSpanContext "see HTML ".toList = true ∧ " here".toList.all isWordSp = true ∧
    " [^1] [[w]] *[A]: x | a | {: #i } [TOC] !!! note & ".toList.all isCodeChar = true ∧
    refsClosed " [^1] [[w]] *[A]: x | a | {: #i } [TOC] !!! note & ".toList = true ∧
    spanBodyOk 1 " [^1] [[w]] *[A]: x | a | {: #i } [TOC] !!! note & ".toList = true ∧
    (everyExt.admonition && admNonAscii (spanSource 1 "see HTML ".toList
      " [^1] [[w]] *[A]: x | a | {: #i } [TOC] !!! note & ".toList " here".toList ++ ['\n', '\n'])) = false := by
  decide +kernel
example : isSpanContext [] = true ∧ " b".toList.all isWordSp = true ∧ "x `` y".toList.all isCodeChar = true ∧
    refsClosed "x `` y".toList = true ∧ spanBodyOk 3 "x `` y".toList = true ∧
    spanSource 3 [] "x `` y".toList " b".toList = "```x `` y``` b".toList := by decide
-- … and what the model computes there with every extension on (by the kernel, not by the theorem)
example : convertX everyExt {} (spanSource 1 "see HTML ".toList
      " [^1] [[w]] *[A]: x | a | {: #i } [TOC] !!! note & ".toList " here".toList) =
    .ok "<p>see HTML <code>[^1] [[w]] *[A]: x | a | {: #i } [TOC] !!! note &amp;</code> here</p>".toList := by
  decide +kernel
example : convertX everyExt {} "```x `` y``` b".toList = .ok "<p><code>x `` y</code> b</p>".toList := by decide +kernel

/-- the same as a non-interference statement: on a paragraph with a code span, enabling extensions changes nothing -/
theorem C03X_span_extensions_inert (x : Exts) (tab : Nat) (htab : 0 < tab) (fmt : Ser.Fmt) (k : Nat) (a body b : Str)
    (ha : isSpanContext a = true) (hb : b.all isWordSp = true)
    (h1 : body.all isCodeChar = true) (h2 : refsClosed body = true) (h3 : spanBodyOk (k + 1) body = true)
    (hadm : (x.admonition && admNonAscii (spanSource (k + 1) a body b ++ ['\n', '\n'])) = false) :
    convertX x { tab := tab, fmt := fmt } (spanSource (k + 1) a body b) =
      Pipeline.convert { tab := tab, fmt := fmt } (spanSource (k + 1) a body b) := by
  rw [C03X_span_top x tab htab fmt k a body b ha hb h1 h2 h3 hadm, ← convertX_core,
    C03X_span_top {} tab htab fmt k a body b ha hb h1 h2 h3 rfl]

/-- **the boundary of the domain: what `attr_list` does next to a span.**  An attribute list directly AFTER the
    closing fence (outside the body; `b` would start with `{`, which `isWordSp` excludes) is applied to the `<code>`
    element — that is the extension's feature; the body is still literal.  The same text INSIDE the body is code. -/
theorem C03X_span_attr_list_boundary :
    convertX { attrList := true } {} "a `x`{: #i } b".toList = .ok "<p>a <code id=\"i\">x</code> b</p>".toList ∧
    convertX { attrList := true } {} "a `x{: #i }` b".toList = .ok "<p>a <code>x{: #i }</code> b</p>".toList := by
  decide +kernel

/-! ### Part 3: whatever precedes the code block -/

/-- **… whatever precedes it: after a paragraph, any extensions.**  A line of text `p` (letters and spaces, starting
    with a letter), a blank line, then the indented code block of `C03X_block_top`: with any subset `x` of the eleven
    modelled extensions enabled the paragraph comes out as `<p>p</p>` and the code block exactly as in
    `C03X_block_top` — neither the paragraph before it nor the extensions change anything in it.  In particular the
    paragraph is not taken for the term of a definition list when the code starts with `:   d`, nor for the header row
    of a table when the code starts with `|---|---|`, and an attribute list `{: #i }` on the first code line is not
    applied to the paragraph. -/
theorem C03X_block_after_paragraph (x : Exts) (tab : Nat) (htab : 0 < tab) (fmt : Ser.Fmt) (p : Str) (first : List Str)
    (more : List (Nat × List Str)) (hp : isSpanContext p = true) (hpne : p ≠ [])
    (h1 : isCodeRun first = true) (h2 : more.all (fun er => isCodeRun er.2) = true)
    (hadm : (x.admonition && admNonAscii (paraCodeSource tab p first more ++ ['\n', '\n'])) = false) :
    convertX x { tab := tab, fmt := fmt } (paraCodeSource tab p first more) =
      .ok ("<p>".toList ++ p ++ "</p>\n<pre><code>".toList ++ Code.codeEscape (trimSpec first more) ++
        "\n</code></pre>".toList) :=
  convertX_paraCode x tab htab fmt p first more hp hpne h1 (fun er her => List.all_eq_true.1 h2 er her) hadm

-- the hypotheses on a concrete input: every extension on; the code starts with a table, then an attribute list; after
-- two blank lines a footnote definition, an abbreviation definition for a word of the paragraph, an admonition and a
-- definition with the toc marker and a wiki link
example : 0 < 4 ∧ isSpanContext "Some HTML text".toList = true ∧ "Some HTML text".toList ≠ [] ∧
    isCodeRun ["| a | b |  ".toList, "|---|---|".toList, "{: #i }".toList] = true ∧
    [(1, ["[^1]: n".toList, "*[HTML]: x".toList, "!!! note".toList, ":   d [TOC] [[w]]".toList])].all
      (fun er => isCodeRun er.2) = true ∧
    (everyExt.admonition && admNonAscii (paraCodeSource 4 "Some HTML text".toList
      ["| a | b |  ".toList, "|---|---|".toList, "{: #i }".toList]
      [(1, ["[^1]: n".toList, "*[HTML]: x".toList, "!!! note".toList, ":   d [TOC] [[w]]".toList])] ++ ['\n', '\n'])) = false := by
  decide +kernel
-- … the source spelt out, and what the model computes there with every extension on (by the kernel, not by the theorem)
example : paraCodeSource 4 "Some HTML text".toList ["| a | b |  ".toList, "|---|---|".toList, "{: #i }".toList]
      [(1, ["[^1]: n".toList, "*[HTML]: x".toList, "!!! note".toList, ":   d [TOC] [[w]]".toList])] =
    "Some HTML text\n\n    | a | b |  \n    |---|---|\n    {: #i }\n\n\n    [^1]: n\n    *[HTML]: x\n    !!! note\n    :   d [TOC] [[w]]".toList := by
  decide +kernel
example : convertX everyExt {}
      "Some HTML text\n\n    | a | b |  \n    |---|---|\n    {: #i }\n\n\n    [^1]: n\n    *[HTML]: x\n    !!! note\n    :   d [TOC] [[w]]".toList =
    .ok "<p>Some HTML text</p>\n<pre><code>| a | b |  \n|---|---|\n{: #i }\n\n\n[^1]: n\n*[HTML]: x\n!!! note\n:   d [TOC] [[w]]\n</code></pre>".toList := by
  decide +kernel

/-- the same as a non-interference statement -/
theorem C03X_block_after_paragraph_inert (x : Exts) (tab : Nat) (htab : 0 < tab) (fmt : Ser.Fmt) (p : Str)
    (first : List Str) (more : List (Nat × List Str)) (hp : isSpanContext p = true) (hpne : p ≠ [])
    (h1 : isCodeRun first = true) (h2 : more.all (fun er => isCodeRun er.2) = true)
    (hadm : (x.admonition && admNonAscii (paraCodeSource tab p first more ++ ['\n', '\n'])) = false) :
    convertX x { tab := tab, fmt := fmt } (paraCodeSource tab p first more) =
      Pipeline.convert { tab := tab, fmt := fmt } (paraCodeSource tab p first more) := by
  rw [C03X_block_after_paragraph x tab htab fmt p first more hp hpne h1 h2 hadm, ← convertX_core,
    C03X_block_after_paragraph {} tab htab fmt p first more hp hpne h1 h2 rfl]

end MdVerif.CodeX
