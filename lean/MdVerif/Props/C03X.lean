/-
C03 — code is literal, for INDENTED code blocks and CODE SPANS with extensions enabled, end to end through the
pipeline model with extensions (`PipelineX.convertX x`, i.e. `markdown.markdown(src, extensions=[…])` with any subset
`x` of fenced_code, tables, admonition, def_list, abbr, footnotes, sane_lists, nl2br, wikilinks, attr_list, toc — 2048
configurations): "Text placed in an indented code block … or a backtick code span appears in the output character
for character, changed only by HTML-escaping of `&`, `<` and `>` and by trimming of trailing whitespace … No
Markdown, HTML or entity syntax inside code is ever interpreted, whatever surrounds the code."

The statements are those of `Props/C03.lean` (`C03_block_top`, `C03_span_top`, `C03_block_after_paragraph`, core
pipeline) with the SAME domains of code bodies and the SAME answers: the body may be full of the syntax of the
enabled extensions — table rows, `[^1]` and `[^1]: …`, `*[A]: b`, `!!! note`, `: def`, `{: #id }`, `[TOC]`, `[[wiki]]`,
fences — and none of it is interpreted.  Fenced blocks with extensions are in `Props/C03Fenced.lean`.

Only property statements live here; the vocabulary is in `Spec/CodeLaw.lean`, the helper lemmas in
`Lemmas/CodeX.lean`, `Lemmas/CodeXTree.lean`, `Lemmas/CodeXSpan.lean`, `Lemmas/CodeXPara.lean`, `Lemmas/CodeXAtomic.lean`, `Lemmas/CodeXAbbr.lean`, `Lemmas/CodeXDoc.lean`, `Lemmas/CodeXDocTree.lean`,
`Lemmas/CodeXDocConv.lean`.

Why nothing leaks (what the proofs follow):
* block parser: `CodeBlockProcessor` (80) is asked before table (75), deflist (25), footnote (17), abbr (16); of the
  two extension processors asked before it, admonition (105) needs `!!!` at the START of a line (every line of the
  block is indented) and `defindent` (85) needs a list before the block;
* inline: the text of `code` is an `AtomicString`, which the footnote, wikilink and nl2br patterns never see; a
  span's `<code>` sits in the stash while they run;
* `attr_list` reads the tail of the last child / the text of BLOCK-level elements and the tail of inline ones — never
  the text of `code`; `abbr` skips `AtomicString`s; `toc` does not look into `pre` and `code`;
* `fenced_code` needs its fence at the start of a line.

Two hypotheses beyond those of `Props/C03.lean`:
* `0 < tab`: with `tab_length = 0` "indented by 0 spaces" is no indentation at all and the admonition processor does
  see `!!! note` (`C03X_tab0_counterexample`);
* `hadm`: with admonition enabled the text has no `!!!` followed (after an optional blank) by a non-ASCII character,
  for which the model answers "outside the modelled domain" (`PipelineX.admNonAscii`; the implementation itself is
  literal there too: tested).

Part 1.  `C03X_block_top`, `C03X_block_extensions_inert`.
Part 2.  `C03X_span_top`, `C03X_span_extensions_inert`; what `attr_list` does do next to a span: `C03X_span_attr_list_boundary`.
Part 3.  `C03X_block_after_paragraph`, `C03X_block_after_paragraph_inert`.
Part 4.  ANY tree, wherever the code sits (`codeTexts`: the `AtomicString` texts of the `code` elements of a tree in
         document order): `C03X_abbr_keeps_code` (any abbreviation table), `C03X_attr_list_keeps_code`,
         `C03X_toc_keeps_code`, `C03X_unescape_keeps_code`, `C03X_late_stages_keep_code` (attr_list 8, abbr 7, toc 5,
         unescape 0 together); the inline processor over the extended pattern table: `C03X_inline_skips_atomic`,
         `C03X_stash_skips_atomic`.
Part 5.  an abbreviation DEFINED in the document and occurring in the code: `C03X_block_after_abbr_definition`,
         `C03X_abbr_wraps_outside_code_only`.
Part 6.  whatever surrounds the code: ANY document of one-line paragraphs and indented code blocks, in any number and
         order (`CItem`, `codeDocSource`, `codeDocHtml`): `C03X_document`, `C03X_document_inert`, and the instance
         `C03X_block_between_paragraphs`.
-/
import MdVerif.Props.C03
import MdVerif.Lemmas.CodeXDocConv

namespace MdVerif.CodeX
open Py Block CodeLaw Pipeline PipelineX

/-- every modelled extension enabled -/
def everyExt : Exts :=
  { fencedCode := true, tables := true, admonition := true, defList := true, abbr := true, footnotes := true,
    saneLists := true, nl2br := true, wikilinks := true, attrList := true, toc := true }

/-! ### Part 1: an indented code block, end to end, any extensions -/

/-- **C03 for indented code blocks with extensions, end to end.**  Enable any subset `x` of the eleven modelled
    extensions (fenced_code, tables, admonition, def_list, abbr, footnotes, sane_lists, nl2br, wikilinks, attr_list,
    toc).  The document is one indented code block of the domain of `C03_block_top`: runs of code lines (`isCodeRun`:
    any characters but `<`, LF, CR, tab, STX, ETX; a character other than a space on every line; closed character
    references) separated by any number of blank lines, every line indented by `tab` spaces.
    `Markdown.convert` returns exactly what the core pipeline returns: `<pre><code>`, the code escaped by
    `code_escape` with the trailing white space of every run of lines and of the whole block removed (`trimSpec`), a
    line feed, `</code></pre>` — even when the code is full of the syntax of the enabled extensions: `| a | b |` and
    `|---|---|`, `[^1]` and `[^1]: note`, `*[A]: x`, `!!! note`, `: def`, `{: #id }`, `[TOC]`, `[[w]]`, fences,
    `///Footnotes Go Here///`.  Any tab length > 0, both output formats. -/
theorem C03X_block_top (x : Exts) (tab : Nat) (htab : 0 < tab) (fmt : Ser.Fmt) (first : List Str)
    (more : List (Nat × List Str))
    (h1 : isCodeRun first = true) (h2 : more.all (fun er => isCodeRun er.2) = true)
    (h3 : (allLines first more).any (fun l => !isBlank l) = true)
    (hadm : (x.admonition && admNonAscii (codeSource tab first more ++ ['\n', '\n'])) = false) :
    convertX x { tab := tab, fmt := fmt } (codeSource tab first more) =
      .ok ("<pre><code>".toList ++ Code.codeEscape (trimSpec first more) ++ "\n</code></pre>".toList) :=
  convertX_codeBlock x tab htab fmt first more ⟨h1, fun er her => List.all_eq_true.1 h2 er her, h3⟩ hadm

-- the hypotheses on a concrete input: every extension on; a table, a footnote definition (trailing spaces), an
-- abbreviation definition; one blank line; an admonition with a definition list; three blank lines; a wiki link, an
-- attribute list, the toc marker, a fence, the footnote place marker and an `&`
example : 0 < 4 ∧
    isCodeRun ["| a | b |".toList, "|---|---|".toList, "[^1]: n  ".toList, "*[A]: b".toList] = true ∧
    [(0, ["!!! note".toList, "T".toList, ":   d".toList]),
     (2, ["[[w]] {: #i}".toList, "[TOC]".toList, "```".toList, "A & B ///Footnotes Go Here///".toList])].all
      (fun er => isCodeRun er.2) = true ∧
    (allLines ["| a | b |".toList, "|---|---|".toList, "[^1]: n  ".toList, "*[A]: b".toList]
      [(0, ["!!! note".toList, "T".toList, ":   d".toList]),
       (2, ["[[w]] {: #i}".toList, "[TOC]".toList, "```".toList, "A & B ///Footnotes Go Here///".toList])]).any
      (fun l => !isBlank l) = true ∧
    (everyExt.admonition && admNonAscii (codeSource 4 ["| a | b |".toList, "|---|---|".toList, "[^1]: n  ".toList, "*[A]: b".toList]
      [(0, ["!!! note".toList, "T".toList, ":   d".toList]),
       (2, ["[[w]] {: #i}".toList, "[TOC]".toList, "```".toList, "A & B ///Footnotes Go Here///".toList])] ++ ['\n', '\n'])) = false := by
  decide +kernel
-- … the source spelt out, and what the model computes there with every extension on (by the kernel, not by the theorem)
example : codeSource 4 ["| a | b |".toList, "|---|---|".toList, "[^1]: n  ".toList, "*[A]: b".toList]
      [(0, ["!!! note".toList, "T".toList, ":   d".toList]),
       (2, ["[[w]] {: #i}".toList, "[TOC]".toList, "```".toList, "A & B ///Footnotes Go Here///".toList])] =
    "    | a | b |\n    |---|---|\n    [^1]: n  \n    *[A]: b\n\n    !!! note\n    T\n    :   d\n\n\n\n    [[w]] {: #i}\n    [TOC]\n    ```\n    A & B ///Footnotes Go Here///".toList := by
  decide +kernel
example : convertX everyExt {}
      "    | a | b |\n    |---|---|\n    [^1]: n  \n    *[A]: b\n\n    !!! note\n    T\n    :   d\n\n\n\n    [[w]] {: #i}\n    [TOC]\n    ```\n    A & B ///Footnotes Go Here///".toList =
    .ok "<pre><code>| a | b |\n|---|---|\n[^1]: n  \n*[A]: b\n\n!!! note\nT\n:   d\n\n\n\n[[w]] {: #i}\n[TOC]\n```\nA &amp; B ///Footnotes Go Here///\n</code></pre>".toList := by
  decide +kernel

/-- the same as a non-interference statement: on an indented code block, enabling extensions changes nothing -/
theorem C03X_block_extensions_inert (x : Exts) (tab : Nat) (htab : 0 < tab) (fmt : Ser.Fmt) (first : List Str)
    (more : List (Nat × List Str))
    (h1 : isCodeRun first = true) (h2 : more.all (fun er => isCodeRun er.2) = true)
    (h3 : (allLines first more).any (fun l => !isBlank l) = true)
    (hadm : (x.admonition && admNonAscii (codeSource tab first more ++ ['\n', '\n'])) = false) :
    convertX x { tab := tab, fmt := fmt } (codeSource tab first more) =
      Pipeline.convert { tab := tab, fmt := fmt } (codeSource tab first more) := by
  rw [C03X_block_top x tab htab fmt first more h1 h2 h3 hadm, ← convertX_core,
    C03X_block_top {} tab htab fmt first more h1 h2 h3 rfl]

/-- **why `0 < tab`**: with `tab_length = 0` a "code block indented by 0 spaces" is plain text — the core pipeline
    still makes it a code block (every block starts with zero spaces), but with admonition enabled the admonition
    processor, which is asked first, sees `!!! note` at the start of a line -/
theorem C03X_tab0_counterexample :
    codeSource 0 ["!!! note".toList] [] = "!!! note".toList ∧
    convertX {} { tab := 0 } "!!! note".toList = .ok "<pre><code>!!! note\n</code></pre>".toList ∧
    convertX { admonition := true } { tab := 0 } "!!! note".toList =
      .ok "<div class=\"admonition note\">\n<p class=\"admonition-title\">Note</p>\n</div>".toList := by
  decide +kernel

/-- **why `hadm`**: the point where the MODEL gives no answer (the implementation is literal there, too) -/
theorem C03X_admNonAscii_excluded :
    isCodeRun ["!!! é".toList] = true ∧ admNonAscii (codeSource 4 ["!!! é".toList] [] ++ ['\n', '\n']) = true ∧
    convertX { admonition := true } {} (codeSource 4 ["!!! é".toList] []) = .ood ∧
    convertX { tables := true, footnotes := true, attrList := true } {} (codeSource 4 ["!!! é".toList] []) =
      .ok "<pre><code>!!! é\n</code></pre>".toList := by
  decide +kernel

/-! ### Part 2: a code span, end to end, any extensions -/

/-- **C03 for code spans with extensions, end to end.**  Enable any subset `x` of the eleven modelled extensions.
    The document is one line of the domain of `C03_span_top`: text `a` (ASCII letters and spaces, not starting with a
    space), a fence of `k + 1` backticks, a body (`isCodeChar` characters, closed references, `spanBodyOk`), the same
    fence, text `b` (letters and spaces).  `Markdown.convert` returns exactly what the core pipeline returns:
    `<p>a<code>` + `code_escape(body.strip())` + `</code>b</p>` — the body trimmed at both ends, `&`, `<`, `>`
    escaped, and nothing else happens to it, even when it is full of the syntax of the enabled extensions: `[^1]`,
    `[[w]]`, `*[A]: x`, `| a |`, `{: #i }`, `[TOC]`, `!!! note`.  The footnote, wikilink and nl2br patterns never see
    the body (it sits in the stash as an `AtomicString` while they run on the words and the placeholder); `abbr` skips
    it; `attr_list` reads the tail `b` and the text `a`, never the text of `<code>`; a line that starts with three
    backticks is no fenced block (the fence pattern needs a second line).  Any tab length > 0, any fence length,
    both output formats. -/
theorem C03X_span_top (x : Exts) (tab : Nat) (htab : 0 < tab) (fmt : Ser.Fmt) (k : Nat) (a body b : Str)
    (ha : isSpanContext a = true) (hb : b.all isWordSp = true)
    (h1 : body.all isCodeChar = true) (h2 : refsClosed body = true) (h3 : spanBodyOk (k + 1) body = true)
    (hadm : (x.admonition && admNonAscii (spanSource (k + 1) a body b ++ ['\n', '\n'])) = false) :
    convertX x { tab := tab, fmt := fmt } (spanSource (k + 1) a body b) =
      .ok ("<p>".toList ++ a ++ "<code>".toList ++ Code.codeEscape (strip body) ++ "</code>".toList ++ b ++
        "</p>".toList) :=
  convertX_span x tab htab fmt k a body b ⟨ha, hb, h1, h2, h3⟩ hadm

-- the hypotheses on concrete inputs: every extension on; a body full of extension syntax; a line that starts with
-- a fence of three backticks
example : 0 < 4 ∧ isSpanContext "see HTML ".toList = true ∧ " here".toList.all isWordSp = true ∧
    " [^1] [[w]] *[A]: x | a | {: #i } [TOC] !!! note & ".toList.all isCodeChar = true ∧
    refsClosed " [^1] [[w]] *[A]: x | a | {: #i } [TOC] !!! note & ".toList = true ∧
    spanBodyOk 1 " [^1] [[w]] *[A]: x | a | {: #i } [TOC] !!! note & ".toList = true ∧
    (everyExt.admonition && admNonAscii (spanSource 1 "see HTML ".toList
      " [^1] [[w]] *[A]: x | a | {: #i } [TOC] !!! note & ".toList " here".toList ++ ['\n', '\n'])) = false := by
  decide +kernel
example : isSpanContext [] = true ∧ " b".toList.all isWordSp = true ∧ "x `` y".toList.all isCodeChar = true ∧
    refsClosed "x `` y".toList = true ∧ spanBodyOk 3 "x `` y".toList = true ∧
    spanSource 3 [] "x `` y".toList " b".toList = "```x `` y``` b".toList := by decide
-- … and what the model computes there with every extension on (by the kernel, not by the theorem)
example : convertX everyExt {} (spanSource 1 "see HTML ".toList
      " [^1] [[w]] *[A]: x | a | {: #i } [TOC] !!! note & ".toList " here".toList) =
    .ok "<p>see HTML <code>[^1] [[w]] *[A]: x | a | {: #i } [TOC] !!! note &amp;</code> here</p>".toList := by
  decide +kernel
example : convertX everyExt {} "```x `` y``` b".toList = .ok "<p><code>x `` y</code> b</p>".toList := by decide +kernel

/-- the same as a non-interference statement: on a paragraph with a code span, enabling extensions changes nothing -/
theorem C03X_span_extensions_inert (x : Exts) (tab : Nat) (htab : 0 < tab) (fmt : Ser.Fmt) (k : Nat) (a body b : Str)
    (ha : isSpanContext a = true) (hb : b.all isWordSp = true)
    (h1 : body.all isCodeChar = true) (h2 : refsClosed body = true) (h3 : spanBodyOk (k + 1) body = true)
    (hadm : (x.admonition && admNonAscii (spanSource (k + 1) a body b ++ ['\n', '\n'])) = false) :
    convertX x { tab := tab, fmt := fmt } (spanSource (k + 1) a body b) =
      Pipeline.convert { tab := tab, fmt := fmt } (spanSource (k + 1) a body b) := by
  rw [C03X_span_top x tab htab fmt k a body b ha hb h1 h2 h3 hadm, ← convertX_core,
    C03X_span_top {} tab htab fmt k a body b ha hb h1 h2 h3 rfl]

/-- **the boundary of the domain: what `attr_list` does next to a span.**  An attribute list directly AFTER the
    closing fence (outside the body; `b` would start with `{`, which `isWordSp` excludes) is applied to the `<code>`
    element — that is the extension's feature; the body is still literal.  The same text INSIDE the body is code. -/
theorem C03X_span_attr_list_boundary :
    convertX { attrList := true } {} "a `x`{: #i } b".toList = .ok "<p>a <code id=\"i\">x</code> b</p>".toList ∧
    convertX { attrList := true } {} "a `x{: #i }` b".toList = .ok "<p>a <code>x{: #i }</code> b</p>".toList := by
  decide +kernel

/-! ### Part 3: whatever precedes the code block -/

/-- **… whatever precedes it: after a paragraph, any extensions.**  A line of text `p` (letters and spaces, starting
    with a letter), a blank line, then the indented code block of `C03X_block_top`: with any subset `x` of the eleven
    modelled extensions enabled the paragraph comes out as `<p>p</p>` and the code block exactly as in
    `C03X_block_top` — neither the paragraph before it nor the extensions change anything in it.  In particular the
    paragraph is not taken for the term of a definition list when the code starts with `:   d`, nor for the header row
    of a table when the code starts with `|---|---|`, and an attribute list `{: #i }` on the first code line is not
    applied to the paragraph. -/
theorem C03X_block_after_paragraph (x : Exts) (tab : Nat) (htab : 0 < tab) (fmt : Ser.Fmt) (p : Str) (first : List Str)
    (more : List (Nat × List Str)) (hp : isSpanContext p = true) (hpne : p ≠ [])
    (h1 : isCodeRun first = true) (h2 : more.all (fun er => isCodeRun er.2) = true)
    (hadm : (x.admonition && admNonAscii (paraCodeSource tab p first more ++ ['\n', '\n'])) = false) :
    convertX x { tab := tab, fmt := fmt } (paraCodeSource tab p first more) =
      .ok ("<p>".toList ++ p ++ "</p>\n<pre><code>".toList ++ Code.codeEscape (trimSpec first more) ++
        "\n</code></pre>".toList) :=
  convertX_paraCode x tab htab fmt p first more hp hpne h1 (fun er her => List.all_eq_true.1 h2 er her) hadm

-- the hypotheses on a concrete input: every extension on; the code starts with a table, then an attribute list; after
-- two blank lines a footnote definition, an abbreviation definition for a word of the paragraph, an admonition and a
-- definition with the toc marker and a wiki link
example : 0 < 4 ∧ isSpanContext "Some HTML text".toList = true ∧ "Some HTML text".toList ≠ [] ∧
    isCodeRun ["| a | b |  ".toList, "|---|---|".toList, "{: #i }".toList] = true ∧
    [(1, ["[^1]: n".toList, "*[HTML]: x".toList, "!!! note".toList, ":   d [TOC] [[w]]".toList])].all
      (fun er => isCodeRun er.2) = true ∧
    (everyExt.admonition && admNonAscii (paraCodeSource 4 "Some HTML text".toList
      ["| a | b |  ".toList, "|---|---|".toList, "{: #i }".toList]
      [(1, ["[^1]: n".toList, "*[HTML]: x".toList, "!!! note".toList, ":   d [TOC] [[w]]".toList])] ++ ['\n', '\n'])) = false := by
  decide +kernel
-- … the source spelt out, and what the model computes there with every extension on (by the kernel, not by the theorem)
example : paraCodeSource 4 "Some HTML text".toList ["| a | b |  ".toList, "|---|---|".toList, "{: #i }".toList]
      [(1, ["[^1]: n".toList, "*[HTML]: x".toList, "!!! note".toList, ":   d [TOC] [[w]]".toList])] =
    "Some HTML text\n\n    | a | b |  \n    |---|---|\n    {: #i }\n\n\n    [^1]: n\n    *[HTML]: x\n    !!! note\n    :   d [TOC] [[w]]".toList := by
  decide +kernel
example : convertX everyExt {}
      "Some HTML text\n\n    | a | b |  \n    |---|---|\n    {: #i }\n\n\n    [^1]: n\n    *[HTML]: x\n    !!! note\n    :   d [TOC] [[w]]".toList =
    .ok "<p>Some HTML text</p>\n<pre><code>| a | b |  \n|---|---|\n{: #i }\n\n\n[^1]: n\n*[HTML]: x\n!!! note\n:   d [TOC] [[w]]\n</code></pre>".toList := by
  decide +kernel

/-- the same as a non-interference statement -/
theorem C03X_block_after_paragraph_inert (x : Exts) (tab : Nat) (htab : 0 < tab) (fmt : Ser.Fmt) (p : Str)
    (first : List Str) (more : List (Nat × List Str)) (hp : isSpanContext p = true) (hpne : p ≠ [])
    (h1 : isCodeRun first = true) (h2 : more.all (fun er => isCodeRun er.2) = true)
    (hadm : (x.admonition && admNonAscii (paraCodeSource tab p first more ++ ['\n', '\n'])) = false) :
    convertX x { tab := tab, fmt := fmt } (paraCodeSource tab p first more) =
      Pipeline.convert { tab := tab, fmt := fmt } (paraCodeSource tab p first more) := by
  rw [C03X_block_after_paragraph x tab htab fmt p first more hp hpne h1 h2 hadm, ← convertX_core,
    C03X_block_after_paragraph {} tab htab fmt p first more hp hpne h1 h2 rfl]

/-! ### Part 4: any tree — the tree processors of the extensions never change a code text -/

/-- **`AbbrTreeprocessor` never wraps anything inside code.**  With ANY table of abbreviations, on ANY tree — code
    blocks in lists, quotes, admonitions, footnotes, code spans in headings, cells, definitions … — the texts of the
    `code` elements (`codeTexts`: the `AtomicString`s, in document order) are what they were: `abbr` elements are put
    around words of ordinary texts and tails, never into an `AtomicString`. -/
theorem C03X_abbr_keeps_code (abbrs : List (Str × Str)) (root : Node) :
    codeTexts (AbbrTree.run abbrs root) = codeTexts root :=
  codeTexts_abbr abbrs root

-- on a concrete tree: `HTML` is an abbreviation; the paragraph holds it in its text, in a code span and in the tail
-- of the span: two `abbr` elements appear around the span, the span's text is untouched
example : codeTexts (spanTreeP "the HTML spec ".toList "HTML".toList " HTML".toList) = ["HTML".toList] ∧
    codeTexts (AbbrTree.run [("HTML".toList, "Hyper".toList)]
      (spanTreeP "the HTML spec ".toList "HTML".toList " HTML".toList)) = ["HTML".toList] ∧
    ((AbbrTree.run [("HTML".toList, "Hyper".toList)]
      (spanTreeP "the HTML spec ".toList "HTML".toList " HTML".toList)).children.map
        (fun p => p.children.map (fun c => c.tag))) =
      [[.name "abbr".toList, .name "code".toList, .name "abbr".toList]] := by decide +kernel

/-- **`AttrListTreeprocessor` never reads or changes a code text** (as long as `code` is not declared a block-level
    element, which it is not by default): on ANY tree the texts of the `code` elements are what they were — an
    attribute list is looked for in the text of block-level elements and in tails only.  (It may give a `code`
    element attributes: `` `x`{: #i } ``, `C03X_span_attr_list_boundary`.) -/
theorem C03X_attr_list_keeps_code (bl : List Str) (hbl : TreeProc.isBlockLevel bl (.name "code".toList) = false)
    (root : Node) : codeTexts (AttrListTree.run bl root) = codeTexts root :=
  codeTexts_attrList bl hbl root

example : TreeProc.isBlockLevel TreeProc.defaultBlockLevel (.name "code".toList) = false := by decide

/-- **`TocTreeprocessor` never changes a code text**: whenever it answers, on ANY tree, the texts of the `code`
    elements are what they were — headings get ids, an element whose text is the marker `[TOC]` is replaced by the
    table (never a `pre` or a `code`: `replace_marker` skips them, so `[TOC]` as code stays code), and the table
    holds no `code` element -/
theorem C03X_toc_keeps_code (env : TocTree.Env) (bl : List Str) (root r : Node)
    (h : TocTree.run env bl root = .ok r) : codeTexts r = codeTexts root :=
  codeTexts_toc env bl root r h

-- on a concrete tree: a code block whose text is the marker comes back as it is
example : TocTree.run { fmt := .xhtml, post := fun s => some s } TreeProc.defaultBlockLevel (codeTreeP "[TOC]\n".toList) =
    .ok (codeTreeP "[TOC]\n".toList) := toc_codeTreeP _ _

/-- `UnescapeTreeprocessor` never changes a code text, on any tree -/
theorem C03X_unescape_keeps_code (n n' : Node) (h : TreeProc.unescapeTree n = some n') : codeTexts n' = codeTexts n :=
  codeTexts_unescapeTree n n' h

/-- **the stages after `prettify` together** — attr_list 8, abbr 7, toc 5, unescape 0, each enabled or not, in the
    order and with the plumbing of `PipelineX.treeX`: on ANY tree `t` that `prettify` hands over, with any
    abbreviation table, the tree `u` that goes to the serializer has the same `code` texts in the same order -/
theorem C03X_late_stages_keep_code (attrList abbr toc : Bool) (bl : List Str)
    (hbl : TreeProc.isBlockLevel bl (.name "code".toList) = false) (abbrs : List (Str × Str)) (env : TocTree.Env)
    (t u : Node)
    (h : (let t1 := if attrList then AttrListTree.run bl t else t
          let t2 := if abbr then AbbrTree.run abbrs t1 else t1
          match (if toc then TocTree.run env bl t2 else TocTree.R.ok t2) with
          | .ok t3 => TreeProc.unescapeTree t3
          | _ => none) = some u) :
    codeTexts u = codeTexts t :=
  codeTexts_lateStages attrList abbr toc bl hbl abbrs env t u h

/-- **the inline processor with the extension patterns skips atomic text** (`C03_inline_skips_atomic` over the
    pattern table with footnote 175, wikilink 75, nl 5): for an element whose text is an `AtomicString` the result of
    `visitChildX` has the same text, still atomic, the same tag, attributes and children -/
theorem C03X_inline_skips_atomic (xc : InlineX.XCfg) (child : Node) (v : InlineX.VisitX) (c' : Node) (tr : List Node)
    (v' : InlineX.VisitX) (h : InlineX.visitChildX xc child v = some (c', tr, v')) (ha : child.textAtomic = true) :
    c'.text = child.text ∧ c'.textAtomic = true ∧ c'.tag = child.tag ∧ c'.attrs = child.attrs ∧
      c'.children = child.children :=
  visitChildX_atomic xc child v c' tr v' h ha

-- the hypotheses on a concrete input: the `code` element of a span full of extension syntax, every inline extension on
example : ∃ r, InlineX.visitChildX { table := InlineX.table true true true, fnKeys := ["1".toList] }
      (codeSpan "[^1] [[w]]".toList) { x := {} } = some r ∧ (codeSpan "[^1] [[w]]".toList).textAtomic = true :=
  ⟨_, rfl, rfl⟩

/-- **the stash keeps atomic elements as they are, whatever the table** (`C03_stash_skips_atomic` over the extended
    table): when the match of ANY entry of the table yields an element with atomic text (the backtick pattern's
    `<code>`), none of the patterns — core, footnote, wikilink, nl2br — is run on it; it goes into the stash
    unchanged and the match is replaced by its placeholder -/
theorem C03X_stash_skips_atomic (xc : InlineX.XCfg) (hi : InlineX.HIX) (pi : Nat) (k : InlineX.PatK) (data : Str)
    (si : Nat) (x x' : InlineX.XSt) (n : Node) (s : Nat) (e : Int) (hk : xc.table[pi]? = some k)
    (h : InlineX.findX xc k data si x = some (some ⟨.el n, s, e⟩, x'))
    (h1 : n.text.isSome = true) (h2 : n.textAtomic = true) :
    InlineX.applyPatternX xc hi pi data si x =
      some (data.take s ++ Inline.placeholder x'.st.stash.length ++ Inline.pyDrop data e, true, 0,
        { x' with st := { x'.st with stash := x'.st.stash ++ [.node n] } }) :=
  applyPatternX_atomic xc hi pi k data si x x' n s e hk h h1 h2

-- the hypotheses on a concrete input: the backtick pattern (entry 0 of every table) on a span full of extension syntax
example : (InlineX.table true true true)[0]? = some (.core 0) ∧
    InlineX.findX { table := InlineX.table true true true, fnKeys := ["1".toList] } (.core 0)
      "a `[^1] [[w]]` c".toList 0 {} =
      some (some ⟨.el (codeSpan (Code.codeEscape (strip "[^1] [[w]]".toList))), 2, 14⟩, {}) ∧
    (codeSpan (Code.codeEscape (strip "[^1] [[w]]".toList))).text.isSome = true ∧
    (codeSpan (Code.codeEscape (strip "[^1] [[w]]".toList))).textAtomic = true := by
  refine ⟨rfl, ?_, rfl, rfl⟩
  have := findX_span { table := InlineX.table true true true, fnKeys := ["1".toList] } 0 "a ".toList
    "[^1] [[w]]".toList " c".toList {} (show ∀ c ∈ "a ".toList, c ≠ '`' ∧ c ≠ '\\' by decide) (by decide) (by decide)
  simpa [spanData, ticks] using this

/-! ### Part 5: an abbreviation defined in the document and occurring in the code -/

/-- **the abbreviation table is not empty, the abbreviation occurs in the code, the code stays literal.**  The
    document is an abbreviation definition `*[K]: T` (`K`, `T` words of ASCII letters), a blank line and an indented
    code block of the domain of `C03X_block_top` — in which `K` may occur any number of times.  With `abbr` and any
    subset of the other ten modelled extensions enabled, `Markdown.convert` returns exactly the code block of
    `C03X_block_top`: the definition leaves no output, `AbbrTreeprocessor` runs with `K` in its table, and no
    `<abbr>` appears in the code. -/
theorem C03X_block_after_abbr_definition (x : Exts) (hab : x.abbr = true) (tab : Nat) (htab : 0 < tab) (fmt : Ser.Fmt)
    (K T : Str) (first : List Str) (more : List (Nat × List Str))
    (hK : isLetters K = true) (hT : isLetters T = true)
    (h1 : isCodeRun first = true) (h2 : more.all (fun er => isCodeRun er.2) = true)
    (hadm : (x.admonition && admNonAscii (paraCodeSource tab (abbrDef K T) first more ++ ['\n', '\n'])) = false) :
    convertX x { tab := tab, fmt := fmt } (paraCodeSource tab (abbrDef K T) first more) =
      .ok ("<pre><code>".toList ++ Code.codeEscape (trimSpec first more) ++ "\n</code></pre>".toList) :=
  convertX_abbrCode x hab tab htab fmt K T first more hK hT h1 (fun er her => List.all_eq_true.1 h2 er her) hadm

-- the hypotheses on a concrete input: every extension on; the abbreviation occurs three times in the code, once in
-- a second definition
example : everyExt.abbr = true ∧ 0 < 4 ∧ isLetters "HTML".toList = true ∧ isLetters "Hyper".toList = true ∧
    isCodeRun ["the HTML spec".toList, "*[HTML]: x".toList] = true ∧
    [(0, ["HTML".toList])].all (fun er => isCodeRun er.2) = true ∧
    paraCodeSource 4 (abbrDef "HTML".toList "Hyper".toList) ["the HTML spec".toList, "*[HTML]: x".toList]
      [(0, ["HTML".toList])] = "*[HTML]: Hyper\n\n    the HTML spec\n    *[HTML]: x\n\n    HTML".toList := by
  decide +kernel
-- … and what the model computes there with every extension on (by the kernel, not by the theorem)
example : convertX everyExt {} "*[HTML]: Hyper\n\n    the HTML spec\n    *[HTML]: x\n\n    HTML".toList =
    .ok "<pre><code>the HTML spec\n*[HTML]: x\n\nHTML\n</code></pre>".toList := by decide +kernel

/-- **… and in a paragraph: wrapped outside the span, literal inside** (an instance, computed by the kernel on the
    model with every extension on; the implementation agrees): the same word is an `<abbr>` in the text before and
    after the code span and plain code inside it -/
theorem C03X_abbr_wraps_outside_code_only :
    convertX everyExt {} "*[HTML]: Hyper\n\nthe HTML spec `HTML` HTML".toList =
      .ok "<p>the <abbr title=\"Hyper\">HTML</abbr> spec <code>HTML</code> <abbr title=\"Hyper\">HTML</abbr></p>".toList := by
  decide +kernel

/-! ### Part 6: whatever surrounds the code — any document of paragraphs and code blocks -/

/-- **any document of paragraphs and indented code blocks, any extensions.**  The document is a non-empty list of
    items separated by blank lines, each a one-line paragraph (letters and spaces starting with a letter) or an
    indented code block of the domain of `C03X_block_top` (`CItem.ok`; the blocks are independent of each other), no
    two code blocks adjacent (`alternating`: two adjacent ones ARE one block with one more run of lines), not all white
    space (`hasInk`: automatic as soon as there is a paragraph).  With any subset `x` of the eleven modelled extensions
    enabled the output is, line by line, `<p>…</p>` for each paragraph and the HTML of `C03X_block_top` for each code
    block (`codeDocHtml`): every code block comes out character for character (escaped, trailing white space of its
    runs trimmed), wherever it stands — first, last, between paragraphs — and whatever the other blocks and the
    paragraphs contain; no paragraph is taken for a definition term, a table header or the target of an attribute
    list of the code that follows or precedes it. -/
theorem C03X_document (x : Exts) (tab : Nat) (htab : 0 < tab) (fmt : Ser.Fmt) (items : List CItem) (hne : items ≠ [])
    (h : items.all CItem.ok = true) (halt : alternating items = true) (hink : hasInk items = true)
    (hadm : (x.admonition && admNonAscii (codeDocSource tab items ++ ['\n', '\n'])) = false) :
    convertX x { tab := tab, fmt := fmt } (codeDocSource tab items) = .ok (codeDocHtml items) :=
  convertX_codeDoc x tab htab fmt items hne (fun it hit => List.all_eq_true.1 h it hit) halt hink hadm

/-- a document that starts with a code block holding a table and a footnote definition, two paragraphs, a code block
    holding an abbreviation definition for a word of the first paragraph, an admonition and — after three blank lines —
    a definition with the toc marker, a wiki link and an attribute list, and a last paragraph -/
def exampleDoc : List CItem :=
  [.code ["| a | b |".toList, "|---|---|".toList] [(0, ["[^1]: n".toList])], .para "Some HTML text ".toList,
   .para "More".toList,
   .code ["*[HTML]: x  ".toList, "!!! note".toList] [(2, [":   d [TOC] [[w]] {: #i }".toList])], .para "The end".toList]

-- the hypotheses on that input, every extension on; the source and the expected output spelt out; what the model
-- computes (by the kernel, not by the theorem)
example : 0 < 4 ∧ exampleDoc ≠ [] ∧ exampleDoc.all CItem.ok = true ∧ alternating exampleDoc = true ∧
    hasInk exampleDoc = true ∧
    (everyExt.admonition && admNonAscii (codeDocSource 4 exampleDoc ++ ['\n', '\n'])) = false := by
  refine ⟨by decide, by simp [exampleDoc], ?_, ?_, ?_, ?_⟩ <;> decide +kernel
example : codeDocSource 4 exampleDoc =
      "    | a | b |\n    |---|---|\n\n    [^1]: n\n\nSome HTML text \n\nMore\n\n    *[HTML]: x  \n    !!! note\n\n\n\n    :   d [TOC] [[w]] {: #i }\n\nThe end".toList ∧
    codeDocHtml exampleDoc =
      "<pre><code>| a | b |\n|---|---|\n\n[^1]: n\n</code></pre>\n<p>Some HTML text </p>\n<p>More</p>\n<pre><code>*[HTML]: x  \n!!! note\n\n\n\n:   d [TOC] [[w]] {: #i }\n</code></pre>\n<p>The end</p>".toList := by
  decide +kernel
example : convertX everyExt {}
      "    | a | b |\n    |---|---|\n\n    [^1]: n\n\nSome HTML text \n\nMore\n\n    *[HTML]: x  \n    !!! note\n\n\n\n    :   d [TOC] [[w]] {: #i }\n\nThe end".toList =
    .ok "<pre><code>| a | b |\n|---|---|\n\n[^1]: n\n</code></pre>\n<p>Some HTML text </p>\n<p>More</p>\n<pre><code>*[HTML]: x  \n!!! note\n\n\n\n:   d [TOC] [[w]] {: #i }\n</code></pre>\n<p>The end</p>".toList := by
  decide +kernel
-- two adjacent code blocks are not in the domain: they are one block
example : alternating [.code ["a".toList] [], .code ["b".toList] []] = false ∧
    codeDocSource 4 [.code ["a".toList] [], .code ["b".toList] []] = codeSource 4 ["a".toList] [(0, ["b".toList])] := by
  decide +kernel

/-- the same as a non-interference statement: on such a document enabling extensions changes nothing -/
theorem C03X_document_inert (x : Exts) (tab : Nat) (htab : 0 < tab) (fmt : Ser.Fmt) (items : List CItem)
    (hne : items ≠ []) (h : items.all CItem.ok = true) (halt : alternating items = true) (hink : hasInk items = true)
    (hadm : (x.admonition && admNonAscii (codeDocSource tab items ++ ['\n', '\n'])) = false) :
    convertX x { tab := tab, fmt := fmt } (codeDocSource tab items) =
      Pipeline.convert { tab := tab, fmt := fmt } (codeDocSource tab items) := by
  rw [C03X_document x tab htab fmt items hne h halt hink hadm, ← convertX_core,
    C03X_document {} tab htab fmt items hne h halt hink rfl]

/-- **a code block between two paragraphs** (an instance of `C03X_document`): `p`, a blank line, the code block, a
    blank line, `q` -/
theorem C03X_block_between_paragraphs (x : Exts) (tab : Nat) (htab : 0 < tab) (fmt : Ser.Fmt) (p q : Str)
    (first : List Str) (more : List (Nat × List Str))
    (hp : FencedPipe.isParaLine p = true) (hq : FencedPipe.isParaLine q = true)
    (h1 : isCodeRun first = true) (h2 : more.all (fun er => isCodeRun er.2) = true)
    (hadm : (x.admonition &&
      admNonAscii (p ++ "\n\n".toList ++ codeSource tab first more ++ "\n\n".toList ++ q ++ ['\n', '\n'])) = false) :
    convertX x { tab := tab, fmt := fmt } (p ++ "\n\n".toList ++ codeSource tab first more ++ "\n\n".toList ++ q) =
      .ok ("<p>".toList ++ p ++ "</p>\n<pre><code>".toList ++ Code.codeEscape (trimSpec first more) ++
        "\n</code></pre>\n<p>".toList ++ q ++ "</p>".toList) := by
  have e := codeDocSource_between tab p q first more "\n\n".toList (by decide)
  have e2 := codeDocHtml_between p q first more "<p>".toList "</p>\n<pre><code>".toList "\n</code></pre>\n<p>".toList
    "</p>".toList rfl (by decide) (by decide) rfl
  have := C03X_document x tab htab fmt [.para p, .code first more, .para q] (by simp)
    (by simp [CItem.ok, hp, hq, h1, h2]) rfl rfl (by rw [e]; exact hadm)
  rw [e, e2] at this
  exact this

example : FencedPipe.isParaLine "Some text".toList = true ∧ FencedPipe.isParaLine " x".toList = false := by decide

end MdVerif.CodeX
