/-
C09 on the extension pipeline — "Output depends only on the normalised text: CRLF or CR line endings instead of LF,
tabs instead of the equivalent spaces to the next tab stop, whitespace-only lines instead of empty lines, stray
STX/ETX control characters, and extra blank lines before or after the document never change the output" — for
`PipelineX.convertX x cfg` (`Model/PipelineX.lean`: `Markdown(extensions=[…]).convert` with any subset `x : Exts` of
fenced_code, tables, admonition, def_list, abbr, footnotes, sane_lists, nl2br, wikilinks, attr_list, toc).
`Props/C09Doc.lean` has the same statements for the core pipeline (`x = {}`, `convertX_core`).

Why the lift works with every extension: `NormalizeWhitespace` has priority 30 and runs before the fenced-code
preprocessor (25) and the raw-HTML preprocessor (20); in the model `prepareX` starts with
`Normalize.normalize cfg.tab src` and the tests `admNonAscii`, `fencedHasConfig` (the two `ood` answers of the
preprocessing stage), `Fenced.fencedRunA` and `Extract.extract` read the normalised text.  Outside `prepareX` the
source is read twice more, raw: `src.contains '<'` (the domain test) and `isBlankDoc src` (`not source.strip()`).

1. `C09X_convert_factors` — the lift: for every flag set, `convertX` reads the source through three observations only
   (has it a `<`, is it blank, its normalised text).  All outcomes are covered: `ok`, `err`, `oof`, `ood` are the same
   on both sides.
2. The variations, for every flag set: `C09X_doc_line_endings(_uniform)`, `C09X_doc_tab`, `C09X_doc_ws_line`,
   `C09X_doc_ws_first_line`, `C09X_doc_ctl` (with the proviso of finding F-C09-2: the blank-document shortcut tests the
   raw source, `C09X_doc_ctl_counterexample` with all eleven extensions on).  Inside a fenced code block these
   variations are *not* preserved literally in the `<pre><code>` — they are normalised before the fenced-code
   preprocessor sees them; the statement is that both spellings give the same output.
3. Blank lines in front of the document, for every flag set: `C09X_doc_leading` (for a positive tab length when
   admonition is on — the totality hypothesis of the extended block parser, `C02X`).  The fenced-code preprocessor
   shifts with the text; at the childless root the leading empty blocks are consumed by the empty-block processor —
   also when the admonition processor (priority 105, before `empty`) sees the first block: its pattern
   `(?:^|\n)!!! …` matches behind the line feed exactly what it matches at the start of the block (`leadX`).
4. Blank lines behind the document, for every flag set, for documents whose tree does not end in a code block:
   `C09X_doc_trailing_noCode`, `C09X_doc_padding_noCode`.  The trailing line feeds become empty blocks behind the
   document's blocks.
   * fenced_code: for a text that ends in a line feed, `FENCED_BLOCK_RE.search` finds the same match when more line
     feeds follow (`fenceFindFrom_suffix`: every repeat of the pattern stops at a line feed of the text, the lazy
     `hl_lines` value ends at a quote of the text, the added lines are empty and close no fence), so the preprocessor
     gives the same text, placeholders and stash with the line feeds behind (`fencedRunA_trailing`);
   * every processor of the extended parser hands EMPTY pending blocks back untouched (`dispatchXT_rest` — the
     footnote processor does look ahead, `detectTabbed`, but stops at a block that does not start with four spaces),
     so the loop on `bs ++ empties` is the loop on `bs` followed by the loop on the empties (`RunX.append_iff`),
     where the admonition processor declines (`admTest_emptyish`) and the empty-block processor does nothing unless
     the last child is a code block.
   NOT proved here: the case of a trailing code block (`C09_doc_trailing` does it for the core pipeline through a
   lockstep of the inline processor and prettify; not lifted to the extension pipeline; tested on the implementation
   with all extensions, 4188 + 3920 pairs, 0 differences).
Tested before proving on the implementation with random subsets of the eleven extensions (25 000 pairs, 0 differences).
Only property statements live here; helper lemmas are in `Lemmas/C09X.lean`, `Lemmas/C09XLead.lean`, `Lemmas/C09XTrail.lean`, `Lemmas/C09XFence.lean`.
-/
import MdVerif.Model.PipelineX
import MdVerif.Spec.Normalize
import MdVerif.Props.C09
import MdVerif.Lemmas.C09X
import MdVerif.Lemmas.C09XLead
import MdVerif.Lemmas.C09XTrail
import MdVerif.Lemmas.C09XFence

namespace MdVerif.PipelineX
open Py Normalize NormDoc Pipeline

/-- every modelled extension enabled -/
def C09X_all : Exts := ⟨true, true, true, true, true, true, true, true, true, true, true⟩

/-! ### 1. the lift -/

/-- **The lift.**  For every set of extensions: two sources that agree on "contains `<`", on "is blank"
    (`not source.strip()`) and on their normalised text are converted alike — nothing else of the source is read by
    `convertX` (the fenced-code preprocessor, too, reads the normalised text). -/
theorem C09X_convert_factors (x : Exts) (cfg : Cfg) (s s' : Str) (h1 : s.contains '<' = s'.contains '<')
    (h2 : isBlankDoc s = isBlankDoc s') (h3 : normalize cfg.tab s = normalize cfg.tab s') :
    convertX x cfg s = convertX x cfg s' :=
  C09X.convertX_factors x cfg h1 h2 h3

example : "```\r\na\tb\r\n```".toList.contains '<' = "```\na   b\n```".toList.contains '<' ∧
    isBlankDoc "```\r\na\tb\r\n```".toList = isBlankDoc "```\na   b\n```".toList ∧
    normalize 4 "```\r\na\tb\r\n```".toList = normalize 4 "```\na   b\n```".toList := by decide

/-- … and so are the trees handed to the serializer (with the HTML stash) -/
theorem C09X_tree_factors (x : Exts) (cfg : Cfg) (s s' : Str) (h3 : normalize cfg.tab s = normalize cfg.tab s') :
    treeX x cfg s = treeX x cfg s' :=
  C09X.treeX_factors x cfg h3

/-! ### 2. the variations -/

/-- **Line endings.**  Two respellings of the same lines (every gap spelled `"\n"`, `"\r\n"` or `"\r"`, independently;
    neither containing the unreadable `"\r"`, empty line, `"\n"`: see `C09_line_endings`) are converted alike. -/
theorem C09X_doc_line_endings (x : Exts) (cfg : Cfg) (ls ends₁ ends₂ : List Str)
    (hlines : ∀ l ∈ ls, isLine l = true)
    (h₁ : ∀ e ∈ ends₁, isTerminator e = true) (h₂ : ∀ e ∈ ends₂, isTerminator e = true)
    (s₁ : splitsCRLF ends₁ ls = false) (s₂ : splitsCRLF ends₂ ls = false) :
    convertX x cfg (respell ends₁ ls) = convertX x cfg (respell ends₂ ls) :=
  C09X.convertX_factors x cfg (respell_contains_lt ls _ _ h₁ h₂) (respell_isBlankDoc ls _ _ h₁ h₂)
    (C09_line_endings cfg.tab ls ends₁ ends₂ hlines h₁ h₂ s₁ s₂)

example :
    let ls : List Str := ["```py".toList, "x\x02".toList, [], "```".toList, "a | b".toList, "- | -".toList]
    (∀ l ∈ ls, isLine l = true) ∧
    (∀ e ∈ [CRLF, LF, CR, CR, CRLF], isTerminator e = true) ∧ (∀ e ∈ [LF, CRLF, CR, CR, LF], isTerminator e = true) ∧
    splitsCRLF [CRLF, LF, CR, CR, CRLF] ls = false ∧ splitsCRLF [LF, CRLF, CR, CR, LF] ls = false := by decide

/-- **Line endings, one terminator throughout**: `sep.join(ls)` is converted alike for `sep` any of `"\n"`, `"\r\n"`,
    `"\r"` (empty lines included, no side condition). -/
theorem C09X_doc_line_endings_uniform (x : Exts) (cfg : Cfg) (ls : List Str) (sep₁ sep₂ : Str)
    (hlines : ∀ l ∈ ls, isLine l = true) (h₁ : isTerminator sep₁ = true) (h₂ : isTerminator sep₂ = true) :
    convertX x cfg (join sep₁ ls) = convertX x cfg (join sep₂ ls) := by
  have t₁ : ∀ e ∈ List.replicate ls.length sep₁, isTerminator e = true :=
    fun e he => by rw [List.eq_of_mem_replicate he]; exact h₁
  have t₂ : ∀ e ∈ List.replicate ls.length sep₂, isTerminator e = true :=
    fun e he => by rw [List.eq_of_mem_replicate he]; exact h₂
  refine C09X.convertX_factors x cfg ?_ ?_ (C09_line_endings_uniform cfg.tab ls sep₁ sep₂ hlines h₁ h₂)
  · rw [join_eq_respell', join_eq_respell']; exact respell_contains_lt ls _ _ t₁ t₂
  · rw [join_eq_respell', join_eq_respell']; exact respell_isBlankDoc ls _ _ t₁ t₂

example : (∀ l ∈ (["!!! note".toList, [], "    b".toList] : List Str), isLine l = true) ∧ isTerminator CRLF = true := by
  decide

/-- **Tabs.**  For a positive tab length, a tab is converted like the spaces up to the next tab stop (`col`: the
    column as `expandtabs` counts it on the normalised text; `C09_tab`). -/
theorem C09X_doc_tab (x : Exts) (cfg : Cfg) (htab : cfg.tab > 0) (pre post : Str) :
    convertX x cfg (pre ++ '\t' :: post) =
      convertX x cfg (pre ++ List.replicate (cfg.tab - col cfg.tab pre % cfg.tab) ' ' ++ post) := by
  refine C09X.convertX_factors x cfg ?_ ?_ (C09_tab cfg.tab htab pre post)
  · apply contains_eq_of_mem_iff
    simp only [List.mem_append, List.mem_cons, List.mem_replicate]
    constructor
    · rintro (h | h | h)
      · exact Or.inl (Or.inl h)
      · cases h
      · exact Or.inr h
    · rintro ((h | ⟨_, h⟩) | h)
      · exact Or.inl h
      · cases h
      · exact Or.inr (Or.inr h)
  · apply isBlankDoc_eq_of_all
    simp [List.all_append, List.all_replicate]

example : ({} : Cfg).tab > 0 := by decide

/-- **Whitespace-only lines.**  A line of spaces and tabs behind a line feed is converted like the empty line. -/
theorem C09X_doc_ws_line (x : Exts) (cfg : Cfg) (a ws b : Str) (hws : ∀ c ∈ ws, c = ' ' ∨ c = '\t') :
    convertX x cfg (a ++ '\n' :: ws ++ '\n' :: b) = convertX x cfg (a ++ '\n' :: '\n' :: b) := by
  have hsp : ws.all isSpace = true := by
    rw [List.all_eq_true]; intro c hc; rcases hws c hc with rfl | rfl <;> decide
  refine C09X.convertX_factors x cfg ?_ ?_
    (C09_ws_line cfg.tab a ws b (fun c hc => by rcases hws c hc with rfl | rfl <;> decide))
  · apply contains_eq_of_mem_iff
    simp only [List.mem_append, List.mem_cons]
    constructor
    · rintro ((h | h | h) | h | h)
      · exact Or.inl h
      · cases h
      · rcases hws _ h with h' | h' <;> cases h'
      · cases h
      · exact Or.inr (Or.inr (Or.inr h))
    · rintro (h | h | h | h)
      · exact Or.inl (Or.inl h)
      · cases h
      · cases h
      · exact Or.inr (Or.inr h)
  · apply isBlankDoc_eq_of_all
    simp [List.all_append, hsp]

example : ∀ c ∈ " \t  ".toList, c = ' ' ∨ c = '\t' := by decide

/-- **… the first line included** (since the repair a0e7e3c of F-C09-1) -/
theorem C09X_doc_ws_first_line (x : Exts) (cfg : Cfg) (ws b : Str) (hws : ∀ c ∈ ws, c = ' ' ∨ c = '\t') :
    convertX x cfg (ws ++ '\n' :: b) = convertX x cfg ('\n' :: b) := by
  have hsp : ws.all isSpace = true := by
    rw [List.all_eq_true]; intro c hc; rcases hws c hc with rfl | rfl <;> decide
  refine C09X.convertX_factors x cfg ?_ ?_
    (C09_ws_first_line cfg.tab ws b (fun c hc => by rcases hws c hc with rfl | rfl <;> decide))
  · apply contains_eq_of_mem_iff
    simp only [List.mem_append, List.mem_cons]
    constructor
    · rintro (h | h | h)
      · rcases hws _ h with h' | h' <;> cases h'
      · cases h
      · exact Or.inr h
    · rintro (h | h)
      · cases h
      · exact Or.inr (Or.inr h)
  · apply isBlankDoc_eq_of_all
    simp [List.all_append, hsp]

/-- **Control characters.**  A source and the source without its STX/ETX characters are converted alike, *provided
    the removal does not make a non-blank source blank* (F-C09-2, see `Props/C09Doc.lean`). -/
theorem C09X_doc_ctl (x : Exts) (cfg : Cfg) (s : Str) (hb : isBlankDoc (stripCtl s) = isBlankDoc s) :
    convertX x cfg s = convertX x cfg (stripCtl s) :=
  C09X.convertX_factors x cfg (stripCtl_contains_lt s).symm hb.symm (C09_ctl cfg.tab s)

/-- the hypothesis holds whenever something other than white space is left -/
theorem C09X_doc_ctl_of_not_blank (x : Exts) (cfg : Cfg) (s : Str) (hb : isBlankDoc (stripCtl s) = false) :
    convertX x cfg s = convertX x cfg (stripCtl s) := by
  apply C09X_doc_ctl
  rw [hb]
  rw [isBlankDoc_eq_all, Bool.eq_false_iff] at hb
  symm
  rw [isBlankDoc_eq_all, Bool.eq_false_iff]
  intro h; apply hb
  rw [List.all_eq_true] at h ⊢
  intro c hc; exact h c (mem_stripCtl.1 hc).1

example : isBlankDoc (stripCtl "`\x02``\na\x03\n```".toList) = false := by decide

/-- **F-C09-2 with every extension on.**  The excluded case is real (the implementation answers the same): white
    space and a stray STX.  Without the STX the document is blank and the answer is `''`; with it, the blank-document
    shortcut does not fire, the normaliser removes the STX, and the code-block processor takes the indented line. -/
theorem C09X_doc_ctl_counterexample :
    isBlankDoc "\x02    \x0b".toList = false ∧ isBlankDoc (stripCtl "\x02    \x0b".toList) = true ∧
    convertX C09X_all {} (stripCtl "\x02    \x0b".toList) = .ok [] ∧
    convertX C09X_all {} "\x02    \x0b".toList = .ok "<pre><code>\n</code></pre>".toList := by decide +kernel

/-- a stray STX/ETX *inside* a fenced code block is deleted like anywhere else (the normaliser runs before the
    fenced-code preprocessor): it cannot forge a placeholder of the HTML stash -/
example : convertX C09X_all {} "```\n\x02wzxhzdk:0\x03\n```".toList =
    .ok "<pre><code>wzxhzdk:0\n</code></pre>".toList := by decide +kernel


/-! ### 3. blank-line padding -/

/-- **Blank lines in front of the document, every extension.**  Any number of line feeds in front of any source:
    the same conversion, for every flag set (with admonition: for a positive tab length).  The normaliser keeps the
    line feeds; the fenced-code preprocessor finds the same blocks one line further down and stores the same HTML;
    the raw-HTML preprocessor copies them; the extended block parser splits them into empty blocks, which the
    empty-block processor consumes at the childless root — the admonition processor, which is asked first, finds
    behind a line feed what it finds at the start of the block.  (A source with `<` is `ood` with and without.) -/
theorem C09X_doc_leading (x : Exts) (cfg : Cfg) (htab : x.admonition = true → 0 < cfg.tab) (k : Nat) (src : Str) :
    convertX x cfg (List.replicate k '\n' ++ src) = convertX x cfg src :=
  C09X.convertX_leading x cfg htab k src

example : C09X_all.admonition = true → 0 < ({} : Cfg).tab := fun _ => by decide

/-- an admonition first and a fenced block, three blank lines in front: the same document -/
example :
    convertX C09X_all {} (List.replicate 3 '\n' ++ "!!! note\n    a\n\n```\nb\n```".toList) = .ok
      "<div class=\"admonition note\">\n<p class=\"admonition-title\">Note</p>\n<p>a</p>\n</div>\n<pre><code>b\n</code></pre>".toList := by
  decide +kernel


/-- **Blank lines behind a document that does not end in a code block, every extension.**
    `noCodeLast root`: the last child of the root of the parsed document is not a `pre` with a first child `code`
    (`C09_noCodeLast_iff`: a computation; a fenced block is a placeholder paragraph at this stage, not a `pre`).
    `m` more line feeds behind the source: the fenced-code preprocessor finds the same blocks and stores the same
    HTML; the trailing line feeds become empty blocks behind the document's blocks; no extension processor touches
    them, and the empty-block processor does nothing with them unless the last child is a code block.  (A line feed
    that completes a final `\r` to CRLF is absorbed by the normaliser.) -/
theorem C09X_doc_trailing_noCode (x : Exts) (cfg : Cfg) (htab : x.admonition = true → 0 < cfg.tab) (src : Str)
    (m : Nat)
    (h : ∀ text stash root log, prepareX x cfg src = .ok (text, stash) →
      BlockExt.parseDocumentXT x.tables x.blockCfg cfg.tab text = some (root, log) → noCodeLast root) :
    convertX x cfg (src ++ List.replicate m '\n') = convertX x cfg src :=
  C09X.convertX_trailing_noCode' x cfg htab src m h

/-- both -/
theorem C09X_doc_padding_noCode (x : Exts) (cfg : Cfg) (htab : x.admonition = true → 0 < cfg.tab) (src : Str)
    (k m : Nat)
    (h : ∀ text stash root log, prepareX x cfg src = .ok (text, stash) →
      BlockExt.parseDocumentXT x.tables x.blockCfg cfg.tab text = some (root, log) → noCodeLast root) :
    convertX x cfg (List.replicate k '\n' ++ src ++ List.replicate m '\n') = convertX x cfg src := by
  rw [List.append_assoc, C09X_doc_leading x cfg htab, C09X_doc_trailing_noCode x cfg htab src m h]

/-- without fenced_code the text handed to the block parser is the one of the core pipeline -/
theorem C09X_prepareX_nofence (x : Exts) (hf : x.fencedCode = false) (cfg : Cfg) (src : Str) :
    prepareX x cfg src =
      if x.admonition && admNonAscii (normalize cfg.tab src) then .ood else .ok (prepare cfg src, []) :=
  C09X.prepareX_nofence x hf cfg src

/-- the hypothesis as a computation: the last child of the parsed root is no code block (`some true`) -/
def C09X_noCodeLastB (x : Exts) (cfg : Cfg) (src : Str) : Option Bool :=
  match prepareX x cfg src with
  | .ok (text, _) =>
    (BlockExt.parseDocumentXT x.tables x.blockCfg cfg.tab text).map
      (fun (r : Node × Block.Refs) => (r.1.last?.bind Block.preCode).isNone)
  | _ => none

/-- … which gives the hypothesis of `C09X_doc_trailing_noCode` / `C09X_doc_padding_noCode` -/
theorem C09X_noCodeLast_of_B (x : Exts) (cfg : Cfg) (src : Str) (hB : C09X_noCodeLastB x cfg src = some true) :
    ∀ text stash root log, prepareX x cfg src = .ok (text, stash) →
      BlockExt.parseDocumentXT x.tables x.blockCfg cfg.tab text = some (root, log) → noCodeLast root := by
  intro text stash root log hp hd
  simp only [C09X_noCodeLastB, hp, hd, Option.map_some, Option.some.injEq] at hB
  unfold noCodeLast
  intro sib hs
  rw [hs] at hB
  simpa using hB

/-- an admonition, a fenced block, a definition list with a footnote reference, a footnote definition ending in
    `\r`, all eleven extensions on: no trailing code block … -/
example : C09X_noCodeLastB C09X_all {} "!!! note\n    a\n\n```\nb\n```\n\nT\n:   d[^1]\n\n[^1]: n\r".toList = some true := by
  decide +kernel

/-- … and the padded document converts to the same text -/
example : convertX C09X_all {}
    (List.replicate 2 '\n' ++ "!!! note\n    a\n\n```\nb\n```\n\nT\n:   d[^1]\n\n[^1]: n\r".toList ++
      List.replicate 3 '\n') = .ok
    "<div class=\"admonition note\">\n<p class=\"admonition-title\">Note</p>\n<p>a</p>\n</div>\n<pre><code>b\n</code></pre>\n<dl>\n<dt>T</dt>\n<dd>d<sup id=\"fnref:1\"><a class=\"footnote-ref\" href=\"#fn:1\">1</a></sup></dd>\n</dl>\n<div class=\"footnote\">\n<hr />\n<ol>\n<li id=\"fn:1\">\n<p>n&#160;<a class=\"footnote-backref\" href=\"#fnref:1\" title=\"Jump back to footnote 1 in the text\">&#8617;</a></p>\n</li>\n</ol>\n</div>".toList := by
  decide +kernel

end MdVerif.PipelineX
