/-
C03 — code is literal: text placed in a code block or code span reaches the output character for character, changed
only by the HTML-escaping of `&`, `<` and `>`; nothing inside code is interpreted.

Only property statements live here.  Helper lemmas are in `MdVerif/Lemmas/Code.lean` and `MdVerif/Lemmas/FencedCode.lean`.

Part 1 (the escaping).  Code text goes through `util.code_escape` (`codeEscape`, three `str.replace` passes) when
the code element is built, and later through the serializer's `_escape_cdata` (`Ser.escCdata`).  The theorems say:
the three passes are one left-to-right pass in which every character is judged once (`C03_codeEscape_onepass`);
the serializer leaves the result alone, so code is escaped exactly once (`C03_escape_once`); a tolerant reader of
the final output sees exactly the characters of the code, none of them as an entity or as markup
(`C03_code_reads_back`, `C03_code_reads_back_strict`, `C03_codeEscape_no_markup`); different code gives different
output (`C03_codeEscape_injective`).

Part 2 (fenced blocks, extension `fenced_code`).  `fenceFind` is a direct recogniser of `FENCED_BLOCK_RE`, `fencedRun`
the loop of `FencedBlockPreprocessor.run`.  A body none of whose lines closes the fence is taken as the code of the
block, whatever it contains (`C03_fence_body_literal`), is stored in the stash HTML-escaped and otherwise unchanged
(`C03_fencedRun_literal`), and the loop terminates within `text.length + 1` iterations (`C03_fencedRun_progress`).
-/
import MdVerif.Lemmas.Code
import MdVerif.Lemmas.FencedCode

namespace MdVerif.Code
open Py Ser

/-! ### Part 1: the escaping of code text -/

/-- the three `str.replace` passes of `util.code_escape` are one left-to-right pass: every character of the code is
    judged once, on the original text (`&` ↦ `&amp;`, `<` ↦ `&lt;`, `>` ↦ `&gt;`, anything else itself); in particular
    the `&` written by the `<` and `>` passes is never escaped again -/
theorem C03_codeEscape_onepass (s : Str) : codeEscape s = codeEscape1 s :=
  codeEscape_onepass s

/-- the fenced-code escaping (`&`, `<`, `>`, `"`) is one left-to-right pass as well -/
theorem C03_fenceEscape_onepass (s : Str) : fenceEscape s = fenceEscape1 s :=
  fenceEscape_onepass s

/-- **escaped exactly once.**  The serializer's `_escape_cdata` does not change escaped code: every `&` in it starts
    `&amp;`, `&lt;` or `&gt;` (which `RE_AMP` leaves alone) and no `<` or `>` is left -/
theorem C03_escape_once (s : Str) : escCdata (codeEscape s) = codeEscape s := by
  rw [codeEscape_onepass]; exact escCdata_codeEscape1 s

/-- **code is literal.**  Reading the escaped code back with the tolerant reader yields exactly the characters of
    the code, one token per character: nothing in code is read as an entity reference (`&amp;` typed in code is the
    five characters `&`, `a`, `m`, `p`, `;`) -/
theorem C03_code_reads_back (s : Str) : lenient cdata 0 (codeEscape s) = s.map Tok.ch := by
  rw [codeEscape_onepass]; exact lenient_codeEscape1 s

/-- the strict reader — which rejects any `<`, `>` or stray `&` — accepts the escaped code and reads the same
    characters -/
theorem C03_code_reads_back_strict (s : Str) : strict cdata 0 (codeEscape s) = some (s.map Tok.ch) := by
  rw [codeEscape_onepass]; exact strict_codeEscape1 s

/-- what is finally written for a code element's text (`code_escape`, then the serializer's `_escape_cdata`) reads
    back as the code -/
theorem C03_serialized_code_reads_back (s : Str) :
    lenient cdata 0 (escCdata (codeEscape s)) = s.map Tok.ch := by
  rw [C03_escape_once, C03_code_reads_back]

/-- **no markup survives.**  Whatever the code is, its escaped form contains no `<` and no `>`, and every `&` in
    it is followed by `amp;`, `lt;` or `gt;` -/
theorem C03_codeEscape_no_markup (s pre post : Str) (c : Char) (h : codeEscape s = pre ++ c :: post) :
    c ≠ '<' ∧ c ≠ '>' ∧
    (c = '&' → "amp;".toList <+: post ∨ "lt;".toList <+: post ∨ "gt;".toList <+: post) := by
  rw [codeEscape_onepass] at h
  have hm := mem_codeEscape1 s c (by rw [h]; simp)
  exact ⟨hm.1, hm.2, fun hc => amp_followed s pre post (by rw [h, hc])⟩

-- the hypothesis of `C03_codeEscape_no_markup` on a concrete input: the `&` written for `<`
example : codeEscape "a<&b>".toList = "a".toList ++ '&' :: "lt;&amp;b&gt;".toList := by decide

/-- different code gives different output: the escaping loses nothing -/
theorem C03_codeEscape_injective (s t : Str) (h : codeEscape s = codeEscape t) : s = t := by
  apply tokch_injective
  rw [← C03_code_reads_back s, ← C03_code_reads_back t, h]

-- concrete instances: entity syntax, tags and Markdown syntax in code stay what was typed
example : codeEscape "&amp; <b>*x*</b> &#38;".toList = "&amp;amp; &lt;b&gt;*x*&lt;/b&gt; &amp;#38;".toList := by decide
example : lenient cdata 0 (escCdata (codeEscape "&amp;".toList)) = [.ch '&', .ch 'a', .ch 'm', .ch 'p', .ch ';'] := by
  decide

end MdVerif.Code

namespace MdVerif.Fenced
open Py Ser Code

/-! ### Part 2: fenced code blocks -/

/-- the fenced-code escaping never leaves `<`, `>` or `"` in the stored HTML -/
theorem C03_fenceEscape_no_markup (s : Str) : ∀ c ∈ fenceEscape s, c ≠ '<' ∧ c ≠ '>' ∧ c ≠ '"' := by
  rw [fenceEscape_onepass]; exact mem_fenceEscape1 s

/-- the stored text of a fenced block reads back as exactly the characters of the code (reader that knows the four
    references `&amp;` `&lt;` `&gt;` `&quot;` the escaping writes): nothing typed in the block is an entity -/
theorem C03_fence_code_reads_back (s : Str) : lenient attr 0 (fenceEscape s) = s.map Tok.ch := by
  rw [fenceEscape_onepass]; exact lenient_fenceEscape1 s

/-- different block bodies are stored differently -/
theorem C03_fenceEscape_injective (s t : Str) (h : fenceEscape s = fenceEscape t) : s = t := by
  apply tokch_injective
  rw [← C03_fence_code_reads_back s, ← C03_fence_code_reads_back t, h]

/-- **the body of a fenced block is taken literally.**  Open a block with a fence of `n ≥ 3` tildes or backticks on
    a line of its own, let `b` be any text none of whose lines is that fence followed by spaces only, close with the
    same fence: the recogniser of `FENCED_BLOCK_RE` matches exactly this block, from the first fence to the end of the
    closing fence, with no language, and its code is `b` plus the line end — whatever `b` contains (other fences,
    shorter or longer fence runs, Markdown, HTML, entities) and whatever follows the block -/
theorem C03_fence_body_literal (n : Nat) (ch : Char) (b post : Str)
    (hch : ch = '~' ∨ ch = '`') (hn : 3 ≤ n) (hb : noCloseLine (List.replicate n ch) b = true) :
    fenceFind (List.replicate n ch ++ "\n".toList ++ b ++ "\n".toList ++ List.replicate n ch ++ "\n".toList ++ post) =
      some { start := 0, stop := n + 1 + (b.length + 1) + n, fence := List.replicate n ch,
             attrs := none, lang := some [], hl := none, code := b ++ "\n".toList } := by
  have := fenceFind_block n ch b post hch hn (by simpa [noCloseLine] using hb)
  simpa [List.append_assoc] using this

-- the hypotheses on a concrete input: a ``` block whose body holds a longer fence, an indented fence, a fence with
-- trailing text, emphasis, a tag and an entity
example : ('`' = '~' ∨ '`' = '`') ∧ 3 ≤ 3 ∧
    noCloseLine (List.replicate 3 '`') "````\n ```\n``` x\n~~~\n*b* <i> &amp;".toList = true := by decide
-- and a line that does close it
example : noCloseLine (List.replicate 3 '`') "a\n```  \nb".toList = false := by decide

/-- **… and stored HTML-escaped, otherwise unchanged.**  For such a block (alone in the text) the preprocessor
    replaces it by the first placeholder between line ends and stores `<pre><code>` + the escaped body + `</code></pre>` -/
theorem C03_fencedRun_literal (n : Nat) (ch : Char) (b : Str)
    (hch : ch = '~' ∨ ch = '`') (hn : 3 ≤ n) (hb : noCloseLine (List.replicate n ch) b = true) :
    fencedRun (List.replicate n ch ++ "\n".toList ++ b ++ "\n".toList ++ List.replicate n ch ++ "\n".toList) =
      .ok ("\n".toList ++ placeholder 0 ++ "\n\n".toList)
        ["<pre><code>".toList ++ fenceEscape (b ++ "\n".toList) ++ "</code></pre>".toList] := by
  have h := fencedRun_block n ch b hch hn (by simpa [noCloseLine] using hb)
  have e1 : List.replicate n ch ++ "\n".toList ++ b ++ "\n".toList ++ List.replicate n ch ++ "\n".toList =
      List.replicate n ch ++ '\n' :: (b ++ '\n' :: (List.replicate n ch ++ ['\n'])) := by
    simp only [List.append_assoc]; rfl
  rw [e1, h, blockHtml_nolang]; rfl

-- a concrete run: two blocks, a language, code holding markup
example : fencedRun "```py\n<b>&amp;\n```\n\n~~~\n*x*\n~~~".toList =
    .ok ("\n".toList ++ placeholder 0 ++ "\n\n\n\n".toList ++ placeholder 1 ++ "\n".toList)
      ["<pre><code class=\"language-py\">&lt;b&gt;&amp;amp;\n</code></pre>".toList,
       "<pre><code>*x*\n</code></pre>".toList] := by decide

/-- every match the loop acts on starts at or after `index`, is non-empty and lies inside the text -/
theorem C03_fence_match_bounds (text : Str) (index : Nat) (m : FenceMatch)
    (h : fenceFindFrom text index = some m) :
    index ≤ m.start ∧ m.start + 3 ≤ m.stop ∧ m.stop ≤ text.length :=
  fenceFindFrom_bounds text index m h

-- the hypothesis on a concrete input: searching from inside the first block finds the second
example : (fenceFindFrom "```\na\n```\n~~~\nb\n~~~".toList 1).map (fun m => (m.start, m.stop)) = some (10, 19) := by
  decide

/-- **the loop makes progress.**  Each iteration replaces a non-empty match and continues strictly after the inserted
    placeholder, so `text.length + 1` iterations always suffice: more fuel gives the same result, and the result is
    never "out of fuel" -/
theorem C03_fencedRun_progress (text : Str) (fuel : Nat) (h : text.length + 1 ≤ fuel) :
    fencedLoop fuel text 0 [] = fencedRun text ∧ fencedRun text ≠ .fuel := by
  have h1 := fencedLoop_stable (text.length + 1) fuel text 0 [] (by omega) (by omega)
  exact ⟨h1.1.symm, h1.2⟩

-- the hypothesis on a concrete input
example : "```\na\n```".toList.length + 1 ≤ 12 := by decide

end MdVerif.Fenced
