/-
C08 — top-level blocks render independently; the INLINE + tree-processor + serialisation half.

Property: "If B begins with a paragraph, heading or horizontal rule, then converting A, a blank line, and B yields the
rendering of A followed by the rendering of B."  The block-parser half (the children of the parsed `A ⏎⏎ B` are the
children of `A` followed by those of `B`) is `Props/C08Block.lean`.  Here: if the block tree of the combined document
is `div[csA ++ csB]`, the final output is `output(A) ++ "\n" ++ output(B)`.

The one channel between blocks in these stages is the global counter of the inline stash: the placeholders
`STX klzzwxh:NNNN ETX` of elements made from B are numbered after those of A.  Ids are only names: all of
`handleInline`, `processPlaceholders` and the stack loop of `InlineProcessor.run` map texts/trees/states that are
equal *up to a renaming `ρ` of ids* (`Sh okI ρ`, `NRel okI ρ`, `StRel okI ρ`) to such texts/trees/states
(`C08_counter_shift`, `C08_element_independent`), and a tree without placeholders is the same on both sides
(`C08_run_children_independent`).  Prettify, unescape and the serializer work child by child (`C08_prettify_local`,
`C08_unescape_local`, `C08_serialize_local`), and `C08_inline_half` composes everything up to the final string.

Domain (decidable predicates, see the `example`s): every text of the trees is *plain* (`plainTreeB okI`): no `[`
(links, images, references), no `&`, `<`, `>`, and every STX is the head of an escape token `STX digit…`
(`normalize_whitespace` removes STX/ETX from the source, so block-parser trees contain none); `ESCAPED_CHARS` does not
contain STX; at most 10000 inline stash entries (ids have four digits up to 9999); the three runs do not exhaust the
model's fuel; no placeholder is left in the result of the combined run (`plainTreeB okI r`) — or, equivalently here, in
the results of the two separate runs (true of all 3856 random documents of the domain we ran; it is what the engine is
there for, but it is a hypothesis, not a theorem).  Code spans, backslash escapes, hard line breaks, `*`/`_` emphasis of any nesting,
lists/quotes of any depth are inside the domain.

Outside the domain the property is FALSE, on the real implementation as well (placeholder ids leak into attributes):
`C08_counterexample_alt`, `C08_counterexample_href` (kernel-checked on the model; same outputs from /repo).
-/
import MdVerif.Lemmas.InlineLocal

namespace MdVerif.InlineLocal
open Py Inline

/-! ### the statements use: `okI`, `plainB`, `plainTreeB`, `root`, `Sh`, `NRel`, `StRel` (from `Lemmas/InlineLocal`) -/

/-- the tail of `Markdown.convert` behind the inline tree processor: prettify, unescape, serializer, strip of the
    `<div>`, postprocessors, final strip — for the tree `r` and the HTML stash `html` the inline stage returned -/
def after (pc : Pipeline.Cfg) (r : Node) (html : List Str) : Pipeline.Outcome :=
  match TreeProc.unescapeTree (TreeProc.prettify r pc.blockLevel) with
  | none => .err
  | some u =>
    match Post.finish pc.blockLevel html (Ser.serialize pc.fmt u) with
    | none => .oof
    | some none => .err
    | some (some out) => .ok out

/-- `after` is what `Pipeline.convert` (the model of `Markdown.convert`) does behind the inline stage -/
theorem C08_convert_eq_after (pc : Pipeline.Cfg) (src : Str) (h1 : src.contains '<' = false)
    (h2 : Normalize.isBlankDoc src = false) {tree t : Node} {refs : Block.Refs} {st : St}
    (hp : Block.parseDocument pc.tab (Pipeline.prepare pc src) = some (tree, refs))
    (hr : Inline.run { esc := pc.esc, refs := refs.reverse } tree = some (t, st)) :
    Pipeline.convert pc src = after pc t st.html := by
  unfold Pipeline.convert Pipeline.tree after
  simp only [h1, h2, hp, hr, Bool.false_eq_true, if_false]
  cases TreeProc.unescapeTree (TreeProc.prettify t pc.blockLevel) with
  | none => rfl
  | some u => rfl

/-! ### 1. the stash counter: ids are only names -/

/-- **counter shift.**  `handleInline` on the same plain text from two arbitrary states (e.g. the stash already holds
    `k` entries of earlier blocks, or none): the two resulting texts are equal up to a renaming `ρ` of the placeholder
    ids, the two stashes hold related entries under related ids, the HTML stash is untouched, and
    `processPlaceholders` of the two texts over the two stashes yields nodes that are equal up to `ρ` (equal, when no
    placeholder is left in them: `C08_plain_eq`). -/
theorem C08_counter_shift (cfg : Cfg) (hesc : cfg.esc.contains STX = false) {data : Str} (hd : plainB okI data = true)
    {st st' st1 st1' : St} {d1 d1' : Str}
    (h : handleInlineTop cfg data st = some (d1, st1)) (h' : handleInlineTop cfg data st' = some (d1', st1'))
    (hb : st1.stash.length ≤ 10000) (hb' : st1'.stash.length ≤ 10000) :
    ∃ ρ : Rho, Sh okI ρ d1 d1' ∧ StRel okI ρ st1 st1' ∧ st1.html = st.html ∧ st1'.html = st'.html ∧
      ∀ (parent : Node) (atomic isText : Bool) (res res' : List Node) (p p' : Node), PlainTree okI parent →
        ppTop st1 d1 atomic parent isText = some (res, p) → ppTop st1' d1' atomic parent isText = some (res', p') →
        NRelL okI ρ res res' ∧ NRel okI ρ p p' := by
  obtain ⟨ρ, -, hsh, hsr, hh, hh'⟩ := handleInlineTop_sim okD_okI cfg hesc (emSim okI)
    ((plain_of_plainB _ data rfl hd).sh Rho.none) (StRel.none okI st st') h h' hb hb'
  refine ⟨ρ, hsh, hsr, hh, hh', ?_⟩
  intro parent atomic isText res res' p p' hpar q q'
  exact ppTop_sim hsr hsh (NRel.mono (fun _ _ h => h.elim) hpar) atomic isText q q'

/-- trees that are equal up to a renaming of ids are equal when one of them contains no placeholder -/
theorem C08_plain_eq {ρ : Rho} {n n' : Node} (h : NRel okI ρ n n') (hp : plainTreeB okI n' = true) : n = n' :=
  NRel.eq_of_plain_right h (plainTree_of_B hp)

/-- **one element.**  Visiting one child (its text, its tail: `handleInline` + `processPlaceholders`) from two
    arbitrary states gives the same rebuilt child, the same new elements and the same stack pushes, up to a renaming
    of the ids that are still referred to from deeper texts. -/
theorem C08_element_independent (cfg : Cfg) (hesc : cfg.esc.contains STX = false) {child : Node}
    (hc : plainTreeB okI child = true) (s s' : St) {c c' : Node} {tr tr' : List Node} {v1 v1' : Visit}
    (h : visitChild cfg child { st := s } = some (c, tr, v1))
    (h' : visitChild cfg child { st := s' } = some (c', tr', v1'))
    (hb : v1.st.stash.length ≤ 10000) (hb' : v1'.st.stash.length ≤ 10000) :
    ∃ ρ : Rho, NRel okI ρ c c' ∧ NRelL okI ρ tr tr' ∧ v1.pushes = v1'.pushes ∧ StRel okI ρ v1.st v1'.st ∧
      v1.st.html = s.html ∧ v1'.st.html = s'.html := by
  obtain ⟨ρ, -, hcc, htr, hv, -, -, hh, hh'⟩ := visitChild_sim okD_okI cfg hesc (emSim okI)
    (ρ := Rho.none) (v := { st := s }) (v' := { st := s' }) (plainTree_of_B hc)
    ⟨by simp only [NRelL], rfl, rfl, StRel.none okI s s'⟩ h h' hb hb'
  exact ⟨ρ, hcc, htr, hv.pushes, hv.st, hh, hh'⟩

theorem plainTreeLB_append {ok : Char → Bool} : ∀ {a b : List Node}, plainTreeLB ok a = true → plainTreeLB ok b = true →
    plainTreeLB ok (a ++ b) = true
  | [], _, _, hb => hb
  | x :: xs, b, ha, hb => by
    simp only [plainTreeLB, Bool.and_eq_true, List.cons_append] at ha ⊢
    exact ⟨ha.1, plainTreeLB_append ha.2 hb⟩

/-! ### 2. the run -/

/-- **the inline stage treats the halves of the document independently.**  `InlineProcessor.run` on `div[cs1 ++ cs2]`
    gives `div[cs1' ++ cs2']` where `div[cs1']`, `div[cs2']` are its results on `div[cs1]` and `div[cs2]` — although the
    descendants of `cs2` are processed before those of `cs1` and with a stash that holds entries of both.
    `hr`: no placeholder is left in the combined result, or none in the two separate results. -/
theorem C08_run_children_independent (cfg : Cfg) (hesc : cfg.esc.contains STX = false) {cs1 cs2 : List Node}
    (hp1 : plainTreeLB okI cs1 = true) (hp2 : plainTreeLB okI cs2 = true)
    {r1 r2 r : Node} {t1 t2 t : St}
    (e1 : Inline.run cfg (root cs1) = some (r1, t1))
    (e2 : Inline.run cfg (root cs2) = some (r2, t2))
    (e12 : Inline.run cfg (root (cs1 ++ cs2)) = some (r, t))
    (hN1 : t1.stash.length ≤ 10000) (hN2 : t2.stash.length ≤ 10000) (hN : t.stash.length ≤ 10000)
    (hr : plainTreeB okI r = true ∨ (plainTreeB okI r1 = true ∧ plainTreeB okI r2 = true)) :
    r = root (r1.children ++ r2.children) ∧ r1 = root r1.children ∧ r2 = root r2.children ∧
      t.html = [] ∧ t1.html = [] ∧ t2.html = [] := by
  obtain ⟨a, b, c⟩ : r = root (r1.children ++ r2.children) ∧ r1 = root r1.children ∧ r2 = root r2.children := by
    rcases hr with hr | ⟨hr1, hr2⟩
    · exact run_append_eq okD_okI cfg hesc (emSim okI) hp1 hp2 e1 e2 e12 hN1 hN2 hN hr
    · exact run_append_eq' okD_okI cfg hesc (emSim okI) hp1 hp2 e1 e2 e12 hN1 hN2 hN hr1 hr2
  have hp12 : plainTreeLB okI (cs1 ++ cs2) = true := plainTreeLB_append hp1 hp2
  exact ⟨a, b, c, run_html okD_okI cfg hesc (emSim okI) hp12 e12 hN, run_html okD_okI cfg hesc (emSim okI) hp1 e1 hN1,
    run_html okD_okI cfg hesc (emSim okI) hp2 e2 hN2⟩

/-- the top-level children keep tag, attributes and their (absent) tail, and none is added -/
theorem C08_run_keeps_top_level (cfg : Cfg) {cs : List Node} {h : List Str} {r : Node} {t : St}
    (e : Inline.run cfg (root cs) h = some (r, t)) (ht : ∀ c ∈ cs, Node.truthy c.tail = false) :
    r.children.map sig = cs.map sig :=
  run_sig e ht

/-! ### 3. prettify, unescape, serializer, the end of `convert` -/

/-- `PrettifyTreeprocessor` works child by child on the root (each block-level child gets the tail `"\n"`, whatever its
    siblings are: `prettify_root_child_tail`) -/
theorem C08_prettify_local (bl : List Str) (cs1 cs2 : List Node) :
    (TreeProc.prettify (root (cs1 ++ cs2)) bl).children =
      (TreeProc.prettify (root cs1) bl).children ++ (TreeProc.prettify (root cs2) bl).children :=
  prettify_root_children bl cs1 cs2

/-- `UnescapeTreeprocessor` works child by child (it fails — `chr()` out of range — iff it fails on a part) -/
theorem C08_unescape_local (a b : List Node) :
    TreeProc.unescapeKids (a ++ b) =
      match TreeProc.unescapeKids a, TreeProc.unescapeKids b with
      | some x, some y => some (x ++ y)
      | _, _ => none :=
  unescapeKids_append a b

/-- the serializer writes the children one after the other -/
theorem C08_serialize_local (fmt : Ser.Fmt) (ks1 ks2 : List Node) :
    Ser.serializeList fmt (ks1 ++ ks2) = Ser.serializeList fmt ks1 ++ Ser.serializeList fmt ks2 :=
  serializeList_append fmt ks1 ks2

/-- `after` on a root with an empty HTML stash -/
theorem after_root (pc : Pipeline.Cfg) (cs : List Node) : after pc (root cs) [] = render pc.fmt pc.blockLevel cs := rfl

/-- **the output of the later stages is the outputs of the parts joined by a newline** (an empty part contributes
    nothing); it is an error (`chr()` out of range in unescape) iff a part is.  `topChild`: block-level tag, no tail,
    and — `html` output only — a void element has no text and no children. -/
theorem C08_render_local (pc : Pipeline.Cfg) (cs1 cs2 : List Node) (hd : divBlock pc.blockLevel = true)
    (h1 : ∀ c ∈ cs1, topChild pc.fmt pc.blockLevel c = true) (h2 : ∀ c ∈ cs2, topChild pc.fmt pc.blockLevel c = true) :
    after pc (root (cs1 ++ cs2)) [] =
      match after pc (root cs1) [], after pc (root cs2) [] with
      | .ok o1, .ok o2 => .ok (if cs1.isEmpty || cs2.isEmpty then o1 ++ o2 else o1 ++ ['\n'] ++ o2)
      | _, _ => .err := by
  rw [after_root, after_root, after_root]
  exact render_append_total pc.fmt pc.blockLevel cs1 cs2 hd h1 h2

/-! ### 4. composition -/

/-- **C08, inline half.**  From the block tree `div[csA ++ csB]` of the combined document to the final string:
    the output is the output for `div[csA]`, a newline, the output for `div[csB]`. -/
theorem C08_inline_half (pc : Pipeline.Cfg) (cfg : Cfg) (hesc : cfg.esc.contains STX = false)
    (hd : divBlock pc.blockLevel = true) {csA csB : List Node}
    (hpA : plainTreeLB okI csA = true) (hpB : plainTreeLB okI csB = true)
    {rA rB r : Node} {tA tB t : St}
    (eA : Inline.run cfg (root csA) = some (rA, tA))
    (eB : Inline.run cfg (root csB) = some (rB, tB))
    (eAB : Inline.run cfg (root (csA ++ csB)) = some (r, t))
    (hNA : tA.stash.length ≤ 10000) (hNB : tB.stash.length ≤ 10000) (hN : t.stash.length ≤ 10000)
    (hr : plainTreeB okI r = true ∨ (plainTreeB okI rA = true ∧ plainTreeB okI rB = true))
    (hA : ∀ c ∈ rA.children, topChild pc.fmt pc.blockLevel c = true)
    (hB : ∀ c ∈ rB.children, topChild pc.fmt pc.blockLevel c = true) :
    after pc r t.html =
      match after pc rA tA.html, after pc rB tB.html with
      | .ok oA, .ok oB => .ok (if rA.children.isEmpty || rB.children.isEmpty then oA ++ oB else oA ++ ['\n'] ++ oB)
      | _, _ => .err := by
  obtain ⟨e, eA', eB', h0, hA0, hB0⟩ :=
    C08_run_children_independent cfg hesc hpA hpB eA eB eAB hNA hNB hN hr
  rw [h0, hA0, hB0, e]
  conv => rhs; rw [eA', eB']
  exact C08_render_local pc rA.children rB.children hd hA hB

theorem blockChild_of_sig {bl : List Str} {c c0 : Node} (h : sig c = sig c0) : blockChild bl c = blockChild bl c0 := by
  have e1 : c.tag = c0.tag := congrArg (fun x => x.1) h
  have e2 : c.tail = c0.tail := congrArg (fun x => x.2.2.1) h
  simp only [blockChild, e1, e2]

theorem topChild_of_run {cfg : Cfg} {bl : List Str} {cs : List Node} {r : Node} {t : St}
    (e : Inline.run cfg (root cs) = some (r, t)) (h : ∀ c ∈ cs, blockChild bl c = true ∧ c.tail = none) :
    (∀ c ∈ r.children, topChild .xhtml bl c = true) ∧ r.children.length = cs.length := by
  have hs := run_sig e (fun c hc => by rw [(h c hc).2]; rfl)
  refine ⟨fun c hc => ?_, by simpa using congrArg List.length hs⟩
  have : sig c ∈ cs.map sig := by rw [← hs]; exact List.mem_map_of_mem hc
  obtain ⟨c0, hc0, hsig⟩ := List.mem_map.1 this
  simp only [topChild, voidOk, decide_true, Bool.true_or, Bool.and_true]
  rw [blockChild_of_sig hsig.symm]
  exact (h c0 hc0).1

/-- **C08, inline half, hypotheses on the block trees only** (`xhtml` output, the default): the top-level elements of
    both parts are block-level and have no tail (what the block parser produces), both parts are non-empty. -/
theorem C08_inline_half_xhtml (pc : Pipeline.Cfg) (hfmt : pc.fmt = .xhtml) (cfg : Cfg)
    (hesc : cfg.esc.contains STX = false) (hd : divBlock pc.blockLevel = true) {csA csB : List Node}
    (hpA : plainTreeLB okI csA = true) (hpB : plainTreeLB okI csB = true)
    (hbA : ∀ c ∈ csA, blockChild pc.blockLevel c = true ∧ c.tail = none)
    (hbB : ∀ c ∈ csB, blockChild pc.blockLevel c = true ∧ c.tail = none)
    (hneA : csA ≠ []) (hneB : csB ≠ [])
    {rA rB r : Node} {tA tB t : St}
    (eA : Inline.run cfg (root csA) = some (rA, tA))
    (eB : Inline.run cfg (root csB) = some (rB, tB))
    (eAB : Inline.run cfg (root (csA ++ csB)) = some (r, t))
    (hNA : tA.stash.length ≤ 10000) (hNB : tB.stash.length ≤ 10000) (hN : t.stash.length ≤ 10000)
    (hr : plainTreeB okI r = true ∨ (plainTreeB okI rA = true ∧ plainTreeB okI rB = true)) :
    after pc r t.html =
      match after pc rA tA.html, after pc rB tB.html with
      | .ok oA, .ok oB => .ok (oA ++ ['\n'] ++ oB)
      | _, _ => .err := by
  obtain ⟨hA, lA⟩ := topChild_of_run eA hbA
  obtain ⟨hB, lB⟩ := topChild_of_run eB hbB
  have := C08_inline_half pc cfg hesc hd hpA hpB eA eB eAB hNA hNB hN hr (by rw [hfmt]; exact hA) (by rw [hfmt]; exact hB)
  rw [this]
  have nA : rA.children.isEmpty = false := by
    cases h : rA.children with
    | nil => rw [h] at lA; exact absurd (List.eq_nil_of_length_eq_zero lA.symm) hneA
    | cons _ _ => rfl
  have nB : rB.children.isEmpty = false := by
    cases h : rB.children with
    | nil => rw [h] at lB; exact absurd (List.eq_nil_of_length_eq_zero lB.symm) hneB
    | cons _ _ => rfl
  simp only [nA, nB, Bool.or_self, Bool.false_eq_true, if_false]


/-- **C08 at the level of `Markdown.convert`, given the block-parser half.**  If the block parser gives `div[csA]` for
    `A`, `div[csB]` for `B` and `div[csA ++ csB]` for the combined source `AB` (that is the statement of the block half,
    `Props/C08Block.lean`), no reference definitions, then — in the domain above — converting `AB` yields the rendering
    of `A`, a newline, and the rendering of `B`. -/
theorem C08_convert_of_block_half (pc : Pipeline.Cfg) (hfmt : pc.fmt = .xhtml) (hesc : pc.esc.contains STX = false)
    (hd : divBlock pc.blockLevel = true) {srcA srcB srcAB : Str}
    (hlA : srcA.contains '<' = false) (hlB : srcB.contains '<' = false) (hlAB : srcAB.contains '<' = false)
    (hnA : Normalize.isBlankDoc srcA = false) (hnB : Normalize.isBlankDoc srcB = false)
    (hnAB : Normalize.isBlankDoc srcAB = false) {csA csB : List Node}
    (pA : Block.parseDocument pc.tab (Pipeline.prepare pc srcA) = some (root csA, []))
    (pB : Block.parseDocument pc.tab (Pipeline.prepare pc srcB) = some (root csB, []))
    (pAB : Block.parseDocument pc.tab (Pipeline.prepare pc srcAB) = some (root (csA ++ csB), []))
    (hpA : plainTreeLB okI csA = true) (hpB : plainTreeLB okI csB = true)
    (hbA : ∀ c ∈ csA, blockChild pc.blockLevel c = true ∧ c.tail = none)
    (hbB : ∀ c ∈ csB, blockChild pc.blockLevel c = true ∧ c.tail = none)
    (hneA : csA ≠ []) (hneB : csB ≠ [])
    {rA rB r : Node} {tA tB t : St}
    (eA : Inline.run { esc := pc.esc, refs := [] } (root csA) = some (rA, tA))
    (eB : Inline.run { esc := pc.esc, refs := [] } (root csB) = some (rB, tB))
    (eAB : Inline.run { esc := pc.esc, refs := [] } (root (csA ++ csB)) = some (r, t))
    (hNA : tA.stash.length ≤ 10000) (hNB : tB.stash.length ≤ 10000) (hN : t.stash.length ≤ 10000)
    (hr : plainTreeB okI r = true ∨ (plainTreeB okI rA = true ∧ plainTreeB okI rB = true)) :
    Pipeline.convert pc srcAB =
      match Pipeline.convert pc srcA, Pipeline.convert pc srcB with
      | .ok oA, .ok oB => .ok (oA ++ ['\n'] ++ oB)
      | _, _ => .err := by
  rw [C08_convert_eq_after pc srcAB hlAB hnAB pAB (by simpa using eAB),
    C08_convert_eq_after pc srcA hlA hnA pA (by simpa using eA),
    C08_convert_eq_after pc srcB hlB hnB pB (by simpa using eB)]
  exact C08_inline_half_xhtml pc hfmt { esc := pc.esc, refs := [] } hesc hd hpA hpB hbA hbB hneA hneB eA eB eAB hNA hNB hN hr

/-! ### examples: the hypotheses are satisfiable by non-trivial input; the excluded points are real -/

section Examples

def exP (s : String) : Node := { Node.el "p" with text := some s.toList }
def exLi (s : String) (ks : List Node) : Node := { Node.el "li" with text := some s.toList, children := ks }
def exUl (ks : List Node) : Node := { Node.el "ul" with children := ks }

/-- part A: a paragraph with a code span, an escape, nested emphasis around code, a hard break; a nested list -/
def exA : List Node :=
  [exP "a `b` \\* ***x `y` *z* w*** __q__  \nr", exUl [exLi "i `j` *k*" [exUl [exLi "l \\` **m _n_**" []]]]]
/-- part B: a heading, a rule, a paragraph -/
def exB : List Node :=
  [{ Node.el "h1" with text := some "`c` *d* \\_".toList }, Node.el "hr", exP "_a *b `c` \\# d* e_"]

example : plainTreeLB okI exA = true ∧ plainTreeLB okI exB = true := by decide +kernel
example : ({} : Cfg).esc.contains STX = false := by decide +kernel
example : divBlock ({} : Pipeline.Cfg).blockLevel = true := by decide +kernel
example : (exA ++ exB).all (fun c => blockChild ({} : Pipeline.Cfg).blockLevel c && c.tail.isNone) = true := by
  decide +kernel

/-- the three runs succeed, fewer than 10000 stash entries, the combined result has no placeholder left, the
    top-level children of the results are `topChild`ren in both formats, and the HTML stash is empty -/
example :
    (match Inline.run {} (root exA), Inline.run {} (root exB), Inline.run {} (root (exA ++ exB)) with
     | some (rA, tA), some (rB, tB), some (r, t) =>
       decide (tA.stash.length ≤ 10000) && decide (tB.stash.length ≤ 10000) && decide (t.stash.length ≤ 10000) &&
       decide (t.stash.length = 18) && plainTreeB okI r &&
       rA.children.all (fun c => topChild .html ({} : Pipeline.Cfg).blockLevel c && topChild .xhtml ({} : Pipeline.Cfg).blockLevel c) &&
       rB.children.all (fun c => topChild .html ({} : Pipeline.Cfg).blockLevel c && topChild .xhtml ({} : Pipeline.Cfg).blockLevel c) &&
       t.html.isEmpty
     | _, _, _ => false) = true := by decide +kernel

/-- and the conclusion on this input, computed: the output of the combined tree is the two outputs joined by `\n` -/
example :
    (match Inline.run {} (root exA), Inline.run {} (root exB), Inline.run {} (root (exA ++ exB)) with
     | some (rA, tA), some (rB, tB), some (r, t) =>
       (match after {} rA tA.html, after {} rB tB.html, after {} r t.html with
        | .ok a, .ok b, .ok ab => decide (ab = a ++ ['\n'] ++ b) && decide (a.length = 203)
        | _, _, _ => false)
     | _, _, _ => false) = true := by decide +kernel

def exSer (o : Option (Node × St)) : Option Str := o.map (fun x => Ser.serializeList .xhtml x.1.children)

/-- **outside the domain the property is false** (image in the domain of `[`): the `alt` of an image is made by a
    one-level `unescape`; for `![a [*x*](y)](z)` that is the text of the stashed `<a>`, which is itself the placeholder
    of the nested `<em>` — its stash id leaks into the output, so the output of B depends on how many stash entries A
    made.  `markdown.markdown("![a [*x*](y)](z)")` is `<p><img alt="a \x02klzzwxh:0000\x03" src="z" /></p>`; after
    "`a`" and a blank line the same paragraph renders with `klzzwxh:0001` (checked on /repo). -/
theorem C08_counterexample_alt :
    exSer (Inline.run {} (root [exP "![a [*x*](y)](z)"])) =
      some "<p><img alt=\"a \x02klzzwxh:0000\x03\" src=\"z\" /></p>".toList ∧
    exSer (Inline.run {} (root [exP "`a`", exP "![a [*x*](y)](z)"])) =
      some "<p><code>a</code></p><p><img alt=\"a \x02klzzwxh:0001\x03\" src=\"z\" /></p>".toList := by
  decide +kernel

/-- a second leak: `getLink` takes `href = data[start:last_bracket - 1]` with `last_bracket = -1` when a quote is
    followed by `(` and the link never closes, which cuts a placeholder at the end of the text in two; the partial
    placeholder keeps the first three digits of the id.  `markdown.markdown('[a](b"( `c`')` is
    `<p><a href="b&quot;( \x02klzzwxh:000">a</a>\x03</p>`; after a paragraph with ten code spans it renders with
    `klzzwxh:001` (checked on /repo). -/
theorem C08_counterexample_href :
    exSer (Inline.run {} (root [exP "[a](b\"( `c`"])) =
      some "<p><a href=\"b&quot;( \x02klzzwxh:000\">a</a>\x03</p>".toList ∧
    exSer (Inline.run {} (root [exP "`a` `a` `a` `a` `a` `a` `a` `a` `a` `a`", exP "[a](b\"( `c`"])) =
      some ("<p><code>a</code> <code>a</code> <code>a</code> <code>a</code> <code>a</code> <code>a</code> " ++
        "<code>a</code> <code>a</code> <code>a</code> <code>a</code></p>" ++
        "<p><a href=\"b&quot;( \x02klzzwxh:001\">a</a>\x03</p>").toList := by
  decide +kernel

end Examples

end MdVerif.InlineLocal
