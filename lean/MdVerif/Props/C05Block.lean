/-
C05 (block stage) — the tree the block parser builds uses only Markdown's element vocabulary and lies in the domain of
the serialise/read round trip.

C05: "When the input contains no `<` character, the output is a well-formed XHTML fragment built only from Markdown's
element vocabulary (p, h1-h6, ul, ol, li, blockquote, pre, code, hr, br, em, strong, a, img) with only href, title, src
and alt attributes: every element is closed and properly nested, every attribute value is quoted, every `>` and bare `&`
coming from the text is escaped, and so is every `"` inside an attribute value."

The output is `serialize` of a tree; C14 (`C14_roundtrip`) says that the serialisation of a tree satisfying `WFTree`
reads back, with a strict reader, to that tree.  What remains is an invariant: every tree the pipeline builds uses only
the vocabulary and satisfies `WFTree`.  This file has the glue (`vocabNode ∧ voidOk → WFTree`) and the block-parser
part of the invariant, for every text and every `tab_length` (no hypothesis on the text is needed at this stage: every
construction site of the block parser uses a literal tag).

Only property statements live here; the predicates are in `MdVerif/Spec/Vocab.lean`, the proofs in
`MdVerif/Lemmas/BlockVocab.lean`, the model of the block parser in `MdVerif/Model/Block.lean`.
-/
import MdVerif.Lemmas.BlockVocab

namespace MdVerif.Block
open Py Vocab Ser

/-! ### 1. glue: vocabulary trees are well-formed trees -/

/-- **vocabulary ⇒ well-formed.** A tree all of whose nodes are ordinary elements of the vocabulary, with allowed and
    pairwise distinct attribute names (`vocabNode`), and whose `hr`/`br`/`img` are empty (`voidOk`), is in the domain
    `WFTree` of the round-trip theorem C14. -/
theorem C05_vocab_implies_WFTree (n : Node) (hv : vocabNode n = true) (ho : voidOk n = true) : WFTree n = true :=
  vocab_implies_WFTree n hv ho

/-- the same for the document tree: the wrapper `div` around vocabulary content -/
theorem C05_vocabDoc_implies_WFTree (root : Node) (h : vocabDoc root = true) : WFTree root = true :=
  vocabDoc_implies_WFTree root h

/-! ### 2. the block parser stays inside the vocabulary -/

/-- **block vocabulary.** For every text and every tab length, the tree built by `parseDocument` is the wrapper `div`,
    without attributes, around a content in which every node is an ordinary element of the vocabulary (never a
    comment, a processing instruction, a `None`-tag or a `QName`; never a `div`) and every `hr` is empty. -/
theorem C05_block_vocab (tab : Nat) (text : Str) (root : Node) (refs : Refs)
    (h : parseDocument tab text = some (root, refs)) : vocabDoc root = true :=
  let ⟨htag, hb⟩ := parseDocument_ok h
  hb.vocabDoc htag

/-- `vocabDoc` spelled out -/
theorem C05_block_vocab_unfolded (tab : Nat) (text : Str) (root : Node) (refs : Refs)
    (h : parseDocument tab text = some (root, refs)) :
    root.tag = .name "div".toList ∧ root.attrs = [] ∧ vocabNodes root.children = true ∧
    voidOkNodes root.children = true := by
  have := C05_block_vocab tab text root refs h
  simp only [vocabDoc, Bool.and_eq_true, beq_iff_eq, List.isEmpty_iff] at this
  exact ⟨this.1.1.1, this.1.1.2, this.1.2, this.2⟩

/-- **the block tree is serialisable faithfully**: it satisfies the hypothesis of `C14_roundtrip`. -/
theorem C05_block_wellformed (tab : Nat) (text : Str) (root : Node) (refs : Refs)
    (h : parseDocument tab text = some (root, refs)) : WFTree root = true :=
  C05_vocabDoc_implies_WFTree root (C05_block_vocab tab text root refs h)

/-- **block-stage elements.** Below the wrapper the block parser creates only `p`, `h1`–`h6`, `ul`, `ol`, `li`,
    `blockquote`, `pre`, `code`, `hr`: the remaining elements of the vocabulary (`br`, `em`, `strong`, `a`, `img`) can
    only come from the inline stage. -/
theorem C05_block_tags (tab : Nat) (text : Str) (root : Node) (refs : Refs)
    (h : parseDocument tab text = some (root, refs)) : onlyTagsNodes blockStageTags root.children = true := by
  obtain ⟨_, hb⟩ := parseDocument_ok h
  exact onlyTagsNodes_of_forall _ _ (fun k hk => (hb.kids hk).onlyTags (by
    obtain ⟨t, ht, _⟩ := hb; rw [kctx_of_tag ht]; exact kidCtx_ne_top t))

/-! ### 3. the block stage creates no attribute -/

/-- **no attributes.** No node of the tree built by the block parser has an attribute (with the default
    `lazy_ol=True` the `start` attribute of `ol` is never set): attributes can only come from the inline stage. -/
theorem C05_block_no_attrs (tab : Nat) (text : Str) (root : Node) (refs : Refs)
    (h : parseDocument tab text = some (root, refs)) : noAttrs root = true :=
  (parseDocument_ok h).2.noAttrs

/-! ### 4. atomic strings after block parsing -/

/-- **atomic texts.** After block parsing the only `AtomicString` texts are the texts of `code` elements that are
    children of a `pre`; no tail is atomic. -/
theorem C05_block_text_atomic_code (tab : Nat) (text : Str) (root : Node) (refs : Refs)
    (h : parseDocument tab text = some (root, refs)) : atomicOnlyCode false root = true :=
  (parseDocument_ok h).2.atomicOnlyCode

/-! ### non-vacuity -/

/-- a document that exercises every block processor -/
def sampleDoc : Str :=
  ("# H\n\nT\n==\n\n1. x\n\npara\n\n* a\n* b\n\n    more\n\n> q\n> r\n\n    code &\n\n\n    more\n\n" ++
   "***\n[r]: /u \"t\"\nlast").toList

def sampleRoot : Node :=
  ((parseDocument 4 sampleDoc).map (·.1)).getD (Node.el "none")

/-- the hypothesis of the theorems is satisfiable: the parser succeeds … -/
example : (parseDocument 4 sampleDoc).isSome = true := by decide +kernel

/-- … and the tree is not trivial -/
example : Ser.serialize .xhtml sampleRoot =
    ("<div><h1>H</h1><h1>T</h1><ol><li>x</li></ol><p>para</p><ul><li>a</li><li><p>b</p><p>more</p></li></ul>" ++
     "<blockquote><p>q\nr</p></blockquote><pre><code>code &amp;\n\n\nmore\n</code></pre><hr /><p>last</p></div>").toList := by
  decide +kernel

example : vocabDoc sampleRoot = true ∧ WFTree sampleRoot = true ∧ noAttrs sampleRoot = true ∧
    atomicOnlyCode false sampleRoot = true := by decide +kernel

/-- the predicates are not trivially true -/
example : vocabNode { tag := .name "script".toList } = false := by decide
example : vocabNode { tag := .name "div".toList } = false := by decide
example : vocabNode { tag := .comment } = false := by decide
example : vocabNode { tag := .name "a".toList, attrs := [("onclick".toList, "x".toList)] } = false := by decide
example : vocabNode { tag := .name "a".toList, attrs := [("href".toList, "x".toList), ("href".toList, "y".toList)] }
    = false := by decide
example : vocabNode { tag := .name "a".toList, attrs := [("href".toList, "x\"&".toList), ("title".toList, [])],
                      children := [{ tag := .name "img".toList, attrs := [("src".toList, []), ("alt".toList, [])] }] }
    = true := by decide
example : noAttrs { tag := .name "a".toList, attrs := [("href".toList, "x".toList)] } = false := by decide
example : atomicOnlyCode false { tag := .name "p".toList, text := some "x".toList, textAtomic := true } = false := by
  decide
example : atomicOnlyCode false { tag := .name "code".toList, text := some "x".toList, textAtomic := true } = false := by
  decide
example : atomicOnlyCode false { tag := .name "pre".toList, children :=
    [{ tag := .name "code".toList, text := some "x".toList, textAtomic := true }] } = true := by decide

/-- `voidOk` is needed: a vocabulary tree with a non-empty `br` is not in the domain of the round trip (F-C14-1) -/
example : vocabNode { tag := .name "br".toList, text := some "x".toList } = true ∧
    voidOk { tag := .name "br".toList, text := some "x".toList } = false ∧
    WFTree { tag := .name "br".toList, text := some "x".toList } = false := by decide

/-- Observation (not a violation of C05, which is about well-formedness, but of the HTML content model): the block
    parser can put an `hr` (likewise a heading, a `p`, a `pre`, a `blockquote`) directly inside a `ul`. -/
def hrInList : Str := "- - x\n    - y\n    ***".toList
example : ((parseDocument 4 hrInList).map (fun r => Ser.serialize .xhtml r.1)) =
    some "<div><ul><li><ul><li>x</li><li>y</li><hr /></ul></li></ul></div>".toList := by decide +kernel

end MdVerif.Block
