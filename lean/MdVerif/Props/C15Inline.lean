/-
C15, inline side — "A link or image reference resolves to its definition wherever at top level the definition appears
(before or after the use …), matching labels case-insensitively and treating a line break or run of spaces inside
the label at the place of use as one space; the rendered link carries exactly the defined destination and title in
every title spelling; definitions themselves produce no output; a reference without a definition is left as
literal text."

The block-parser side is `Props/C15.lean`.  This file: the reference patterns of the inline model
(`Model/Inline.lean`, `Model/InlineRe.lean`) and the composition of all stages (`Model/Pipeline.lean`).  Only property
statements live here; vocabulary and helper lemmas are in `Lemmas/InlineRef.lean` (`refSrc`, `PlainText`, `linkEl`,
`linkHtml`, `useKey`, …) and `Spec/RefDef.lean`.  Core Lean only.

1. `C15_model_wsClean`, `C15_model_normUse`, `C15_model_normUse_short`, `C15_model_lookup`: the id that the model
   looks up for `[text][label]` is `normUse label` (`normUse text` for `[text][]` and `[text]`): the model's
   `wsClean`/`lower` are the `wsCollapse`/`normUse` of the specification.
2. `C15_ref_renders`, `C15_ref_renders_run`: `pre[text][label]post` with the label defined becomes
   `pre<a href=url title=title>text</a>post` — exactly the stored destination and title, the title attribute only
   when the title is truthy.
3. `C15_undefined_literal`, `C15_undefined_literal_run`: with the label (and the text) undefined nothing changes.
4. `C15_end_to_end`, `C15_end_to_end_variant`: `Pipeline.convert` on the two-block document (paragraph with the
   reference; definition before or after it) gives `<p>pre<a href="…" title="…">text</a>post</p>`.

Domain of 2–4.  `pre`, `text`, `post` are plain running text (`PlainText`: ASCII letters, digits, space, `.`, `,`);
the label at the place of use has no `]`, backtick, backslash (`UseLabelOK`; for 3 none of the inline mark-up
characters: `QuietLabel`); between `[text]` and `[label]` nothing or one white-space character (`SpOK`).  For 4 in
addition: the paragraph does not start with a space or a digit (`ParaStartOK`), is one line, the characters of the
definition are ordinary document characters (`DefChars`: no `<`, `&`, STX, ETX, tab, CR — the pipeline model answers
`ood` for sources with `<`, so the definition is written with a bare destination), and the output format is xhtml
(the default).  The image form `![alt][label]` is covered up to `InlineProcessor.run` (`C15_img_renders`,
`C15_img_renders_run`; label without brackets and `!`: `ImgLabelOK`); its end-to-end statement and the short forms
`[text]`, `![alt]` are not proved here.
-/
import MdVerif.Lemmas.InlineRef
import MdVerif.Props.C15

namespace MdVerif.InlineRef
open Py Inline RefDef

/-! ### examples of the vocabulary -/

example : refSrc "see ".toList "the docs".toList [] "Foo  BAR".toList ", ok".toList =
    "see [the docs][Foo  BAR], ok".toList := by decide
example : PlainText "see the docs, ok. 42".toList = true := by decide
example : UseLabelOK "Foo  BAR".toList = true := by decide
example : QuietLabel "Foo  BAR".toList = true := by decide
example : ParaStartOK "see ".toList = true := by decide
example : DefChars "foo bar".toList "http://example.com/a?b=c".toList (some (.dq, "T \"x\"".toList)) = true := by decide
example : SpOK [] := Or.inl rfl
example : SpOK [' '] := Or.inr ⟨' ', rfl, by decide⟩
example : useKey "the docs".toList "Foo  BAR".toList = "foo bar".toList := by decide
example : useKey "Foo".toList [] = "foo".toList := by decide

/-! ### 1. the model looks up `normUse` -/

/-- the id clean-up of the model (`NEWLINE_CLEANUP_RE.sub(' ', id)`) is the `wsCollapse` of the specification -/
theorem C15_model_wsClean (s : Str) : wsClean s = wsCollapse s := wsClean_eq s

/-- **The id of `[text][label]`.**  `evalId` on `…[label]…` (directly after `[text]` or after one white-space
    character) returns the lower-cased label — the lower-cased text when the label is empty —, and after the
    clean-up this is `normUse label` (resp. `normUse text`). -/
theorem C15_model_normUse (A sp label post text : Str) (hsp : SpOK sp) (hl : ']' ∉ label) :
    ∃ id e, evalId (A ++ sp ++ '[' :: label ++ ']' :: post) A.length text = some (id, e) ∧
      wsClean id = (if label.isEmpty then normUse text else normUse label) := by
  refine ⟨_, _, evalId_spec A sp label post text hsp hl, ?_⟩
  split <;> exact wsClean_lower _

/-- the short forms `[text]` / `![text]` look up `normUse text` -/
theorem C15_model_normUse_short (text : Str) : wsClean (lower text) = normUse text := wsClean_lower text

/-- **`handleMatch` of the reference patterns** (2 `reference`, 5 `image_reference`) at `[text][label]`: the entry of
    `md.references` with key `normUse label` (`normUse text` when the label is empty) decides: none — the match is
    accepted without a node (the text stays); some — the `<a>` / `<img>` element with exactly that destination and
    title. -/
theorem C15_model_lookup (cfg : Inline.Cfg) (stash : List StashItem) (pi : Nat) (hpi : pi = 2 ∨ pi = 5)
    (A text sp label post : Str) (mstart : Nat) (h1 : '[' ∉ text) (h2 : ']' ∉ text) (h3 : STX ∉ text)
    (hsp : SpOK sp) (hl : ']' ∉ label) :
    linkHandle cfg stash pi (A ++ text ++ ']' :: sp ++ '[' :: label ++ ']' :: post) mstart A.length =
      some (match cfg.refs.find? (fun x => x.1 = useKey text label) with
        | none => ⟨.none, mstart, ((A ++ text ++ [']']).length + sp.length + label.length + 2 : Nat)⟩
        | some (_, href, title) =>
          ⟨.el (if pi = 5 then imgEl href title text else linkEl href title text), mstart,
            ((A ++ text ++ [']']).length + sp.length + label.length + 2 : Nat)⟩) :=
  linkHandle_ref cfg stash pi hpi A text sp label post mstart h1 h2 h3 hsp hl

/-- the element has exactly the stored destination, and the stored title iff it is truthy (`if title:`) -/
theorem C15_linkEl_attrs (url : Str) (title : Option Str) (text : Str) :
    linkEl url title text =
      { tag := .name "a".toList,
        attrs := ("href".toList, url) :: (if Node.truthy title then [("title".toList, title.getD [])] else []),
        text := some text } :=
  linkEl_eq url title text

/-! ### 2. a defined reference renders as the link -/

/-- **The inline patterns on `pre[text][label]post`, label defined.**  `__handleInline` replaces the reference by
    one placeholder and stashes the `<a>` element; `__processPlaceholders` puts it back between `pre` (text of the
    parent) and `post` (tail of the element). -/
theorem C15_ref_renders (cfg : Inline.Cfg) (st : St) (pre text sp label post : Str)
    (hpre : PlainText pre = true) (htext : PlainText text = true) (hpost : PlainText post = true) (hsp : SpOK sp)
    (hl : UseLabelOK label = true) (k url : Str) (title : Option Str)
    (hfind : cfg.refs.find? (fun x => x.1 = useKey text label) = some (k, url, title))
    (parent : Node) (hp : parent.text = none) (hpa : parent.textAtomic = false) :
    handleInlineTop cfg (refSrc pre text sp label post) st =
        some (pre ++ placeholder st.stash.length ++ post,
          { st with stash := st.stash ++ [.node (linkEl url title text)] }) ∧
    ppTop { st with stash := st.stash ++ [.node (linkEl url title text)] }
        (pre ++ placeholder st.stash.length ++ post) false parent true =
      some ([{ linkEl url title text with tail := optStr post }], { parent with text := optStr pre }) := by
  obtain ⟨e1, e2, e3, e4, e5, _⟩ := linkEl_fields url title text
  constructor
  · have := handleInline_ref_found cfg ((refSrc pre text sp label post).length + 18) st pre text sp label post hpre
      htext hpost hsp hl k url title hfind
    simpa [handleInlineTop, depthFuel] using this
  · exact ppTop_one st.stash st.html (linkEl url title text) e1 e2 e3 e5
      (fun t ht => by rw [e4] at ht; cases ht; exact plain_no_stx htext) pre post (plain_no_stx hpre)
      (plain_no_stx hpost) parent hp hpa

/-- the same for `InlineProcessor.run` on `<div><p>pre[text][label]post</p></div>`: the paragraph becomes
    `<p>pre<a href=url title=title>text</a>post</p>` (`linkPara`) -/
theorem C15_ref_renders_run (cfg : Inline.Cfg) (pre text sp label post : Str)
    (hpre : PlainText pre = true) (htext : PlainText text = true) (hpost : PlainText post = true) (hsp : SpOK sp)
    (hl : UseLabelOK label = true) (k url : Str) (title : Option Str)
    (hfind : cfg.refs.find? (fun x => x.1 = useKey text label) = some (k, url, title)) :
    Inline.run cfg ((Node.el "div").append (Block.mkText "p" (refSrc pre text sp label post))) =
      some ((Node.el "div").append (linkPara pre post (linkEl url title text)),
        { stash := [.node (linkEl url title text)], html := [] }) :=
  run_ref_found cfg pre text sp label post hpre htext hpost hsp hl k url title hfind

/-- **The image form.**  `pre![alt][label]post` with the label defined: patterns 0–4 find nothing (the link patterns
    skip `![`), `image_reference` stashes `<img src=url title=title alt=alt>`; `__processPlaceholders` puts it
    back between `pre` and `post`. -/
theorem C15_img_renders (cfg : Inline.Cfg) (st : St) (pre alt sp label post : Str)
    (hpre : PlainText pre = true) (halt : PlainText alt = true) (hpost : PlainText post = true) (hsp : SpOK sp)
    (hl : ImgLabelOK label = true) (k url : Str) (title : Option Str)
    (hfind : cfg.refs.find? (fun x => x.1 = useKey alt label) = some (k, url, title))
    (parent : Node) (hp : parent.text = none) (hpa : parent.textAtomic = false) :
    handleInlineTop cfg (imgSrc pre alt sp label post) st =
        some (pre ++ placeholder st.stash.length ++ post,
          { st with stash := st.stash ++ [.node (imgEl url title alt)] }) ∧
    ppTop { st with stash := st.stash ++ [.node (imgEl url title alt)] }
        (pre ++ placeholder st.stash.length ++ post) false parent true =
      some ([{ imgEl url title alt with tail := optStr post }], { parent with text := optStr pre }) := by
  obtain ⟨e1, e2, e3, e4, e5, _⟩ := imgEl_fields url title alt
  constructor
  · have := handleInline_img_found cfg ((imgSrc pre alt sp label post).length + 19) st pre alt sp label post hpre
      halt hpost hsp hl k url title hfind
    simpa [handleInlineTop, depthFuel] using this
  · exact ppTop_one st.stash st.html (imgEl url title alt) e1 e2 e3 e5
      (fun t ht => by rw [e4] at ht; cases ht) pre post (plain_no_stx hpre) (plain_no_stx hpost) parent hp hpa

/-- the same for `InlineProcessor.run`: the paragraph becomes `<p>pre<img …/>post</p>` -/
theorem C15_img_renders_run (cfg : Inline.Cfg) (pre alt sp label post : Str)
    (hpre : PlainText pre = true) (halt : PlainText alt = true) (hpost : PlainText post = true) (hsp : SpOK sp)
    (hl : ImgLabelOK label = true) (k url : Str) (title : Option Str)
    (hfind : cfg.refs.find? (fun x => x.1 = useKey alt label) = some (k, url, title)) :
    Inline.run cfg ((Node.el "div").append (Block.mkText "p" (imgSrc pre alt sp label post))) =
      some ((Node.el "div").append (linkPara pre post (imgEl url title alt)),
        { stash := [.node (imgEl url title alt)], html := [] }) :=
  run_img_found cfg pre alt sp label post hpre halt hpost hsp hl k url title hfind

/-- the `<img>` element: `src` is the stored destination, `title` only when truthy, `alt` the text in brackets -/
theorem C15_imgEl_attrs (url : Str) (title : Option Str) (alt : Str) :
    (imgEl url title alt).tag = .name "img".toList ∧ (imgEl url title alt).text = none ∧
    (imgEl url title alt).attrs =
      ("src".toList, url) :: (if Node.truthy title then [("title".toList, title.getD [])] else []) ++
        [("alt".toList, alt)] := by
  unfold imgEl
  split <;> simp [Node.setAttr, mkEl]

example : imgSrc "x ".toList "pic".toList [] "Logo".toList ".".toList = "x ![pic][Logo].".toList := by decide
example : ImgLabelOK "Logo 2".toList = true := by decide
example : (handleInlineTop { refs := [("logo".toList, "/l.png".toList, some "T".toList)] }
      "x ![pic][Logo].".toList {}).map (·.1) = some ("x ".toList ++ placeholder 0 ++ ".".toList) := by decide +kernel

/-! ### 3. an undefined reference is left as literal text -/

/-- **Undefined label.**  When neither `normUse label` nor `normUse text` is a key of `md.references` (the second:
    or `[text]` alone would be a short reference), `__handleInline` returns `pre[text][label]post` unchanged and
    stashes nothing. -/
theorem C15_undefined_literal (cfg : Inline.Cfg) (st : St) (pre text sp label post : Str)
    (hpre : PlainText pre = true) (htext : PlainText text = true) (hpost : PlainText post = true) (hsp : SpOK sp)
    (hnl : '\n' ∉ sp) (hl : QuietLabel label = true)
    (hf1 : cfg.refs.find? (fun x => x.1 = normUse text) = none)
    (hf2 : cfg.refs.find? (fun x => x.1 = normUse label) = none) :
    handleInlineTop cfg (refSrc pre text sp label post) st = some (refSrc pre text sp label post, st) :=
  handleInline_ref_undefined cfg _ st pre text sp label post hpre htext hpost hsp hnl hl hf1 hf2

/-- … and `InlineProcessor.run` returns the tree as it was: the paragraph keeps its source text -/
theorem C15_undefined_literal_run (cfg : Inline.Cfg) (pre text sp label post : Str)
    (hpre : PlainText pre = true) (htext : PlainText text = true) (hpost : PlainText post = true) (hsp : SpOK sp)
    (hnl : '\n' ∉ sp) (hl : QuietLabel label = true) (hstx : STX ∉ label)
    (hf1 : cfg.refs.find? (fun x => x.1 = normUse text) = none)
    (hf2 : cfg.refs.find? (fun x => x.1 = normUse label) = none) :
    Inline.run cfg ((Node.el "div").append (Block.mkText "p" (refSrc pre text sp label post))) =
      some ((Node.el "div").append (Block.mkText "p" (refSrc pre text sp label post)), { stash := [], html := [] }) :=
  run_ref_undefined cfg pre text sp label post hpre htext hpost hsp hnl hl hstx hf1 hf2

/-- why `normUse text` must be undefined too: with `text` defined, `[text]` is a short reference of its own
    (observed on the implementation: `markdown('[a][b]\n\n[a]: /u')` is `<p><a href="/u">a</a>[b]</p>`) -/
example : (handleInlineTop { refs := [("a".toList, "/u".toList, none)] } "[a][b]".toList {}).map (·.1) =
    some (placeholder 0 ++ "[b]".toList) := by decide +kernel

/-! ### 4. end to end -/

/-- **C15, end to end.**  The document: a one-line paragraph `pre[text][label]post` and one definition block
    `printDef indent dlabel url false title titleOnNextLine` (any title spelling or none, title on the same or on the
    next line, bare destination), separated by a blank line, the definition *before or after* the paragraph
    (`defFirst`).  If the key of the place of use is the key of the definition (`useKey text label = normDef dlabel`:
    see `C15_end_to_end_variant` for when that holds), `convert` returns exactly
    `<p>pre<a href="url" title="title">text</a>post</p>` — destination and title escaped for an attribute value
    (`escAttrHtml`, C14), the title attribute present iff the stored title is truthy; the definition produces no
    output. -/
theorem C15_end_to_end (cfg : Pipeline.Cfg) (hfmt : cfg.fmt = .xhtml)
    (hbl : cfg.blockLevel = TreeProc.defaultBlockLevel) (defFirst : Bool) (pre text sp label post : Str)
    (hpre : PlainText pre = true) (htext : PlainText text = true) (hpost : PlainText post = true)
    (hstart : ParaStartOK pre = true) (hsp : sp = [] ∨ sp = [' ']) (hul : UseLabelOK label = true)
    (hlnl : '\n' ∉ label) (hlc : label.all docCh = true)
    (indent : Nat) (dlabel url : Str) (title : Option (TitleStyle × Str)) (titleOnNextLine : Bool)
    (hi : indent ≤ 3) (hit : indent < cfg.tab) (hdl : LabelOK dlabel = true) (hu : UrlOK url = true)
    (ht : TitleOK title = true) (hdc : DefChars dlabel url title = true)
    (hkey : useKey text label = normDef dlabel) :
    Pipeline.convert cfg
        (docSrc defFirst (refSrc pre text sp label post) (printDef indent dlabel url false title titleOnNextLine)) =
      .ok ("<p>".toList ++ (pre ++ ("<a href=\"".toList ++ Ser.escAttrHtml url ++ ['"'] ++
        titleAttr (storedTitle title) ++ ['>'] ++ text ++ "</a>".toList) ++ post) ++ "</p>".toList) :=
  convert_ref_doc cfg hfmt hbl defFirst pre text sp label post hpre htext hpost hstart hsp hul hlnl hlc indent dlabel
    url title titleOnNextLine hi hit hdl hu ht hdc hkey

/-- the `title="…"` part, spelled out -/
theorem C15_titleAttr_spec (title : Option Str) :
    titleAttr title =
      match title with
      | some (c :: t) => " title=\"".toList ++ Ser.escAttrHtml (c :: t) ++ ['"']
      | _ => [] := by
  unfold titleAttr
  rcases title with _ | _ | ⟨c, t⟩ <;> simp [Node.truthy]

/-- **… for every case / white-space variant of the label.**  The definition label is `labelOf (w0 :: ws)` (words
    joined by single spaces); the label at the place of use is any `useVariant w0' vs` of it (`C15_label_match`: the
    case of any characters changed, any inner space replaced by a run of white space — here, on one line, of
    spaces).  With the default configuration. -/
theorem C15_end_to_end_variant (defFirst : Bool) (pre text sp post : Str) (w0 : Str) (ws : List Str) (w0' : Str)
    (vs : List (Str × Str))
    (hpre : PlainText pre = true) (htext : PlainText text = true) (hpost : PlainText post = true)
    (hstart : ParaStartOK pre = true) (hsp : sp = [] ∨ sp = [' '])
    (hw : ∀ w ∈ w0 :: ws, isWord w = true) (h0 : sameLower w0 w0' = true) (hv : variantOK ws vs = true)
    (hul : UseLabelOK (useVariant w0' vs) = true) (hlnl : '\n' ∉ useVariant w0' vs)
    (hlc : (useVariant w0' vs).all docCh = true)
    (indent : Nat) (url : Str) (title : Option (TitleStyle × Str)) (titleOnNextLine : Bool)
    (hi : indent ≤ 3) (hdl : LabelOK (labelOf (w0 :: ws)) = true) (hu : UrlOK url = true)
    (ht : TitleOK title = true) (hdc : DefChars (labelOf (w0 :: ws)) url title = true) :
    Pipeline.convert {}
        (docSrc defFirst (refSrc pre text sp (useVariant w0' vs) post)
          (printDef indent (labelOf (w0 :: ws)) url false title titleOnNextLine)) =
      .ok ("<p>".toList ++ (pre ++ ("<a href=\"".toList ++ Ser.escAttrHtml url ++ ['"'] ++
        titleAttr (storedTitle title) ++ ['>'] ++ text ++ "</a>".toList) ++ post) ++ "</p>".toList) := by
  have hne : (useVariant w0' vs).isEmpty = false := by
    have h0ne : w0 ≠ [] := ((isWord_iff w0).mp (hw w0 (by simp))).1
    cases w0' with
    | nil => cases w0 with
      | nil => exact absurd rfl h0ne
      | cons a b => simp [sameLower] at h0
    | cons a b => simp [useVariant]
  have hkey : useKey text (useVariant w0' vs) = normDef (labelOf (w0 :: ws)) := by
    unfold useKey
    rw [hne]
    exact C15_label_match w0 ws w0' vs hw h0 hv
  exact C15_end_to_end {} rfl rfl defFirst pre text sp (useVariant w0' vs) post hpre htext hpost hstart hsp hul hlnl
    hlc indent (labelOf (w0 :: ws)) url title titleOnNextLine hi (by show indent < 4; omega) hdl hu ht hdc hkey

/-- a concrete instance, evaluated by the kernel on the model: definition after the use, different case and two
    spaces in the label at the place of use, title in parentheses on the next line -/
example : Pipeline.convert {} "see [the docs][Foo  BAR], ok\n\n [foo bar]: /u?a=\"b\"\n    (T)".toList =
    .ok "<p>see <a href=\"/u?a=&quot;b&quot;\" title=\"T\">the docs</a>, ok</p>".toList := by decide +kernel

end MdVerif.InlineRef
