/-
C01 — Canonical Markdown renders to the prescribed structure; nesting and spelling never change the rendering.
Part h: inline links.  A paragraph may be one line of words, escapes, code spans, emphasised words and INLINE LINKS
`[text](dest)` / `[text](dest "title")` / `[text](dest 'title')` whose text is again words, escapes, code spans and
emphasised words (`linkRun`, `Spec/DocFlat2.lean`; destinations of `wfDest` without `_` and `&`).  `LinkDoc` is `BrDoc`
(`Props/C01g.lean`) with such paragraphs and contains it (`C01_link_covers_br`).

    WF d → LinkDoc d → inlineStyle d sp → Pipeline.convert {} (print d sp) = .ok (spec d)          (`C01_inline_links`)

**Not for all spellings.**  `print` draws the STYLE of every link from the spelling (`linkStyle`): 0 inline, 1 inline with
`<dest>`, 2–4 the reference styles `[text][id]`, `[text][]`, `[text]` with a definition at the end of the document.
Style 1 puts `<` into the source, on which the model answers out of domain; the reference styles are the subject of
C15 (`Props/C15Text.lean`).  `inlineStyle d sp` says that the spelling draws style 0 everywhere, in the form in which it
can be checked on the printed source: no `<`, no reference definition.  It holds e.g. for every spelling whose choices
are multiples of 5 (`C01_link_spelling`: two such spellings convert to the same output; the title is written with
either quote character, the code spans with any fence, emphasis with either delimiter).

**A gap in `WF` found on the way** (`C01h_wf_gap`): a paragraph that STARTS with a link whose printed text has `]`
directly followed by `:` — `[`​`` `a]: x` ``​`](url)`, `[a\]: b](url)` — is a reference DEFINITION for the block parser
(label `` `a ``), in the model, in Python-Markdown and in CommonMark alike; `WF` accepts the document and `spec`
prescribes a link.  `firstLinkOK` of `linkRun` excludes brackets (escaped, or inside a code span) in the text of a link
that starts the paragraph; links elsewhere in the line may have them (`sampleLink`).

How it is proved (`Lemmas/DocParse5.lean`): the inline stages — pattern 2 (reference) rejecting `[text](`, pattern 3
(link) taking the links out left to right with the nested `__handleInline` on the link text, `__processPlaceholders`,
the second visits, prettify, unescape, serializer — are those of `Lemmas/RefTextInl*.lean` (C06 with inline links:
`visitChild_lineI`, `pretty_pMid`, `unesc_pPrettyG`, `ser_pFinG`); here they are packaged as an `Elem` (`C01h_link_elem`)
so that the paragraph composes with the other blocks of a document (`C01b_render_elems`).  New: the printed form under
`printInlines` with the style drawn from the spelling (`C01h_link_print`: either every link is in the inline style, or a
`<` is printed, or a definition is added), the block stage on a line that starts with `[` (`C01h_bracket_line`), the
specification side (`C01h_link_out`), and the document with the definitions threaded through (`C01_inline_links`).

Outside: links in headings, images, links with nested emphasis in their text, hard breaks in a paragraph with links,
`_` and `&` in destinations.  Tested before proving: `harness/corr/linkdoc.py`.
-/
import MdVerif.Props.C01g
import MdVerif.Lemmas.DocParse5

namespace MdVerif.DocLink
open Py Inline Escape DocSpec CodeLaw DocParse Block DocParse2 RefText

/-- **The printed form of content with links.**  Content `A`, then the links `ls` each with the content after it
    (`joinLinks`), all parts well-formed content of the sub-grammar: the definitions of the printer's state grow by
    `extra`; when they do not grow and no `<` is printed, every link is printed in the inline style — the line is a
    chunk followed by `[text](dest "title")content` for every link (`usStageI`), with what the stages need of every
    part (`ChunkW`, `LinksW`). -/
theorem C01h_link_print (ls : List LinkIt) (A : List DocSpec.Inline) (st : PSt) (hA : mixOK A = true)
    (hls : ∀ l ∈ ls, LinkOK l) :
    ∃ (s : Str) (st' : PSt) (extra : List Str), printInlines none true true (joinLinks A ls) st = (s, st') ∧
      st'.defs = st.defs ++ extra ∧
      (extra = [] → '<' ∉ s → ∃ (C0 : Chunk) (is : List IUse),
        (∀ m n0, s = C0.raw ESC ++ usStageI ESC 0 false m n0 is) ∧ ChunkW A C0 ∧ LinksW ls is) :=
  printLinks_rel ls A st hA hls

/-- **The block parser on a line that starts with a link**: `[`, a text without brackets, `](`, anything without a
    line break (not starting like an ordered list item), indented by at most three spaces: one paragraph — in
    particular not a reference definition. -/
theorem C01h_bracket_line (i : Nat) (hi3 : i ≤ 3) (T R : Str) (hT : ∀ ch ∈ T, ch ≠ '[' ∧ ch ≠ ']')
    (hnl : '\n' ∉ '[' :: (T ++ ']' :: '(' :: R)) (hol : olMarker ('[' :: (T ++ ']' :: '(' :: R)) = none) :
    Produces 4 (spaces i ++ '[' :: (T ++ ']' :: '(' :: R))
      { tag := .name "p".toList, text := some ('[' :: (T ++ ']' :: '(' :: R)) } :=
  produces_para_bracket i hi3 T R hT hnl hol

/-- **The paragraph through the inline processor and the tree stages**: the contract of `C01b_render_elems`. -/
theorem C01h_link_elem (cfg : Inline.Cfg) (hE : EscOK cfg.esc) (hrb : ']' ∈ cfg.esc) (C0 : Chunk) (is : List IUse)
    (h0 : ChunkOK cfg.esc C0) (hus : ∀ u ∈ is, IUseOK cfg.esc u) (hvis : ∀ u ∈ is, u.T.Vis) (hne : is ≠ []) :
    ElemOK cfg (lElem cfg.esc C0 is) :=
  lElem_ok cfg hE hrb C0 is h0 hus hvis hne

/-- **The output is the specification's**: the contents rendered by `specInlines`, every link as
    `<a href="dest" title="title">` + its rendered text + `</a>`. -/
theorem C01h_link_out (ls : List LinkIt) (is : List IUse) (h : LinksW ls is) (A : List DocSpec.Inline) (C0 : Chunk)
    (hW : ChunkW A C0) : C0.out ++ usOut (is.map IUse.toR) = specInlines (joinLinks A ls) :=
  usOut_spec ls is h A C0 hW

/-- **`LinkDoc` contains `BrDoc`.** -/
theorem C01_link_covers_br (d : Doc) (h : DocSpec.BrDoc d = true) : DocSpec.LinkDoc d = true := by
  simp only [DocSpec.BrDoc, DocSpec.LinkDoc, List.all_eq_true] at h ⊢
  intro b hb
  have := h b hb
  cases b with
  | para c => simp only [isBrBlock] at this; simp [isLinkBlock, this]
  | rule => exact this
  | code _ => exact this
  | atx _ _ => exact this
  | setext _ _ => exact this
  | quote _ => exact this
  | ulist _ _ => exact this
  | olist _ _ => exact this

/-- **Inline links.**  `d` well-formed; every block a rule, an indented code block without `<`, an ATX or Setext
    heading of `Deep2Doc`, a paragraph of `BrDoc` (two levels of emphasis, hard breaks), or a paragraph that is one line
    of words, escapes, code spans, emphasised words and inline links around such content, with destinations without
    `_` and `&` and no bracket in the text of a link that starts the paragraph; the spelling draws the inline style for
    every link (`inlineStyle`: the printed source has no `<` and no reference definition): the converter returns
    `spec d`. -/
theorem C01_inline_links (d : Doc) (sp : Spelling) (hwf : WF d = true) (hs : DocSpec.LinkDoc d = true)
    (hsp : DocSpec.inlineStyle d sp = true) : Pipeline.convert {} (print d sp) = .ok (spec d) :=
  convert_linkDoc d sp hwf hs hsp

/-- **Spelling never changes the rendering** on `LinkDoc`, among the spellings of the inline style. -/
theorem C01_link_spelling (d : Doc) (sp sp' : Spelling) (hwf : WF d = true) (hs : DocSpec.LinkDoc d = true)
    (hsp : DocSpec.inlineStyle d sp = true) (hsp' : DocSpec.inlineStyle d sp' = true) :
    Pipeline.convert {} (print d sp) = Pipeline.convert {} (print d sp') := by
  rw [C01_inline_links d sp hwf hs hsp, C01_inline_links d sp' hwf hs hsp']

/-! ### the hypotheses are satisfiable; instances evaluated by the kernel -/

/-- a paragraph that starts with a link (emphasis and a code span in its text, a title), goes on with words, strong,
    an escape and a second link with an escaped bracket in its text; a paragraph with a link whose text is the code span
    `a]: x` — harmless there, not at the start —; a heading, a paragraph with a hard break, a code block -/
def sampleLink : Doc :=
  [.para [.link [.text (S "first "), .em [.text (S "a")], .text (S " "), .code (S "k")] (S "http://x.org/a-b?c=1")
       (some (S "the title")),
     .text (S " and "), .strong [.text (S "b")], .esc '*',
     .link [.esc '[', .text (S "two")] (S "/p/q.html#frag") none, .text (S " end")],
   .atx 2 [.em [.text (S "t")]],
   .para [.text (S "see "), .link [.code (S "a]: x")] (S "url") none],
   .para [.text (S "one"), .br, .esc '>', .text (S " two")],
   .code [S "raw"]]

example : WF sampleLink = true ∧ DocSpec.LinkDoc sampleLink = true ∧ DocSpec.BrDoc sampleLink = false := by decide

example : DocSpec.inlineStyle sampleLink ⟨[0, 5, 1, 0, 10, 1, 0, 5, 2, 5, 0, 0, 15, 3, 0, 0]⟩ = true ∧
    DocSpec.inlineStyle sampleLink ⟨[5, 15, 5, 25, 15, 5, 5, 5, 15, 5, 5, 25, 5, 15, 5, 5, 5, 5]⟩ = true ∧
    DocSpec.inlineStyle sampleLink ⟨[2, 0, 0, 2, 0, 4, 0, 2, 0, 2, 5, 2, 0, 0, 2, 0, 0, 2, 2, 2, 2, 0, 0]⟩ = false := by
  decide +kernel

example : print sampleLink ⟨[0, 5, 1, 0, 10, 1, 0, 5, 2, 5, 0, 0, 15, 3, 0, 0]⟩ =
    ("[first _a_ ``k``](http://x.org/a-b?c=1 \"the title\") and __b__\\*[\\[two](/p/q.html#frag) end\n\n## _t_ ##\n\n" ++
     "see [`a]: x`](url)\n\none  \n\\> two\n\n    raw").toList := by decide +kernel

example : print sampleLink ⟨[5, 15, 5, 25, 15, 5, 5, 5, 15, 5, 5, 25, 5, 15, 5, 5, 5, 5]⟩ =
    (" [first _a_ ```k```](http://x.org/a-b?c=1 'the title') and __b__\\*[\\[two](/p/q.html#frag) end\n\n## _t_\n\n" ++
     " see [``a]: x``](url)\n\n one  \n\\> two\n\n    raw").toList := by decide +kernel

/-- a spelling outside `inlineStyle`: the first link in a reference style, with its definition at the end -/
example : print sampleLink ⟨[2, 0, 0, 2, 0, 4, 0, 2, 0, 2, 5, 2, 0, 0, 2, 0, 0, 2, 2, 2, 2, 0, 0]⟩ =
    ("  [first *a* `k`][r-1] and **b**\\*[\\[two](/p/q.html#frag) end\n\n## *t*\n\n see [```a]: x```](url)\n\n" ++
     "  one  \n\\> two\n\n    raw\n\n[r-1]: http://x.org/a-b?c=1 \"the title\"").toList := by decide +kernel

example : spec sampleLink =
    ("<p><a href=\"http://x.org/a-b?c=1\" title=\"the title\">first <em>a</em> <code>k</code></a> and " ++
     "<strong>b</strong>*<a href=\"/p/q.html#frag\">[two</a> end</p>\n<h2><em>t</em></h2>\n" ++
     "<p>see <a href=\"url\"><code>a]: x</code></a></p>\n<p>one<br />\n&gt; two</p>\n" ++
     "<pre><code>raw\n</code></pre>").toList := by decide +kernel

example : Pipeline.convert {} (print sampleLink ⟨[0, 5, 1, 0, 10, 1, 0, 5, 2, 5, 0, 0, 15, 3, 0, 0]⟩) =
    .ok (spec sampleLink) :=
  C01_inline_links _ _ (by decide) (by decide) (by decide +kernel)

/-- the same instances evaluated by the kernel on the model, independently of the theorem -/
example : Pipeline.convert {} (print sampleLink ⟨[0, 5, 1, 0, 10, 1, 0, 5, 2, 5, 0, 0, 15, 3, 0, 0]⟩) =
    .ok (spec sampleLink) := by decide +kernel

example : Pipeline.convert {} (print sampleLink ⟨[5, 15, 5, 25, 15, 5, 5, 5, 15, 5, 5, 25, 5, 15, 5, 5, 5, 5]⟩) =
    .ok (spec sampleLink) := by decide +kernel

/-- **The gap in `WF`**: a well-formed document — one paragraph, one link whose text is the code span `a]: x` — prints
    as `` [`a]: x`](url) ``, which is a reference definition: the converter returns nothing, `spec` prescribes a link.
    `LinkDoc` excludes it (`firstLinkOK`). -/
theorem C01h_wf_gap :
    WF [.para [.link [.code (S "a]: x")] (S "url") none]] = true ∧
    print [.para [.link [.code (S "a]: x")] (S "url") none]] ⟨[]⟩ = S "[`a]: x`](url)" ∧
    Pipeline.convert {} (print [.para [.link [.code (S "a]: x")] (S "url") none]] ⟨[]⟩) = .ok [] ∧
    spec [.para [.link [.code (S "a]: x")] (S "url") none]] = S "<p><a href=\"url\"><code>a]: x</code></a></p>" ∧
    DocSpec.LinkDoc [.para [.link [.code (S "a]: x")] (S "url") none]] = false := by decide +kernel

/-- what is outside the sub-grammar: `_` or `&` in a destination, nested emphasis in a link text, a link in a heading,
    an image -/
example : DocSpec.LinkDoc [.para [.link [.text (S "a")] (S "x_y") none]] = false ∧
    DocSpec.LinkDoc [.para [.link [.text (S "a")] (S "x&y") none]] = false ∧
    DocSpec.LinkDoc [.para [.link [.em [.strong [.text (S "a")]]] (S "u") none]] = false ∧
    DocSpec.LinkDoc [.atx 1 [.link [.text (S "a")] (S "u") none]] = false ∧
    DocSpec.LinkDoc [.para [.image (S "a") (S "u") none]] = false := by decide

end MdVerif.DocLink
