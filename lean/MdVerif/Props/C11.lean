/-
C11 — After `reset()`, a Markdown instance converts a document exactly as a freshly constructed instance with the
same configuration would, whatever documents it converted before; and creating or using one instance never changes
the behaviour of another.

Only property statements live here.  The model is `MdVerif/Model/Instance.lean` (an abstract instance: `cfg`,
the `fields` that `reset()` clears, the `leak` that it does not clear, and `convert` as an arbitrary function), helper
lemmas are in `MdVerif/Lemmas/Instance.lean`.  Core Lean only.

Shape: a frame theorem.  The two facts about the code that it rests on are
* (H1) `reset()` re-initialises every field that a conversion writes, except `leak` — this is the *definition* of
  `reset` in the model; that the split of the real attributes into `fields` and `leak` is the right one (nothing a
  conversion writes is outside `fields ∪ leak ∪ result`) is checked against the implementation by the harness;
* (H2) `Balanced`: a conversion that returns leaves `leak` (`parser.state`) as it found it.
From these: after any history of conversions and resets in which no conversion raised, `reset()` gives *the* fresh
instance (`C11_reset_is_fresh`), hence the same HTML and the same side outputs for every later document
(`C11_reset_fresh`), hence nothing of an earlier document can appear in a later one.

`C11_noraise_needed` is the kernel-checked counterexample that shows why the history must be free of raising
conversions: it is the known defect F-C11-1 (after a `RecursionError`, `parser.state` is not cleared by `reset()`,
and `md.reset().convert('foo\n\nbar')` gives `foo\nbar` in one paragraph).

`C11_instances_disjoint`: in a program that holds several instances (separate stores, no shared mutable cell — the
census of C12 is what justifies this shape), whatever is done with the others, instance `j` is where its own events
alone put it.
-/
import MdVerif.Model.Instance
import MdVerif.Lemmas.Instance

namespace MdVerif.Instance

section
variable {Cfg F L Doc O : Type} (M : Machine Cfg F L Doc O)

/-- **After `reset()` the instance is the fresh instance.**  For every history `h` of conversions and resets (in any
    order) none of whose conversions raised. -/
theorem C11_reset_is_fresh (hb : Balanced M) (c : Cfg) (h : List (Ev Doc)) (hn : NoRaise M (fresh M c) h) :
    reset M (runHistory M (fresh M c) h) = fresh M c :=
  reset_of_clean M (clean_runHistory M hb h (fresh M c) (clean_fresh M c) hn)

/-- **C11.**  Whatever the instance converted before (without raising), after `reset()` it converts `d` exactly as a
    freshly constructed instance with the same configuration: same result (HTML), same fields afterwards (side
    outputs: `Meta`, `toc`, `references`, …). -/
theorem C11_reset_fresh (hb : Balanced M) (c : Cfg) (h : List (Ev Doc)) (hn : NoRaise M (fresh M c) h) (d : Doc) :
    observe (conv M (reset M (runHistory M (fresh M c) h)) d) = observe (conv M (fresh M c) d) := by
  rw [C11_reset_is_fresh M hb c h hn]

/-- … and not only what is observed: the whole instance afterwards, `leak` included -/
theorem C11_reset_fresh_state (hb : Balanced M) (c : Cfg) (h : List (Ev Doc)) (hn : NoRaise M (fresh M c) h)
    (d : Doc) : conv M (reset M (runHistory M (fresh M c) h)) d = conv M (fresh M c) d := by
  rw [C11_reset_is_fresh M hb c h hn]

/-- … and for every continuation, not only for one document: all later observations are those of a fresh instance -/
theorem C11_reset_fresh_future (hb : Balanced M) (c : Cfg) (h : List (Ev Doc)) (hn : NoRaise M (fresh M c) h)
    (later : List (Ev Doc)) :
    results M (reset M (runHistory M (fresh M c) h)) later = results M (fresh M c) later := by
  rw [C11_reset_is_fresh M hb c h hn]

/-- the usual usage — every document preceded by `reset()` — as a special case -/
theorem C11_reset_fresh_docs (hb : Balanced M) (c : Cfg) (docs : List Doc)
    (hn : NoRaise M (fresh M c) (resetEach docs)) (d : Doc) :
    observe (conv M (reset M (runHistory M (fresh M c) (resetEach docs))) d) = observe (conv M (fresh M c) d) :=
  C11_reset_fresh M hb c (resetEach docs) hn d

/-- **Nothing is carried over.**  Two arbitrary (non-raising) pasts give the same observation of `d` after `reset()`:
    no reference, footnote, abbreviation, stashed HTML or metadata of an earlier document can show up. -/
theorem C11_history_irrelevant (hb : Balanced M) (c : Cfg) (h1 h2 : List (Ev Doc))
    (hn1 : NoRaise M (fresh M c) h1) (hn2 : NoRaise M (fresh M c) h2) (d : Doc) :
    observe (conv M (reset M (runHistory M (fresh M c) h1)) d) =
      observe (conv M (reset M (runHistory M (fresh M c) h2)) d) := by
  rw [C11_reset_fresh M hb c h1 hn1, C11_reset_fresh M hb c h2 hn2]

/-! ### separate instances do not influence each other -/

/-- **Disjointness.**  In a store of instances, after any history of constructions and of events on any instances,
    instance `j` is exactly where its own events put it. -/
theorem C11_instances_disjoint (st : Store Cfg F L) (j : Nat) (hj : j < st.length) (h : List (SEv Cfg Doc)) :
    (runStore M st h)[j]? = (st[j]?).map (fun x => runHistory M x (eventsOf j h)) :=
  runStore_getElem? M h st j hj

/-- in particular: when nothing happens to `j` itself, then whatever is constructed and whatever happens to the other
    instances, `j` is unchanged — and so is everything it will ever produce -/
theorem C11_other_instances_frame (st : Store Cfg F L) (j : Nat) (hj : j < st.length) (h : List (SEv Cfg Doc))
    (hnone : eventsOf j h = []) : (runStore M st h)[j]? = st[j]? := by
  rw [C11_instances_disjoint M st j hj h, hnone]
  cases st[j]? <;> rfl

/-- the two-instance case spelled out: operations on instance 0 do not change what instance 1 produces for `d` -/
theorem C11_two_instances (a b : Inst Cfg F L) (ha : List (Ev Doc)) (d : Doc) :
    ((runStore M [a, b] (ha.map (SEv.on 0 (Cfg := Cfg))))[1]?).map (fun y => observe (conv M y d)) =
      some (observe (conv M b d)) := by
  rw [C11_other_instances_frame M [a, b] 1 (by simp)]
  · rfl
  · induction ha with
    | nil => rfl
    | cons e t ih => simpa [eventsOf] using ih

end

/-! ### the hypotheses are satisfiable: the toy machine -/

namespace Toy

theorem go_balanced (d : Doc) (refs : Refs) (depth : Nat) (out : List Item) (fl' : Refs × Nat) (o : List Item)
    (h : go refs depth out d = (fl', Result.ok o)) : fl'.2 = depth := by
  induction d generalizing refs out with
  | nil => simp only [go] at h; cases h; rfl
  | cons op d ih =>
    cases op with
    | define k v => exact ih _ _ h
    | use k => exact ih _ _ h
    | raise => simp only [go] at h; cases h

/-- hypothesis (H2) holds of the toy machine -/
theorem toy_balanced : Balanced machine := fun _ fl d fl' o h => go_balanced d fl.1 fl.2 [] fl' o h

/-- a history: define 1 ↦ 5 and use it; then *without* reset use it again; then reset and look it up -/
def hist : List (Ev Doc) :=
  [.convert [.define 1 5, .use 1], .convert [.use 1], .reset, .convert [.use 1, .define 1 6, .use 1]]

/-- hypothesis `NoRaise` holds of it -/
example : NoRaise machine (fresh machine []) hist := ⟨rfl, rfl, rfl, trivial⟩

/-- what the conversions of this history return: without `reset()` the reference of the first document *is* seen by
    the second (that is what `reset()` is for), after `reset()` it is not -/
example : (results machine (fresh machine []) hist).map (·.1) =
    [.ok [(0, some 5)], .ok [(0, some 5)], .ok [(0, none), (0, some 6)]] := by decide

/-- and C11 on this history, evaluated -/
example : observe (conv machine (reset machine (runHistory machine (fresh machine []) hist)) [.use 1]) =
    observe (conv machine (fresh machine []) [.use 1]) := by decide

/-- **Why `NoRaise` is a hypothesis (F-C11-1).**  One raising conversion; then `reset()`; then a document: the
    result differs from that of a fresh instance (the look-up happens at nesting depth 1 instead of 0), because
    `reset()` does not clear the `leak`. -/
theorem C11_noraise_needed :
    ¬ NoRaise machine (fresh machine []) [.convert [.raise]] ∧
    (conv machine (fresh machine []) [.raise]).2 = .raised ∧
    observe (conv machine (reset machine (runHistory machine (fresh machine []) [.convert [.raise]])) [.use 1])
      = (.ok [(1, none)], []) ∧
    observe (conv machine (fresh machine []) [.use 1]) = (.ok [(0, none)], []) ∧
    observe (conv machine (reset machine (runHistory machine (fresh machine []) [.convert [.raise]])) [.use 1])
      ≠ observe (conv machine (fresh machine []) [.use 1]) := by
  refine ⟨fun h => ?_, by decide, by decide, by decide, by decide⟩
  exact absurd h.1 (by decide)

/-- two instances: defining references in instance 0 does not change what instance 1 (configured with 1 ↦ 9) says -/
example : (runStore machine [fresh machine [], fresh machine [(1, 9)]]
      [.on 0 (.convert [.define 1 5, .use 1]), .create [(1, 7)], .on 2 (.convert [.raise]), .on 0 .reset]).map
        (fun y => observe (conv machine y [.use 1])) =
    [(.ok [(0, none)], []), (.ok [(0, some 9)], [(1, 9)]), (.ok [(1, some 7)], [(1, 7)])] := by decide

/-- hypothesis `eventsOf j h = []` of `C11_other_instances_frame`: nothing in this history happens to instance 1 -/
example : eventsOf 1 ([.on 0 (.convert [.define 1 5, .use 1]), .create [(1, 7)], .on 2 (.convert [.raise]),
    .on 0 .reset] : List (SEv Refs Doc)) = [] := by decide

end Toy

end MdVerif.Instance
