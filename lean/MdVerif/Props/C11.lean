/-
C11 — After `reset()`, a Markdown instance converts a document exactly as a freshly constructed instance with the
same configuration would, whatever documents it converted before; and creating or using one instance never changes
the behaviour of another.

Only property statements live here.  The model is `MdVerif/Model/Instance.lean` (an abstract instance: `cfg`,
`fields`, and `leak` = the block parser's nesting state; `convert` is an arbitrary function), helper lemmas are in
`MdVerif/Lemmas/Instance.lean`.  Core Lean only.

Shape: a frame theorem.  The one fact about the code that it rests on is
* (H1) `reset()` re-initialises everything that a conversion writes (`fields` and `leak`) and keeps `cfg` — this is
  the *definition* of `reset` in the model.  That it is true of the code — that nothing a conversion writes lies
  outside what `reset()` re-initialises — is `C11_conversion_writes_are_reset` of `Props/C11Census.lean`, decided
  over the census of all writes in the source, plus the dynamic deep-state comparison of the harness.
From it, for **every** history of conversions and resets — conversions that raised included — `reset()` gives *the*
fresh instance (`C11_reset_is_fresh`), hence the same HTML and the same side outputs for every later document
(`C11_reset_fresh`), hence nothing of an earlier document can appear in a later one.

History.  Until commit f86514b ("reset() clears the block parser's nesting state") `Markdown.reset()` did not clear
`parser.state`, and the theorem needed two hypotheses: `Balanced` (a conversion that returns leaves the nesting state
as it found it) and `NoRaise` (no conversion of the history raised).  Defect F-C11-1 was the case in which `NoRaise`
fails: after a `RecursionError`, `md.reset().convert('foo\n\nbar')` gave `foo\nbar` in one paragraph.  The last section
keeps this on record for `resetOld`, the former `reset`: the kernel-checked counterexample
(`C11_before_repair_noraise_needed`), and `C11_repair_conservative` — on histories without a raise the new `reset`
does exactly what the old one did.  `Balanced` is still what makes consecutive conversions *without* `reset()` start
from an empty nesting state (`C11_leak_balanced`).

`C11_instances_disjoint`: in a program that holds several instances (separate stores, no shared mutable cell — the
census of C12 is what justifies this shape), whatever is done with the others, instance `j` is where its own events
alone put it.
-/
import MdVerif.Model.Instance
import MdVerif.Lemmas.Instance

namespace MdVerif.Instance

section
variable {Cfg F L Doc O : Type} (M : Machine Cfg F L Doc O)

/-- `reset()` keeps nothing of an instance but its configuration -/
theorem C11_reset_eq_fresh (x : Inst Cfg F L) : reset M x = fresh M x.cfg := rfl

/-- **After `reset()` the instance is the fresh instance.**  For every history `h` of conversions and resets, in any
    order, whether the conversions returned or raised. -/
theorem C11_reset_is_fresh (c : Cfg) (h : List (Ev Doc)) :
    reset M (runHistory M (fresh M c) h) = fresh M c := by
  rw [reset_eq_fresh, cfg_runHistory]; rfl

/-- **C11.**  Whatever the instance converted before, after `reset()` it converts `d` exactly as a freshly
    constructed instance with the same configuration: same result (HTML), same fields afterwards (side outputs:
    `Meta`, `toc`, `references`, …). -/
theorem C11_reset_fresh (c : Cfg) (h : List (Ev Doc)) (d : Doc) :
    observe (conv M (reset M (runHistory M (fresh M c) h)) d) = observe (conv M (fresh M c) d) := by
  rw [C11_reset_is_fresh M c h]

/-- … and not only what is observed: the whole instance afterwards, nesting state included -/
theorem C11_reset_fresh_state (c : Cfg) (h : List (Ev Doc)) (d : Doc) :
    conv M (reset M (runHistory M (fresh M c) h)) d = conv M (fresh M c) d := by
  rw [C11_reset_is_fresh M c h]

/-- … and for every continuation, not only for one document: all later observations are those of a fresh instance -/
theorem C11_reset_fresh_future (c : Cfg) (h : List (Ev Doc)) (later : List (Ev Doc)) :
    results M (reset M (runHistory M (fresh M c) h)) later = results M (fresh M c) later := by
  rw [C11_reset_is_fresh M c h]

/-- the usual usage — every document preceded by `reset()` — as a special case -/
theorem C11_reset_fresh_docs (c : Cfg) (docs : List Doc) (d : Doc) :
    observe (conv M (reset M (runHistory M (fresh M c) (resetEach docs))) d) = observe (conv M (fresh M c) d) :=
  C11_reset_fresh M c (resetEach docs) d

/-- **Nothing is carried over.**  Two arbitrary pasts give the same observation of `d` after `reset()`: no
    reference, footnote, abbreviation, stashed HTML, metadata or nesting state of an earlier document can show up. -/
theorem C11_history_irrelevant (c : Cfg) (h1 h2 : List (Ev Doc)) (d : Doc) :
    observe (conv M (reset M (runHistory M (fresh M c) h1)) d) =
      observe (conv M (reset M (runHistory M (fresh M c) h2)) d) := by
  rw [C11_reset_fresh M c h1, C11_reset_fresh M c h2]

/-- … and from any instance whatever, not only from one that started fresh: `reset()` of two instances with the
    same configuration gives the same instance -/
theorem C11_reset_depends_on_cfg_only (x y : Inst Cfg F L) (h : x.cfg = y.cfg) : reset M x = reset M y := by
  rw [reset_eq_fresh, reset_eq_fresh, h]

/-- **Without `reset()`**: if conversions are balanced and none raised, the nesting state is empty after any history
    (so the next conversion starts like that of a fresh instance as far as `leak` is concerned; `fields` are of
    course carried over — that is what `reset()` is for). -/
theorem C11_leak_balanced (hb : Balanced M) (c : Cfg) (h : List (Ev Doc)) (hn : NoRaise M (fresh M c) h) :
    (runHistory M (fresh M c) h).leak = M.leak0 :=
  (clean_runHistory M hb h (fresh M c) (clean_fresh M c) hn).2

/-! ### separate instances do not influence each other -/

/-- **Disjointness.**  In a store of instances, after any history of constructions and of events on any instances,
    instance `j` is exactly where its own events put it. -/
theorem C11_instances_disjoint (st : Store Cfg F L) (j : Nat) (hj : j < st.length) (h : List (SEv Cfg Doc)) :
    (runStore M st h)[j]? = (st[j]?).map (fun x => runHistory M x (eventsOf j h)) :=
  runStore_getElem? M h st j hj

/-- in particular: when nothing happens to `j` itself, then whatever is constructed and whatever happens to the other
    instances, `j` is unchanged — and so is everything it will ever produce -/
theorem C11_other_instances_frame (st : Store Cfg F L) (j : Nat) (hj : j < st.length) (h : List (SEv Cfg Doc))
    (hnone : eventsOf j h = []) : (runStore M st h)[j]? = st[j]? := by
  rw [C11_instances_disjoint M st j hj h, hnone]
  cases st[j]? <;> rfl

/-- the two-instance case spelled out: operations on instance 0 do not change what instance 1 produces for `d` -/
theorem C11_two_instances (a b : Inst Cfg F L) (ha : List (Ev Doc)) (d : Doc) :
    ((runStore M [a, b] (ha.map (SEv.on 0 (Cfg := Cfg))))[1]?).map (fun y => observe (conv M y d)) =
      some (observe (conv M b d)) := by
  rw [C11_other_instances_frame M [a, b] 1 (by simp)]
  · rfl
  · induction ha with
    | nil => rfl
    | cons e t ih => simpa [eventsOf] using ih

end

/-! ### the hypotheses are satisfiable: the toy machine -/

namespace Toy

theorem go_balanced (d : Doc) (refs : Refs) (depth : Nat) (out : List Item) (fl' : Refs × Nat) (o : List Item)
    (h : go refs depth out d = (fl', Result.ok o)) : fl'.2 = depth := by
  induction d generalizing refs out with
  | nil => simp only [go] at h; cases h; rfl
  | cons op d ih =>
    cases op with
    | define k v => exact ih _ _ h
    | use k => exact ih _ _ h
    | raise => simp only [go] at h; cases h

/-- `Balanced` holds of the toy machine -/
theorem toy_balanced : Balanced machine := fun _ fl d fl' o h => go_balanced d fl.1 fl.2 [] fl' o h

/-- a history: define 1 ↦ 5 and use it; then *without* reset use it again; then a document that raises; then reset and
    look it up -/
def hist : List (Ev Doc) :=
  [.convert [.define 1 5, .use 1], .convert [.use 1], .convert [.use 1, .raise], .reset,
   .convert [.use 1, .define 1 6, .use 1]]

/-- what the conversions of this history return: without `reset()` the reference of the first document *is* seen by
    the second (that is what `reset()` is for); the third raises inside one level of nesting; after `reset()` neither
    the reference nor the nesting level is there -/
example : (results machine (fresh machine []) hist).map (·.1) =
    [.ok [(0, some 5)], .ok [(0, some 5)], .raised, .ok [(0, none), (0, some 6)]] := by decide

/-- the nesting state that the raising conversion left behind, and that `reset()` removes -/
example : (runHistory machine (fresh machine []) (hist.take 3)).leak = 1 ∧
    (runHistory machine (fresh machine []) (hist.take 4)).leak = 0 := by decide

/-- and C11 on this history, evaluated -/
example : observe (conv machine (reset machine (runHistory machine (fresh machine []) hist)) [.use 1]) =
    observe (conv machine (fresh machine []) [.use 1]) := by decide

/-- hypothesis `NoRaise` of `C11_leak_balanced` holds of the first two conversions -/
example : NoRaise machine (fresh machine []) (hist.take 2) := ⟨rfl, rfl, trivial⟩

/-- two instances: defining references in instance 0 does not change what instance 1 (configured with 1 ↦ 9) says -/
example : (runStore machine [fresh machine [], fresh machine [(1, 9)]]
      [.on 0 (.convert [.define 1 5, .use 1]), .create [(1, 7)], .on 2 (.convert [.raise]), .on 0 .reset]).map
        (fun y => observe (conv machine y [.use 1])) =
    [(.ok [(0, none)], []), (.ok [(0, some 9)], [(1, 9)]), (.ok [(1, some 7)], [(1, 7)])] := by decide

/-- hypothesis `eventsOf j h = []` of `C11_other_instances_frame`: nothing in this history happens to instance 1 -/
example : eventsOf 1 ([.on 0 (.convert [.define 1 5, .use 1]), .create [(1, 7)], .on 2 (.convert [.raise]),
    .on 0 .reset] : List (SEv Refs Doc)) = [] := by decide

end Toy

/-! ### history: `reset()` before commit f86514b (defect F-C11-1, repaired) -/

section
variable {Cfg F L Doc O : Type} (M : Machine Cfg F L Doc O)

/-- **The repair is conservative.**  After a history of balanced conversions none of which raised, the former `reset`
    (`resetOld`: `fields` only) and the present one give the same instance: the repair changed behaviour only where
    the defect was. -/
theorem C11_repair_conservative (hb : Balanced M) (c : Cfg) (h : List (Ev Doc)) (hn : NoRaise M (fresh M c) h) :
    resetOld M (runHistory M (fresh M c) h) = reset M (runHistory M (fresh M c) h) :=
  resetOld_of_clean M (clean_runHistory M hb h (fresh M c) (clean_fresh M c) hn)

/-- the pre-repair theorem: what C11 was for `resetOld`, with the two hypotheses it needed -/
theorem C11_before_repair_reset_fresh (hb : Balanced M) (c : Cfg) (h : List (Ev Doc))
    (hn : NoRaise M (fresh M c) h) (d : Doc) :
    observe (conv M (resetOld M (runHistory M (fresh M c) h)) d) = observe (conv M (fresh M c) d) := by
  rw [C11_repair_conservative M hb c h hn, C11_reset_is_fresh M c h]

end

namespace Toy

/-- **HISTORY: why `NoRaise` was a hypothesis (F-C11-1, fixed by f86514b).**  One raising conversion; then the
    *former* `reset()`; then a document: the result differs from that of a fresh instance (the look-up happens at
    nesting depth 1 instead of 0), because the former `reset()` did not clear the nesting state.  With the present
    `reset` the same scenario gives the result of the fresh instance. -/
theorem C11_before_repair_noraise_needed :
    ¬ NoRaise machine (fresh machine []) [.convert [.raise]] ∧
    (conv machine (fresh machine []) [.raise]).2 = .raised ∧
    observe (conv machine (resetOld machine (runHistory machine (fresh machine []) [.convert [.raise]])) [.use 1])
      = (.ok [(1, none)], []) ∧
    observe (conv machine (fresh machine []) [.use 1]) = (.ok [(0, none)], []) ∧
    observe (conv machine (resetOld machine (runHistory machine (fresh machine []) [.convert [.raise]])) [.use 1])
      ≠ observe (conv machine (fresh machine []) [.use 1]) ∧
    observe (conv machine (reset machine (runHistory machine (fresh machine []) [.convert [.raise]])) [.use 1])
      = observe (conv machine (fresh machine []) [.use 1]) := by
  refine ⟨fun h => ?_, by decide, by decide, by decide, by decide, by decide⟩
  exact absurd h.1 (by decide)

end Toy

end MdVerif.Instance
