/-
C15, the remaining spellings and the document-level position independence — continuation of `Props/C15.lean` (block
parser) and `Props/C15Inline.lean` (`[text][label]`, one definition, xhtml).

Everything here is end to end: `Pipeline.convert cfg (docOf before para after)`, where the document is
*any* list of definitions `before`, the paragraph, *any* list of definitions `after`, separated by blank lines
(`docOf`).  A definition is a `DefSpec` (`printDef` with a bare destination; `DefSpec.ok`: the hypotheses of
`Props/C15.lean` plus ordinary document characters).  That the reference resolves is the hypothesis
`lookupRef (entries of all definitions, in document order) key = some (url, title)` — `md.references.get(key)`,
later definitions win — so "wherever the definition appears, alone or next to other definitions" is the
quantification over `before` and `after`.  The output format is `cfg.fmt` (both formats); `linkHtmlF`/`imgHtmlF`
write the element as `_serialize_html` does, attributes sorted, `attrHtml` with the boolean-attribute rule of the
html format.

1. `C15_end_to_end_full` (`[text][label]`, `[text] [label]`), `C15_end_to_end_collapsed` (`[text][]`),
   `C15_end_to_end_short` (`[text]`): the key is `normUse label`, resp. `normUse text`.
2. `C15_end_to_end_image`, `C15_end_to_end_image_collapsed`, `C15_end_to_end_image_short`:
   `<img alt="…" src="…" title="…" />` (html: `<img …>`), attributes in the serializer's order alt, src, title.
3. `C15_link_html_format`: in the html format the link is written as in xhtml unless an attribute is *boolean*
   (`escAttrHtml url = "href"`, `escAttrHtml title = "title"`): hypotheses stated; the excluded point is the
   kernel-checked example `[foo]: href` ↦ `<a href>`.
4. `C15_two_definitions`: two definitions with different keys in any of the six arrangements around a paragraph
   that uses each of them once; `C15_two_uses` for arbitrary definitions.

Caveats found by testing, as hypotheses: the paragraph does not start with a space or digit (`ParaStartOK`: code
block, ordered list; `-`, `+`, `*`, `#`, `>` are not `PlainText`); `pre`, `text`, `post` are `PlainText`, in
particular `post` does not start with `(` (else `[text](…` is an inline link), not with `:` (else `[text]:…` at the
start of a block is a definition) and not with `[`.
-/
import MdVerif.Lemmas.InlineRefForms
import MdVerif.Props.C15Inline

namespace MdVerif.InlineRef
open Py Inline RefDef

/-! ### examples of the vocabulary -/

example : (⟨1, "Foo Bar".toList, "/u?x=1".toList, some (.sq, "T".toList), true⟩ : DefSpec).src =
    " [Foo Bar]: /u?x=1\n    'T'".toList := by decide
example : (⟨1, "Foo Bar".toList, "/u?x=1".toList, some (.sq, "T".toList), true⟩ : DefSpec).ok 4 = true := by decide
example : (⟨1, "Foo Bar".toList, "/u".toList, some (.sq, "T".toList), true⟩ : DefSpec).entry =
    ("foo bar".toList, ("/u".toList, some "T".toList)) := by decide
example : docOf [⟨0, "a".toList, "/1".toList, none, false⟩] "see [x][A].".toList [⟨0, "b".toList, "/2".toList, none, false⟩] =
    "[a]: /1\n\nsee [x][A].\n\n[b]: /2".toList := by decide
example : shortSrc "see ".toList "Foo".toList ".".toList = "see [Foo].".toList := by decide
example : shortImgSrc "see ".toList "Foo".toList ".".toList = "see ![Foo].".toList := by decide
example : twoSrc "a ".toList "x".toList "L1".toList " b ".toList "y".toList "L2".toList ".".toList =
    "a [x][L1] b [y][L2].".toList := by decide
example : attrHtml .xhtml "href".toList "a\"b".toList = " href=\"a&quot;b\"".toList := by decide +kernel
example : attrHtml .html "href".toList "href".toList = " href".toList := by decide +kernel

/-- what `attrHtml` is when the attribute is not boolean -/
theorem C15_attrHtml_spec (fmt : Ser.Fmt) (k v : Str) (h : fmt = .xhtml ∨ k ≠ Ser.escAttrHtml v) :
    attrHtml fmt k v = ' ' :: k ++ "=\"".toList ++ Ser.escAttrHtml v ++ ['"'] := by
  unfold attrHtml
  rcases h with rfl | hne
  · simp
  · simp [hne]

/-! ### 1. the link forms -/

/-- **`[text][label]`, any definitions, both formats.**  (Generalises `C15_end_to_end`.) -/
theorem C15_end_to_end_full (cfg : Pipeline.Cfg) (hbl : cfg.blockLevel = TreeProc.defaultBlockLevel)
    (htab : 0 < cfg.tab) (before after : List DefSpec) (hb : ∀ d ∈ before, d.ok cfg.tab = true)
    (ha : ∀ d ∈ after, d.ok cfg.tab = true) (pre text sp label post : Str)
    (hpre : PlainText pre = true) (htext : PlainText text = true) (hpost : PlainText post = true)
    (hstart : ParaStartOK pre = true) (hsp : sp = [] ∨ sp = [' ']) (hul : UseLabelOK label = true)
    (hlnl : '\n' ∉ label) (hlc : label.all docCh = true) (url : Str) (title : Option Str)
    (hlook : Block.lookupRef ((before ++ after).map DefSpec.entry) (useKey text label) = some (url, title)) :
    Pipeline.convert cfg (docOf before (refSrc pre text sp label post) after) =
      .ok ("<p>".toList ++ (pre ++ (linkHtmlF cfg.fmt url title text ++ post)) ++ "</p>".toList) :=
  convert_link_full cfg hbl htab before after hb ha pre text sp label post hpre htext hpost hstart hsp hul hlnl hlc
    url title hlook

/-- **The collapsed form `[text][]`** resolves through `normUse text`. -/
theorem C15_end_to_end_collapsed (cfg : Pipeline.Cfg) (hbl : cfg.blockLevel = TreeProc.defaultBlockLevel)
    (htab : 0 < cfg.tab) (before after : List DefSpec) (hb : ∀ d ∈ before, d.ok cfg.tab = true)
    (ha : ∀ d ∈ after, d.ok cfg.tab = true) (pre text post : Str)
    (hpre : PlainText pre = true) (htext : PlainText text = true) (hpost : PlainText post = true)
    (hstart : ParaStartOK pre = true) (url : Str) (title : Option Str)
    (hlook : Block.lookupRef ((before ++ after).map DefSpec.entry) (normUse text) = some (url, title)) :
    Pipeline.convert cfg (docOf before (pre ++ "[".toList ++ text ++ "][]".toList ++ post) after) =
      .ok ("<p>".toList ++ (pre ++ (linkHtmlF cfg.fmt url title text ++ post)) ++ "</p>".toList) := by
  have e : pre ++ "[".toList ++ text ++ "][]".toList ++ post = refSrc pre text [] [] post := by
    simp [refSrc, List.append_assoc]
  rw [e]
  exact convert_link_full cfg hbl htab before after hb ha pre text [] [] post hpre htext hpost hstart (Or.inl rfl)
    (by decide) (by simp) (by decide) url title hlook

/-- **The short form `[text]`** resolves through `normUse text`.  (`post` plain: no `(`, `:`, `[` follows.) -/
theorem C15_end_to_end_short (cfg : Pipeline.Cfg) (hbl : cfg.blockLevel = TreeProc.defaultBlockLevel)
    (htab : 0 < cfg.tab) (before after : List DefSpec) (hb : ∀ d ∈ before, d.ok cfg.tab = true)
    (ha : ∀ d ∈ after, d.ok cfg.tab = true) (pre text post : Str)
    (hpre : PlainText pre = true) (htext : PlainText text = true) (hpost : PlainText post = true)
    (hstart : ParaStartOK pre = true) (url : Str) (title : Option Str)
    (hlook : Block.lookupRef ((before ++ after).map DefSpec.entry) (normUse text) = some (url, title)) :
    Pipeline.convert cfg (docOf before (shortSrc pre text post) after) =
      .ok ("<p>".toList ++ (pre ++ (linkHtmlF cfg.fmt url title text ++ post)) ++ "</p>".toList) :=
  convert_link_short cfg hbl htab before after hb ha pre text post hpre htext hpost hstart url title hlook

/-- why `post` must not start with `:` in the short form at the start of a block: it is a definition then
    (observed on the implementation: `markdown('[d]:0\n\n[d]: /u')` is empty) -/
example : Pipeline.convert {} "[d]:0\n\n[d]: /u".toList = .ok [] := by decide +kernel

/-! ### 2. the image forms -/

/-- **`![alt][label]`**: `<img alt="alt" src="url" title="title" />` (html: `<img …>`), attributes sorted. -/
theorem C15_end_to_end_image (cfg : Pipeline.Cfg) (hbl : cfg.blockLevel = TreeProc.defaultBlockLevel)
    (htab : 0 < cfg.tab) (before after : List DefSpec) (hb : ∀ d ∈ before, d.ok cfg.tab = true)
    (ha : ∀ d ∈ after, d.ok cfg.tab = true) (pre alt sp label post : Str)
    (hpre : PlainText pre = true) (halt : PlainText alt = true) (hpost : PlainText post = true)
    (hstart : ParaStartOK pre = true) (hsp : sp = [] ∨ sp = [' ']) (hil : ImgLabelOK label = true)
    (hlnl : '\n' ∉ label) (hlc : label.all docCh = true) (url : Str) (title : Option Str)
    (hlook : Block.lookupRef ((before ++ after).map DefSpec.entry) (useKey alt label) = some (url, title)) :
    Pipeline.convert cfg (docOf before (imgSrc pre alt sp label post) after) =
      .ok ("<p>".toList ++ (pre ++ (imgHtmlF cfg.fmt url title alt ++ post)) ++ "</p>".toList) :=
  convert_img_full cfg hbl htab before after hb ha pre alt sp label post hpre halt hpost hstart hsp hil hlnl hlc url
    title hlook

/-- **`![alt][]`** resolves through `normUse alt`. -/
theorem C15_end_to_end_image_collapsed (cfg : Pipeline.Cfg) (hbl : cfg.blockLevel = TreeProc.defaultBlockLevel)
    (htab : 0 < cfg.tab) (before after : List DefSpec) (hb : ∀ d ∈ before, d.ok cfg.tab = true)
    (ha : ∀ d ∈ after, d.ok cfg.tab = true) (pre alt post : Str)
    (hpre : PlainText pre = true) (halt : PlainText alt = true) (hpost : PlainText post = true)
    (hstart : ParaStartOK pre = true) (url : Str) (title : Option Str)
    (hlook : Block.lookupRef ((before ++ after).map DefSpec.entry) (normUse alt) = some (url, title)) :
    Pipeline.convert cfg (docOf before (pre ++ "![".toList ++ alt ++ "][]".toList ++ post) after) =
      .ok ("<p>".toList ++ (pre ++ (imgHtmlF cfg.fmt url title alt ++ post)) ++ "</p>".toList) := by
  have e : pre ++ "![".toList ++ alt ++ "][]".toList ++ post = imgSrc pre alt [] [] post := by
    simp [imgSrc, List.append_assoc]
  rw [e]
  exact convert_img_full cfg hbl htab before after hb ha pre alt [] [] post hpre halt hpost hstart (Or.inl rfl)
    (by decide) (by simp) (by decide) url title hlook

/-- **`![alt]`** resolves through `normUse alt`. -/
theorem C15_end_to_end_image_short (cfg : Pipeline.Cfg) (hbl : cfg.blockLevel = TreeProc.defaultBlockLevel)
    (htab : 0 < cfg.tab) (before after : List DefSpec) (hb : ∀ d ∈ before, d.ok cfg.tab = true)
    (ha : ∀ d ∈ after, d.ok cfg.tab = true) (pre alt post : Str)
    (hpre : PlainText pre = true) (halt : PlainText alt = true) (hpost : PlainText post = true)
    (hstart : ParaStartOK pre = true) (url : Str) (title : Option Str)
    (hlook : Block.lookupRef ((before ++ after).map DefSpec.entry) (normUse alt) = some (url, title)) :
    Pipeline.convert cfg (docOf before (shortImgSrc pre alt post) after) =
      .ok ("<p>".toList ++ (pre ++ (imgHtmlF cfg.fmt url title alt ++ post)) ++ "</p>".toList) :=
  convert_img_short cfg hbl htab before after hb ha pre alt post hpre halt hpost hstart url title hlook

/-- the image element spelled out for the default format -/
theorem C15_imgHtml_xhtml (url : Str) (title : Option Str) (alt : Str) :
    imgHtmlF .xhtml url title alt =
      "<img alt=\"".toList ++ Ser.escAttrHtml alt ++ "\" src=\"".toList ++ Ser.escAttrHtml url ++ ['"'] ++
        titleAttr title ++ " />".toList := by
  unfold imgHtmlF titleAttr
  rw [C15_attrHtml_spec _ _ _ (Or.inl rfl), C15_attrHtml_spec _ _ _ (Or.inl rfl)]
  split
  · rw [C15_attrHtml_spec _ _ _ (Or.inl rfl)]
    simp only [List.append_assoc, List.cons_append, List.nil_append, if_true]; rfl
  · simp only [List.append_assoc, List.cons_append, List.nil_append, List.append_nil, if_true]; rfl

example : Pipeline.convert { fmt := .html } "x ![pic][Logo] y\n\n[logo]: /l.png (T)".toList =
    .ok "<p>x <img alt=\"pic\" src=\"/l.png\" title=\"T\"> y</p>".toList := by decide +kernel
example : Pipeline.convert {} "![Foo] bar\n\n[foo]: /u".toList =
    .ok "<p><img alt=\"Foo\" src=\"/u\" /> bar</p>".toList := by decide +kernel

/-! ### 3. the html output format -/

/-- **html format.**  When neither attribute is boolean (the escaped destination is not the word `href`, the escaped
    title not the word `title`), the link is written exactly as in the xhtml format: `linkHtml` of
    `Props/C15Inline.lean`. -/
theorem C15_link_html_format (fmt : Ser.Fmt) (url : Str) (title : Option Str) (text : Str)
    (h : fmt = .xhtml ∨ ("href".toList ≠ Ser.escAttrHtml url ∧
      ∀ s, title = some s → "title".toList ≠ Ser.escAttrHtml s)) :
    linkHtmlF fmt url title text =
      "<a href=\"".toList ++ Ser.escAttrHtml url ++ ['"'] ++ titleAttr title ++ ['>'] ++ text ++ "</a>".toList :=
  linkHtmlF_eq fmt url title text h

/-- the excluded point: a destination that is the word `href` is written as a boolean attribute by the html
    serializer (same on the implementation: `Markdown(output_format='html').convert('[Foo] bar\n\n[foo]: href')` is
    `<p><a href>Foo</a> bar</p>`) -/
example : Pipeline.convert { fmt := .html } "[Foo] bar\n\n[foo]: href".toList =
    .ok "<p><a href>Foo</a> bar</p>".toList := by decide +kernel

/-! ### 4. two definitions, two uses -/

/-- **Two references in one paragraph, any definitions.** -/
theorem C15_two_uses (cfg : Pipeline.Cfg) (hbl : cfg.blockLevel = TreeProc.defaultBlockLevel)
    (htab : 0 < cfg.tab) (before after : List DefSpec) (hb : ∀ d ∈ before, d.ok cfg.tab = true)
    (ha : ∀ d ∈ after, d.ok cfg.tab = true) (pre t1 l1 mid t2 l2 post : Str)
    (hpre : PlainText pre = true) (ht1 : PlainText t1 = true) (hmid : PlainText mid = true)
    (ht2 : PlainText t2 = true) (hpost : PlainText post = true) (hstart : ParaStartOK pre = true)
    (hl1 : UseLabelOK l1 = true) (hl2 : UseLabelOK l2 = true) (hn1 : '\n' ∉ l1) (hn2 : '\n' ∉ l2)
    (hc1 : l1.all docCh = true) (hc2 : l2.all docCh = true) (u1 : Str) (ti1 : Option Str) (u2 : Str)
    (ti2 : Option Str)
    (hlook1 : Block.lookupRef ((before ++ after).map DefSpec.entry) (useKey t1 l1) = some (u1, ti1))
    (hlook2 : Block.lookupRef ((before ++ after).map DefSpec.entry) (useKey t2 l2) = some (u2, ti2)) :
    Pipeline.convert cfg (docOf before (twoSrc pre t1 l1 mid t2 l2 post) after) =
      .ok ("<p>".toList ++ (pre ++ (linkHtmlF cfg.fmt u1 ti1 t1 ++ mid ++ (linkHtmlF cfg.fmt u2 ti2 t2 ++ post))) ++
        "</p>".toList) :=
  convert_two cfg hbl htab before after hb ha pre t1 l1 mid t2 l2 post hpre ht1 hmid ht2 hpost hstart hl1 hl2 hn1 hn2
    hc1 hc2 u1 ti1 u2 ti2 hlook1 hlook2

/-- **Two definitions, position independence at document level.**  Two definitions `d1`, `d2` with different keys,
    a paragraph that uses each once (`[t1][l1]` ↦ `d1`, `[t2][l2]` ↦ `d2`).  In every arrangement — both before
    the paragraph, both after, one before and one after, `d1` first or `d2` first: `before ++ after` is `[d1, d2]` or
    `[d2, d1]` — the output is the same: each link carries the destination and title of *its* definition. -/
theorem C15_two_definitions (cfg : Pipeline.Cfg) (hbl : cfg.blockLevel = TreeProc.defaultBlockLevel)
    (htab : 0 < cfg.tab) (d1 d2 : DefSpec) (hd1 : d1.ok cfg.tab = true) (hd2 : d2.ok cfg.tab = true)
    (hne : normDef d1.label ≠ normDef d2.label) (before after : List DefSpec)
    (harr : before ++ after = [d1, d2] ∨ before ++ after = [d2, d1]) (pre t1 l1 mid t2 l2 post : Str)
    (hpre : PlainText pre = true) (ht1 : PlainText t1 = true) (hmid : PlainText mid = true)
    (ht2 : PlainText t2 = true) (hpost : PlainText post = true) (hstart : ParaStartOK pre = true)
    (hl1 : UseLabelOK l1 = true) (hl2 : UseLabelOK l2 = true) (hn1 : '\n' ∉ l1) (hn2 : '\n' ∉ l2)
    (hc1 : l1.all docCh = true) (hc2 : l2.all docCh = true)
    (hk1 : useKey t1 l1 = normDef d1.label) (hk2 : useKey t2 l2 = normDef d2.label) :
    Pipeline.convert cfg (docOf before (twoSrc pre t1 l1 mid t2 l2 post) after) =
      .ok ("<p>".toList ++ (pre ++ (linkHtmlF cfg.fmt d1.url (storedTitle d1.title) t1 ++ mid ++
        (linkHtmlF cfg.fmt d2.url (storedTitle d2.title) t2 ++ post))) ++ "</p>".toList) := by
  have hmem : ∀ d ∈ before ++ after, d.ok cfg.tab = true := by
    intro d hd
    rcases harr with e | e <;> rw [e] at hd <;> simp only [List.mem_cons, List.not_mem_nil, or_false] at hd <;>
      rcases hd with rfl | rfl <;> assumption
  have hb : ∀ d ∈ before, d.ok cfg.tab = true := fun d hd => hmem d (List.mem_append_left _ hd)
  have ha : ∀ d ∈ after, d.ok cfg.tab = true := fun d hd => hmem d (List.mem_append_right _ hd)
  have hne' : normDef d2.label ≠ normDef d1.label := fun e => hne e.symm
  have look1 : Block.lookupRef ((before ++ after).map DefSpec.entry) (useKey t1 l1) =
      some (d1.url, storedTitle d1.title) := by
    rw [hk1]
    rcases harr with e | e <;> rw [e] <;>
      simp [Block.lookupRef, DefSpec.entry, defEntry, hne']
  have look2 : Block.lookupRef ((before ++ after).map DefSpec.entry) (useKey t2 l2) =
      some (d2.url, storedTitle d2.title) := by
    rw [hk2]
    rcases harr with e | e <;> rw [e] <;>
      simp [Block.lookupRef, DefSpec.entry, defEntry, hne]
  exact C15_two_uses cfg hbl htab before after hb ha pre t1 l1 mid t2 l2 post hpre ht1 hmid ht2 hpost hstart hl1 hl2
    hn1 hn2 hc1 hc2 _ _ _ _ look1 look2

/-- a concrete instance: `d2` before, `d1` after the paragraph -/
example : Pipeline.convert {} "[b]: /2\n\nsee [one][A] and [two][B].\n\n [a]: /1 \"T\"".toList =
    .ok "<p>see <a href=\"/1\" title=\"T\">one</a> and <a href=\"/2\">two</a>.</p>".toList := by decide +kernel

end MdVerif.InlineRef
