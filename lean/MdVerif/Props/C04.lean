/-
C04 — Raw HTML passes through verbatim and unwrapped (proof, partial: event level).

Only property statements live here.  Model: `MdVerif/Model/ExtractEv.lean` (the callbacks of `HTMLExtractor`,
`HtmlStash.store`, one pass of `RawHtmlPostprocessor.run`); definitions `Content`, `BalancedBlock`, `InlineEv`,
`needsNewline` and helper lemmas: `MdVerif/Lemmas/ExtractEv.lean`.

Scope.  The stdlib tokenizer (`html.parser.HTMLParser.goahead`, `_markupbase`) that decides which callbacks fire
is trusted and not modelled; the theorems speak about the list of callback invocations (`Event`) and are silent on
which text produces which events.  The correspondence harness (`harness/corr/extract.py`) records the events of the
real parser and replays them in the model.
The known defect F-C04-1 (a `&#` that is not a character reference makes the tokenizer hand the rest of the
document over as plain data, so a later `<div>…</div>` never produces start/end events) is therefore OUTSIDE the
model: it is about which events the tokenizer produces, not about what the callbacks do with them.

Shape.  extraction (`C04_block_once`, `C04_empty_once`, `C04_hr_once`): the block's source text goes to the stash,
verbatim, exactly once, under the next free index, and only the placeholder (between newlines) reaches `cleandoc`,
so the block parser and the inline patterns never see the Markdown-looking content.  `C04_inline_data`: inline
tags, references and text stay in `cleandoc` verbatim.  restoration (`C04_restore_block`, `C04_restore_bare`):
the placeholder of index `i` is replaced by `stash[i]`, and a paragraph consisting of the placeholder alone is
replaced, `<p>`…`</p>` included, when the stashed text is block-level.

Two boundaries that the proofs force, both witnessed on the real code and kernel-checked below:
* `C04_block_once` needs an empty `_cache`.  `handle_empty_tag` appends to `_cache` while `intail` is set (an
  entity, comment or `<hr>` after a closing tag on the same line, e.g. `<div>x</div> &amp; foo`); that leftover is
  glued in front of the NEXT raw block (`C04_block_glued`), whose stash entry then no longer starts with `<`.
* `C04_restore_block` needs `isBlockLevel raw`; `BLOCK_LEVEL_REGEX = ^\<\/?([^ >]+)` takes a newline after the tag
  name into the name, so for `<div\nclass="x">…` it is false and the block stays inside `<p>`.
-/
import MdVerif.Model.ExtractEv
import MdVerif.Lemmas.ExtractEv

namespace MdVerif.Extract
open Py

/-! ### 1. block elements -/

/-- **C04, block elements.**  Outside raw mode (`inraw`, `intail` false, empty tag stack, empty `_cache`; any
    `cleandoc`, any stash), the events of a balanced block element — start tag of a block-level element at a line
    start, content (text with or without blank lines, inline elements, nested block elements of any tag, unclosed
    `<br>`/`<img>`, comments, `<hr>`, references, stray end tags), its end tag —

    * add exactly ONE entry to the stash: the concatenation of the source texts of the events, plus one `\n` when a
      blank line follows the end tag;
    * add to `cleandoc` exactly `\n`, the placeholder of that entry's index, `\n\n` — nothing of the block's text;
    * leave raw mode, with an empty stack and an empty `_cache`; `intail` is set iff no blank line follows. -/
theorem C04_block_once {tag : Str} {evs : List Event} (h : BalancedBlock tag evs) (st : ExSt)
    (hraw : st.inraw = false) (htail : st.intail = false) (hstack : st.stack = []) (hcache : st.cache = []) :
    runFrom st evs =
      { inraw := false, intail := !lastBlankFollows evs, stack := [], cache := [],
        cleandoc := st.cleandoc ++ [['\n'], placeholder st.stash.length, ['\n', '\n']],
        stash := st.stash ++ [evsText evs ++ (if lastBlankFollows evs then ['\n'] else [])] } := by
  have := run_block h st hraw htail hstack
  rw [hcache] at this
  simpa using this

/-- the text handed to the block parser gains the placeholder line only -/
theorem C04_block_hidden {tag : Str} {evs : List Event} (h : BalancedBlock tag evs) (st : ExSt)
    (hraw : st.inraw = false) (htail : st.intail = false) (hstack : st.stack = []) (hcache : st.cache = []) :
    cleanText (runFrom st evs) = cleanText st ++ ['\n'] ++ placeholder st.stash.length ++ ['\n', '\n'] := by
  rw [C04_block_once h st hraw htail hstack hcache]; simp [cleanText]

/-- the hypothesis `stack = []` of `C04_block_once` holds in every reachable state outside raw mode -/
theorem C04_stack_empty_outside_raw (evs : List Event) :
    (runEvents evs).inraw = false → (runEvents evs).stack = [] :=
  stack_invariant evs

/-- without the hypothesis on `_cache`: whatever `handle_empty_tag` left there while `intail` was set is glued in
    front of the block's text (the model mirrors the code; see the file header) -/
theorem C04_block_glued {tag : Str} {evs : List Event} (h : BalancedBlock tag evs) (st : ExSt)
    (hraw : st.inraw = false) (htail : st.intail = false) (hstack : st.stack = []) :
    (runFrom st evs).stash =
      st.stash ++ [st.cache.flatten ++ evsText evs ++ (if lastBlankFollows evs then ['\n'] else [])] := by
  rw [run_block h st hraw htail hstack]

/-- a properly nested element (block or inline, at any column) may occur inside a raw block -/
theorem C04_content_nested {S inner rest S'} (tag text : Str) (als isb bf0 : Bool) (etext : Str) (bf : Bool)
    (hS : S ≠ []) (hin : Content (tag :: S) inner (tag :: S)) (hrest : Content S rest S') :
    Content S (.start tag text als isb false bf0 :: (inner ++ .end_ tag etext bf :: rest)) S' :=
  Content.elem tag text als isb bf0 etext bf hS hin hrest

/-! #### non-vacuity: the events the real parser produces for `<div>\n*x*\n\n<p>y</p>\n</div>\n\n`
(recorded by `harness/corr/extract.py`): a nested block element, a blank line and Markdown-looking text inside -/

/-- the recorded events of the block (the document goes on with `data "\n\n"`, `close ""`) -/
def exampleBlock : List Event :=
  [ .start "div".toList "<div>".toList true true false false,
    .data "\n*x*\n\n".toList,
    .start "p".toList "<p>".toList true true false false,
    .data "y".toList,
    .end_ "p".toList "</p>".toList false,
    .data "\n".toList,
    .end_ "div".toList "</div>".toList true ]

example : BalancedBlock "div".toList exampleBlock :=
  BalancedBlock.mk "<div>".toList "</div>".toList false true
    [.data "\n*x*\n\n".toList, .start "p".toList "<p>".toList true true false false, .data "y".toList,
     .end_ "p".toList "</p>".toList false, .data "\n".toList] []
    (Content.data _ <| Content.open_ "p".toList _ _ _ _ <| Content.data _ <|
      Content.close_ (S := ["p".toList, "div".toList]) "p".toList _ _ (by decide) (by decide) <|
      Content.data _ <| Content.nil ["div".toList])
    (by decide)

example : init.inraw = false ∧ init.intail = false ∧ init.stack = [] ∧ init.cache = [] := by decide

example :
    runEvents (exampleBlock ++ [.data "\n\n".toList, .close []]) =
      { inraw := false, intail := false, stack := [], cache := [],
        cleandoc := ["\n".toList, placeholder 0, "\n\n".toList, "\n\n".toList],
        stash := ["<div>\n*x*\n\n<p>y</p>\n</div>\n".toList] } := by decide

/-- the hypotheses of `C04_content_nested`: the `<p>y</p>` of the example, nested in the `div` -/
example : Content ["div".toList]
    (.start "p".toList "<p>".toList true true false false ::
      ([.data "y".toList] ++ .end_ "p".toList "</p>".toList false :: [.data "\n".toList])) ["div".toList] :=
  C04_content_nested "p".toList "<p>".toList true true false "</p>".toList false (by decide)
    (Content.data _ <| Content.nil ["p".toList, "div".toList]) (Content.data _ <| Content.nil ["div".toList])

/-- an unclosed `<br>` inside is popped by the enclosing end tag: `<div><br></div>` -/
example : BalancedBlock "div".toList
    [ .start "div".toList "<div>".toList true true false false,
      .start "br".toList "<br>".toList false false false false,
      .end_ "div".toList "</div>".toList true ] :=
  BalancedBlock.mk "<div>".toList "</div>".toList false true
    [.start "br".toList "<br>".toList false false false false] ["br".toList]
    (Content.open_ "br".toList _ _ _ _ <| Content.nil ["br".toList, "div".toList]) (by decide)

/-- the `_cache` boundary, on the events of `<div>x</div> &amp; foo\n\n<div>y</div>\n\n`: the reference after the
    first block is stored with the second block -/
example :
    (runEvents
      [ .start "div".toList "<div>".toList true true false false, .data "x".toList,
        .end_ "div".toList "</div>".toList false, .data " ".toList, .entityref "amp".toList,
        .data " foo\n\n".toList,
        .start "div".toList "<div>".toList true true false false, .data "y".toList,
        .end_ "div".toList "</div>".toList true, .data "\n\n".toList, .close [] ]).stash
      = ["<div>x</div>".toList, "&amp;<div>y</div>\n".toList] := by decide

/-! ### 2. comments, processing instructions, declarations, `<hr>` -/

/-- **C04, empty block-level constructs.**  Outside raw mode and not in the tail of a raw block, a comment,
    processing instruction, declaration, CDATA section or self-closed block-level tag at a line start
    (`handle_empty_tag` with `is_block` and `at_line_start()`) is stored verbatim (plus `\n` when a blank line
    follows), exactly once; `cleandoc` gains a `\n` if its last item ends with exactly one newline, then the
    placeholder and `\n\n`; nothing else changes except `intail` (set iff no blank line follows). -/
theorem C04_empty_once (st : ExSt) (text : Str) (bf : Bool) (hraw : st.inraw = false) (htail : st.intail = false) :
    step st (.empty text true true bf) =
      { st with
        intail := !bf,
        cleandoc := st.cleandoc ++ (if needsNewline st.cleandoc then [['\n']] else []) ++
                      [placeholder st.stash.length, ['\n', '\n']],
        stash := st.stash ++ [text ++ (if bf then ['\n'] else [])] } :=
  step_empty_block st text bf hraw htail

/-- `<hr>` (a start tag in `empty_tags`) takes the same path in every state, so `C04_empty_once` covers it -/
theorem C04_hr_once (st : ExSt) (tag text : Str) (als isb bf : Bool) :
    step st (.start tag text als isb true bf) = step st (.empty text isb als bf) := rfl

/-- non-vacuity: `text\n\n<!-- *c* -->\n\n` (recorded events) -/
example :
    runEvents [.data "text\n\n".toList, .empty "<!-- *c* -->".toList true true true, .data "\n\n".toList, .close []] =
      { cleandoc := ["text\n\n".toList, placeholder 0, "\n\n".toList, "\n\n".toList],
        stash := ["<!-- *c* -->\n".toList] } := by decide

example : needsNewline ["a\n".toList] = true ∧ needsNewline ["a\n\n".toList] = false ∧ needsNewline [] = false := by
  decide

/-! ### 3. inline tags, references and text -/

/-- **C04, inline.**  Outside raw mode and not in the tail of a raw block, text, start tags of elements that are
    not block-level, end tags, character references and entity references are appended to `cleandoc` verbatim, in
    order (so the inline patterns see them in place, with the text around them), and neither the stash nor any other
    part of the state changes. -/
theorem C04_inline_data (st : ExSt) (evs : List Event) (h : ∀ e ∈ evs, InlineEv e = true)
    (hraw : st.inraw = false) (htail : st.intail = false) :
    runFrom st evs = { st with cleandoc := st.cleandoc ++ evs.map evText } :=
  run_inline evs st h hraw htail

/-- in terms of the text handed on: it grows by exactly the source text of the events -/
theorem C04_inline_text (st : ExSt) (evs : List Event) (h : ∀ e ∈ evs, InlineEv e = true)
    (hraw : st.inraw = false) (htail : st.intail = false) :
    cleanText (runFrom st evs) = cleanText st ++ evsText evs ∧ (runFrom st evs).stash = st.stash := by
  rw [C04_inline_data st evs h hraw htail]; simp [cleanText, evsText]

/-- non-vacuity: the recorded events of `a <b>x</b> &amp; &#65; c\n\n` -/
example : ∀ e ∈ [Event.data "a ".toList, .start "b".toList "<b>".toList false false false false, .data "x".toList,
      .end_ "b".toList "</b>".toList false, .data " ".toList, .entityref "amp".toList, .data " ".toList,
      .charref "65".toList, .data " c\n\n".toList], InlineEv e = true := by decide

example :
    cleanText (runEvents [Event.data "a ".toList, .start "b".toList "<b>".toList false false false false,
      .data "x".toList, .end_ "b".toList "</b>".toList false, .data " ".toList, .entityref "amp".toList,
      .data " ".toList, .charref "65".toList, .data " c\n\n".toList, .close []]) = "a <b>x</b> &amp; &#65; c\n\n".toList := by
  decide

/-! ### 4. restoration -/

/-- **C04, restoration of a block.**  One pass of `RawHtmlPostprocessor.run` over a text in which the paragraph
    `<p>placeholder i</p>` follows a prefix without placeholder characters: when `stash[i]` is block-level, the
    whole paragraph — `<p>` and `</p>` included — is replaced by `stash[i]` verbatim, at that very place; the prefix is
    unchanged and the pass goes on with the rest.  (Texts with several placeholders: apply the theorem again to
    `post`.) -/
theorem C04_restore_block (stash : List Str) (i : Nat) (raw pre post : Str)
    (hi : stash[i]? = some raw) (hb : isBlockLevel raw = true) (hpre : '\x02' ∉ pre) :
    restorePass stash (pre ++ pOpen ++ placeholder i ++ pClose ++ post) = pre ++ raw ++ restorePass stash post :=
  restore_block stash i raw pre post hi hb hpre

/-- **C04, restoration in place.**  A placeholder that does not make up a paragraph of its own (inside a list item,
    or with other text in its paragraph) is replaced by `stash[i]` verbatim, whatever `stash[i]` is. -/
theorem C04_restore_bare (stash : List Str) (i : Nat) (raw pre post : Str)
    (hi : stash[i]? = some raw) (hpre : '\x02' ∉ pre)
    (hw : (¬ ∃ pre1, pre = pre1 ++ pOpen) ∨ startsWith post pClose = false) :
    restorePass stash (pre ++ placeholder i ++ post) = pre ++ raw ++ restorePass stash post :=
  restore_bare stash i raw pre post hi hpre hw

/-- a stashed text that starts with `<`, a block-level tag name and a space or `>` is block-level -/
theorem C04_isBlockLevel_of_tag (name rest : Str) (c : Char) (hc : c = ' ' ∨ c = '>')
    (hname : ∀ x ∈ name, notSpGt x = true) (h0 : ∀ x, name.head? = some x → x ∉ ['/', '!', '?', '@', '%'])
    (hne : name ≠ []) (hb : isBlockLevelTag name = true) :
    isBlockLevel ('<' :: (name ++ c :: rest)) = true :=
  isBlockLevel_of_tag name rest c hc hname h0 hne hb

/-- non-vacuity and end to end on the example: the stash entry extracted from the recorded events is block-level,
    and the paragraph the block parser makes of its placeholder is replaced by the block exactly as written -/
example : isBlockLevel "<div>\n*x*\n\n<p>y</p>\n</div>\n".toList = true := by decide

example :
    restorePass (runEvents (exampleBlock ++ [.data "\n\n".toList, .close []])).stash
        ("<h1>t</h1>\n".toList ++ pOpen ++ placeholder 0 ++ pClose ++ "\n<p>z</p>".toList)
      = "<h1>t</h1>\n<div>\n*x*\n\n<p>y</p>\n</div>\n\n<p>z</p>".toList := by decide

example : ¬ ∃ pre1, "<li>".toList = pre1 ++ pOpen := by
  rintro ⟨pre1, h⟩
  have := congrArg List.reverse h
  simp [pOpen] at this

example : restorePass ["<b>".toList] ("<li>".toList ++ placeholder 0 ++ "x</li>".toList) = "<li><b>x</li>".toList := by
  decide

example : ["<div>*x*</div>".toList, "<b>".toList][0]? = some "<div>*x*</div>".toList ∧
    isBlockLevel "<div>*x*</div>".toList = true ∧ '\x02' ∉ "<h1>t</h1>\n".toList ∧ '\x02' ∉ "<li>".toList ∧
    startsWith "x</li>".toList pClose = false := by decide

/-- the hypotheses of `C04_isBlockLevel_of_tag` on `<div class="c">…` -/
example : (' ' = ' ' ∨ ' ' = '>') ∧ (∀ x ∈ "div".toList, notSpGt x = true) ∧
    (∀ x, "div".toList.head? = some x → x ∉ ['/', '!', '?', '@', '%']) ∧ "div".toList ≠ [] ∧
    isBlockLevelTag "div".toList = true := by decide

/-- the `isBlockLevel` boundary: a newline directly after the tag name -/
example : isBlockLevel "<div\nclass=\"x\">foo</div>".toList = false := by decide

end MdVerif.Extract
