/-
C02 — "Conversion is total: it never raises and always terminates" — the extension pipeline WITH FOOTNOTES (and, in
part 2, with toc): `convertXBig` returns a string.

C02: "Converting any Unicode string, with any combination of the bundled extensions and either output format, returns a
string: it never raises an exception and never fails to terminate."

`Props/C02Big.lean` ends with `C02_convertXBig_ok_attr_list`: `convertXBig` (`PipelineX.convertX` with the stack loop of
the inline stage on a provably sufficient fuel) answers `ok` for every flag set WITHOUT footnotes and toc.  Here:

1. `C02_stx_token_invariant_fn` — the STX-token invariant of `C02_stx_token_invariant_X` with the two footnote tokens:
   in every text, tail and stashed string every STX is followed by `k`, `w`, **`q`, `z`** or by a complete escape token
   (ASCII digits, ETX, number below 0x110000); attribute values the same up to a cut at the end (`TokG.NodeS`;
   `Lemmas/C02Fn{Str,Pat,Run,Tree,XTok}.lean` are `Lemmas/C02Big{Str,Pat,Run,Tree,XTok}.lean` with the letter set
   enlarged — no inline pattern cuts the data in front of a `q` or a `z`).  `FootnoteTreeprocessor` establishes it
   (`C02_footnote_treeprocessor_tokens`: footnote bodies hold no STX, the back-link text `STX zz…qq ETX` and
   `NBSP_PLACEHOLDER = STX qq…zz ETX` are of the class), `FootnotePostTreeprocessor` keeps it
   (`C02_footnote_duplicates_tokens`), and `UnescapeTreeprocessor` does not raise on it (`C02_unescape_never_raises_fn`).
2. `C02_footnote_duplicates_never_raises` — `FootnotePostTreeprocessor.run` never raises (error source (1) of
   `C02_convertX_err_sources` in `Props/C02X.lean`): the only `div` whose class is exactly `footnote` is the one
   `makeFootnotesDiv` builds — `div > hr, ol > li#fn:ID…` —, the inline stage keeps that shape, the `id` of every `li`
   and the `href` of every `a.footnote-backref` contain a `:` (`Lemmas/C02FnDup{,2}.lean`).  (F-C02-5, a raw-HTML
   `<div class="footnote">`, is the way to make it raise; impossible without `<`.)
3. **`C02_convertXBig_ok_footnotes`** — for EVERY flag set with toc off (ten of the eleven extensions on or off),
   every configuration (`tab_length ≥ 1` with admonition or fenced_code), every `<`-free source of the model's
   domain: `convertXBig x cfg src = ok out`.  The domain (`InDomainFn`, decidable): `InDomain` of
   `C02_convertXBig_ok_attr_list` and, with footnotes, no footnote body that itself defines a footnote
   (`fnOod`; on the real code `RuntimeError: dictionary changed size during iteration`, F-C02-2).

4. `C02_tocRun_clean`, **`C02_convertXBig_ok_toc_partial`**, **`C02_convertXBig_ok_all_partial`** — WITH TOC, and the
   combined statement for EVERY subset of the eleven extensions, under ONE extra decidable hypothesis when toc is on:
   `tocClean` — no heading element of the tree handed to `TocTreeprocessor` holds an STX (its serialisation after
   `remove_fnrefs`, its attribute values).  Headings with emphasis, links, code, abbreviations, footnote references,
   attribute lists (`{: #id data-toc-label=… }`), duplicated names, inside admonitions are covered; excluded are headings
   whose text has a backslash escape or an entity reference (an escape token / a raw-HTML placeholder is in the tree when
   toc runs) — there the model and the implementation answer as well (examples below), but the proof would need a token
   class through serialise / unescape / postprocessors / `strip_tags` inside `TocTreeprocessor`, which is left open.
   Under `tocClean` everything `TocTreeprocessor` computes is free of STX: `run` never answers `err`
   (`C02_tocRun_err_only_unescape`'s four `unescape` calls meet no STX), the `div.toc` and the new ids hold no STX, so
   the final `UnescapeTreeprocessor` meets bad tokens neither in the old part of the tree (`NodeNB`) nor in the new one.

5. **`C02_convertXBig_ok_toc`**, **`C02_convertXBig_ok_all`** — toc WITHOUT a hypothesis on the headings: for EVERY flag
   set with toc on (all ten others — attr_list, abbr, footnotes, fenced_code, … — on or off), every configuration in
   which STX is not among `ESCAPED_CHARS`, EVERY source whose abbreviations (when abbr is on) do not start with a digit
   or with `k`, `w`, `q`, `z` (`AbbrHeads`, decidable): no tree processor raises.  `TocTreeprocessor` applies `unescape`
   to the serialised heading, and `UnescapeTreeprocessor` applies it AGAIN to the name it wrote into the `div.toc`; the
   proof follows the heading through both:
   * the token invariant is strengthened to "no escape token has the value 2" (`TokH`, `C02_stx_token_invariant_safe`:
     `unescape` never WRITES an STX), tag and attribute names hold no STX (`C02Names.NamesOk`);
     `AttrListTreeprocessor` keeps both (`C02_attr_list_keeps_tokens`; it is false for the plain invariant — a class
     appended behind a `class` value that ends in a cut token — hence `NodeSC`), and so does `AbbrTreeprocessor` under
     `AbbrHeads` (`C02_abbr_keeps_tokens`: it cuts a text in front of the first character of an abbreviation; without
     the hypothesis the abbreviation `42` cuts the token of `\*` in two, `STX<abbr>42</abbr>ETX`, F-C10-6);
   * the serialisation of a heading is of the class `Z0c` (`C02_serialized_heading_class`): every STX is followed by a
     letter `k w q z`, a complete safe token, or is DEAD — digits up to the closing quote of an attribute value;
   * `unescape` maps `Z0` into `Z3` (`C02_unescape_twice`: every STX is followed by a letter or is dead), which cutting
     at `>`/`<`, stripping, the raw-HTML restore, the footnote postprocessor, the `&` substitute, `strip_tags` and
     `escape` keep (`C02_toc_name_ops_keep_class`: all of them rewrite at characters that are no letter `k w q z`, no
     digit and no `"`), and a `Z3` string holds no bad token;
   so `TocTreeprocessor.run` never answers `err` (`C02_tocRun_never_err`) and its tree holds no bad token.
   When an abbreviation does start with such a character the partial statement of 4. remains (`TocHyp`).

Only property statements live here; proofs in `MdVerif/Lemmas/C02Fn*.lean`.  Core Lean only.
-/
import MdVerif.Lemmas.C02FnOk
import MdVerif.Lemmas.C02FnDup2
import MdVerif.Lemmas.C02FnTocAll
import MdVerif.Lemmas.C02FnTocZAll

namespace MdVerif.C02Fn
open Py Pipeline PipelineX C02BigX

/-! ### 1. the STX-token invariant with the footnote tokens -/

open TokG InlineX in
/-- **The STX-token invariant through the inline tree processor over ANY pattern table, footnote tokens included**:
    with reference definitions and footnote ids free of STX (`XOK`), `runLoopX` keeps "every STX is followed by `k`,
    `w`, `q`, `z` or a complete escape token below 0x110000" (attribute values: up to a cut at the end), on any
    fuels. -/
theorem C02_stx_token_invariant_fn {xc : XCfg} (hx : XOK xc) (g2 g : Nat) {root t : Node} {stack : List Inline.Path}
    {x x' : XSt} (h : runLoopX xc g2 g root stack x = some (t, x')) (hd : root.Forall NodeS)
    (hs : StashS x.st.stash) : t.Forall NodeS :=
  runLoopX_S hx g2 g root stack x t x' h hd hs

/-- the invariant of `C02_stx_token_invariant_X` (letters `k`, `w`) implies it -/
theorem C02_token_invariant_weakens {t : Node} (h : t.Forall TokFull.NodeS) : t.Forall TokG.NodeS :=
  forallS_of_full h

/-- what the class accepts and what not: the two footnote tokens, an escape token, placeholders; not a token whose
    number `chr()` refuses, not an STX before another letter -/
example : TokG.SOk FootnotesTree.fnBacklinkText = true ∧ TokG.SOk FootnotesTree.nbspPlaceholder = true ∧
    TokG.SOk "x\x0242\x03 \x02klzzwxh:0000\x03 \x02wzxhzdk:1\x03".toList = true ∧
    TokG.SOk "\x021114112\x03".toList = false ∧ TokG.SOk "\x02amp\x03".toList = false ∧
    TokFull.SOk FootnotesTree.fnBacklinkText = false := by decide

/-- **`UnescapeTreeprocessor` does not raise on a tree with the invariant** -/
theorem C02_unescape_never_raises_fn {n : Node} (h : n.Forall TokG.NodeS) : (TreeProc.unescapeTree n).isSome = true :=
  TokG.unescapeTree_S h

/-- **The tree handed to the inline stage has the invariant — footnotes on or off**, every flag set
    (`tab_length ≥ 1` with fenced_code), every source; the log of table writes (reference definitions, footnote ids
    and bodies, abbreviations) holds no STX/ETX. -/
theorem C02_footnote_treeprocessor_tokens {x : Exts} {cfg : Cfg} {src : Str} (htab : x.fencedCode = true → 0 < cfg.tab)
    {root : Node} {log : Block.Refs} {stash : List Str} (h : blockStageX x cfg src = .ok (root, log, stash)) :
    root.Forall TokG.NodeS ∧ NoCtl.BlkX.LogC NoCtl.Blk.okc (NoCtl.Blk.AllC NoCtl.Blk.okc) log :=
  blockStageX_tokG htab h

/-- **`FootnotePostTreeprocessor.run` keeps the invariant**: the `href` of a copied back-link is
    `ref + str(i) + ':' + rest` for `ref, rest = href.split(':', 1)` — digits in front of a `:`, which continues no STX
    and ends no token -/
theorem C02_footnote_duplicates_tokens {fn : Footnotes.State} (n r : Node) (hn : n.Forall TokG.NodeS)
    (h : FootnotesTree.duplicates fn n = some r) : r.Forall TokG.NodeS :=
  TokG.duplicates_S n r hn h

/-! ### 2. `FootnotePostTreeprocessor` never raises -/

/-- **`FootnotePostTreeprocessor.run` never raises on the tree the inline stage returns** — every flag set, every
    configuration, EVERY source, any fuels of the two loops of `InlineProcessor.run`, whatever was referenced how often
    (`fn` arbitrary).  `handle_duplicates` raises `ValueError` when the `id` of a child of the first `ol` of a
    `div.footnote`, or the `href` of its first `a.footnote-backref`, has no `:`; the proof carries the shape of the
    `div` that `makeFootnotesDiv` builds through `placeDiv` and the inline stage (`C02FnDup.inv`) and shows that no
    other `div` has the class `footnote` and every `a.footnote-backref` a `href` with a `:`. -/
theorem C02_footnote_duplicates_never_raises {x : Exts} {cfg : Cfg} {src : Str} {root : Node} {log : Block.Refs}
    {stash : List Str} (hb : blockStageX x cfg src = .ok (root, log, stash))
    (g2 g : Nat) (xs0 : InlineX.XSt) (hst : xs0.st.stash = []) {t : Node} {xs : InlineX.XSt}
    (hr : InlineX.runLoopX (inlineCfgX x cfg log) g2 g root [[]] xs0 = some (t, xs))
    (fn : Footnotes.State) : FootnotesTree.duplicates fn t ≠ none :=
  C02FnDup.duplicates_ne_none hb g2 g xs0 hst hr fn

/-- … in particular on the sufficient fuel of `convertXBig` (`DupOk`) -/
theorem C02_dupOk (x : Exts) (cfg : Cfg) (src : Str) : DupOk x cfg src := by
  intro root log stash t xs hb hr
  unfold dupStage
  split
  · unfold runXBig at hr
    exact C02FnDup.duplicates_ne_none hb _ _ _ rfl hr xs.fn
  · intro h; cases h

/-- it does raise on a `div.footnote` of another shape (a forged tree; with raw HTML: F-C02-5) -/
example : FootnotesTree.duplicates Footnotes.State.empty
    { tag := .name "div".toList, attrs := [("class".toList, "footnote".toList)],
      children := [{ tag := .name "ol".toList, children := [{ tag := .name "li".toList }] }] } = none := by
  decide +kernel

/-! ### 3. `convert` returns a string -/

/-- **The tree handed to the serializer has the bare wrapper `div` as its root — toc off, FOOTNOTES and everything else
    on or off** (on the sufficient fuel, with admonition too): `placeDiv` replaces or appends children of the root only,
    `FootnotePostTreeprocessor` rebuilds every element with its tag and attributes. -/
theorem C02_treeXBig_rootDiv_footnotes (x : Exts) (htoc : x.toc = false) (cfg : Cfg) (src : Str) (u : Node)
    (html : List Str) (h : treeXBig x cfg src = .ok u html) : C14X.rootDiv u = true :=
  treeXBig_rootDiv_fn htoc h

/-- **`Markdown.convert` never raises when toc is off** — tables, admonition, def_list, abbr, FOOTNOTES, sane_lists,
    attr_list, nl2br, wikilinks, fenced_code on or off (`tab_length ≥ 1` with fenced_code); every configuration, EVERY
    source (with `<`: `ood`). -/
theorem C02_convertXBig_never_err_footnotes (x : Exts) (htoc : x.toc = false) (cfg : Cfg) (src : Str)
    (htab : x.fencedCode = true → 0 < cfg.tab) : convertXBig x cfg src ≠ .err :=
  convertXBig_ne_err_fn htoc cfg src htab (C02_dupOk x cfg src)

/-- **C02 — `convert` returns a string — for every flag set without toc** (ten of the eleven extensions on or off,
    FOOTNOTES included): every configuration (`tab_length ≥ 1` when admonition or fenced_code is on); every `<`-free
    source of the model's domain (`InDomainFn`, decidable: with admonition no `!!!` followed by a non-ASCII character;
    with fenced_code and attr_list together no fenced block with options; with footnotes no footnote body that itself
    defines a footnote — F-C02-2) in whose normalised text, when wikilinks is on, no `[` is immediately followed by a
    blank.  No loop runs away (`C02_convertXBig_total…` of `Props/C02Big.lean`), nothing raises. -/
theorem C02_convertXBig_ok_footnotes (x : Exts) (htoc : x.toc = false) (cfg : Cfg) (src : Str) (hlt : '<' ∉ src)
    (htab : x.admonition = true ∨ x.fencedCode = true → 0 < cfg.tab) (hd : InDomainFn x cfg src)
    (hw : x.wikilinks = true → WikiSrc cfg src) : ∃ out, convertXBig x cfg src = .ok out :=
  convertXBig_ok_fn htoc cfg src hlt htab hd hw (C02_dupOk x cfg src)

/-- … and the model with its own fuel answers the same string, or `oof` (the stack loop of `runX` on the linear fuel) -/
theorem C02_convertX_ok_or_stack_fuel_footnotes (x : Exts) (htoc : x.toc = false) (cfg : Cfg) (src : Str)
    (hlt : '<' ∉ src) (htab : x.admonition = true ∨ x.fencedCode = true → 0 < cfg.tab) (hd : InDomainFn x cfg src)
    (hw : x.wikilinks = true → WikiSrc cfg src) :
    (∃ out, convertX x cfg src = .ok out ∧ convertXBig x cfg src = .ok out) ∨ convertX x cfg src = .oof := by
  by_cases h : convertX x cfg src = .oof
  · exact .inr h
  · left
    obtain ⟨out, ho⟩ := C02_convertXBig_ok_footnotes x htoc cfg src hlt htab hd hw
    refine ⟨out, ?_, ho⟩
    rw [← convertXBig_of_convertX_ne_oof_all h, ho]

/-- all ten on: a heading with an escape and an id; an abbreviation that cuts the escape token of `\*`; a footnote
    referenced three times (from a paragraph twice, from an admonition) with a body of two paragraphs, emphasis and an
    escape; a second footnote with a blank in its id whose body is a list, referenced from a table cell; the place
    marker; a wiki link, an inline attribute list, a line feed (nl2br), a fenced block that holds `[^1]` -/
def xFnAll : Exts :=
  { fencedCode := true, tables := true, admonition := true, defList := true, abbr := true, footnotes := true,
    saneLists := true, nl2br := true, wikilinks := true, attrList := true }
def srcFnAll : Str :=
  ("# T \\* {: #i }\n\n*[42]: answer\n\na[^1] b[^1] \\* [[W p]] *e*{: .c }\nline[^n 2]\n\n///Footnotes Go Here///\n\n" ++
   "!!! note\n    in[^1]\n\n```py\nx[^1]\n```\n\n|h|\n|-|\n|c[^n 2]|\n\n[^1]: note *n* \\_\n    more\n\n    second para\n\n" ++
   "[^n 2]:\n    - li\n").toList

/-- the hypotheses of `C02_convertXBig_ok_footnotes` hold for it -/
example : xFnAll.toc = false ∧ '<' ∉ srcFnAll ∧ 0 < ({} : Cfg).tab ∧ InDomainFn xFnAll {} srcFnAll ∧
    WikiSrc {} srcFnAll := by decide +kernel

/-- 1424 characters, the output of the implementation -/
example : (match convertXBig xFnAll {} srcFnAll, convertX xFnAll {} srcFnAll with
    | .ok a, .ok b => decide (a = b) && decide (a.length = 1424)
    | _, _ => false) = true := by decide +kernel

/-- the point excluded by `InDomainFn`: a footnote body that defines a footnote (the model answers `ood`; the
    implementation raises `RuntimeError: dictionary changed size during iteration` — F-C02-2 — unless it is the last
    footnote) -/
example : fnOod { footnotes := true } {} "[^1]: a\n\n    [^2]: nested def\n\nt[^1]".toList = true ∧
    convertXBig { footnotes := true } {} "[^1]: a\n\n    [^2]: nested def\n\nt[^1]".toList = .ood := by
  decide +kernel

/-! ### 4. toc (partial) and every flag set -/

open C02Toc

/-- **`TocTreeprocessor.run` on a tree without bad tokens whose headings hold no STX** (`hdsClean`: for every element
    `[Hh][1-6]`, the serialisation after `remove_fnrefs` and the attribute values), with postprocessors that are the
    identity on STX-free strings (`postX` is: `C02Toc.postX_noSTX`): `run` never answers `err` — it answers `ood`
    (`html.unescape` / `slugify` outside the model) or `ok t'` where `t'` holds no bad token either (new ids, the
    `div.toc` built from the nested tokens), and the root keeps its tag and, being no heading, its attributes. -/
theorem C02_tocRun_clean {env : TocTree.Env} (hpost : ∀ s, TreeProc.STX ∉ s → env.post s = some s) (bl : List Str)
    (root : Node) (hc : hdsClean env.fmt root = true) (hnb : root.Forall C02BigNB.NodeNB) :
    TocTree.run env bl root = .ood ∨ ∃ t', TocTree.run env bl root = .ok t' ∧ t'.Forall C02BigNB.NodeNB ∧
      t'.tag = root.tag ∧ (TocTree.isHeaderTag root.tag = false → t'.attrs = root.attrs) :=
  run_clean hpost bl root hc hnb

/-- the postprocessors are the identity on a string without STX (no placeholder, no footnote token, no `&` substitute) -/
theorem C02_postX_identity (x : Exts) (cfg : Cfg) (stash : List Str) {s : Str} (h : TreeProc.STX ∉ s) :
    postX x cfg stash s = some s :=
  postX_noSTX x cfg stash h

/-- **The root is the bare wrapper `div` — EVERY flag set** (toc included: it sets ids on headings and replaces marker
    elements below the root only) -/
theorem C02_treeXBig_rootDiv_all (x : Exts) (cfg : Cfg) (src : Str) (u : Node) (html : List Str)
    (h : treeXBig x cfg src = .ok u html) : C14X.rootDiv u = true :=
  treeXBig_rootDiv_all h

/-- **`Markdown.convert` never raises — every flag set; with toc when the headings handed to `TocTreeprocessor` hold no
    STX** (`tocClean`, decidable by evaluation).  EVERY source (`tab_length ≥ 1` with fenced_code). -/
theorem C02_convertXBig_never_err_all_partial (x : Exts) (cfg : Cfg) (src : Str)
    (htab : x.fencedCode = true → 0 < cfg.tab) (hcl : x.toc = true → tocClean x cfg src = true) :
    convertXBig x cfg src ≠ .err :=
  convertXBig_ne_err_all cfg src htab hcl

/-- **C02 with toc (partial): `convert` returns a string** — toc ON, the other ten extensions on or off; every
    configuration (`tab_length ≥ 1` with admonition or fenced_code); every `<`-free source of the model's domain
    (`treeOod = false`, decidable: the stages up to the serializer do not answer "out of domain" — the cases of
    `InDomainFn`, and for toc a heading name with an `&` that starts none of `&amp; &lt; &gt; &quot;` or a non-ASCII
    character) that satisfies `tocClean` and, with wikilinks, `WikiSrc`. -/
theorem C02_convertXBig_ok_toc_partial (x : Exts) (htoc : x.toc = true) (cfg : Cfg) (src : Str) (hlt : '<' ∉ src)
    (htab : x.admonition = true ∨ x.fencedCode = true → 0 < cfg.tab) (hd : treeOod x cfg src = false)
    (hw : x.wikilinks = true → WikiSrc cfg src) (hcl : tocClean x cfg src = true) :
    ∃ out, convertXBig x cfg src = .ok out :=
  convertXBig_ok_all cfg src hlt htab hd hw (fun _ => hcl)

/-- **C02 for the whole extension model (partial for toc): every subset of the eleven extensions** — fenced_code,
    tables, admonition, def_list, abbr, footnotes, sane_lists, nl2br, wikilinks, attr_list, toc —, every configuration
    (`tab_length ≥ 1` with admonition or fenced_code), every `<`-free source of the model's domain, under the decidable
    hypotheses `WikiSrc` (wikilinks) and `tocClean` (toc): `convertXBig x cfg src = ok out` — every loop ends within its
    fuel, nothing raises.  Without toc `tocClean` is not needed and the domain is `InDomainFn`
    (`C02_convertXBig_ok_footnotes`, `C02_domain_without_toc`). -/
theorem C02_convertXBig_ok_all_partial (x : Exts) (cfg : Cfg) (src : Str) (hlt : '<' ∉ src)
    (htab : x.admonition = true ∨ x.fencedCode = true → 0 < cfg.tab) (hd : treeOod x cfg src = false)
    (hw : x.wikilinks = true → WikiSrc cfg src) (hcl : x.toc = true → tocClean x cfg src = true) :
    ∃ out, convertXBig x cfg src = .ok out :=
  convertXBig_ok_all cfg src hlt htab hd hw hcl

/-- without toc the domain hypothesis is the source-level `InDomainFn` -/
theorem C02_domain_without_toc (x : Exts) (htoc : x.toc = false) (cfg : Cfg) (src : Str) (hd : InDomainFn x cfg src) :
    treeOod x cfg src = false :=
  treeOod_of_inDomainFn htoc hd

/-- … and the model with its own fuel answers the same string, or `oof` (the stack loop of `runX` on the linear fuel) -/
theorem C02_convertX_ok_or_stack_fuel_all_partial (x : Exts) (cfg : Cfg) (src : Str) (hlt : '<' ∉ src)
    (htab : x.admonition = true ∨ x.fencedCode = true → 0 < cfg.tab) (hd : treeOod x cfg src = false)
    (hw : x.wikilinks = true → WikiSrc cfg src) (hcl : x.toc = true → tocClean x cfg src = true) :
    (∃ out, convertX x cfg src = .ok out ∧ convertXBig x cfg src = .ok out) ∨ convertX x cfg src = .oof := by
  by_cases h : convertX x cfg src = .oof
  · exact .inr h
  · left
    obtain ⟨out, ho⟩ := C02_convertXBig_ok_all_partial x cfg src hlt htab hd hw hcl
    refine ⟨out, ?_, ho⟩
    rw [← convertXBig_of_convertX_ne_oof_all h, ho]

/-- ALL ELEVEN on: the marker; a heading with emphasis, a link with a title, a footnote reference and an explicit id; two
    headings with the same name that hold an abbreviation and a code span; a heading with a `data-toc-label`; a heading
    inside an admonition; a `#` line inside a fenced block; a paragraph with an escape, a wiki link and an entity
    reference (not in a heading) -/
def xAllOn : Exts := { xFnAll with toc := true }
def srcAllOn : Str :=
  ("[TOC]\n\n# T *e* [l](/u \"t\")[^1] {: #i }\n\n## Sub HTML `c`\n\n## Sub HTML `c`\n\n*[HTML]: Hyper\n\n" ++
   "a[^1] \\* [[W p]] &amp;\n\n### deep {: data-toc-label=\"lbl\" }\n\n" ++
   "!!! note\n    # in adm\n\n```py\n# no heading\n```\n\n[^1]: note\n").toList

/-- the hypotheses of `C02_convertXBig_ok_all_partial` hold for it -/
example : '<' ∉ srcAllOn ∧ 0 < ({} : Cfg).tab ∧ treeOod xAllOn {} srcAllOn = false ∧ WikiSrc {} srcAllOn ∧
    tocClean xAllOn {} srcAllOn = true := by decide +kernel

/-- 1127 characters, the output of the implementation -/
example : (match convertXBig xAllOn {} srcAllOn, convertX xAllOn {} srcAllOn with
    | .ok a, .ok b => decide (a = b) && decide (a.length = 1127)
    | _, _ => false) = true := by decide +kernel

/-- the points excluded by `tocClean`: a backslash escape or an entity reference in a heading (an escape token / a
    raw-HTML placeholder is in the tree when toc runs).  The model — and the implementation — answer there as well -/
example : tocClean { toc := true } {} "# a \\* b".toList = false ∧ tocClean { toc := true } {} "# a &amp; b".toList = false ∧
    convertXBig { toc := true } {} "# a \\* b\n\n[TOC]".toList =
      .ok "<h1 id=\"a-b\">a * b</h1>\n<div class=\"toc\">\n<ul>\n<li><a href=\"#a-b\">a * b</a></li>\n</ul>\n</div>".toList := by
  decide +kernel

/-- the domain: a bare `&` in a heading is inside (`&amp;` in the name), a non-ASCII heading outside (`slugify`) -/
example : treeOod { toc := true } {} "# a & b".toList = false ∧ treeOod { toc := true } {} "# é".toList = true := by
  decide +kernel

/-! ### 5. toc without a hypothesis on the headings -/

open C02TocZ C02Z

open TokH InlineX in
/-- **The STX-token invariant with SAFE tokens** (`TokH`: as `TokG`, and no complete escape token has the value 2, so
    that `unescape` never writes an STX) through the inline tree processor over any pattern table, on any fuels — when
    reference definitions and footnote ids hold no STX and STX is not among `ESCAPED_CHARS` (`XOK`). -/
theorem C02_stx_token_invariant_safe {xc : XCfg} (hx : XOK xc) (g2 g : Nat) {root t : Node} {stack : List Inline.Path}
    {x x' : XSt} (h : runLoopX xc g2 g root stack x = some (t, x')) (hd : root.Forall NodeS)
    (hs : StashS x.st.stash) : t.Forall NodeS :=
  runLoopX_S hx g2 g root stack x t x' h hd hs

/-- the configuration of the pipeline qualifies when STX is not escapable; the tree of the block stage has the invariant -/
theorem C02_block_stage_safe_tokens {x : Exts} {cfg : Cfg} {src : Str} (htab : x.fencedCode = true → 0 < cfg.tab)
    (hesc : cfg.esc.contains Inline.STX = false) {root : Node} {log : Block.Refs} {stash : List Str}
    (h : blockStageX x cfg src = .ok (root, log, stash)) :
    root.Forall TokH.NodeS ∧ root.Forall C02Names.NamesC ∧ TokH.XOK (inlineCfgX x cfg log) := by
  obtain ⟨h1, h2⟩ := C02FnH.blockStageX_tokH htab h
  exact ⟨h1, C02Names.blockStageX_names htab h, C02FnH.xokH_inlineCfgX x cfg hesc h2⟩

/-- the default `ESCAPED_CHARS` qualify -/
example : ({} : Cfg).esc.contains Inline.STX = false := by decide

/-- **`AttrListTreeprocessor` keeps the token invariant** when the `class` values of the tree are complete (`NodeSC`; in
    the pipeline they are literals): every value the scanner produces ends at the end of the group or in front of a
    blank, `=`, `}` or the closing quote; the new text of a block-level element ends in front of a blank or a line feed;
    the new tail of an inline element is a suffix of the old one.  It also keeps tag and attribute names free of STX
    (`sanitize_name`). -/
theorem C02_attr_list_keeps_tokens (bl : List Str) {t : Node} (h : t.Forall C02FnHAttr.NodeSC) :
    (AttrListTree.run bl t).Forall C02FnHAttr.NodeSC :=
  C02FnHAttr.attrRun_SC bl h

/-- … not for the plain invariant: a class appended behind a `class` value that ends in a cut token -/
example : (C02FnHAttr.cex.children.map (fun c => c.attrs.map (fun kv => TokH.SOkA kv.2)),
    (AttrListTree.run [] C02FnHAttr.cex).children.map (fun c => c.attrs.map (fun kv => (kv.2, TokH.SOkA kv.2)))) =
    ([[true]], [[("\x024 foo".toList, false)]]) := by decide

/-- **`AbbrTreeprocessor` keeps the token invariant when no abbreviation starts with a character that may follow an
    STX** (`hk`: no digit, not `k w q z`; `hks`, `ht`: abbreviations without STX, titles complete up to a cut — in the
    pipeline the table comes from the source, which holds no STX): the text in front of an occurrence ends in front of
    the first character of the abbreviation, the text behind it is a suffix. -/
theorem C02_abbr_keeps_tokens (abbrs : List (Str × Str))
    (hk : ∀ kv ∈ abbrs, ∀ c, kv.1.head? = some c → TokH.cutOk c = true) (hks : ∀ kv ∈ abbrs, TreeProc.STX ∉ kv.1)
    (ht : ∀ kv ∈ abbrs, TokH.SOkA kv.2 = true) {t : Node} (h : t.Forall TokH.NodeS) :
    (AbbrTree.run abbrs t).Forall TokH.NodeS :=
  C02FnHAbbr.abbrRun_S abbrs hk hks ht h

/-- **The serialisation of a tree whose texts are complete (`Z0c`), whose attribute values are complete up to a cut at
    the end (`ZA`) and whose names hold no STX is of the class `Z0c`**: every STX is followed by a letter `k w q z`, by a
    complete safe escape token, or by decimal digits up to a `"` (a cut token in front of the closing quote of its
    attribute value: dead). -/
theorem C02_serialized_heading_class (fmt : Ser.Fmt) (n : Node) (h : n.Forall NodeZ) :
    Z0c (Ser.serialize fmt n) = true :=
  Z0c_serialize fmt n h

/-- **`unescape` twice**: on a `Z0` string `UnescapeTreeprocessor.unescape` does not raise and returns a `Z3` string —
    every STX is followed by `k w q z` or by decimal digits up to a `"` or the end of the string —, and a `Z3` string
    holds no `STX digits ETX` at all, so a second `unescape` (and any later one) does not raise either. -/
theorem C02_unescape_twice {s : Str} (h : Z0 s = true) :
    ∃ o, TreeProc.unescapeText 0 s = some o ∧ Z3 o = true ∧ TreeProc.unescapeText 0 o ≠ none := by
  obtain ⟨o, ho, h3⟩ := unescape_Z0 h
  refine ⟨o, ho, h3, ?_⟩
  intro hn
  exact Z3_NB h3 ((TreeProc.C02_unescape_raises_iff o).1 hn)

/-- **What `TocTreeprocessor` does to a name keeps `Z3`**: slicing, `strip`, the postprocessors (raw-HTML restore with a
    stash free of STX, footnote postprocessor, `&` substitute), `strip_tags`, `escape`. -/
theorem C02_toc_name_ops_keep_class {s : Str} (h : Z3 s = true) :
    (∀ n, Z3 (s.take n) = true ∧ Z3 (s.drop n) = true) ∧ Z3 (strip s) = true ∧ Z3 (TocTree.stripTags s) = true ∧
    Z3 (Ser.escCdata s) = true ∧
    ∀ (x : Exts) (cfg : Cfg) (stash : List Str) (o : Str), (∀ e ∈ stash, TreeProc.STX ∉ e) →
      postX x cfg stash s = some o → Z3 o = true :=
  ⟨fun n => ⟨Z3_take h n, Z3_drop h n⟩, Z3_strip h, Z3_stripTags h, Z3_escCdata h,
    fun x cfg _ _ hst ho => Z3_postX x cfg ho hst h⟩

/-- the classes are not trivial: a heading with an escape token, a leaked placeholder and a cut token in an attribute
    value is `Z0c`; a bad token, a token with the value 2, an STX before a blank are not; after `unescape` the tokens are
    gone, the dead STX stays -/
example : Z0c "<h1 id=\"a\x0245\x03b\" title=\"(\x024\">T \x0242\x03 \x02klzzwxh:0003\x03</h1>".toList = true ∧
    Z0 "\x021114112\x03".toList = false ∧ Z0 "\x022\x03".toList = false ∧ Z0 "\x02 ".toList = false ∧
    TreeProc.unescapeText 0 "t=\"(\x024\">T \x0242\x03".toList = some "t=\"(\x024\">T *".toList ∧
    Z3 "t=\"(\x024\">T *".toList = true := by decide

/-- **`TocTreeprocessor.run` never raises** on a tree with the safe-token invariant and clean names (`NodeH`), when the
    postprocessors keep `Z3`: it answers `oof` (the postprocessors ran out of fuel — excluded by
    `C02_convertXBig_total…`), `ood`, or `ok t'` with `t'` free of bad tokens — ids, names, labels, the `div.toc`. -/
theorem C02_tocRun_never_err {env : TocTree.Env} (hpost : ∀ s o, env.post s = some o → Z3 s = true → Z3 o = true)
    (bl : List Str) (root : Node) (hn : root.Forall NodeH) :
    TocTree.run env bl root = .oof ∨ TocTree.run env bl root = .ood ∨
      ∃ t', TocTree.run env bl root = .ok t' ∧ t'.Forall C02BigNB.NodeNB :=
  run_Z hpost bl root hn

/-- **`Markdown.convert` never raises — every flag set**; with toc: STX not escapable and (with abbr) `AbbrHeads`, or
    `tocClean` (`TocHyp`, decidable).  EVERY source (`tab_length ≥ 1` with fenced_code). -/
theorem C02_convertXBig_never_err_all (x : Exts) (cfg : Cfg) (src : Str)
    (htab : x.fencedCode = true → 0 < cfg.tab) (hcl : x.toc = true → TocHyp x cfg src) :
    convertXBig x cfg src ≠ .err :=
  convertXBig_ne_err_full cfg src htab hcl

/-- **C02 with toc — `convert` returns a string**: toc ON, the other TEN extensions (attr_list, abbr, footnotes,
    fenced_code, tables, admonition, def_list, sane_lists, nl2br, wikilinks) on or off; every configuration in which
    STX is not among `ESCAPED_CHARS` (`tab_length ≥ 1` with admonition or fenced_code); every `<`-free source of the
    model's domain (`treeOod = false`) whose abbreviations, when abbr is on, start with no digit and none of `k w q z`
    (`AbbrHeads (abbrTable x cfg src)`, decidable) — headings with backslash escapes, entity references, links whose
    destinations hold escaped `>` or quotes, attribute lists with escapes in ids and labels, abbreviations, footnote
    references included. -/
theorem C02_convertXBig_ok_toc (x : Exts) (htoc : x.toc = true) (cfg : Cfg)
    (hesc : cfg.esc.contains Inline.STX = false) (src : Str) (hlt : '<' ∉ src)
    (hab : x.abbr = true → AbbrHeads (abbrTable x cfg src))
    (htab : x.admonition = true ∨ x.fencedCode = true → 0 < cfg.tab) (hd : treeOod x cfg src = false)
    (hw : x.wikilinks = true → WikiSrc cfg src) : ∃ out, convertXBig x cfg src = .ok out :=
  convertXBig_ok_full cfg src hlt htab hd hw (fun _ => .inl ⟨hesc, hab⟩)

/-- **C02 for the whole extension model: every subset of the eleven extensions**, every configuration (`tab_length ≥ 1`
    with admonition or fenced_code), every `<`-free source of the model's domain (`treeOod = false`; without toc:
    `InDomainFn`, `C02_domain_without_toc`) under the decidable hypotheses `WikiSrc` (with wikilinks: no `[` immediately
    followed by a blank) and `TocHyp` (with toc: STX not among `ESCAPED_CHARS` and, with abbr, no abbreviation starting
    with a digit or `k w q z` — or the headings handed to `TocTreeprocessor` hold no STX): `convertXBig x cfg src = ok out` — every loop of every stage ends within its
    fuel, and nothing raises. -/
theorem C02_convertXBig_ok_all (x : Exts) (cfg : Cfg) (src : Str) (hlt : '<' ∉ src)
    (htab : x.admonition = true ∨ x.fencedCode = true → 0 < cfg.tab) (hd : treeOod x cfg src = false)
    (hw : x.wikilinks = true → WikiSrc cfg src) (hcl : x.toc = true → TocHyp x cfg src) :
    ∃ out, convertXBig x cfg src = .ok out :=
  convertXBig_ok_full cfg src hlt htab hd hw hcl

/-- … and the model with its own fuel answers the same string, or `oof` (the stack loop of `runX` on the linear fuel) -/
theorem C02_convertX_ok_or_stack_fuel_all (x : Exts) (cfg : Cfg) (src : Str) (hlt : '<' ∉ src)
    (htab : x.admonition = true ∨ x.fencedCode = true → 0 < cfg.tab) (hd : treeOod x cfg src = false)
    (hw : x.wikilinks = true → WikiSrc cfg src) (hcl : x.toc = true → TocHyp x cfg src) :
    (∃ out, convertX x cfg src = .ok out ∧ convertXBig x cfg src = .ok out) ∨ convertX x cfg src = .oof := by
  by_cases h : convertX x cfg src = .oof
  · exact .inr h
  · left
    obtain ⟨out, ho⟩ := C02_convertXBig_ok_all x cfg src hlt htab hd hw hcl
    refine ⟨out, ?_, ho⟩
    rw [← convertXBig_of_convertX_ne_oof_all h, ho]

/-- ALL ELEVEN on: a heading with escapes (`\\*`, `\\_` inside emphasis), an abbreviation, a link whose destination holds
    an escaped `>` and whose title an escaped quote, an entity reference, a character reference without `;`, a footnote
    reference, an attribute list with an escape in the id and in a `data-toc-label`; two equal headings with a bare
    `&`, a code span and a wiki link; a heading with an escaped `#` inside an admonition; an abbreviation whose title
    holds an escape -/
def srcEsc : Str :=
  ("[TOC]\n\n# T \\* HTML *e\\_* [l](/u\\>v \"t \\\"q\") &amp; &#38x[^1] {: #i\\-d .c data-toc-label=\"L \\* &lt;\" }\n\n" ++
   "## a & b `c\\*` [[W p]]\n\n## a & b `c\\*` [[W p]]\n\n*[HTML]: Hyper \\* Text\n\ntext[^1] \\* HTML\n\n" ++
   "!!! note\n    ### in \\# adm {: #x }\n\n[^1]: note HTML\n").toList

/-- the hypotheses of `C02_convertXBig_ok_toc` hold for it — and `tocClean` does not -/
example : xAllOn.toc = true ∧ ({} : Cfg).esc.contains Inline.STX = false ∧ '<' ∉ srcEsc ∧
    AbbrHeads (abbrTable xAllOn {} srcEsc) ∧ 0 < ({} : Cfg).tab ∧ treeOod xAllOn {} srcEsc = false ∧
    WikiSrc {} srcEsc ∧ tocClean xAllOn {} srcEsc = false := by
  decide +kernel

/-- 1173 characters, the output of the implementation -/
example : (match convertXBig xAllOn {} srcEsc, convertX xAllOn {} srcEsc with
    | .ok a, .ok b => decide (a = b) && decide (a.length = 1173)
    | _, _ => false) = true := by decide +kernel

/-- the point excluded by `AbbrHeads`: the abbreviation `42` cuts the escape token of `\\*` in the heading; `strip_tags`
    glues it together again and the second `unescape` turns it into `*` (the output of the implementation) -/
example : ¬ AbbrHeads (abbrTable { abbr := true, toc := true } {} "*[42]: answer\n\n# \\*".toList) ∧
    convertXBig { abbr := true, toc := true } {} "*[42]: answer\n\n# \\*\n\n[TOC]".toList =
      .ok ("<h1 id=\"42\">\x02<abbr title=\"answer\">42</abbr>\x03</h1>\n<div class=\"toc\">\n<ul>\n" ++
           "<li><a href=\"#42\">*</a></li>\n</ul>\n</div>").toList := by
  decide +kernel

end MdVerif.C02Fn
