/-
C01, nesting — Canonical Markdown renders to the prescribed structure; nesting one construct inside another, or
choosing a different spelling, never changes the rendering.

`C01_nest`: for every well-formed document of the sub-grammar `NestDoc` (`Spec/DocNest.lean`) and EVERY spelling,

    Pipeline.convert {} (print d sp) = .ok (spec d).

`NestDoc`: every block, at every depth, is
* a thematic break, or a paragraph / ATX heading / Setext heading whose inline content is MIXED (`mixRun`: words,
  backslash escapes, code spans without `<`, emphasis and strong around words — the content of `C01_inline_mix`);
* a block quote of such blocks — also of lists —, in either of its spellings (blocks separated by `>` lines: one chunk;
  or by blank lines: one chunk per block, each continuing the `blockquote` of the first);
* a bullet or ordered list, tight or loose, whose items are made of such blocks — also of quotes.
`WF` adds what it always adds (an item starts with a paragraph; a tight item holds nothing else but one tight list; the
lists inside a loose item are loose; no two lists and no two quotes next to each other; a loose list has two items or
an item with two blocks; …).  There is no bound on the depth: quotes in items in quotes in items, and so on.  This is
the whole block grammar of `Doc` except indented code blocks, with the inline grammar of `C01_inline_mix`; it contains
the sub-grammars of `C01_flat`, `C01_em_strong`, `C01_quote` and `C01_list` and of `C01_inline_mix` without code blocks.

Instances stated on their own: `C01_list_inline` (the list shapes of `C01_list` with mixed inline content in item
paragraphs and in the blocks of loose items) and `C01_quote_list` (lists inside quotes, quotes inside loose items).

How it is proved (helper lemmas: `Lemmas/DocParseNestTree.lean`, `DocParseNestBlock.lean`, `DocParseNestDoc.lean`):
* `C01_nest_tree_inline`, `C01_nest_tree_render`  element trees of any shape over the tags
      `hr p h1…h6 blockquote ul ol li` whose texts are mixed lines, through the inline processor (the `code`/`em`/
      `strong` elements it makes stand BEFORE the block children: `<li>a <em>b</em><ul>…`; when such an element is
      popped from the stack of `InlineProcessor.run`, its inline children are visited again and nothing happens to them
      — their tails hold the coded escapes, in which no pattern and no placeholder matches) and through all later stages;
* `C01_nest_tight_effect`   the chunk of a tight list whose item texts are mixed lines, nested to any depth;
* `C01_nest_chunk_to_hole`  a chunk goes to "the hole" of its context — the parent itself, or the innermost open list
      item below a chain of lists, reached through `ListIndentProcessor` — and what it does there is what it does when
      parsed on its own (`Loc`: chunks as local steps; `parseBlocks_append`);
* `C01_nest_block_in_hole`  every block (`OkB`: a locally parsed block — flat block, tight list, quote in either
      spelling — or a loose list) appends its element to the hole, chunk by chunk, in any context; by mutual induction
      over blocks / block lists / items;
* `C01_nest_quote_one_chunk`, `C01_nest_quote_chunks`   the two spellings of a quote whose children are ANY blocks with
      a known effect (lists included): the inner text splits into the chunks of the children;
* `C01_nest_print`  every printed block of the sub-grammar is such groups of lines and builds the tree whose rendering
      is `specBlock` — one mutual induction over all block kinds.
Fuel: effects are stated for "some fuel"; `parseDocument`'s own fuel suffices by totality and monotonicity.

Tested before proving (real implementation, `harness/corr/nest.py`): 0 differences on > 100 000 (document, spelling)
pairs of the sub-grammars (36 000 `ListMixDoc`, 48 000 `QuoteListDoc` / one step of nesting, 48 000 `NestDoc` to depth 5).

Not covered: indented code blocks inside the nesting (F-C01-2 region next to them), links / images / autolinks / hard
breaks and deeper emphasis inside nested blocks.
-/
import MdVerif.Model.Pipeline
import MdVerif.Spec.Doc
import MdVerif.Spec.DocNest
import MdVerif.Spec.DocList
import MdVerif.Lemmas.DocParseNestDoc

namespace MdVerif.DocNest
open Py Block DocSpec Escape Inline DocParse DocParse2

/-! ### the later stages on trees with mixed texts -/

/-- **Inline stage** on a `<div>` of element trees whose texts are mixed lines (`NT`): every text is processed where it
    sits; the elements made of it (`Txt.inl`) stand before the block children; the HTML stash is untouched. -/
theorem C01_nest_tree_inline (cfg : Inline.Cfg) (hE : EscOK cfg.esc) (ts : List NT) (hok : NT.oks cfg.esc ts)
    (html : List Str) :
    ∃ st', st'.html = html ∧
      Inline.run cfg (divOf (ts.map (NT.src cfg.esc))) html = some (divOf (ts.map (NT.mid cfg.esc)), st') :=
  run_nt cfg hE ts hok html

/-- **Rendering** of such trees: start tag, the text with its inline elements (or a line feed when there is no text
    but there are children), the block children each followed by a line feed, end tag; `<hr />` for a rule. -/
theorem C01_nest_tree_render (cfg : Pipeline.Cfg) (hE : EscOK cfg.esc)
    (hbl : cfg.blockLevel = TreeProc.defaultBlockLevel) (hfmt : cfg.fmt = .xhtml)
    (refs : List (Str × Str × Option Str)) (ts : List NT) (hne : ts ≠ []) (hok : NT.oks cfg.esc ts) :
    Probe.render cfg refs (divOf (ts.map (NT.src cfg.esc))) = .ok (join ['\n'] (NT.outs ts)) :=
  render_nt cfg hE hbl hfmt refs ts hne hok

/-! ### the block stage -/

/-- **A tight list whose item texts are mixed lines**, nested to any depth: its chunk appends the `ul`/`ol` element
    whose `li` children carry the item texts and the nested lists. -/
theorem C01_nest_tight_effect (esc : List Char) (o : Bool) (items : List TItem) (hne : items ≠ [])
    (h : ∀ it ∈ items, TItemOK esc o it) :
    EffX [joinLines (tlistLines esc items)] ((tlistTree o items).src esc) :=
  teffX_list o items hne h

/-- **One chunk goes to the hole of its context.**  `F` = the chain of open lists (empty: the hole `H` is the parent of
    the run; otherwise `H` is the innermost open item).  What the chunk — indented by one level per open list — does to
    the whole tree is what its lines, without the indentation, do to the hole when parsed on their own (`Loc`), in the
    state `detabbed` when it was routed there by `ListIndentProcessor`. -/
theorem C01_nest_chunk_to_hole {F : List (Node × Node)} {H H' : Node} (hctx : HoleOK F H) (st : List BState)
    (hl : isstate st .list = false) (hd : isstate st .detabbed = false)
    (g : List Str) (hg : GGroup g) (hsp : ∀ l, g.head? = some l → l.head? ≠ some ' ')
    (hloc : Loc (holeSt F st) (joinLines g) (holeP F H) H') (refs : Refs) (cont : List Str)
    (res : Node × Refs) (hr : RunsE st refs (plug F H') cont res) :
    RunsE st refs (plug F H) (joinLines (ind F.length g) :: cont) res :=
  step_hole hctx st hl hd g hg hsp hloc refs cont res hr

/-- **Every block appends its element to the hole**, chunk by chunk: a locally parsed block (flat block, tight list,
    quote in either spelling) or a loose list of such blocks, nested to any depth, in any context. -/
theorem C01_nest_block_in_hole (esc : List Char) (b : NB) (h : OkB esc b) (F : List (Node × Node)) (H : Node)
    (hctx : HoleOK F H) (hpok : POK (holeP F H) ((b.tree false).src esc)) (st : List BState)
    (hl : isstate st .list = false) (hd : isstate st .detabbed = false) (refs : Refs) (cont : List Str)
    (res : Node × Refs)
    (hr : RunsE st refs (plug F ((holeP F H).append ((b.tree false).src esc))) cont res) :
    RunsE st refs (plug F H) ((b.groups esc F.length).map joinLines ++ cont) res :=
  eff_block b h F H hctx hpok st hl hd refs cont res hr

/-- **A quote whose blocks are separated by `>` lines** is one chunk: the cleaned text splits into the chunks of its
    children (any blocks with a known effect, lists included), which are parsed into a new `blockquote`. -/
theorem C01_nest_quote_one_chunk (esc : List Char) (i : Nat) (hi : i ≤ 3) (ks : List NKid) (hne : ks ≠ [])
    (h : ∀ k ∈ ks, NKidOK esc k) (hadj : adjT false false (ks.map (·.t)) = true) :
    LocB [(flatLines (allG ks)).map (qline i)] ((bqTree ks).src esc) :=
  locB_quote_tight esc i hi ks hne h hadj

/-- **A quote whose blocks are separated by blank lines** is one chunk per block: the first starts the `blockquote`,
    every later one finds it as the last child of the parent and continues it. -/
theorem C01_nest_quote_chunks (esc : List Char) (i : Nat) (hi : i ≤ 3) (ks : List NKid) (hne : ks ≠ [])
    (h : ∀ k ∈ ks, NKidOK esc k) (hadj : adjT false false (ks.map (·.t)) = true) :
    LocB (qGroupsB i ks) ((bqTree ks).src esc) :=
  locB_quote_blank esc i hi ks hne h hadj

/-! ### the printed form -/

/-- **Every printed block of the sub-grammar**, at the top level or below it, in every spelling: groups of good lines
    whose chunks append the tree whose rendering is `specBlock b`; below the top level it is also a block that a loose
    list item can hold (`OkB`). -/
theorem C01_nest_print (b : DocSpec.Block) (top : Bool) (mode : Option Bool) (st : PSt)
    (hq : isNestBlock b = true) (hw : wfBlock mode b = true) :
    ∃ (k : NKid) (st' : PSt), printBlock top b st = (flatLines k.gs, st') ∧ st'.defs = st.defs ∧
      NKidOK Generated.escapedChars k ∧ k.t.out = specBlock b ∧ k.t.isBqN = isQuote b ∧ k.t.isListN = isList b ∧
      (top = false → ∃ B, OkB Generated.escapedChars B ∧ B.groups Generated.escapedChars 0 = k.gs ∧
        B.tree false = k.t) :=
  printBlock_n b top mode st hq hw

/-! ### C01 on the sub-grammars -/

/-- **C01 for nested documents.**  `d` well-formed and in `NestDoc` — flat blocks with mixed inline content, block
    quotes and lists nested in each other to any depth —: under EVERY spelling the converter returns `spec d`. -/
theorem C01_nest (d : Doc) (sp : Spelling) (hwf : WF d = true) (hq : NestDoc d = true) :
    Pipeline.convert {} (print d sp) = .ok (spec d) :=
  convert_nest d sp hwf hq

theorem nest_of_mixFlat {b : DocSpec.Block} (h : isMixFlat b = true) : isNestBlock b = true := by
  cases b <;> first | rfl | (rw [isNestBlock]; exact h) | simp [isMixFlat] at h

theorem nest_of_mixPara {b : DocSpec.Block} (h : isMixPara b = true) : isNestBlock b = true := by
  cases b <;> first | (rw [isNestBlock]; exact h) | simp [isMixPara] at h

mutual
theorem nest_of_tight : (b : DocSpec.Block) → isTightMix b = true → isNestBlock b = true
  | .ulist l items, h => by
    rw [isTightMix] at h
    simp only [Bool.and_eq_true] at h
    rw [isNestBlock]; exact nest_of_tightItems items h.2
  | .olist l items, h => by
    rw [isTightMix] at h
    simp only [Bool.and_eq_true] at h
    rw [isNestBlock]; exact nest_of_tightItems items h.2
  | .para _, h => by simp [isTightMix] at h
  | .atx _ _, h => by simp [isTightMix] at h
  | .setext _ _, h => by simp [isTightMix] at h
  | .rule, h => by simp [isTightMix] at h
  | .code _, h => by simp [isTightMix] at h
  | .quote _, h => by simp [isTightMix] at h
theorem nest_of_tightLists : (bs : List DocSpec.Block) → tightMixLists bs = true → isNestBlocks bs = true
  | [], _ => by rw [isNestBlocks]
  | b :: r, h => by
    rw [tightMixLists] at h
    simp only [Bool.and_eq_true] at h
    rw [isNestBlocks, nest_of_tight b h.1, nest_of_tightLists r h.2]; rfl
theorem nest_of_tightItems : (items : List (List DocSpec.Block)) → tightMixItems items = true →
    isNestItems items = true
  | [], _ => by rw [isNestItems]
  | [] :: r, h => by simp [tightMixItems] at h
  | (b :: bs) :: r, h => by
    rw [tightMixItems] at h
    simp only [Bool.and_eq_true] at h
    rw [isNestItems, isNestBlocks, nest_of_mixPara h.1.1.1, nest_of_tightLists bs h.1.1.2,
      nest_of_tightItems r h.2]; rfl
end

mutual
theorem nest_of_loose : (b : DocSpec.Block) → isLooseMix b = true → isNestBlock b = true
  | .ulist l items, h => by
    rw [isLooseMix] at h
    simp only [Bool.and_eq_true] at h
    rw [isNestBlock]; exact nest_of_looseItems items h.2
  | .olist l items, h => by
    rw [isLooseMix] at h
    simp only [Bool.and_eq_true] at h
    rw [isNestBlock]; exact nest_of_looseItems items h.2
  | .para _, h => by simp [isLooseMix] at h
  | .atx _ _, h => by simp [isLooseMix] at h
  | .setext _ _, h => by simp [isLooseMix] at h
  | .rule, h => by simp [isLooseMix] at h
  | .code _, h => by simp [isLooseMix] at h
  | .quote _, h => by simp [isLooseMix] at h
theorem nest_of_looseBlocks : (bs : List DocSpec.Block) → looseMixBlocks bs = true → isNestBlocks bs = true
  | [], _ => by rw [isNestBlocks]
  | b :: r, h => by
    rw [looseMixBlocks] at h
    simp only [Bool.and_eq_true, Bool.or_eq_true] at h
    have hb : isNestBlock b = true := by
      rcases h.1 with h' | h'
      · exact nest_of_mixFlat h'
      · exact nest_of_loose b h'
    rw [isNestBlocks, hb, nest_of_looseBlocks r h.2]; rfl
theorem nest_of_looseItems : (items : List (List DocSpec.Block)) → looseMixItems items = true →
    isNestItems items = true
  | [], _ => by rw [isNestItems]
  | [] :: r, h => by simp [looseMixItems] at h
  | (b :: bs) :: r, h => by
    rw [looseMixItems] at h
    simp only [Bool.and_eq_true] at h
    rw [isNestItems, isNestBlocks, nest_of_mixPara h.1.1, nest_of_looseBlocks bs h.1.2,
      nest_of_looseItems r h.2]; rfl
end

/-- the list shapes of `C01_list`, with mixed inline content, are in the sub-grammar -/
theorem C01_nest_covers_listMix (d : Doc) (h : ListMixDoc d = true) : NestDoc d = true := by
  induction d with
  | nil => rw [NestDoc, isNestBlocks]
  | cons b r ih =>
    simp only [ListMixDoc, List.all_cons, Bool.and_eq_true, Bool.or_eq_true] at h
    have hb : isNestBlock b = true := by
      rcases h.1 with (h' | h') | h'
      · exact nest_of_mixFlat h'
      · exact nest_of_tight b h'
      · exact nest_of_loose b h'
    have hr : isNestBlocks r = true := ih (by simpa [ListMixDoc] using h.2)
    rw [NestDoc, isNestBlocks, hb, hr]; rfl

/-- **C01 for lists with inline markup.**  Tight lists nested to any depth whose items are paragraphs with mixed content
    (words, escapes, code spans, emphasis, strong), loose lists nested to any depth whose items hold such paragraphs,
    headings with mixed content, rules and loose lists, beside flat blocks at the top level: every marker, every
    numbering, every fence width and emphasis character. -/
theorem C01_list_inline (d : Doc) (sp : Spelling) (hwf : WF d = true) (hq : ListMixDoc d = true) :
    Pipeline.convert {} (print d sp) = .ok (spec d) :=
  C01_nest d sp hwf (C01_nest_covers_listMix d hq)

theorem nest_of_all_mixFlat : (bs : List DocSpec.Block) → bs.all isMixFlat = true → isNestBlocks bs = true
  | [], _ => by rw [isNestBlocks]
  | b :: r, h => by
    simp only [List.all_cons, Bool.and_eq_true] at h
    rw [isNestBlocks, nest_of_mixFlat h.1, nest_of_all_mixFlat r h.2]; rfl

theorem nest_of_flatItems : (items : List (List DocSpec.Block)) → flatItems items = true → isNestItems items = true
  | [], _ => by rw [isNestItems]
  | [] :: r, h => by simp [flatItems] at h
  | (b :: bs) :: r, h => by
    rw [flatItems] at h
    simp only [Bool.and_eq_true] at h
    rw [isNestItems, isNestBlocks, nest_of_mixPara h.1.1, nest_of_all_mixFlat bs h.1.2, nest_of_flatItems r h.2]; rfl

theorem nest_of_flatList {b : DocSpec.Block} (h : isFlatList b = true) : isNestBlock b = true := by
  cases b with
  | ulist l items => rw [isNestBlock]; exact nest_of_flatItems items h
  | olist l items => rw [isNestBlock]; exact nest_of_flatItems items h
  | para _ => simp [isFlatList] at h
  | atx _ _ => simp [isFlatList] at h
  | setext _ _ => simp [isFlatList] at h
  | rule => simp [isFlatList] at h
  | code _ => simp [isFlatList] at h
  | quote _ => simp [isFlatList] at h

theorem nest_of_flatOrList : (bs : List DocSpec.Block) → bs.all (fun b => isMixFlat b || isFlatList b) = true →
    isNestBlocks bs = true
  | [], _ => by rw [isNestBlocks]
  | b :: r, h => by
    simp only [List.all_cons, Bool.and_eq_true, Bool.or_eq_true] at h
    have hb : isNestBlock b = true := by
      rcases h.1 with h' | h'
      · exact nest_of_mixFlat h'
      · exact nest_of_flatList h'
    rw [isNestBlocks, hb, nest_of_flatOrList r h.2]; rfl

theorem nest_of_flatQuote {b : DocSpec.Block} (h : isFlatQuote b = true) : isNestBlock b = true := by
  cases b with
  | quote bs => rw [isNestBlock]; exact nest_of_all_mixFlat bs h
  | para _ => simp [isFlatQuote] at h
  | atx _ _ => simp [isFlatQuote] at h
  | setext _ _ => simp [isFlatQuote] at h
  | rule => simp [isFlatQuote] at h
  | code _ => simp [isFlatQuote] at h
  | ulist _ _ => simp [isFlatQuote] at h
  | olist _ _ => simp [isFlatQuote] at h

theorem nest_of_flatOrQuote : (bs : List DocSpec.Block) → bs.all (fun b => isMixFlat b || isFlatQuote b) = true →
    isNestBlocks bs = true
  | [], _ => by rw [isNestBlocks]
  | b :: r, h => by
    simp only [List.all_cons, Bool.and_eq_true, Bool.or_eq_true] at h
    have hb : isNestBlock b = true := by
      rcases h.1 with h' | h'
      · exact nest_of_mixFlat h'
      · exact nest_of_flatQuote h'
    rw [isNestBlocks, hb, nest_of_flatOrQuote r h.2]; rfl

theorem nest_of_quoteItems : (items : List (List DocSpec.Block)) → quoteItems items = true → isNestItems items = true
  | [], _ => by rw [isNestItems]
  | [] :: r, h => by simp [quoteItems] at h
  | (b :: bs) :: r, h => by
    rw [quoteItems] at h
    simp only [Bool.and_eq_true] at h
    rw [isNestItems, isNestBlocks, nest_of_mixPara h.1.1, nest_of_flatOrQuote bs h.1.2, nest_of_quoteItems r h.2]; rfl

/-- one step of mutual nesting is in the sub-grammar -/
theorem C01_nest_covers_quoteList (d : Doc) (h : QuoteListDoc d = true) : NestDoc d = true := by
  induction d with
  | nil => rw [NestDoc, isNestBlocks]
  | cons b r ih =>
    simp only [QuoteListDoc, List.all_cons, Bool.and_eq_true, Bool.or_eq_true] at h
    have hb : isNestBlock b = true := by
      rcases h.1 with (h' | h') | h'
      · exact nest_of_mixFlat h'
      · cases b with
        | quote bs => rw [isNestBlock]; exact nest_of_flatOrList bs h'
        | para _ => simp [isQuoteOfLists] at h'
        | atx _ _ => simp [isQuoteOfLists] at h'
        | setext _ _ => simp [isQuoteOfLists] at h'
        | rule => simp [isQuoteOfLists] at h'
        | code _ => simp [isQuoteOfLists] at h'
        | ulist _ _ => simp [isQuoteOfLists] at h'
        | olist _ _ => simp [isQuoteOfLists] at h'
      · cases b with
        | ulist l items =>
          simp only [isListOfQuotes, Bool.and_eq_true] at h'
          rw [isNestBlock]; exact nest_of_quoteItems items h'.2
        | olist l items =>
          simp only [isListOfQuotes, Bool.and_eq_true] at h'
          rw [isNestBlock]; exact nest_of_quoteItems items h'.2
        | para _ => simp [isListOfQuotes] at h'
        | atx _ _ => simp [isListOfQuotes] at h'
        | setext _ _ => simp [isListOfQuotes] at h'
        | rule => simp [isListOfQuotes] at h'
        | code _ => simp [isListOfQuotes] at h'
        | quote _ => simp [isListOfQuotes] at h'
    have hr : isNestBlocks r = true := ih (by simpa [QuoteListDoc] using h.2)
    rw [NestDoc, isNestBlocks, hb, hr]; rfl

/-- **C01 for lists inside quotes and quotes inside list items.**  A block quote that holds a tight or a loose list
    (in either spelling of the quote: the loose list then lies inside one chunk, its items separated by `>` lines), and
    a loose list whose items hold block quotes (in either spelling: one indented chunk, or one indented chunk per block
    of the quote, each routed to the open item and continuing its `blockquote`). -/
theorem C01_quote_list (d : Doc) (sp : Spelling) (hwf : WF d = true) (hq : QuoteListDoc d = true) :
    Pipeline.convert {} (print d sp) = .ok (spec d) :=
  C01_nest d sp hwf (C01_nest_covers_quoteList d hq)

/-! ### the hypotheses are satisfiable; instances evaluated by the kernel -/

/-- quotes, loose and tight lists four deep in each other, with code spans, emphasis, strong and escapes inside -/
def sampleNest : Doc :=
  [.para [.text (S "intro "), .em [.text (S "now")]],
   .quote [.ulist true [[.para [.text (S "one "), .code (S "a*b"), .text (S " and "), .esc '*'],
                         .quote [.para [.strong [.text (S "deep")], .text (S " quote")],
                                 .olist false [[.para [.text (S "x "), .em [.text (S "y")]],
                                                .ulist false [[.para [.code (S "z")]]]],
                                               [.para [.text (S "w")]]]],
                         .atx 2 [.text (S "head "), .code (S "c")]],
                        [.para [.text (S "two")]]],
           .para [.text (S "after")]],
   .olist true [[.para [.em [.text (S "a")], .text (S " b")], .quote [.rule, .setext 1 [.text (S "t")]]],
                [.para [.text (S "c")]]]]

def sampleNestSp : Spelling :=
  ⟨[0, 1, 7, 2, 1, 0, 1, 3, 1, 5, 2, 4, 1, 1, 0, 3, 2, 5, 1, 0, 2, 7, 1, 1, 4, 0, 2, 1, 3, 1, 1, 2]⟩

example : WF sampleNest = true ∧ NestDoc sampleNest = true := by decide

example : print sampleNest sampleNestSp =
    ("intro _now_\n\n   > + one ``a*b`` and \\*\n   >\n   >     > **deep** quote\n   >\n   >     > 4. x *y*\n" ++
     "   >     >     * ```z```\n   >     > 5. w\n   >\n   >     ## head ```c```\n   >\n   > + two\n   >\n   > after\n\n" ++
     "1. *a* b\n\n    > -----\n\n    > t\n    > =\n\n2. c").toList := by
  decide +kernel

example : spec sampleNest =
    ("<p>intro <em>now</em></p>\n<blockquote>\n<ul>\n<li>\n<p>one <code>a*b</code> and *</p>\n<blockquote>\n" ++
     "<p><strong>deep</strong> quote</p>\n<ol>\n<li>x <em>y</em><ul>\n<li><code>z</code></li>\n</ul>\n</li>\n" ++
     "<li>w</li>\n</ol>\n</blockquote>\n<h2>head <code>c</code></h2>\n</li>\n<li>\n<p>two</p>\n</li>\n</ul>\n" ++
     "<p>after</p>\n</blockquote>\n<ol>\n<li>\n<p><em>a</em> b</p>\n<blockquote>\n<hr />\n<h1>t</h1>\n" ++
     "</blockquote>\n</li>\n<li>\n<p>c</p>\n</li>\n</ol>").toList := by decide +kernel

example : Pipeline.convert {} (print sampleNest sampleNestSp) = .ok (spec sampleNest) :=
  C01_nest _ _ (by decide) (by decide)

/-- the same instance evaluated by the kernel on the model, independently of the theorem -/
example : Pipeline.convert {} (print sampleNest sampleNestSp) = .ok (spec sampleNest) := by
  decide +kernel

/-- tight and loose lists with inline markup in their items -/
def sampleListInline : Doc :=
  [.ulist false [[.para [.text (S "one "), .em [.text (S "em")], .text (S " "), .esc '#']],
                 [.para [.code (S "co`de"), .text (S " two")],
                  .olist false [[.para [.strong [.text (S "deep")]]], [.para [.text (S "x"), .esc '_']]]]],
   .para [.text (S "between")],
   .olist true [[.para [.text (S "a "), .code (S "b")], .setext 2 [.em [.text (S "title")]],
                 .ulist true [[.para [.esc '*', .text (S " in")]], [.para [.strong [.text (S "in 2")]]]]],
                [.para [.text (S "last")]]]]

example : WF sampleListInline = true ∧ ListMixDoc sampleListInline = true := by decide

example : Pipeline.convert {} (print sampleListInline ⟨[2, 1, 0, 3, 1, 1, 2, 0, 5, 1, 4, 2, 2, 1, 0, 1]⟩) =
    .ok (spec sampleListInline) :=
  C01_list_inline _ _ (by decide) (by decide)

example : Pipeline.convert {} (print sampleListInline ⟨[2, 1, 0, 3, 1, 1, 2, 0, 5, 1, 4, 2, 2, 1, 0, 1]⟩) =
    .ok (spec sampleListInline) := by
  decide +kernel

/-- a quote with a tight and a loose list; a loose list with quotes in its items -/
def sampleQuoteList : Doc :=
  [.quote [.para [.text (S "q")],
           .ulist false [[.para [.text (S "t1")]], [.para [.em [.text (S "t2")]]]],
           .rule,
           .olist true [[.para [.text (S "l1")], .atx 3 [.text (S "h")]], [.para [.text (S "l2")]]]],
   .ulist true [[.para [.text (S "item")], .quote [.para [.text (S "inner "), .code (S "q")], .rule],
                 .para [.text (S "tail")]],
                [.para [.text (S "item 2")], .quote [.para [.text (S "z")]]]]]

example : WF sampleQuoteList = true ∧ QuoteListDoc sampleQuoteList = true := by decide

/-- the quote in its one-chunk spelling -/
example : Pipeline.convert {} (print sampleQuoteList ⟨[1, 0, 3, 1, 2, 0, 1, 1, 1, 0, 4, 2, 1, 0, 1, 0, 1, 2, 0, 0]⟩) =
    .ok (spec sampleQuoteList) :=
  C01_quote_list _ _ (by decide) (by decide)

/-- the quotes in their blank-line spelling -/
example : Pipeline.convert {} (print sampleQuoteList ⟨[1, 1, 3, 1, 2, 0, 1, 1, 1, 0, 4, 2, 1, 1, 1, 1, 1, 2, 1, 1]⟩) =
    .ok (spec sampleQuoteList) := by
  decide +kernel

/-- an indented code block is not in the sub-grammar -/
example : NestDoc [.ulist true [[.para [.text (S "a")], .para [.text (S "b")], .code [S "c"]]]] = false := by decide

end MdVerif.DocNest
