/-
C09 at the level of whole conversions — "Output depends only on the normalised text: CRLF or CR line endings instead
of LF, tabs instead of the equivalent spaces to the next tab stop, whitespace-only lines instead of empty lines,
stray STX/ETX control characters, and extra blank lines before or after the document never change the output."

`Props/C09.lean` proves the clauses for the normaliser (`NormalizeWhitespace.run`).  Here they are lifted to
`Pipeline.convert` (`Model/Pipeline.lean`: the blank-document shortcut, `NormalizeWhitespace`, the raw-HTML
preprocessor on `<`-free text, the block parser, the inline processor, the tree processors, the serializer, the
postprocessors; a source containing `<` is answered `ood` — also by both sides of every equation below).
Only property statements live here; helper lemmas are in `Lemmas/NormalizeDoc.lean`.

1. `C09_convert_factors` — the lift: `convert` reads the source through three observations only (has it a `<`, is it
   blank, its normalised text).
2. The variations: `C09_doc_line_endings(_uniform)`, `C09_doc_tab`, `C09_doc_ws_line`, `C09_doc_ws_first_line`,
   `C09_doc_ctl`.  The first four are unconditional consequences of `Props/C09.lean` (these variations exchange white
   space for white space, so the blank-document shortcut is not affected).
   **Finding F-C09-2** (`C09_doc_ctl_counterexample`, implementation and model agree): the shortcut tests
   `not source.strip()` *before* STX/ETX are removed.  A document that is white space plus a stray STX/ETX is not
   blank, is normalised to white space, and goes through the pipeline — which does not always answer `''`: with an
   indented line whose content is white space other than space/tab (`"    \x0b"`: `str.isspace`, but not touched by
   `(?<![^\n]) +\n`) the code-block processor makes a `<pre><code>` of it, while the same document without the STX
   is blank and answers `''`.  `C09_doc_ctl` therefore has the hypothesis that stripping does not change blankness
   (true whenever the stripped text is not blank: `C09_doc_ctl_of_not_blank`).
3. Blank-line padding, through the block parser:
   * `C09_doc_leading` — unconditional: leading empty blocks are consumed by the empty-block processor at the
     childless root;
   * `C09_doc_trailing_noCode`, `C09_doc_padding_noCode` — unconditional for documents whose tree does not end in a
     code block: the trailing empty blocks do nothing;
   * `C09_doc_trailing`, `C09_doc_padding` — every document.  When the tree ends in a code block, the trailing empty
     blocks append fillers (`"\n\n"`, `"\n"`) to its text.  The proof shows (i) every `pre` child of the root of a
     parsed document is exactly `pre[code(atomic text)]` (`parseDocument_top`, an invariant of all eleven block
     processors), (ii) `InlineProcessor.run` makes the same steps whatever that text is (`run_lock`: lockstep of the
     stack loop), (iii) `prettify` strips the fillers (`prettify_cpre`).  Because termination of the model's
     `Inline.run` within its fuel is not proved in this project (`C02Inline`), and the fuel depends on the size of the
     tree, the statement carries the hypotheses that neither conversion is `oof` ("out of fuel", never observed).
   The model's `prepare` is `Extract.extract ∘ normalize`; `extract_nl` shows that the raw-HTML preprocessor copies
   line feeds behind the text and is not influenced by them.
-/
import MdVerif.Model.Pipeline
import MdVerif.Spec.Normalize
import MdVerif.Props.C09
import MdVerif.Lemmas.NormalizeDoc
import MdVerif.Lemmas.NormalizeDocCode

namespace MdVerif.Pipeline
open Py Normalize NormDoc

/-! ### 1. the lift -/

/-- **The lift.**  Two sources that agree on "contains `<`", on "is blank" (`not source.strip()`) and on their
    normalised text are converted alike: nothing else of the source is read by `convert`. -/
theorem C09_convert_factors (cfg : Cfg) (s s' : Str) (h1 : s.contains '<' = s'.contains '<')
    (h2 : isBlankDoc s = isBlankDoc s') (h3 : normalize cfg.tab s = normalize cfg.tab s') :
    convert cfg s = convert cfg s' :=
  convert_factors cfg h1 h2 h3

example : "a\r\nb".toList.contains '<' = "a\nb".toList.contains '<' ∧
    isBlankDoc "a\r\nb".toList = isBlankDoc "a\nb".toList ∧
    normalize 4 "a\r\nb".toList = normalize 4 "a\nb".toList := by decide

/-! ### 2. the variations -/

/-- **Line endings.**  Two respellings of the same lines (every gap spelled `"\n"`, `"\r\n"` or `"\r"`, independently;
    neither containing the unreadable `"\r"`, empty line, `"\n"`: see `C09_line_endings`) are converted alike. -/
theorem C09_doc_line_endings (cfg : Cfg) (ls ends₁ ends₂ : List Str)
    (hlines : ∀ l ∈ ls, isLine l = true)
    (h₁ : ∀ e ∈ ends₁, isTerminator e = true) (h₂ : ∀ e ∈ ends₂, isTerminator e = true)
    (s₁ : splitsCRLF ends₁ ls = false) (s₂ : splitsCRLF ends₂ ls = false) :
    convert cfg (respell ends₁ ls) = convert cfg (respell ends₂ ls) :=
  convert_factors cfg (respell_contains_lt ls _ _ h₁ h₂) (respell_isBlankDoc ls _ _ h₁ h₂)
    (C09_line_endings cfg.tab ls ends₁ ends₂ hlines h₁ h₂ s₁ s₂)

example :
    let ls : List Str := ["# ab".toList, [], "* c\x02".toList, "d".toList]
    (∀ l ∈ ls, isLine l = true) ∧
    (∀ e ∈ [CRLF, CR, LF], isTerminator e = true) ∧ (∀ e ∈ [LF, CRLF, CR], isTerminator e = true) ∧
    splitsCRLF [CRLF, CR, LF] ls = false ∧ splitsCRLF [LF, CRLF, CR] ls = false := by decide

/-- **Line endings, one terminator throughout**: `sep.join(ls)` is converted alike for `sep` any of `"\n"`, `"\r\n"`,
    `"\r"` (empty lines included, no side condition). -/
theorem C09_doc_line_endings_uniform (cfg : Cfg) (ls : List Str) (sep₁ sep₂ : Str)
    (hlines : ∀ l ∈ ls, isLine l = true) (h₁ : isTerminator sep₁ = true) (h₂ : isTerminator sep₂ = true) :
    convert cfg (join sep₁ ls) = convert cfg (join sep₂ ls) := by
  have t₁ : ∀ e ∈ List.replicate ls.length sep₁, isTerminator e = true :=
    fun e he => by rw [List.eq_of_mem_replicate he]; exact h₁
  have t₂ : ∀ e ∈ List.replicate ls.length sep₂, isTerminator e = true :=
    fun e he => by rw [List.eq_of_mem_replicate he]; exact h₂
  refine convert_factors cfg ?_ ?_ (C09_line_endings_uniform cfg.tab ls sep₁ sep₂ hlines h₁ h₂)
  · rw [join_eq_respell', join_eq_respell']; exact respell_contains_lt ls _ _ t₁ t₂
  · rw [join_eq_respell', join_eq_respell']; exact respell_isBlankDoc ls _ _ t₁ t₂

example : (∀ l ∈ (["a".toList, [], "  b".toList] : List Str), isLine l = true) ∧ isTerminator CRLF = true := by
  decide

/-- **Tabs.**  For a positive tab length, a tab is converted like the spaces up to the next tab stop (`col`: the
    column as `expandtabs` counts it on the normalised text; `C09_tab`). -/
theorem C09_doc_tab (cfg : Cfg) (htab : cfg.tab > 0) (pre post : Str) :
    convert cfg (pre ++ '\t' :: post) =
      convert cfg (pre ++ List.replicate (cfg.tab - col cfg.tab pre % cfg.tab) ' ' ++ post) := by
  refine convert_factors cfg ?_ ?_ (C09_tab cfg.tab htab pre post)
  · apply contains_eq_of_mem_iff
    simp only [List.mem_append, List.mem_cons, List.mem_replicate]
    constructor
    · rintro (h | h | h)
      · exact Or.inl (Or.inl h)
      · cases h
      · exact Or.inr h
    · rintro ((h | ⟨_, h⟩) | h)
      · exact Or.inl h
      · cases h
      · exact Or.inr (Or.inr h)
  · apply isBlankDoc_eq_of_all
    simp [List.all_append, List.all_replicate]

example : ({} : Cfg).tab > 0 := by decide

/-- **Whitespace-only lines.**  A line of spaces and tabs behind a line feed is converted like the empty line. -/
theorem C09_doc_ws_line (cfg : Cfg) (a ws b : Str) (hws : ∀ c ∈ ws, c = ' ' ∨ c = '\t') :
    convert cfg (a ++ '\n' :: ws ++ '\n' :: b) = convert cfg (a ++ '\n' :: '\n' :: b) := by
  have hsp : ws.all isSpace = true := by
    rw [List.all_eq_true]; intro c hc; rcases hws c hc with rfl | rfl <;> decide
  refine convert_factors cfg ?_ ?_
    (C09_ws_line cfg.tab a ws b (fun c hc => by rcases hws c hc with rfl | rfl <;> decide))
  · apply contains_eq_of_mem_iff
    simp only [List.mem_append, List.mem_cons]
    constructor
    · rintro ((h | h | h) | h | h)
      · exact Or.inl h
      · cases h
      · rcases hws _ h with h' | h' <;> cases h'
      · cases h
      · exact Or.inr (Or.inr (Or.inr h))
    · rintro (h | h | h | h)
      · exact Or.inl (Or.inl h)
      · cases h
      · cases h
      · exact Or.inr (Or.inr h)
  · apply isBlankDoc_eq_of_all
    simp [List.all_append, hsp]

example : ∀ c ∈ " \t  ".toList, c = ' ' ∨ c = '\t' := by decide

/-- **… the first line included** (since the repair a0e7e3c of F-C09-1) -/
theorem C09_doc_ws_first_line (cfg : Cfg) (ws b : Str) (hws : ∀ c ∈ ws, c = ' ' ∨ c = '\t') :
    convert cfg (ws ++ '\n' :: b) = convert cfg ('\n' :: b) := by
  have hsp : ws.all isSpace = true := by
    rw [List.all_eq_true]; intro c hc; rcases hws c hc with rfl | rfl <;> decide
  refine convert_factors cfg ?_ ?_
    (C09_ws_first_line cfg.tab ws b (fun c hc => by rcases hws c hc with rfl | rfl <;> decide))
  · apply contains_eq_of_mem_iff
    simp only [List.mem_append, List.mem_cons]
    constructor
    · rintro (h | h | h)
      · rcases hws _ h with h' | h' <;> cases h'
      · cases h
      · exact Or.inr h
    · rintro (h | h)
      · cases h
      · exact Or.inr (Or.inr h)
  · apply isBlankDoc_eq_of_all
    simp [List.all_append, hsp]

/-- **Control characters.**  A source and the source without its STX/ETX characters are converted alike, *provided
    the removal does not make a non-blank source blank* (see F-C09-2 in the header). -/
theorem C09_doc_ctl (cfg : Cfg) (s : Str) (hb : isBlankDoc (stripCtl s) = isBlankDoc s) :
    convert cfg s = convert cfg (stripCtl s) :=
  convert_factors cfg (stripCtl_contains_lt s).symm hb.symm (C09_ctl cfg.tab s)

/-- the hypothesis holds whenever something other than white space is left -/
theorem C09_doc_ctl_of_not_blank (cfg : Cfg) (s : Str) (hb : isBlankDoc (stripCtl s) = false) :
    convert cfg s = convert cfg (stripCtl s) := by
  apply C09_doc_ctl
  rw [hb]
  rw [isBlankDoc_eq_all, Bool.eq_false_iff] at hb
  symm
  rw [isBlankDoc_eq_all, Bool.eq_false_iff]
  intro h; apply hb
  rw [List.all_eq_true] at h ⊢
  intro c hc; exact h c (mem_stripCtl.1 hc).1

example : isBlankDoc (stripCtl "a\x02 *b*\x03".toList) = false := by decide

/-- **F-C09-2.**  The excluded case is real (the implementation answers the same): white space and a stray STX.
    Without the STX the document is blank and the answer is `''`; with it, the blank-document shortcut does not
    fire, the normaliser removes the STX, and the code-block processor takes the indented line. -/
theorem C09_doc_ctl_counterexample :
    isBlankDoc "\x02    \x0b".toList = false ∧ isBlankDoc (stripCtl "\x02    \x0b".toList) = true ∧
    convert {} (stripCtl "\x02    \x0b".toList) = .ok [] ∧
    convert {} "\x02    \x0b".toList = .ok "<pre><code>\n</code></pre>".toList := by decide +kernel

/-- with ordinary white space (space, tab, line feed, carriage return) around the stray character there is no
    difference: both answers are `''` -/
example : convert {} "\x02".toList = .ok [] ∧ convert {} " \x02 \n\t\r".toList = .ok [] ∧
    convert {} (stripCtl " \x02 \n\t\r".toList) = .ok [] := by decide +kernel

/-! ### 3. blank-line padding -/

/-- **Blank lines in front of the document.**  Any number of line feeds in front of any source: the same conversion.
    (The normaliser keeps them, `C09_leading_blank`; the raw-HTML preprocessor copies them; the block parser splits
    them into empty blocks, which the empty-block processor consumes — the root has no child yet to give a filler
    to.  No hypothesis: a source with `<` is `ood` with and without them.) -/
theorem C09_doc_leading (cfg : Cfg) (k : Nat) (src : Str) :
    convert cfg (List.replicate k '\n' ++ src) = convert cfg src :=
  convert_leading cfg k src

/-- **Blank lines behind a document that does not end in a code block.**  `noCodeLast root`: the last child of the
    root of the parsed document is not a `pre` with a first child `code`.  (The trailing line feeds become empty
    blocks behind the document's blocks; the empty-block processor does nothing with them unless the last child is
    a code block.  A line feed that completes a final `\r` to CRLF is absorbed by the normaliser.) -/
theorem C09_doc_trailing_noCode (cfg : Cfg) (src : Str) (m : Nat)
    (h : ∀ root refs, Block.parseDocument cfg.tab (prepare cfg src) = some (root, refs) → noCodeLast root) :
    convert cfg (src ++ List.replicate m '\n') = convert cfg src :=
  convert_trailing_noCode cfg src m h

/-- both -/
theorem C09_doc_padding_noCode (cfg : Cfg) (src : Str) (k m : Nat)
    (h : ∀ root refs, Block.parseDocument cfg.tab (prepare cfg src) = some (root, refs) → noCodeLast root) :
    convert cfg (List.replicate k '\n' ++ src ++ List.replicate m '\n') = convert cfg src := by
  rw [List.append_assoc, C09_doc_leading, C09_doc_trailing_noCode cfg src m h]

/-- the hypothesis `noCodeLast` as a computation: `(root.last?.bind preCode).isNone` -/
theorem C09_noCodeLast_iff (p : Node) : noCodeLast p ↔ (p.last?.bind Block.preCode).isNone = true := by
  unfold noCodeLast
  cases p.last? with
  | none => simp
  | some sib => cases h : Block.preCode sib <;> simp [h]

-- a heading and a list, ending in `\r`: no trailing code block
example : (Block.parseDocument 4 (prepare {} "# a\n\n* b\r".toList)).map
    (fun r => (r.1.last?.bind Block.preCode).isNone) = some true := by decide +kernel

/-- **Blank lines behind any document.**  `m` more line feeds behind the source: the same conversion, provided
    neither conversion runs out of the model's fuel (see the header; `oof` has never been observed, and the fuel
    bound of `Inline.run` is the one statement of `C02Inline` that is not proved).  When the document ends in a code
    block the trailing blank lines do reach the tree — as `"\n"`s appended to the code text — and are removed by
    `PrettifyTreeprocessor`'s `rstrip`. -/
theorem C09_doc_trailing (cfg : Cfg) (src : Str) (m : Nat) (h0 : convert cfg src ≠ .oof)
    (h1 : convert cfg (src ++ List.replicate m '\n') ≠ .oof) :
    convert cfg (src ++ List.replicate m '\n') = convert cfg src :=
  convert_trailing cfg src m h0 h1

example : convert {} "a\n\n    b\r".toList ≠ .oof ∧
    convert {} ("a\n\n    b\r".toList ++ List.replicate 3 '\n') ≠ .oof := by decide +kernel

/-- **C09, blank-line padding.**  Any number of blank lines before and after any document: the same conversion
    (same proviso). -/
theorem C09_doc_padding (cfg : Cfg) (src : Str) (k m : Nat) (h0 : convert cfg src ≠ .oof)
    (h1 : convert cfg (List.replicate k '\n' ++ src ++ List.replicate m '\n') ≠ .oof) :
    convert cfg (List.replicate k '\n' ++ src ++ List.replicate m '\n') = convert cfg src := by
  rw [List.append_assoc, C09_doc_leading] at h1 ⊢
  exact C09_doc_trailing cfg src m h0 h1

/-- a document that ends in a code block, padded: the fillers are in the tree (the text of the `code` element), not
    in the output -/
example :
    convert {} ("\n\n\n".toList ++ "a\n\n    b".toList ++ "\n\n\n".toList) =
      .ok "<p>a</p>\n<pre><code>b\n</code></pre>".toList ∧
    convert {} "a\n\n    b".toList = .ok "<p>a</p>\n<pre><code>b\n</code></pre>".toList ∧
    (Block.parseDocument 4 (prepare {} "    b\n\n\n".toList)).map
      (fun r => r.1.children.map (fun c => c.children.map (·.text))) = some [[some "b\n\n\n\n".toList]] ∧
    (Block.parseDocument 4 (prepare {} "    b".toList)).map
      (fun r => r.1.children.map (fun c => c.children.map (·.text))) = some [[some "b\n\n\n".toList]] := by
  decide +kernel

end MdVerif.Pipeline
