/-
C10 (continued) — "The output never contains the STX/ETX control characters or any of the placeholder tokens the
converter uses internally …": the leak-free inline subset widened by **inline links and images with destinations**,
`[text](url "title")`, `![alt](url "title")`, and by the image reference forms `![alt][label]`, `![alt]`.

`Props/C10b.lean` (`C10_partial_links`) covers reference links but excludes the adjacencies `](` and `![` altogether.
Here they are allowed when what follows is *simple* (`Spec/NoCtlC.lean`):

* after `](`: characters other than backtick, backslash, `*`, `_`, brackets, parentheses, quotes and line feed
  (`destChar`), then `)` — or a title `"…"` / `'…'` of such characters, blanks, and `)`;
* after `![`: characters other than backtick, backslash, `*`, `_`, brackets and line feed (`altChar`), then `]`.

The text of a link is unrestricted (code spans, escapes, emphasis, reference links, nested brackets …).  The
restriction keeps the two known leaks outside, which are kernel-checked below on the model exactly as the
implementation produces them: F-C10-1 (a link with marked-up text inside another link's destination or title or an
image's alt text: `Pattern.unescape` expands one level only) and F-C10-2 (a quote in a destination that does not close
as a title).  It is decidable on the source (`C10DomainC`), and `C10DomainL ⊆ C10DomainC`.

Vocabulary: `MdVerif/Spec/NoCtlC.lean`; helper lemmas: `MdVerif/Lemmas/PlaceholdersC*.lean`.  Core Lean only.

1. Regions: `C10c_region_closure` (what the inline engine and the block parser may do to a string without breaking
   a region), `C10c_block_keeps_regions`.
2. `getLink` on a simple region: `C10c_getLink_simple`.
3. The patterns: `C10c_inline_link_stash_ok`, `C10c_inline_image_stash_ok`, `C10c_image_reference_stash_ok`,
   `C10c_reference_stash_ok`.
4. The inline engine: `C10c_ids_bounded`, `C10c_all_visited_run`.
5. End to end: `C10_partial_inline_links`.
6. The leaks that bound the domain.
-/
import MdVerif.Lemmas.PlaceholdersC

namespace MdVerif.NoCtl
open Py Inline

/-! ## 1. Regions -/

/-- **What may be done to a string whose regions are simple.**
    (a) lax form (a string may end inside a region): every infix is again such a string;
    (b) lax form: a stretch `M` that contains a *breaker* (backtick, backslash, `*`, `_`, `[`, line feed, STX, ETX)
        before any `)`/`]` — every match of an inline pattern does — lies in no region, and a placeholder-like string
        may take its place;
    (c) strict form (every region is closed): a prefix may be dropped and an end `v` may be cut off that has neither
        `)` nor `]` before its first line feed;
    (d) strict form: two such strings may be joined by a line feed. -/
theorem C10c_region_closure :
    (∀ {lax : Bool} {s t : Str}, AdjC lax s → t <:+: s → AdjC true t) ∧
    (∀ {X M Y T : Str}, AdjC true (X ++ M ++ Y) → breaks M = true → SepOK3 T → AdjC true (X ++ T ++ Y)) ∧
    (∀ {u t v : Str}, RegionsOK false (u ++ t ++ v) → cutOK v = true → RegionsOK false t) ∧
    (∀ {a b : Str}, RegionsOK false a → RegionsOK false b → RegionsOK false (a ++ '\n' :: b)) :=
  ⟨fun h ht => h.infix ht, fun h hM hT => adjC_replace h hM hT, fun h hv => regionsOK_cut h hv,
   fun ha hb => regionsOK_joinNl ha hb⟩

example : AdjC false "x [a *b*](u/v#w \"T t\" ) ![p (1)](i.png) y".toList ∧ ¬ AdjC false "[a](b".toList ∧
    AdjC true "[a](b".toList ∧ breaks "  \n".toList = true ∧ breaks "![x](y)".toList = true ∧
    SepOK3 (placeholder 3) ∧ cutOK "  ##\n[a](b)".toList = true :=
  ⟨by decide, by decide, by decide, by decide, by decide, sepOK3_placeholder 3, by decide⟩

/-- **The block parser keeps the regions simple and closed** (and creates no backslash–backtick adjacency, nor any
    character outside the domain): every tail and every non-atomic text of the block tree is cut out of the parsed
    text at line ends, before trailing blanks or before the closing `#`s of a heading, or is a newline-join of such
    strings. -/
theorem C10c_block_keeps_regions (tab : Nat) {text : Str}
    (hp : (∀ c ∈ text, c ≠ STX ∧ c ≠ ETX ∧ domCharB c = true) ∧ AdjC false text) {root : Node} {refs : Block.Refs}
    (hr : Block.parseDocument tab text = some (root, refs)) :
    root.Forall (fun n => AdjC false (n.tail.getD []) ∧ (n.textAtomic = false → AdjC false (n.text.getD []))) ∧
    ∀ r ∈ refs, NoCtl r.2.1 ∧ NoCtl (r.2.2.getD []) := by
  have hP : Blk.AllC (fun c => Blk.okc c && domCharB c) text ∧ AdjC false text := by
    refine ⟨fun c hc => ?_, hp.2⟩
    have := hp.1 c hc
    simp [Blk.okc, this.1, this.2.1, this.2.2]
  obtain ⟨h1, h2, -⟩ := BlkC.parseDocument_strs BlkC.strDomC_adjC tab text hP hr
  exact ⟨Node.Forall.mono (fun _ hn => ⟨hn.2.1.2, fun ha => (hn.2.2 ha).2⟩) root h1,
    fun r hr' => ⟨(allC_domB (h2 r hr').1).1, (allC_domB (h2 r hr').2).1⟩⟩

/-! ## 2. `getLink` on a simple region -/

/-- **`LinkInlineProcessor.getLink` on a simple region.**  When the `(` at `index` is followed by a string that
    `destClose` accepts (and that has no `<`), the loop of `getLink` meets no parenthesis or quote it does not expect:
    either the link is handled — it ends just behind the `)` that closes the region, and `href` and `title` are
    stretches of the region, free of STX/ETX — or it is not handled at all (the text ends inside the region). -/
theorem C10c_getLink_simple {data : Str} {index : Nat} {R : Str} (hd : data.drop index = '(' :: R) (hlt : '<' ∉ R)
    {lax : Bool} (hR : destClose lax R = true) :
    (∃ body rest' href title, R = body ++ ')' :: rest' ∧ NoCtl body ∧ NoCtl href ∧ NoCtl (title.getD []) ∧
      getLinkRaw data index = (href, title, ((index + 1 + body.length + 1 : Nat) : Int), true)) ∨
    (getLinkRaw data index).2.2.2 = false := getLinkRaw_region hd hlt hR

example : getLinkRaw "[a]( u/v \"T t\"  ) x".toList 3 = ("u/v ".toList, some "T t".toList, 17, true) ∧
    destClose false " u/v \"T t\"  ) x".toList = true := by decide

/-! ## 3. The patterns -/

/-- **inline link** `[text](destination "title")`: the `a` element has `href`/`title` without STX/ETX, its text lies
    between the brackets of the data (cut before `]`: well formed), and the match lies in no region. -/
theorem C10c_inline_link_stash_ok {cfg : Cfg} (stash : List StashItem) {k : Nat} {data : Str} (hd : DataC 3 k data)
    {i : Nat} {t : Str} (hbr : data.drop i = '[' :: t) {f : Found}
    (h : linkHandle cfg stash 3 data i (i + 1) = some f) : FoundOKC k 3 data f := linkHandle_link_okC stash hd hbr h

/-- **inline image** `![alt](src "title")`: the alt text is made of `altChar`s, so `Pattern.unescape` has nothing to
    expand in it. -/
theorem C10c_inline_image_stash_ok {cfg : Cfg} (stash : List StashItem) {k : Nat} {data : Str} (hd : DataC 4 k data)
    {i : Nat} {S : Str} (hbr : data.drop i = '!' :: '[' :: S) {f : Found}
    (h : linkHandle cfg stash 4 data i (i + 2) = some f) : FoundOKC k 4 data f := linkHandle_image_okC stash hd hbr h

/-- **image references** `![alt][label]`, `![alt]`: `src`/`title` come from the definition. -/
theorem C10c_image_reference_stash_ok {cfg : Cfg} (hrefs : RefsOK cfg) (stash : List StashItem) {pi k : Nat}
    (hpi : pi = 5 ∨ pi = 7) {data : Str} (hd : DataC pi k data) {i : Nat} {S : Str}
    (hbr : data.drop i = '!' :: '[' :: S) {f : Found} (h : linkHandle cfg stash pi data i (i + 2) = some f) :
    FoundOKC k pi data f := linkHandle_imgref_okC hrefs stash hpi hd hbr h

/-- **reference / short reference** as in `C10b_reference_stash_ok`, with the regions as invariant -/
theorem C10c_reference_stash_ok {cfg : Cfg} (hrefs : RefsOK cfg) (stash : List StashItem) {pi k : Nat}
    (hpi : pi = 2 ∨ pi = 6) {data : Str} (hd : DataC pi k data) {i : Nat} {t : Str}
    (hbr : data.drop i = '[' :: t) {f : Found} (h : linkHandle cfg stash pi data i (i + 1) = some f) :
    FoundOKC k pi data f := linkHandle_ref_okC hrefs stash hpi hd hbr h

/-! ## 4. The inline engine -/

/-- **`ids_bounded`**: on a text of the tree (`StrTC`: tokens in range, in the domain, simple regions, `BtSafe`)
    `handleInline` returns a text of the same kind in which `BACKTICK_RE` matches nowhere (`StrC`), and a closed stash
    (`StOKC`). -/
theorem C10c_ids_bounded {cfg : Cfg} (hcfg : EscOK cfg.esc) (hrefs : RefsOK cfg) : HISpecC cfg := hiSpecC hcfg hrefs

/-- **`all_visited`, `InlineProcessor.run`** -/
theorem C10c_all_visited_run {cfg : Cfg} (hhi : HISpecC cfg) {tree t : Node} {html : List Str} {st : St}
    (ht : tree.Forall (WNodeC 0)) (h : run cfg tree html = some (t, st)) :
    t.Forall (WNodeC 0) ∧ st.html = html := run_specC hhi ht h

/-! ## 5. End to end -/

/-- **End to end, with inline links and images.**  For a source without `<`, `&` whose normalised text has no
    backslash immediately before a backtick and in which every `](` is followed by a simple destination (optionally
    with a title) and every `![` by a simple alt text, closed on the same line (`C10DomainC`), whatever
    `Markdown.convert` returns (`Pipeline.convert`; any tab length, output format and block-level set; the escapable
    characters must be ordinary ones) contains neither STX nor ETX — hence none of the placeholder tokens.
    Inside: everything of `C10_partial_links` (code spans, escapes, emphasis, hard breaks, reference links, all block
    constructs), inline links `[text](url "title")` with any inline content in the text, inline images, image
    references. -/
theorem C10_partial_inline_links (cfg : Pipeline.Cfg) (hcfg : EscOK cfg.esc) {src out : Str}
    (hd : C10DomainC cfg.tab src) (h : Pipeline.convert cfg src = .ok out) : NoCtl out :=
  convert_noctlLC hcfg hd h

example :
    C10DomainC 4 ("see [the *docs* `x`](http://e.x/a-b?q=1#f \"T t\") ![pic (1)](i.png 'P') and ![logo][l] [r][l]" ++
      "\n\n# [a](b) #\n\n> ![x](y)\n> more [*c* \\* [d](e)](f)\n\n[l]: /u \"T\"").toList ∧
    EscOK ({} : Pipeline.Cfg).esc := ⟨by decide +kernel, escOK_default⟩

example : Pipeline.convert {} "see [the *docs* `x`](http://e.x/a-b?q=1#f \"T t\") ![pic (1)](i.png 'P')".toList =
    .ok ("<p>see <a href=\"http://e.x/a-b?q=1#f\" title=\"T t\">the <em>docs</em> <code>x</code></a> " ++
      "<img alt=\"pic (1)\" src=\"i.png\" title=\"P\" /></p>").toList := by decide +kernel

/-- the domain with reference links only is inside the new one -/
theorem C10c_domain_widens {tab : Nat} {s : Str} (h : C10DomainL tab s) : C10DomainC tab s := domainC_of_L h

/-! ## 6. The leaks that bound the domain -/

/-- **F-C10-1** is outside: a bracket is neither a `destChar` nor an `altChar` -/
theorem C10c_leak_F_C10_1_outside :
    ¬ C10DomainC 4 "[a]([`x`][foo])\n\n[foo]: /f".toList ∧ ¬ C10DomainC 4 "![[*x*][foo]](u)\n\n[foo]: /f".toList ∧
    ¬ C10DomainC 4 "![a [*x*](v)](u)".toList := ⟨by decide, by decide, by decide⟩

/-- F-C10-1, third witness: an *inline* link with marked-up text inside an image's alt text -/
theorem C10c_leak_inline_link_in_alt :
    Pipeline.convert {} "![a [*x*](v)](u)".toList =
      .ok "<p><img alt=\"a \x02klzzwxh:0000\x03\" src=\"u\" /></p>".toList := by decide +kernel

/-- **F-C10-2** is outside: the quote does not close as a title -/
theorem C10c_leak_F_C10_2_outside : ¬ C10DomainC 4 "[](\"\\((".toList := by decide

/-- a destination must be closed on its line: the next line could bring the marked-up link of F-C10-1 -/
theorem C10c_leak_destination_over_lines :
    Pipeline.convert {} "[a](b\n[`x`][y])\n\n[y]: /z".toList =
      .ok "<p><a href=\"b\n\x02klzzwxh:0000\x03\">a</a></p>".toList ∧
    ¬ C10DomainC 4 "[a](b\n[`x`][y])\n\n[y]: /z".toList := ⟨by decide +kernel, by decide⟩

/-- what the restriction also keeps outside although it does not leak: markup characters in a destination
    (an underscore in a URL), a code span in an alt text -/
example : ¬ C10DomainC 4 "[a](b_c)".toList ∧ ¬ C10DomainC 4 "![a `x`](u)".toList ∧
    Pipeline.convert {} "![a `x`](u)".toList = .ok "<p><img alt=\"a x\" src=\"u\" /></p>".toList :=
  ⟨by decide, by decide, by decide +kernel⟩

end MdVerif.NoCtl
