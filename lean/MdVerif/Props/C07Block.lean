/-
C07 (block-parser stage) — Prefixing an escapable character (backslash, backtick, `*`, `_`, braces, brackets,
parentheses, `>`, `#`, `+`, `-`, `.`, `!`, plus any added by an enabled extension) with a backslash makes it render
as that literal character and stops it acting as markup.  A text in which every such character is escaped renders as
exactly that text in a single paragraph.

This file proves the part of the property that concerns `markdown/blockparser.py` + `blockprocessors.py`
(`MdVerif/Model/Block.lean`): for a text `t` of the domain, the block parser turns the escaped text
`escAll ESCAPED_CHARS t` (as `NormalizeWhitespace` delivers it, i.e. followed by `"\n\n"`) into
`<div><p>escAll ESCAPED_CHARS t</p></div>` — one paragraph whose text is still the *escaped* text (removing the
backslashes is the job of the inline stage), no header, rule, list, quote, code block or reference definition.

Only property statements live here.  Vocabulary (`escAll`, `Guarded`, `LineStartsOk`, `EscDomain`,
`EscBlockDomain`, …) is in `MdVerif/Spec/Escape.lean`, helper lemmas in `MdVerif/Lemmas/BlockEsc.lean`.

The escapable set is the *generated* table `Generated.escapedChars` (`Markdown.ESCAPED_CHARS` of the source).  All
theorems about recognisers take an arbitrary list `esc` and the memberships they need (`'#' ∈ esc`, …) as hypotheses;
`C07_escapable_chars` discharges them for the generated table by `decide`, so that removing one of these characters
from `ESCAPED_CHARS` in the source breaks this file.

Shape of the argument: `escAll esc t` is `Guarded` (every character of `esc` except the backslash itself is
immediately preceded by a backslash) and `LineStartsOk` (the first non-space character of every line is a backslash
or is not in `esc`).  Each recogniser of a processor that runs before `ParagraphProcessor` needs, at the start of a
line, one of `# - _ * + > [` or digits followed by `.`; so none of them matches, and `dispatch` falls through to
`ParagraphProcessor`.

Domain conditions that the statements had to make, each one tested against the implementation and kept below as a
kernel-checked counterexample on the model:
* `tab_length = 0`: every block "starts with `tab_length` spaces" and becomes a code block (`C07_tab0_counterexample`);
* first character white space: `ParagraphProcessor` strips the block on the left (`C07_leading_space_counterexample`);
* empty line / trailing line feed: the text is several blocks (`C07_blank_line_counterexample`,
  `C07_trailing_newline_counterexample`);
* second line `=+[ ]*`: `=` is not in `ESCAPED_CHARS`, `\=` is not an escape, so a level-1 Setext underline cannot
  be switched off (`C07_setext_counterexample`; inherent, announced in the property text).  Only the *second* line
  matters (`SetextHeaderProcessor.RE` is anchored at the start of the block): `EscBlockDomain` asks just that;
* a `-` underline *is* switched off (`\-`), as are `\-\-\-` rules and `1\.` list markers (`example`s below).
-/
import MdVerif.Model.Block
import MdVerif.Model.Normalize
import MdVerif.Spec.Escape
import MdVerif.Lemmas.BlockEsc
import MdVerif.Generated.Tables

namespace MdVerif.Escape
open Py Block

/-! ### the generated table -/

/-- The characters the recognisers of the block parser depend on are in `Markdown.ESCAPED_CHARS` as found in the
    source (regenerated table), and the line feed is not.  Every membership fact used below comes from here. -/
theorem C07_escapable_chars :
    '#' ∈ Generated.escapedChars ∧ '-' ∈ Generated.escapedChars ∧ '_' ∈ Generated.escapedChars ∧
    '*' ∈ Generated.escapedChars ∧ '+' ∈ Generated.escapedChars ∧ '.' ∈ Generated.escapedChars ∧
    '>' ∈ Generated.escapedChars ∧ '[' ∈ Generated.escapedChars ∧ '\n' ∉ Generated.escapedChars := by decide

/-- the characters that bundled extensions append to `ESCAPED_CHARS` do not contain the line feed either -/
theorem C07_ext_chars_no_newline : ∀ e ∈ Generated.extEscapedChars, '\n' ∉ e.2 := by decide

/-! ### the invariant of an escaped text -/

/-- **Escaping guards every escapable character.**  In `escAll esc t` every character of `esc` other than the
    backslash is immediately preceded by a backslash, and (when the line feed is not escapable) the first non-space
    character of every line is a backslash or a character that is not in `esc`.  For every `esc` and every `t`. -/
theorem C07_escaped_text_guarded (esc : List Char) (t : Str) :
    Guarded esc (escAll esc t) = true ∧ ('\n' ∉ esc → LineStartsOk esc (escAll esc t) = true) :=
  ⟨guardedFrom_escAll esc t false, fun h => lineStartsOk_escAll esc h t⟩

example : escAll Generated.escapedChars "# a*b\n1. c".toList = "\\# a\\*b\n1\\. c".toList := by decide
example : Guarded Generated.escapedChars "\\# a\\*b\n  1\\. c".toList = true := by decide
example : LineStartsOk Generated.escapedChars "\\# a\\*b\n  1\\. c".toList = true := by decide
/-- an unescaped `#` at a line start is not `LineStartsOk`, an unescaped `*` is not `Guarded` -/
example : LineStartsOk Generated.escapedChars "a\n  # b".toList = false ∧
    Guarded Generated.escapedChars "a *b".toList = false := by decide

/-! ### no recogniser of a block processor matches a guarded text

`s` is arbitrary (not necessarily of the form `escAll esc t`). -/

/-- **`HashHeaderProcessor`** (`(?:^|\n)#{1,6}…`): no match when every line start is safe and `#` is escapable. -/
theorem C07_hash_never_matches (esc : List Char) (hm : '#' ∈ esc) (s : Str)
    (hl : LineStartsOk esc s = true) : hashSearch s = none :=
  hashSearch_eq_none hm s hl

/-- **`SetextHeaderProcessor`** (`^.*?\n[=-]+[ ]*(\n|$)`): no match when `-` is escapable, the text is guarded and its
    second line is not `=+[ ]*`. -/
theorem C07_setext_never_matches (esc : List Char) (hm : '-' ∈ esc) (s : Str)
    (hg : Guarded esc s = true)
    (h2 : (match (lines s)[1]? with | some l => isEqUnderline l | none => false) = false) :
    setextMatch s = false :=
  setextMatch_eq_false hm s hg h2

/-- **`HRProcessor`** (a line of three or more `-`, `_` or `*`): no match when the three are escapable and every line
    start is safe. -/
theorem C07_hr_never_matches (esc : List Char) (h1 : '-' ∈ esc) (h2 : '_' ∈ esc) (h3 : '*' ∈ esc) (s : Str)
    (hl : LineStartsOk esc s = true) : hrSearch s = none :=
  hrSearch_eq_none h1 h2 h3 s hl

/-- **`OListProcessor` / `UListProcessor`** (and `CHILD_RE`: any combination of `ol`, `ul`; any `tab_length`):
    no match when `*`, `+`, `-`, `.` are escapable, the text is guarded and its first line starts safely.
    (A bullet would be an unescaped `*`, `+`, `-`; an ordered marker is `\d+\.`, and a `.` that follows a digit is not
    preceded by a backslash.) -/
theorem C07_list_never_matches (esc : List Char) (h1 : '*' ∈ esc) (h2 : '+' ∈ esc) (h3 : '-' ∈ esc)
    (h4 : '.' ∈ esc) (tab : Nat) (ol ul : Bool) (s : Str)
    (hg : Guarded esc s = true) (hl : LineStartsOk esc s = true) : listItemMatch tab ol ul s = none := by
  simp only [LineStartsOk, Bool.and_eq_true] at hl
  exact listItemMatch_eq_none h1 h2 h3 h4 tab ol ul s hg hl.1

/-- **`BlockQuoteProcessor`** (`(^|\n)[ ]{0,3}>`): no match when `>` is escapable and every line start is safe. -/
theorem C07_quote_never_matches (esc : List Char) (hm : '>' ∈ esc) (s : Str)
    (hl : LineStartsOk esc s = true) : quoteSearch s = none :=
  quoteSearch_eq_none hm s hl

/-- **`ReferenceProcessor`** (`^[ ]{0,3}\[…\]:…`): no match when `[` is escapable and every line start is safe. -/
theorem C07_ref_never_matches (esc : List Char) (hm : '[' ∈ esc) (s : Str)
    (hl : LineStartsOk esc s = true) : refSearch s = none :=
  refSearch_eq_none hm s hl

/-- the hypotheses of the six theorems hold for an escaped text with headers, rules, lists, quotes, a reference
    definition and a `-` underline in it -/
example :
    let s := escAll Generated.escapedChars "# h\n---\n* * *\n1. a\n- b\n+ c\n> q\n[r]: u\n___".toList
    Guarded Generated.escapedChars s = true ∧ LineStartsOk Generated.escapedChars s = true ∧
    (match (lines s)[1]? with | some l => isEqUnderline l | none => false) = false := by decide

/-- **Dispatch.**  With the eight markup characters escapable and `tab_length > 0`, a block that is guarded, whose
    lines start safely, whose first character is not white space and whose second line is not `=+[ ]*` is handled
    by `ParagraphProcessor`: in any parser state, with any parent, whatever the other processors would do. -/
theorem C07_dispatch_paragraph (esc : List Char)
    (m1 : '#' ∈ esc) (m2 : '-' ∈ esc) (m3 : '_' ∈ esc) (m4 : '*' ∈ esc) (m5 : '+' ∈ esc) (m6 : '.' ∈ esc)
    (m7 : '>' ∈ esc) (m8 : '[' ∈ esc)
    (tab : Nat) (htab : tab > 0) (pb : PB) (state : List BState) (refs : Refs) (parent : Node) (b : Str)
    (rest : List Str)
    (hg : Guarded esc b = true) (hl : LineStartsOk esc b = true) (hv : startsVisible b = true)
    (h2 : (match (lines b)[1]? with | some l => isEqUnderline l | none => false) = false) :
    dispatch tab pb state refs parent b rest = some (paraP state refs parent b rest) :=
  dispatch_paragraph m1 m2 m3 m4 m5 m6 m7 m8 tab htab pb state refs parent b rest hg hl hv h2

/-! ### the whole block stage -/

/-- `<div><p>text</p></div>` -/
def singleParagraph (text : Str) : Node :=
  { Node.el "div" with children := [{ Node.el "p" with text := some text }] }

/-- **C07, block stage, minimal hypotheses.**  `tab_length > 0`; `t` has no empty line, starts with a character that
    is not white space, and its second line is not `=+[ ]*`; `extra` are further escapable characters (those added
    by enabled extensions), the line feed not among them.  Then the block parser turns the escaped text followed by
    `"\n\n"` into a single paragraph whose text is the escaped text, and records no reference. -/
theorem C07_block_single_paragraph_ext (tab : Nat) (htab : tab > 0) (extra : List Char) (hx : '\n' ∉ extra)
    (t : Str) (h : EscBlockDomain t = true) :
    parseDocument tab (escAll (Generated.escapedChars ++ extra) t ++ "\n\n".toList) =
      some (singleParagraph (escAll (Generated.escapedChars ++ extra) t), []) := by
  obtain ⟨m1, m2, m3, m4, m5, m6, m7, m8, hnl⟩ := C07_escapable_chars
  have hnl' : '\n' ∉ Generated.escapedChars ++ extra := by
    intro hm; rcases List.mem_append.1 hm with hm | hm
    · exact hnl hm
    · exact hx hm
  exact block_single_paragraph hnl' (List.mem_append_left _ m1) (List.mem_append_left _ m2)
    (List.mem_append_left _ m3) (List.mem_append_left _ m4) (List.mem_append_left _ m5)
    (List.mem_append_left _ m6) (List.mem_append_left _ m7) (List.mem_append_left _ m8) tab htab t h

/-- the same for the core escapable set -/
theorem C07_block_single_paragraph_weak (tab : Nat) (htab : tab > 0) (t : Str) (h : EscBlockDomain t = true) :
    parseDocument tab (escAll Generated.escapedChars t ++ "\n\n".toList) =
      some (singleParagraph (escAll Generated.escapedChars t), []) := by
  have := C07_block_single_paragraph_ext tab htab [] (by simp) t h
  simpa using this

/-- **C07, block stage.**  For every text `t` of the domain of the property (`EscDomain`: no `<`, `&`, STX, ETX, tab,
    CR; every line has a character other than a space; the first character is not white space; no line is `=+[ ]*`)
    and every `tab_length > 0`, the block parser turns `escAll ESCAPED_CHARS t ++ "\n\n"` into
    `<div><p>escAll ESCAPED_CHARS t</p></div>` and records no reference. -/
theorem C07_block_single_paragraph (tab : Nat) (htab : tab > 0) (t : Str) (h : EscDomain t = true) :
    parseDocument tab (escAll Generated.escapedChars t ++ "\n\n".toList) =
      some (singleParagraph (escAll Generated.escapedChars t), []) :=
  C07_block_single_paragraph_weak tab htab t (blockDomain_of_domain t h)

/-- **Normalisation of an escaped text.**  For `t` of the domain, `NormalizeWhitespace` only appends `"\n\n"` to the
    escaped text (with any further escapable characters `extra` that are not the line feed). -/
theorem C07_normalize_escaped (tab : Nat) (extra : List Char) (hx : '\n' ∉ extra) (t : Str)
    (h : EscDomain t = true) :
    Normalize.normalize tab (escAll (Generated.escapedChars ++ extra) t) =
      escAll (Generated.escapedChars ++ extra) t ++ "\n\n".toList := by
  have hnl' : '\n' ∉ Generated.escapedChars ++ extra := by
    intro hm; rcases List.mem_append.1 hm with hm | hm
    · exact C07_escapable_chars.2.2.2.2.2.2.2.2 hm
    · exact hx hm
  simp only [EscDomain, Bool.and_eq_true] at h
  exact normalize_plain tab _ (plain_escAll t h.1.1.1) (ink_escAll hnl' t h.1.1.2)

/-- **C07, normaliser and block parser together.**  For every `t` of the domain and every `tab_length > 0`: the
    escaped source text, normalised and parsed into blocks, is `<div><p>escaped text</p></div>`, no references — with
    the core escapable set extended by any `extra` characters other than the line feed. -/
theorem C07_block_of_source (tab : Nat) (htab : tab > 0) (extra : List Char) (hx : '\n' ∉ extra) (t : Str)
    (h : EscDomain t = true) :
    parseDocument tab (Normalize.normalize tab (escAll (Generated.escapedChars ++ extra) t)) =
      some (singleParagraph (escAll (Generated.escapedChars ++ extra) t), []) := by
  rw [C07_normalize_escaped tab extra hx t h]
  exact C07_block_single_paragraph_ext tab htab extra hx t (blockDomain_of_domain t h)

/-! ### the hypotheses are satisfiable, and what they exclude -/

/-- a text of the domain with every kind of block markup in it, indented continuation lines and trailing spaces -/
example : EscDomain "# not a header  \n---\n        * * *\n1. a\n- b\n> q\n[r]: u \"t\"\n=-\n= =\n\\".toList = true := by
  decide

/-- only in the weaker block-stage domain: a spaces-only line, `<`, `&`, a tab, an `=` line that is not the second -/
example : EscBlockDomain "a <b> &amp;\n  \n\tc\n===".toList = true ∧
    EscDomain "a <b> &amp;\n  \n\tc\n===".toList = false := by decide

/-- what the parser made of a document: tag and text of the children of the root, and the number of references -/
def summary (r : Option (Node × Refs)) : Option (List (Tag × Option Str) × Nat) :=
  r.map (fun x => (x.1.children.map (fun n => (n.tag, n.text)), x.2.length))

/-- the theorem on an instance, evaluated by the kernel -/
example : summary (parseDocument 4 (escAll Generated.escapedChars "# a\n---\n1. b".toList ++ "\n\n".toList)) =
    some ([(.name "p".toList, some "\\# a\n\\-\\-\\-\n1\\. b".toList)], 0) := by decide

/-- unescaped, the same text is a header, a rule and a list -/
example : summary (parseDocument 4 ("# a\n---\n1. b".toList ++ "\n\n".toList)) =
    some ([(.name "h1".toList, some "a".toList), (.name "hr".toList, none), (.name "ol".toList, none)], 0) := by
  decide

/-- `tab_length = 0`: the escaped text becomes a code block -/
theorem C07_tab0_counterexample :
    summary (parseDocument 0 (escAll Generated.escapedChars "a".toList ++ "\n\n".toList)) =
      some ([(.name "pre".toList, none)], 0) := by decide

/-- a first line that starts with a space: one paragraph, but its text has lost the space -/
theorem C07_leading_space_counterexample :
    EscBlockDomain " a".toList = false ∧
    summary (parseDocument 4 (escAll Generated.escapedChars " a".toList ++ "\n\n".toList)) =
      some ([(.name "p".toList, some "a".toList)], 0) := by decide

/-- an empty line: two paragraphs -/
theorem C07_blank_line_counterexample :
    EscBlockDomain "a\n\nb".toList = false ∧
    summary (parseDocument 4 (escAll Generated.escapedChars "a\n\nb".toList ++ "\n\n".toList)) =
      some ([(.name "p".toList, some "a".toList), (.name "p".toList, some "b".toList)], 0) := by decide

/-- a trailing line feed: one paragraph, but its text has lost the line feed -/
theorem C07_trailing_newline_counterexample :
    EscBlockDomain "a\n".toList = false ∧
    summary (parseDocument 4 (escAll Generated.escapedChars "a\n".toList ++ "\n\n".toList)) =
      some ([(.name "p".toList, some "a".toList)], 0) := by decide

/-- a second line of `=`: `=` is not escapable (`escAll` leaves it alone) and the block is a level-1 header; the same
    line in third position is harmless -/
theorem C07_setext_counterexample :
    EscBlockDomain "a\n== ".toList = false ∧
    escAll Generated.escapedChars "a\n== ".toList = "a\n== ".toList ∧
    summary (parseDocument 4 (escAll Generated.escapedChars "a\n== ".toList ++ "\n\n".toList)) =
      some ([(.name "h1".toList, some "a".toList)], 0) ∧
    EscBlockDomain "a\nb\n==".toList = true := by decide

/-- a whitespace-only line is harmless for the block parser but not for the normaliser, which empties it: the
    source domain excludes it -/
theorem C07_space_line_counterexample :
    EscBlockDomain "a\n \nb".toList = true ∧ EscDomain "a\n \nb".toList = false ∧
    Normalize.normalize 4 (escAll Generated.escapedChars "a\n \nb".toList) = "a\n\nb\n\n".toList := by decide

end MdVerif.Escape
