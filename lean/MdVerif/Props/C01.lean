/-
C01 — Canonical Markdown renders to the prescribed structure; nesting and spelling never change the rendering.

The specification side (`Doc`, `Spelling`, `print`, `spec`, `WF`) is `MdVerif/Spec/Doc.lean`; this file proves, on the
model of `Markdown.convert` (`Pipeline.convert`), theorems of the form

    WF d → (d in a sub-grammar) → Pipeline.convert {} (print d sp) = .ok (spec d)      for ALL spellings `sp`.

Sub-grammar reached here: `FlatDoc d` (`Spec/DocFlat.lean`) — any number of top-level blocks, each one a thematic
break (`rule`), a paragraph, an ATX heading or a Setext heading, the content of the last three being words
(`Inline.text`) and backslash escapes (`Inline.esc`).  `C01_flat` is the general theorem (rung 6 of the ladder:
composition of blocks); `C01_rule`, `C01_para_plain`, `C01_atx`, `C01_setext` are its single-block instances (rungs
1–3), stated with the output spelled out.  Everything the spelling decides — rule character, count, gaps, indentation
0–3 and trailing spaces of a rule; indentation 0–3 of a paragraph or Setext heading; the closing `#` sequence of an
ATX heading; the length of a Setext underline — is quantified (`sp` is arbitrary).

How it is proved (helper lemmas: `MdVerif/Lemmas/DocParse.lean`, on top of the C07 machinery `Lemmas/BlockEsc.lean`,
`Lemmas/InlineEsc.lean`):
* the content `c` of a block prints as `escAll ESCAPED_CHARS (plainOf c)` — words are not escapable, escapes are — so
  a paragraph or heading text is a *fully escaped* one-line text, to which the C07 lemmas apply;
* `C01_spelled_*`: each printed form of a block is claimed by the right block processor whatever the parent and the
  other blocks are, and yields one element (`Produces`): spelling independence is proved on the recognisers
  (`hrLine` of every printed rule, the lazy header group and `#*` of `HashHeaderProcessor.RE`, the Setext pattern);
* `C01_chunks`: the block parser on chunks separated by blank lines yields the elements in order;
* `C01_leaves`: inline processor, prettify, unescape, serializer and post-processing on a `<div>` of `hr`/`p`/`h1`–`h6`
  elements with escaped text give the elements' renderings, one per line;
* `C01_pieces`: the composition, independent of the `Doc` specification.

Rungs 4 (indented code block) and 5 (emphasis / code spans) of the ladder are NOT proved here.
-/
import MdVerif.Model.Pipeline
import MdVerif.Spec.Doc
import MdVerif.Spec.DocFlat
import MdVerif.Lemmas.DocParse
import MdVerif.Lemmas.DocSpec

namespace MdVerif.DocParse
open Py Block DocSpec Escape

/-! ### the stages, on their own vocabulary -/

/-- **Rules: spelling independence on the recogniser.**  Every member of the rule family (character `*`, `-` or `_`;
    three to five of them; gaps of zero to two spaces; indentation zero to three; zero to two trailing spaces) matches
    `HRProcessor.RE`. -/
theorem C01_rule_recognised (i ch n g t : Nat) : hrLine (ruleLine true i ch n g t) = true :=
  hrLine_rule i ch n g t

/-- **A rule in any spelling** is claimed by `HRProcessor` — no earlier processor fires — and appends one `hr` element,
    whatever the parent, the references and the following blocks are (`tab_length ≥ 4`). -/
theorem C01_spelled_rule (tab : Nat) (htab : 3 < tab) (i ch n g t : Nat) :
    Produces tab (ruleLine true i ch n g t) { tag := .name "hr".toList } :=
  produces_rule tab htab i ch n g t

/-- **A paragraph** of escaped one-line text indented by less than `tab_length` becomes a `p` whose text is the text
    without the indentation. -/
theorem C01_spelled_para (esc : List Char) (hE : EscOK esc) (tab i : Nat) (hi : i < tab) (t : Str)
    (ht : lineText t = true) :
    Produces tab (spaces i ++ escAll esc t) { tag := .name "p".toList, text := some (escAll esc t) } :=
  produces_para hE tab i hi t ht

/-- **An ATX heading**: level 1–6, any closing sequence (nothing, or a space and any number of `#`): the closing
    hashes and the spaces never reach the text of the `h<level>` element. -/
theorem C01_spelled_atx (esc : List Char) (hE : EscOK esc) (tab : Nat) (htab : 0 < tab) (t : Str)
    (ht : lineText t = true) (lv : Nat) (h1 : 1 ≤ lv) (h6 : lv ≤ 6) (m : Option Nat) :
    Produces tab
      (List.replicate lv '#' ++ ' ' :: (escAll esc t ++
        (match m with | none => [] | some m => ' ' :: List.replicate m '#')))
      { tag := .name ('h' :: natToDec lv), text := some (escAll esc t) } :=
  produces_atx hE tab htab t ht lv h1 h6 _ (by cases m with | none => exact Or.inl rfl | some m => exact Or.inr ⟨m, rfl⟩)

/-- **A Setext heading**: text indented by less than `tab_length` over `=` (level 1) or `-` (level 2) repeated any
    positive number of times. -/
theorem C01_spelled_setext (esc : List Char) (hE : EscOK esc) (tab i : Nat) (hi : i < tab) (t : Str)
    (ht : lineText t = true) (lv k : Nat) (hlv : lv = 1 ∨ lv = 2) :
    Produces tab (spaces i ++ escAll esc t ++ '\n' :: List.replicate (k + 1) (if lv = 1 then '=' else '-'))
      { tag := .name ('h' :: natToDec lv), text := some (escAll esc t) } :=
  produces_setext hE tab i hi t ht lv k hlv

/-- the generated `ESCAPED_CHARS` has what these theorems need (`EscOK`), by evaluation of the regenerated table -/
theorem C01_escapable_chars : EscOK Generated.escapedChars := escOK_generated

/-- **Blocks compose (block stage).**  Chunks none of which contains an empty line, each of which `Produces` its
    element (not a `pre`): the document in which they are separated by blank lines parses to the `<div>` of these
    elements in order, no references. -/
theorem C01_chunks (tab : Nat) (cs : List (Str × Node)) (hne : cs ≠ [])
    (hP : ∀ c ∈ cs, Produces tab c.1 c.2) (hL : ∀ c ∈ cs, noEmptyLineFrom true c.1 = true)
    (hpre : ∀ c ∈ cs, preCode c.2 = none) :
    parseDocument tab (joinChunks (cs.map (·.1)) ++ "\n\n".toList) = some (divOf (cs.map (·.2)), []) :=
  parseDocument_chunks tab cs hne hP hL hpre

/-- **Blocks compose (inline stage to output).**  A `<div>` whose children are `hr` elements and `p`/`h1`–`h6` elements
    with fully escaped one-line text renders — inline patterns, prettify, unescape, serializer, post-processors — to
    the renderings of the children, one per line; whatever the reference definitions are. -/
theorem C01_leaves (cfg : Pipeline.Cfg) (hE : EscOK cfg.esc) (hbl : cfg.blockLevel = TreeProc.defaultBlockLevel)
    (hfmt : cfg.fmt = .xhtml) (refs : List (Str × Str × Option Str)) (L : List Leaf) (hne : L ≠ [])
    (hL : ∀ l ∈ L, l.ok = true) :
    Probe.render cfg refs (divOf (L.map (Leaf.src cfg.esc))) = .ok (joinOut L) :=
  render_leaves cfg hE hbl hfmt refs L hne hL

/-- **Composition, without the `Doc` specification**: groups of lines, each with the element it becomes
    (`PieceOK`: safe lines, `Produces`), separated by empty lines, convert to the outputs of the elements, one per line. -/
theorem C01_pieces (cfg : Pipeline.Cfg) (hE : EscOK cfg.esc) (hbl : cfg.blockLevel = TreeProc.defaultBlockLevel)
    (hfmt : cfg.fmt = .xhtml) (ps : List Piece) (hne : ps ≠ []) (hP : ∀ p ∈ ps, PieceOK cfg.esc cfg.tab p) :
    Pipeline.convert cfg (joinLines (flatLines (ps.map (·.g)))) = .ok (joinOut (ps.map (·.leaf))) :=
  convert_pieces cfg hE hbl hfmt ps hne hP

/-! ### C01 on the sub-grammar -/

/-- **C01 for flat documents (rungs 1–3 and 6).**  `d` well-formed, every block a rule or a paragraph / ATX heading /
    Setext heading of words and escapes: under EVERY spelling the converter returns `spec d`. -/
theorem C01_flat (d : Doc) (sp : Spelling) (hwf : WF d = true) (hflat : FlatDoc d = true) :
    Pipeline.convert {} (print d sp) = .ok (spec d) :=
  convert_flat d sp hwf hflat

/-- **Rung 1.**  A thematic break, in every spelling, converts to `<hr />`. -/
theorem C01_rule (sp : Spelling) : Pipeline.convert {} (print [.rule] sp) = .ok "<hr />".toList :=
  C01_flat [.rule] sp (by decide) (by decide)

/-- **Rung 2.**  A paragraph of words and backslash escapes, at indentation 0–3: `<p>…</p>` with the words as they
    are and every escaped character literally (HTML-escaped). -/
theorem C01_para_plain (c : List Inline) (sp : Spelling) (hwf : WF [.para c] = true) (hp : plainRun c = true) :
    Pipeline.convert {} (print [.para c] sp) = .ok ("<p>".toList ++ specInlines c ++ "</p>".toList) := by
  have := C01_flat [.para c] sp hwf (by simp [FlatDoc, isFlatBlock, hp])
  rw [this, spec, specBlocks_one, specBlock_para]

/-- **Rung 3a.**  An ATX heading of words and escapes, level 1–6, with any of the closing-hash spellings. -/
theorem C01_atx (l : Nat) (c : List Inline) (sp : Spelling) (hwf : WF [.atx l c] = true) (hp : plainRun c = true) :
    Pipeline.convert {} (print [.atx l c] sp) =
      .ok ("<h".toList ++ natToDec l ++ ">".toList ++ specInlines c ++ "</h".toList ++ natToDec l ++ ">".toList) := by
  have := C01_flat [.atx l c] sp hwf (by simp [FlatDoc, isFlatBlock, hp])
  rw [this, spec, specBlocks_one, specBlock_atx]

/-- **Rung 3b.**  A Setext heading of words and escapes, level 1–2, indentation 0–3, underline of any length 1–8. -/
theorem C01_setext (l : Nat) (c : List Inline) (sp : Spelling) (hwf : WF [.setext l c] = true)
    (hp : plainRun c = true) :
    Pipeline.convert {} (print [.setext l c] sp) =
      .ok ("<h".toList ++ natToDec l ++ ">".toList ++ specInlines c ++ "</h".toList ++ natToDec l ++ ">".toList) := by
  have := C01_flat [.setext l c] sp hwf (by simp [FlatDoc, isFlatBlock, hp])
  rw [this, spec, specBlocks_one, specBlock_setext]

/-- **Rung 6.**  Two flat documents one after the other: the conversion of the concatenation is the two conversions
    separated by a line feed — under every spelling of the whole, and of the parts. -/
theorem C01_blocks_compose (d1 d2 : Doc) (sp sp1 sp2 : Spelling) (h1 : WF d1 = true) (h2 : WF d2 = true)
    (h12 : WF (d1 ++ d2) = true) (f1 : FlatDoc d1 = true) (f2 : FlatDoc d2 = true) :
    ∃ o1 o2, Pipeline.convert {} (print d1 sp1) = .ok o1 ∧ Pipeline.convert {} (print d2 sp2) = .ok o2 ∧
      Pipeline.convert {} (print (d1 ++ d2) sp) = .ok (o1 ++ "\n".toList ++ o2) := by
  have hne1 : d1 ≠ [] := by intro e; subst e; simp [WF] at h1
  have hne2 : d2 ≠ [] := by intro e; subst e; simp [WF] at h2
  refine ⟨spec d1, spec d2, C01_flat d1 sp1 h1 f1, C01_flat d2 sp2 h2 f2, ?_⟩
  rw [C01_flat (d1 ++ d2) sp h12 (by simp [FlatDoc, List.all_append] at f1 f2 ⊢; exact ⟨f1, f2⟩)]
  simp only [spec]
  rw [specBlocks_append d1 d2 hne1 hne2]

/-! ### the hypotheses are satisfiable; instances evaluated by the kernel -/

/-- a flat document with every kind of block, escapes of markup characters included -/
def sampleFlat : Doc :=
  [.atx 2 [.text (S "Title "), .esc '#', .text (S " 1")],
   .para [.esc '*', .text (S "not em"), .esc '*', .text (S " 2 "), .esc '>', .text (S " 1")],
   .rule,
   .setext 1 [.text (S "Big "), .esc '_'],
   .setext 2 [.esc '-'],
   .para [.text (S "1986"), .esc '.', .text (S " A great year")]]

example : WF sampleFlat = true ∧ FlatDoc sampleFlat = true := by decide

/-- two spellings of it -/
example : print sampleFlat ⟨[]⟩ =
    "## Title \\# 1\n\n\\*not em\\* 2 \\> 1\n\n***\n\nBig \\_\n=\n\n\\-\n-\n\n1986\\. A great year".toList := by
  decide +kernel

example : print sampleFlat ⟨[2, 3, 3, 1, 4, 2, 2, 2, 5, 3, 10, 1]⟩ =
    ("## Title \\# 1 ##\n\n   \\*not em\\* 2 \\> 1\n\n   -  -  -  -  \n\n  Big \\_\n======\n\n   \\-\n---\n\n" ++
      " 1986\\. A great year").toList := by
  decide +kernel

/-- the rendering `spec` prescribes, and — `C01_flat` — the converter's output under both spellings -/
example : spec sampleFlat =
    ("<h2>Title # 1</h2>\n<p>*not em* 2 &gt; 1</p>\n<hr />\n<h1>Big _</h1>\n<h2>-</h2>\n" ++
      "<p>1986. A great year</p>").toList := by decide +kernel

example : Pipeline.convert {} (print sampleFlat ⟨[2, 3, 3, 1, 4, 2, 2, 2, 5, 3, 10, 1]⟩) = .ok (spec sampleFlat) :=
  C01_flat _ _ (by decide) (by decide)

/-- the same instance evaluated by the kernel on the model, independently of the theorem -/
example : Pipeline.convert {} (print sampleFlat ⟨[2, 3, 3, 1, 4, 2, 2, 2, 5, 3, 10, 1]⟩) = .ok (spec sampleFlat) := by
  decide +kernel

/-- outside the sub-grammar: a leading space in the words is not well-formed (`startsOk`), and the converter would
    drop it -/
example : WF [.para [.text (S " a")]] = false := by decide

end MdVerif.DocParse
