/-
C16, the non-interference clause, END TO END: "Enabling an extension does not change the rendering of a document that
does not use that extension's syntax", on `PipelineX.convertX` — the model of `markdown.Markdown(extensions=[…]).convert`
validated by `harness/corr/pipelinex.py` (source without `<`).

For an extension flag `E`, EVERY base configuration `x` of the other ten flags, every pipeline configuration `cfg`
(tab length, output format, escaped characters, block-level elements) and every source `src` without the trigger of `E`:

    convertX { x with E := true } cfg src = convertX { x with E := false } cfg src

— the same output, or the same `ood` / `err` / `oof` answer.  The trigger-free predicates are decidable predicates of
the source; they are stated on the text the block parser sees first, `normText cfg src` = the output of the
`normalize_whitespace` preprocessor (`Normalize.normalize`), because that preprocessor can create a trigger (deleting
STX/ETX joins characters, expanding a tab makes `:<TAB>` into `: `):

    fenced_code   no line starts with ``` or ~~~            `Fenced.noFenceLine`
    admonition    no `!!!`
    def_list      no `: ` (colon, space)
    abbr          no `*[`
    sane_lists    no list marker followed by a space: none of `* `, `+ `, `- `, `. `
    tables        no `|`  (the table processor needs one; `\|` renders differently because the extension makes `|`
                  escapable — also covered by "no `|`")
    attr_list     no `{` and no `hl_lines=`  (with fenced_code, `hl_lines=…` after a fence becomes an attribute of
                  the `code` element when attr_list is enabled — the model answers `ood` there)

For toc, and for the extensions that add an inline pattern, the statements are weaker:

    toc           `C16_noninterference_toc_tree`: the trigger is stated on the element tree of the run WITHOUT toc
                  (`treeX`, the tree handed to the serializer): no `h1`–`h6` and no childless element whose stripped
                  text is `[TOC]`, and the tree stage does not raise (`tocTriggerFree`)
    wikilinks     `C16_noninterference_wikilinks_partial`: no `[[` in the source (the exact trigger), and the run
                  without the extension is not out of fuel;
                  `C16_noninterference_wikilinks_tree_partial`: the same with the trigger stated on the element tree
                  the inline stage is run on (`blockTreeX`): no text or tail contains `[[` (`wikiTriggerFree`)
    nl2br         `C16_noninterference_nl2br_tree_partial`: the trigger is stated on the element tree the inline stage
                  is run on (`blockTreeX`): no line feed in any text or tail (so: one-line paragraphs, no code
                  block), and the run without the extension is not out of fuel

    footnotes     `C16_noninterference_footnotes_partial`: no `[^`, toc not enabled, the run without the extension is
                  not out of fuel, and a fact about that run which holds on every document of the correspondence
                  runs but is not proved here: its final output does not contain `zz1337820767766393qq` /
                  `qq3936677670287331zz`, the inner strings of the two placeholders that `FootnotePostprocessor`
                  replaces (`fnPlaceholderFree`).  (That `FootnotePostTreeprocessor` finds no `div` of class
                  `footnote` is proved: `fnDivFree_holds`, `Lemmas/InlineXTags.lean`.)

The hypothesis `convertX … ≠ .oof` is there because the model's fuel for the loops of `__handleInline` is a function
of the length of the pattern table (`InlineX.loopFuelX`): with the extension's pattern registered the run has MORE
fuel, so the statement "same answer" is only true when the run without it does not answer `oof` (it never does on
the documents of the correspondence runs; no totality theorem for `convertX` is proved here).

Each trigger is necessary: a kernel-checked example with the trigger where the two outputs differ follows each theorem.

Proof (`Lemmas/PipelineXInert*.lean`): the preprocessors keep "does not contain the pattern" (`HtmlBlockPreprocessor`
only inserts `;`, fenced-code placeholders contain no trigger character); the block stage — block parser with the
table processor and every other enabled block processor, and the footnote tree processor, which block-parses the
stored footnote texts — is the one of `C16BlockExt` extended by the invariant that every string stored in the
log (footnote texts included) is trigger-free; the later stages do not read the flag (abbr: no abbreviation entry in
the log, so `AbbrTreeprocessor` returns at once and `md.references` is the same table).
tables and attr_list also need the inline stage: a character that neither the block processors nor the inline
stage introduce and that is not in the text occurs in no text / tail of the tree, of the stash and of any string
a pattern is run on (`Lemmas/PipelineXInertTree*.lean`, `Lemmas/InlineXInv.lean`, `Lemmas/InlineXRel.lean`); so
the escape pattern never meets `\|`, and `AttrListTreeprocessor` finds no `{`.
wikilinks, nl2br, footnotes: `Lemmas/InlineXSim.lean`, `Lemmas/InlineXSimP.lean` — a run whose pattern table has one
more entry that never matches follows the run without it (one more step, with `startIndex = 0`, in every
`while patternIndex < count` loop).  For wikilinks the invariant "no `[[`" is carried through the block stage
(`Lemmas/PipelineXInertTreeP*.lean`) and the inline stage (`Lemmas/InlineXInvP*.lean`) as a `Sep` predicate: closed
under infixes, and under gluing with a non-empty string without `[` in between.
toc: `TocTreeprocessor.run` is the identity on a tree without headings and markers (`TocTree.run_id`), and
`UnescapeTreeprocessor` neither removes a heading nor a marker (`TocTree.tocFree_unescape`).
-/
import MdVerif.Lemmas.PipelineXInert
import MdVerif.Lemmas.PipelineXInertAttr3
import MdVerif.Lemmas.PipelineXInertSim
import MdVerif.Lemmas.PipelineXInertToc
import MdVerif.Lemmas.PipelineXInertFnDiv
import MdVerif.Lemmas.PipelineXInertWiki2

namespace MdVerif.PipelineX
open Py Pipeline BlockExt

/-- the text after `normalize_whitespace` -/
def normText (cfg : Cfg) (src : Str) : Str := Normalize.normalize cfg.tab src

/-- the normalised source does not contain `pat` -/
def lacksN (pat : String) (cfg : Cfg) (src : Str) : Prop := contains (normText cfg src) pat.toList = false

instance (pat : String) (cfg : Cfg) (src : Str) : Decidable (lacksN pat cfg src) := by unfold lacksN; infer_instance

/-! ### fenced_code -/

/-- **fenced_code** is inert on a source none of whose (normalised) lines starts with ``` or ~~~. -/
theorem C16_noninterference_fencedCode (x : Exts) (cfg : Cfg) (src : Str)
    (h : Fenced.noFenceLine (normText cfg src) = true) :
    convertX { x with fencedCode := true } cfg src = convertX { x with fencedCode := false } cfg src :=
  convertX_fencedCode { x with fencedCode := false } rfl cfg src h

example : Fenced.noFenceLine (normText {} "a ``` b\n  ~~~\n``x``".toList) = true := by decide +kernel
/-- the trigger is necessary -/
example : convertX { fencedCode := true } {} "```\nx\n```".toList ≠ convertX {} {} "```\nx\n```".toList := by
  decide +kernel

/-! ### admonition -/

/-- **admonition** is inert on a source without `!!!`. -/
theorem C16_noninterference_admonition (x : Exts) (cfg : Cfg) (src : Str) (h : lacksN "!!!" cfg src) :
    convertX { x with admonition := true } cfg src = convertX { x with admonition := false } cfg src :=
  convertX_admonition { x with admonition := false } rfl cfg src h

example : lacksN "!!!" {} "Wow!! Really!\n\n!! note\n    code".toList := by decide +kernel
example : convertX { admonition := true } {} "!!! n\n    x".toList ≠ convertX {} {} "!!! n\n    x".toList := by
  decide +kernel

/-! ### def_list -/

/-- **def_list** is inert on a source without a colon followed by a space. -/
theorem C16_noninterference_defList (x : Exts) (cfg : Cfg) (src : Str) (h : lacksN ": " cfg src) :
    convertX { x with defList := true } cfg src = convertX { x with defList := false } cfg src :=
  convertX_defList { x with defList := false } rfl cfg src h

example : lacksN ": " {} "Term:\n:not a definition\n\n[r]:/url".toList := by decide +kernel
example : convertX { defList := true } {} "T\n: d".toList ≠ convertX {} {} "T\n: d".toList := by decide +kernel
/-- why the predicate is on the normalised text: the tab of `:<TAB>d` becomes blanks -/
example : contains "T\n:\td".toList ": ".toList = false ∧ ¬ lacksN ": " {} "T\n:\td".toList := by decide +kernel

/-! ### abbr -/

/-- **abbr** is inert on a source without `*[` (block processor, tree processor and the reference table). -/
theorem C16_noninterference_abbr (x : Exts) (cfg : Cfg) (src : Str) (h : lacksN "*[" cfg src) :
    convertX { x with abbr := true } cfg src = convertX { x with abbr := false } cfg src :=
  convertX_abbr { x with abbr := false } rfl cfg src h

example : lacksN "*[" {} "Some *emphasis* and [a link](/u), * [ apart".toList := by decide +kernel
example : convertX { abbr := true } {} "*[A]: b\n\nA".toList ≠ convertX {} {} "*[A]: b\n\nA".toList := by
  decide +kernel

/-! ### sane_lists -/

/-- **sane_lists** is inert on a source without any list marker followed by a space (no list at any depth). -/
theorem C16_noninterference_saneLists (x : Exts) (cfg : Cfg) (src : Str) (h : noListMarker (normText cfg src)) :
    convertX { x with saneLists := true } cfg src = convertX { x with saneLists := false } cfg src :=
  convertX_saneLists { x with saneLists := false } cfg src h

instance (s : Str) : Decidable (noListMarker s) := by unfold noListMarker; infer_instance

example : noListMarker (normText {} "# T\n\n1.5 is a number; a-b; 2*3.\n\n> q".toList) := by decide +kernel
example : convertX { saneLists := true } {} "3. a".toList ≠ convertX {} {} "3. a".toList := by decide +kernel

/-! ### tables -/

/-- **tables** is inert on a source without `|`: no block is a table, and the `|` appended to
    `md.ESCAPED_CHARS` is never met by the escape pattern. -/
theorem C16_noninterference_tables (x : Exts) (cfg : Cfg) (src : Str) (h : '|' ∉ normText cfg src) :
    convertX { x with tables := true } cfg src = convertX { x with tables := false } cfg src :=
  convertX_tables { x with tables := false } rfl cfg src h

example : '|' ∉ normText {} "# T\n\na - b\n--- : ---".toList := by decide +kernel
example : convertX { tables := true } {} "a|b\n-|-".toList ≠ convertX {} {} "a|b\n-|-".toList := by decide +kernel
/-- not only tables: the escaped pipe renders differently -/
example : convertX { tables := true } {} "a \\| b".toList ≠ convertX {} {} "a \\| b".toList := by decide +kernel

/-! ### attr_list -/

/-- **attr_list** is inert on a source without `{` and without `hl_lines=`. -/
theorem C16_noninterference_attrList (x : Exts) (cfg : Cfg) (src : Str) (h : OkAttr (normText cfg src)) :
    convertX { x with attrList := true } cfg src = convertX { x with attrList := false } cfg src :=
  convertX_attrList { x with attrList := false } rfl cfg src h

instance (s : Str) : Decidable (OkAttr s) := by unfold OkAttr BlockExt.NoC; infer_instance

example : OkAttr (normText {} "# h }\n\n```py\nhl_lines\n```".toList) := by decide +kernel
example : convertX { attrList := true } {} "# h {#i}".toList ≠ convertX {} {} "# h {#i}".toList := by decide +kernel
/-- `hl_lines=` after a fence matters when fenced_code is enabled -/
example : convertX { attrList := true, fencedCode := true } {} "```py hl_lines=\"1\"\nx\n```".toList ≠
    convertX { fencedCode := true } {} "```py hl_lines=\"1\"\nx\n```".toList := by decide +kernel

/-! ### toc -/

/-- **toc** is inert on a source whose element tree (of the run without toc) has no `h1`–`h6` and no childless
    element whose stripped text is `[TOC]` (`tocTriggerFree`, a decidable predicate of `treeX`; it also asks that
    the tree stage does not raise). -/
theorem C16_noninterference_toc_tree (x : Exts) (cfg : Cfg) (src : Str)
    (h : tocTriggerFree { x with toc := false } cfg src = true) :
    convertX { x with toc := true } cfg src = convertX { x with toc := false } cfg src :=
  convertX_toc { x with toc := false } rfl cfg src h

example : tocTriggerFree {} {} "para\n\n* a\n* b".toList = true := by decide +kernel
/-- a heading gets an `id` -/
example : convertX { toc := true } {} "# h".toList ≠ convertX {} {} "# h".toList := by decide +kernel
/-- the marker is replaced -/
example : convertX { toc := true } {} "[TOC]".toList ≠ convertX {} {} "[TOC]".toList := by decide +kernel

/-! ### wikilinks -/

/-- **wikilinks**, partial: inert on a source without `[[`, when the run without it is not out of fuel.
    "No `[[`" is not closed under concatenation; the block stage and the inline stage keep it all the same because
    what they put between two pieces of a text (a line feed; placeholders, escapes, stashed strings) is never empty
    and contains no `[` (`BlockExt.BSep`, `InlineX.Sep`; `Lemmas/PipelineXInertTreeP*.lean`,
    `Lemmas/InlineXInvP*.lean`). -/
theorem C16_noninterference_wikilinks_partial (x : Exts) (cfg : Cfg) (src : Str) (h : lacksN "[[" cfg src)
    (hfuel : convertX { x with wikilinks := false } cfg src ≠ .oof) :
    convertX { x with wikilinks := true } cfg src = convertX { x with wikilinks := false } cfg src :=
  convertX_wikilinks_src { x with wikilinks := false } rfl cfg src h hfuel

example : lacksN "[[" {} "# T\n\na [b][c] ]] [d](e) \\[x]\n\n* [ [y]]".toList := by decide +kernel
example : convertX {} {} "# T\n\na [b][c] ]] [d](e) \\[x]\n\n* [ [y]]".toList ≠ .oof := by decide +kernel
example : convertX { wikilinks := true } {} "[[a b]]".toList ≠ convertX {} {} "[[a b]]".toList := by decide +kernel

/-- **wikilinks**, partial, on the tree: inert on a source such that no text and no tail of the element tree the
    inline stage is run on contains `[[` (`wikiTriggerFree`, a decidable predicate of the block stage), when the run
    without it is not out of fuel. -/
theorem C16_noninterference_wikilinks_tree_partial (x : Exts) (cfg : Cfg) (src : Str)
    (h : wikiTriggerFree { x with wikilinks := false } cfg src = true)
    (hfuel : convertX { x with wikilinks := false } cfg src ≠ .oof) :
    convertX { x with wikilinks := true } cfg src = convertX { x with wikilinks := false } cfg src :=
  convertX_wikilinks_tree { x with wikilinks := false } rfl cfg src h hfuel

example : wikiTriggerFree {} {} "# T\n\na [b][c] ]] [d](e) \\[x]\n\n* [ [y]]".toList = true := by decide +kernel
example : convertX {} {} "# T\n\na [b][c] ]] [d](e) \\[x]\n\n* [ [y]]".toList ≠ .oof := by decide +kernel

/-! ### nl2br -/

/-- **nl2br**, partial: inert on a source whose element tree, as the inline stage gets it, has no line feed in any
    text or tail (`nlTriggerFree`, a decidable predicate of the block stage), when the run without it is not out of
    fuel. -/
theorem C16_noninterference_nl2br_tree_partial (x : Exts) (cfg : Cfg) (src : Str)
    (h : nlTriggerFree { x with nl2br := false } cfg src = true)
    (hfuel : convertX { x with nl2br := false } cfg src ≠ .oof) :
    convertX { x with nl2br := true } cfg src = convertX { x with nl2br := false } cfg src :=
  convertX_nl2br' { x with nl2br := false } rfl cfg src h hfuel

example : nlTriggerFree {} {} "# T\n\npara one\n\n* a\n* b".toList = true := by decide +kernel
example : convertX {} {} "# T\n\npara one\n\n* a\n* b".toList ≠ .oof := by decide +kernel
example : convertX { nl2br := true } {} "a\nb".toList ≠ convertX {} {} "a\nb".toList := by decide +kernel

/-! ### footnotes -/

/-- **footnotes**, partial: inert on a source without `[^` when toc is not enabled, under two hypotheses on the run
    WITHOUT footnotes: it is not out of fuel; its final output does not contain the inner strings of the placeholders
    of `FootnotePostprocessor` (`fnPlaceholderFree`, decidable; the placeholders are `STX zz1337820767766393qq ETX`
    and `STX qq3936677670287331zz ETX`, which no stage generates without the extension — an invariant of the pipeline
    that is not proved here). -/
theorem C16_noninterference_footnotes_partial (x : Exts) (cfg : Cfg) (src : Str) (htoc : x.toc = false)
    (h : lacksN "[^" cfg src)
    (hfuel : convertX { x with footnotes := false } cfg src ≠ .oof)
    (hph : fnPlaceholderFree (convertX { x with footnotes := false } cfg src) = true) :
    convertX { x with footnotes := true } cfg src = convertX { x with footnotes := false } cfg src :=
  convertX_footnotes' { x with footnotes := false } rfl htoc cfg src h hfuel hph

example : lacksN "[^" {} "# T\n\npara *one* [a]\n\n* a\n* b".toList := by decide +kernel
example : convertX {} {} "# T\n\npara *one* [a]\n\n* a\n* b".toList ≠ .oof := by decide +kernel
example : fnPlaceholderFree (convertX {} {} "# T\n\npara *one* [a]\n\n* a\n* b".toList) = true := by decide +kernel
example : convertX { footnotes := true } {} "a[^1]\n\n[^1]: b".toList ≠ convertX {} {} "a[^1]\n\n[^1]: b".toList := by
  decide +kernel

end MdVerif.PipelineX
