/-
C15 — "A link or image reference resolves to its definition wherever at top level the definition appears (before or
after the use, alone or next to other definitions), matching labels case-insensitively and treating a line break or
run of spaces inside the label at the place of use as one space; the rendered link carries exactly the defined
destination and title in every title spelling; definitions themselves produce no output; a reference without a
definition is left as literal text."

This file: the part of C15 that lives in the **block parser** (`MdVerif/Model/Block.lean`: `refSearch`, `referenceP`,
`dispatch`, `parseBlocks`, `lookupRef`) and the **label normalisation** of the two sides.  Only property statements
live here; definitions of the vocabulary (`printDef`, `defEntry`, `normDef`, `normUse`, …) are in
`MdVerif/Spec/RefDef.lean`, helper lemmas in `MdVerif/Lemmas/BlockRef.lean`.  Core Lean only.

Quantifiers.  A definition is `printDef indent label url angle title titleOnNextLine`:
`indent ≤ 3` spaces, `[label]: `, the destination bare or in `<…>`, no title or a title in one of the three
spellings `"t"`, `'t'`, `(t)`, on the same line or on the next line.  Well-formedness of the parts (all decidable):
`LabelOK` (no `[`, `]`, line break), `UrlOK` (non-empty, no white space, not starting with `<` / ending with `>`),
`TitleOK` (no line break — the title may contain its own delimiter).  Fuel, parser state, parent element, the
references collected so far and the blocks before and after are arbitrary.

1. `C15_def_recognised`, `C15_def_stored`, `C15_def_no_output` (+ `_parseBlocks`, `_document`): the pattern matches the
   whole definition with the groups one expects; `ReferenceProcessor.run` stores exactly
   `(lower (strip label), (url, title))`, appends no node and puts nothing back.
2. `C15_defs_adjacent`: two definitions on consecutive lines of one block are both stored.
3. `C15_def_anywhere`, `C15_def_anywhere_conv`, `C15_lookup_position_independent`, `C15_def_anywhere_lookup`: a
   definition block may stand anywhere among the blocks: same tree, same references plus its entry; lookups do not
   depend on the position.
4. `C15_label_match`: the key of the place of use (`normUse`) of any case / white-space variant of a label equals
   the key of the definition (`normDef`).  `C15_double_space_never_matches`: a definition whose label has two
   adjacent inner spaces is unreachable (recorded; see the note there).
5. `C15_lookup_last_wins`, `C15_undefined_none`.

Not here: the inline side (that `ReferenceInlineProcessor` computes `normUse` of what stands between the brackets
and renders `href`/`title` from `lookupRef`) — see the inline model.
-/
import MdVerif.Spec.RefDef
import MdVerif.Lemmas.BlockRef

namespace MdVerif.RefDef
open Py Block

/-! ### examples: the hypotheses are satisfiable, the printer prints what one expects -/

example : printDef 0 "Foo Bar".toList "http://example.com/".toList false (some (.dq, "The Title".toList)) false =
    "[Foo Bar]: http://example.com/ \"The Title\"".toList := by decide
example : printDef 3 "id".toList "/u".toList true (some (.paren, "t (x)".toList)) true =
    "   [id]: </u>\n    (t (x))".toList := by decide
example : printDef 1 "id".toList "/u".toList false none false = " [id]: /u".toList := by decide
example : LabelOK "Foo Bar".toList = true := by decide
example : UrlOK "http://example.com/a?b=c#d".toList = true := by decide
example : TitleOK (some (.sq, "it's \"quoted\" (twice)".toList)) = true := by decide
example : defEntry " Foo Bar".toList "/u".toList (some (.sq, "T".toList)) =
    ("foo bar".toList, ("/u".toList, some "T".toList)) := by decide

/-- what `m.group(5) or m.group(6)` is for each spelling: the title text; an *empty* quoted title is `None` (and an
    empty parenthesised one `''` — the inline side only tests truthiness, so both mean "no title attribute") -/
theorem C15_storedTitle_spec :
    storedTitle none = none ∧
    (∀ st t, t ≠ [] → storedTitle (some (st, t)) = some t) ∧
    storedTitle (some (.dq, [])) = none ∧ storedTitle (some (.sq, [])) = none ∧
    storedTitle (some (.paren, [])) = some [] := by
  refine ⟨rfl, ?_, rfl, rfl, rfl⟩
  intro st t ht
  cases t with
  | nil => exact absurd rfl ht
  | cons c t => cases st <;> rfl

/-! ### 1. the definition is recognised, stored, and produces no output -/

/-- **The pattern matches a written definition as a whole**, in every spelling: `ReferenceProcessor.RE.search` finds
    it at 0, the match ends at its end, group 1 is the label, group 2 the destination as written, groups 5/6 the
    title. -/
theorem C15_def_recognised (indent : Nat) (label url : Str) (angle : Bool) (title : Option (TitleStyle × Str))
    (titleOnNextLine : Bool) (hi : indent ≤ 3) (hl : LabelOK label = true) (hu : UrlOK url = true)
    (ht : TitleOK title = true) :
    refSearch (printDef indent label url angle title titleOnNextLine) =
      some (0, (printDef indent label url angle title titleOnNextLine).length, label, urlWritten url angle,
        group5 title, group6 title) := by
  simpa using refSearch_printDef indent label url angle title titleOnNextLine [] hi hl hu ht (Or.inl rfl)

/-- **`ReferenceProcessor.run` on that match** stores exactly the entry `(lower (strip label), (url, title))` — the
    destination without its angle brackets —, returns the parent as it was and the remaining blocks as they were. -/
theorem C15_def_stored (refs : Refs) (parent : Node) (rest : List Str) (indent : Nat) (label url : Str)
    (angle : Bool) (title : Option (TitleStyle × Str)) (titleOnNextLine : Bool) (hu : UrlOK url = true) :
    referenceP refs parent (printDef indent label url angle title titleOnNextLine) rest
        (0, (printDef indent label url angle title titleOnNextLine).length, label, urlWritten url angle,
          group5 title, group6 title) =
      (parent, refs ++ [defEntry label url title], rest) := by
  have := referenceP_printDef refs parent rest indent label url angle title titleOnNextLine [] hu
  simpa [isBlank] using this

/-- **A definition produces no output.**  One turn of the block-parser loop on a definition block — whatever the
    parser state, the parent element, the references so far, the blocks that follow and the recursive callback —:
    no earlier processor claims the block, `reference` stores the entry, the parent is untouched, nothing is put
    back.  (`indent < tab`: with the default `tab = 4` this is `indent ≤ 3`.) -/
theorem C15_def_no_output (tab : Nat) (pb : PB) (state : List BState) (refs : Refs) (parent : Node)
    (rest : List Str) (indent : Nat) (label url : Str) (angle : Bool) (title : Option (TitleStyle × Str))
    (titleOnNextLine : Bool) (hi : indent ≤ 3) (hit : indent < tab) (hl : LabelOK label = true)
    (hu : UrlOK url = true) (ht : TitleOK title = true) :
    dispatch tab pb state refs parent (printDef indent label url angle title titleOnNextLine) rest =
      some (parent, refs ++ [defEntry label url title], rest) :=
  dispatch_printDef tab pb state refs parent rest indent label url angle title titleOnNextLine hi hit hl hu ht

/-- the same for `parseBlocks` on the one-block list, with any fuel `≥ 1` -/
theorem C15_def_no_output_parseBlocks (tab f : Nat) (state : List BState) (refs : Refs) (parent : Node)
    (indent : Nat) (label url : Str) (angle : Bool) (title : Option (TitleStyle × Str)) (titleOnNextLine : Bool)
    (hi : indent ≤ 3) (hit : indent < tab) (hl : LabelOK label = true) (hu : UrlOK url = true)
    (ht : TitleOK title = true) :
    parseBlocks tab (f + 1) state refs parent [printDef indent label url angle title titleOnNextLine] =
      some (parent, refs ++ [defEntry label url title]) := by
  simp [parseBlocks, dispatch_printDef tab _ state refs parent [] indent label url angle title titleOnNextLine hi hit
    hl hu ht]

/-- … and for the whole document that consists of the definition: an empty `div` and one reference -/
theorem C15_def_no_output_document (tab : Nat) (indent : Nat) (label url : Str) (angle : Bool)
    (title : Option (TitleStyle × Str)) (titleOnNextLine : Bool) (hi : indent ≤ 3) (hit : indent < tab)
    (hl : LabelOK label = true) (hu : UrlOK url = true) (ht : TitleOK title = true) :
    parseDocument tab (printDef indent label url angle title titleOnNextLine) =
      some (Node.el "div", [defEntry label url title]) := by
  rw [printDef_eq_joinLines, parseDocument_plain tab _ (plain_defLines hl hu ht), ← printDef_eq_joinLines]
  have := C15_def_no_output_parseBlocks tab (2 * (printDef indent label url angle title titleOnNextLine).length + 9)
    [] [] (Node.el "div") indent label url angle title titleOnNextLine hi hit hl hu ht
  simpa [fuelFor] using this

/-- why `indent ≤ 3`: with four spaces the line is a code block and nothing is stored -/
example : (parseDocument 4 "    [a]: /u".toList).map (·.2) = some [] := by decide +kernel
/-- why `UrlOK` excludes a leading `<` / trailing `>`: they are stripped from a bare destination too -/
example : (parseDocument 4 "[a]: u>".toList).map (·.2) = some [("a".toList, ("u".toList, none))] := by
  decide +kernel
/-- why `TitleOK` excludes a line break: the pattern then does not match at all (the block becomes a paragraph) -/
example : refSearch "[a]: /u \"x\ny\"".toList = none := by decide +kernel

/-! ### 2. two definitions next to each other -/

/-- **Adjacent definitions.**  A block that consists of two definitions on consecutive lines: the first turn stores
    the first and puts the second back as a block, the second turn stores the second; the tree is untouched.  (Top
    level is `state = []`, `parent = div`, `refs = []`; the statement holds for all.) -/
theorem C15_defs_adjacent (tab f : Nat) (state : List BState) (refs : Refs) (parent : Node) (rest : List Str)
    (indent : Nat) (label url : Str) (angle : Bool) (title : Option (TitleStyle × Str)) (nl : Bool)
    (indent2 : Nat) (label2 url2 : Str) (angle2 : Bool) (title2 : Option (TitleStyle × Str)) (nl2 : Bool)
    (hi : indent ≤ 3) (hit : indent < tab) (hl : LabelOK label = true) (hu : UrlOK url = true)
    (ht : TitleOK title = true) (hi2 : indent2 ≤ 3) (hit2 : indent2 < tab) (hl2 : LabelOK label2 = true)
    (hu2 : UrlOK url2 = true) (ht2 : TitleOK title2 = true) :
    parseBlocks tab (f + 2) state refs parent
        ((printDef indent label url angle title nl ++ '\n' :: printDef indent2 label2 url2 angle2 title2 nl2) :: rest) =
      parseBlocks tab f state (refs ++ [defEntry label url title, defEntry label2 url2 title2]) parent rest := by
  rw [parseBlocks, dispatch_printDef_pair tab _ state refs parent rest indent label url angle title nl indent2 label2
    url2 angle2 title2 nl2 hi hit hl hu ht hl2 hu2 ht2]
  simp only
  rw [parseBlocks, dispatch_printDef tab _ state _ parent rest indent2 label2 url2 angle2 title2 nl2 hi2 hit2 hl2 hu2
    ht2]
  simp

/-- the block alone: both entries, in order, and the parent as it was -/
theorem C15_defs_adjacent_alone (tab f : Nat) (state : List BState) (refs : Refs) (parent : Node)
    (indent : Nat) (label url : Str) (angle : Bool) (title : Option (TitleStyle × Str)) (nl : Bool)
    (indent2 : Nat) (label2 url2 : Str) (angle2 : Bool) (title2 : Option (TitleStyle × Str)) (nl2 : Bool)
    (hi : indent ≤ 3) (hit : indent < tab) (hl : LabelOK label = true) (hu : UrlOK url = true)
    (ht : TitleOK title = true) (hi2 : indent2 ≤ 3) (hit2 : indent2 < tab) (hl2 : LabelOK label2 = true)
    (hu2 : UrlOK url2 = true) (ht2 : TitleOK title2 = true) :
    parseBlocks tab (f + 2) state refs parent
        [printDef indent label url angle title nl ++ '\n' :: printDef indent2 label2 url2 angle2 title2 nl2] =
      some (parent, refs ++ [defEntry label url title, defEntry label2 url2 title2]) := by
  rw [C15_defs_adjacent tab f state refs parent [] indent label url angle title nl indent2 label2 url2 angle2 title2 nl2
    hi hit hl hu ht hi2 hit2 hl2 hu2 ht2]
  cases f <;> rfl

example : (parseDocument 4 "[A]: /a\n [b]: </b> 'T'".toList).map (·.2) =
    some [("a".toList, ("/a".toList, none)), ("b".toList, ("/b".toList, some "T".toList))] := by decide +kernel

/-! ### 3. a definition may stand anywhere among the blocks -/

/-- **Position independence, block level.**  Let `d` be a definition block and `bs1`, `bs2` arbitrary block lists.
    If the blocks without `d` parse (fuel `f`) to the tree `t` and the references `R`, then `R` splits as
    `refs ++ r1 ++ r2` — `r1` what `bs1` added — and the blocks with `d` between `bs1` and `bs2` parse (fuel `f + 1`)
    to **the same tree** and to the same references with the entry of `d` at the place where it was met. -/
theorem C15_def_anywhere (tab f : Nat) (state : List BState) (refs : Refs) (parent : Node) (bs1 bs2 : List Str)
    (indent : Nat) (label url : Str) (angle : Bool) (title : Option (TitleStyle × Str)) (titleOnNextLine : Bool)
    (hi : indent ≤ 3) (hit : indent < tab) (hl : LabelOK label = true) (hu : UrlOK url = true)
    (ht : TitleOK title = true) (t : Node) (R : Refs)
    (h : parseBlocks tab f state refs parent (bs1 ++ bs2) = some (t, R)) :
    ∃ r1 r2 p1, R = refs ++ r1 ++ r2 ∧ parseBlocks tab f state refs parent bs1 = some (p1, refs ++ r1) ∧
      parseBlocks tab (f + 1) state refs parent
          (bs1 ++ printDef indent label url angle title titleOnNextLine :: bs2) =
        some (t, refs ++ r1 ++ defEntry label url title :: r2) :=
  parseBlocks_insert tab state _ _
    (fun pb refs p rest => dispatch_printDef tab pb state refs p rest indent label url angle title titleOnNextLine
      hi hit hl hu ht) bs2 f bs1 refs parent t R h

/-- **… and conversely**: if the blocks with `d` parse, then the references are `refs ++ r1 ++ entry :: r2` and the
    blocks without `d` parse, with the same fuel, to the same tree and to `refs ++ r1 ++ r2`. -/
theorem C15_def_anywhere_conv (tab f : Nat) (state : List BState) (refs : Refs) (parent : Node)
    (bs1 bs2 : List Str) (indent : Nat) (label url : Str) (angle : Bool) (title : Option (TitleStyle × Str))
    (titleOnNextLine : Bool) (hi : indent ≤ 3) (hit : indent < tab) (hl : LabelOK label = true)
    (hu : UrlOK url = true) (ht : TitleOK title = true) (t : Node) (R : Refs)
    (h : parseBlocks tab f state refs parent
      (bs1 ++ printDef indent label url angle title titleOnNextLine :: bs2) = some (t, R)) :
    ∃ r1 r2, R = refs ++ r1 ++ defEntry label url title :: r2 ∧
      parseBlocks tab f state refs parent (bs1 ++ bs2) = some (t, refs ++ r1 ++ r2) :=
  parseBlocks_remove tab state _ _
    (fun pb refs p rest => dispatch_printDef tab pb state refs p rest indent label url angle title titleOnNextLine
      hi hit hl hu ht) bs2 f bs1 refs parent t R h

/-- the result of `parseBlocks` does not depend on the fuel, once it is enough -/
theorem C15_fuel_irrelevant (tab f g : Nat) (state : List BState) (refs : Refs) (parent : Node) (bs : List Str)
    (o1 o2 : Node × Refs) (h1 : parseBlocks tab f state refs parent bs = some o1)
    (h2 : parseBlocks tab g state refs parent bs = some o2) : o1 = o2 := by
  have a := parseBlocks_le tab (Nat.le_max_left f g) _ _ _ _ _ h1
  have b := parseBlocks_le tab (Nat.le_max_right f g) _ _ _ _ _ h2
  rw [a] at b
  exact Option.some.inj b

/-- **Lookups do not depend on where a definition stands**, when its key is not defined by another entry: the
    same other entries (`A ++ B = C ++ D`), the entry `e` inserted at two different places — every lookup gives the
    same.  ("Later entries win" only matters for duplicate keys.) -/
theorem C15_lookup_position_independent (A B C D : Refs) (e : Str × (Str × Option Str)) (h : A ++ B = C ++ D)
    (hk : e.1 ∉ refKeys (A ++ B)) (id : Str) :
    lookupRef (A ++ e :: B) id = lookupRef (C ++ e :: D) id := by
  have hB : e.1 ∉ refKeys B := fun hm => hk (by simp only [refKeys, List.map_append, List.mem_append] at hm ⊢; exact Or.inr hm)
  have hD : e.1 ∉ refKeys D := fun hm => hk (by
    rw [h]; simp only [refKeys, List.map_append, List.mem_append] at hm ⊢; exact Or.inr hm)
  rw [lookupRef_insert, lookupRef_insert]
  by_cases hid : e.1 = id
  · subst hid
    rw [(lookupRef_eq_none_iff B _).mpr hB, (lookupRef_eq_none_iff D _).mpr hD]
    simp
  · simp only [if_neg hid]
    rw [← lookupRef_append, ← lookupRef_append, h]

/-- **Position independence, lookups.**  Suppose the other blocks `bs` parse to `(t0, R0)` and do not define the
    label of `d`.  Then wherever `d` is inserted (`bs = bs1 ++ bs2`) and whatever fuel makes the parse succeed, the
    tree is `t0` and every lookup gives: the destination and title of `d` for its label, what `R0` gives otherwise. -/
theorem C15_def_anywhere_lookup (tab f0 f : Nat) (state : List BState) (parent : Node) (bs1 bs2 : List Str)
    (indent : Nat) (label url : Str) (angle : Bool) (title : Option (TitleStyle × Str)) (titleOnNextLine : Bool)
    (hi : indent ≤ 3) (hit : indent < tab) (hl : LabelOK label = true) (hu : UrlOK url = true)
    (ht : TitleOK title = true) (t0 t : Node) (R0 R : Refs)
    (h0 : parseBlocks tab f0 state [] parent (bs1 ++ bs2) = some (t0, R0))
    (hk : normDef label ∉ refKeys R0)
    (h : parseBlocks tab f state [] parent
      (bs1 ++ printDef indent label url angle title titleOnNextLine :: bs2) = some (t, R)) :
    t = t0 ∧ ∀ id, lookupRef R id =
      if id = normDef label then some (url, storedTitle title) else lookupRef R0 id := by
  obtain ⟨r1, r2, hR, h1⟩ := C15_def_anywhere_conv tab f state [] parent bs1 bs2 indent label url angle title
    titleOnNextLine hi hit hl hu ht t R h
  have := C15_fuel_irrelevant tab f f0 state [] parent (bs1 ++ bs2) _ _ h1 h0
  simp only [List.nil_append, Prod.mk.injEq] at this hR
  obtain ⟨rfl, rfl⟩ := this
  refine ⟨rfl, fun id => ?_⟩
  have hr2 : normDef label ∉ refKeys r2 := fun hm => hk (by
    simp only [refKeys, List.map_append, List.mem_append] at hm ⊢; exact Or.inr hm)
  rw [hR, lookupRef_insert]
  by_cases hid : id = normDef label
  · subst hid
    rw [(lookupRef_eq_none_iff r2 _).mpr hr2]
    simp [defEntry]
  · have : ¬ (defEntry label url title).1 = id := fun e => hid (by rw [← e]; rfl)
    rw [if_neg this, if_neg hid, ← lookupRef_append]

/-! ### 4. label matching -/

example : isWord "Foo".toList = true := by decide
example : isSep "\n  \t".toList = true := by decide
example : sameLower "foo".toList "FoO".toList = true := by decide
example : sameLower "straße".toList "STRAßE".toList = true := by decide +kernel
example : variantOK ["bar".toList] [("\n   ".toList, "BAR".toList)] = true := by decide
example : useVariant "FOO".toList [("\n   ".toList, "Bar".toList)] = "FOO\n   Bar".toList := by decide

/-- **Label matching.**  Let the label of the definition be words joined by single spaces (`labelOf (w0 :: ws)`,
    no leading or trailing space).  Take any variant at the place of use: every word with the case of any of its
    characters changed (`sameLower`: character by character the same lower-case form — the "one-to-one" case mappings;
    the final-sigma rule of `str.lower` is outside the model), and every inner space replaced by an arbitrary
    non-empty run of white space (`isSep`: spaces, line breaks, tabs, …).  Then the key that the place of use looks
    up is the key under which the definition is stored. -/
theorem C15_label_match (w0 : Str) (ws : List Str) (w0' : Str) (vs : List (Str × Str))
    (hw : ∀ w ∈ w0 :: ws, isWord w = true) (h0 : sameLower w0 w0' = true) (hv : variantOK ws vs = true) :
    normUse (useVariant w0' vs) = normDef (labelOf (w0 :: ws)) :=
  normUse_variant w0 ws w0' vs hw h0 hv

/-- ASCII letters are such characters: changing their case does not change the lower-case form -/
theorem C15_ascii_case (n : Nat) (h : 65 ≤ n ∧ n ≤ 90) :
    lowerChar (Char.ofNat n) = lowerChar (Char.ofNat (n + 32)) := by
  obtain ⟨h1, h2⟩ := h
  have : ∀ n, n ≤ 90 → 65 ≤ n → lowerChar (Char.ofNat n) = lowerChar (Char.ofNat (n + 32)) := by decide +kernel
  exact this n h2 h1

/-- in particular the label itself, written as it is defined, matches -/
theorem C15_label_match_self (w0 : Str) (ws : List Str) (hw : ∀ w ∈ w0 :: ws, isWord w = true) :
    normUse (labelOf (w0 :: ws)) = normDef (labelOf (w0 :: ws)) := by
  have hsl : ∀ w : Str, sameLower w w = true := by
    intro w; induction w with
    | nil => rfl
    | cons c w ih => simp [sameLower, ih]
  have hvar : ∀ ws : List Str, variantOK ws (ws.map (fun w => ([' '], w))) = true := by
    intro ws; induction ws with
    | nil => rfl
    | cons w ws ih => simp only [List.map_cons, variantOK, hsl, ih, Bool.and_true]; decide
  have hjoin : ∀ (w0 : Str) (ws : List Str), labelOf (w0 :: ws) = useVariant w0 (ws.map (fun w => ([' '], w))) := by
    intro w0 ws
    induction ws generalizing w0 with
    | nil => simp [labelOf, useVariant, join]
    | cons w ws ih =>
      have := ih w
      simp only [labelOf, useVariant, join, List.map_cons, List.flatMap_cons] at this ⊢
      rw [this]; simp
  rw [hjoin w0 ws]
  exact (C15_label_match w0 ws w0 _ hw (hsl w0) (hvar ws)).trans (by rw [← hjoin])

example : normUse "FOO\n   Bar".toList = normDef "foo bar".toList := by decide

/-- **Several inner spaces on the definition side never match.**  The key of the place of use never contains two
    adjacent white-space characters, the key of the definition keeps those of its label.  So `[a  b]: /u` cannot be
    referred to, not even by `[a  b]` — observed on the implementation: `markdown('[a  b]: /u\n\n[a  b]')` is
    `<p>[a  b]</p>`.  (Outside the property text, which speaks of the place of use only; recorded.) -/
theorem C15_double_space_never_matches (l : Str) (h : noAdjSp (normDef l) = false) (v : Str) :
    normUse v ≠ normDef l := by
  intro e
  have := normUse_noAdjSp v
  rw [e, h] at this
  exact Bool.false_ne_true this

example : noAdjSp (normDef "a  b".toList) = false := by decide
example : normUse "a  b".toList ≠ normDef "a  b".toList := by decide
/-- leading white space at the place of use is not stripped (`[x][ a b]` does not find `[a b]: …`) -/
example : normUse " a b".toList ≠ normDef "a b".toList := by decide

/-! ### 5. lookup -/

/-- **Later definitions win**: after an entry for `id` no other entry for `id` — its value is found. -/
theorem C15_lookup_last_wins (A B : Refs) (id : Str) (v : Str × Option Str) (h : id ∉ refKeys B) :
    lookupRef (A ++ (id, v) :: B) id = some v := by
  rw [lookupRef_insert, (lookupRef_eq_none_iff B id).mpr h]
  simp

/-- in particular the entry appended last -/
theorem C15_lookup_appended (refs : Refs) (id : Str) (v : Str × Option Str) :
    lookupRef (refs ++ [(id, v)]) id = some v :=
  C15_lookup_last_wins refs [] id v (by simp [refKeys])

/-- **An undefined reference finds nothing**: `lookupRef refs id = none` iff no entry has that key (the inline
    processor then leaves the text as it is). -/
theorem C15_undefined_none (refs : Refs) (id : Str) : lookupRef refs id = none ↔ ∀ e ∈ refs, e.1 ≠ id := by
  rw [lookupRef_eq_none_iff]
  simp only [refKeys, List.mem_map, not_exists, not_and]

/-- … and a found value is the value of an entry with that key -/
theorem C15_lookup_some_mem (refs : Refs) (id : Str) (v : Str × Option Str) (h : lookupRef refs id = some v) :
    (id, v) ∈ refs := by
  unfold lookupRef at h
  simp only [Option.map_eq_some_iff] at h
  obtain ⟨e, he, rfl⟩ := h
  have hm := List.mem_of_find?_eq_some he
  have hp := List.find?_some he
  simp only [decide_eq_true_eq] at hp
  rw [← hp]
  simpa using hm

end MdVerif.RefDef
