/-
C16 (block stage) — "Enabling an extension does not change the rendering of a document that does not use that
extension's syntax", for the block processors of admonition, def_list, footnotes, abbr and sane_lists.

`parseDocumentX cfg tab text` (`Model/BlockExt.lean`, validated against `md.parser.parseDocument` with the
extensions of `cfg` enabled by `harness/corr/blockext.py`) is the block-stage element tree together with
`md.references`, the footnote table and the abbreviation table; `text` is the `\n`-joined output of the
`normalize_whitespace` preprocessor (no `<`, no `&`).  `parseDocumentLog` is the same with the three tables as
one log of writes (a stronger equality).

(a) With no extension the extended parser *is* the core parser of `Model/Block.lean`.
(b) For each extension `e`, every base configuration `cfg`, every `tab` and every text that does not contain
    the trigger of `e` as a substring, enabling `e` changes nothing: same tree, same references, same side tables.
    The triggers are substrings without which the `test`/regex of the processor cannot succeed:
      admonition `!!!` · def_list `: ` (colon, space) · footnotes `[^` · abbr `*[` ·
      sane_lists: a list marker followed by a space (`* `, `+ `, `- `, `. `).
    Substring conditions (rather than "at the start of a line") are what the statement needs: the core
    processors strip list markers, `>` and indentation and re-parse the remainder, so a trigger in the middle of
    a line can reach the start of a block (examples at the end of section (b)).

Proof: the triggers contain no newline, so "does not contain the trigger" is stable under everything the
processors do to a block before re-queuing it or recursing on it — slices, strips, line-wise removal of
indentation or of `>`, `get_items`, splitting at blank lines, joining with newlines (`Lemmas/BlockExtStr.lean`).
For admonition and def_list, whose tests also look at the tree, "no admonition `div`" resp. "no `dl`/`dd`" is an
invariant of the tree under all other processors (`Lemmas/BlockExtTree.lean`).  Hence the test of `e` fails at
every turn of every (recursive) `parseBlocks` loop (`Lemmas/BlockExtProc.lean`, `Lemmas/BlockExtFlags.lean`).
-/
import MdVerif.Lemmas.BlockExtFlags

namespace MdVerif.BlockExt
open Py Block

/-! ### (a) the extended parser without extensions is the core parser -/

/-- The extended `parseBlocks` with every extension off is the core `parseBlocks` (as functions: for every fuel,
    state, reference table, parent and block list). -/
theorem C16_core_cfg (tab fuel : Nat) : parseBlocksX XCfg.core tab fuel = parseBlocks tab fuel :=
  parseBlocksX_core tab fuel

/-- … and so for whole documents: same tree, same log (which then holds references only). -/
theorem C16_core_cfg_document (tab : Nat) (text : Str) :
    parseDocumentLog XCfg.core tab text = parseDocument tab text := by
  simp only [parseDocumentLog, parseDocumentLogWith, parseDocument, parseDocumentWith, fuelForX, fuelFor,
    parseBlocksX_core]

/-- The generalised `ListIndentProcessor.run` (tag lists as parameters) at the core tag lists is the core one. -/
theorem C16_indentPX_core (tab : Nat) (pb : PB) (state : List BState) (refs : Refs) (parent : Node) (b : Str)
    (rest : List Str) :
    indentPX isListTag isItemTag "li" tab pb state refs parent b rest = indentP tab pb state refs parent b rest :=
  indentPX_core tab pb state refs parent b rest

/-- The parameterised `OListProcessor.run` at the class attributes of the core processors is the core one. -/
theorem C16_listPX_default (tab : Nat) (pb : PB) (state : List BState) (refs : Refs) (parent : Node) (b : Str)
    (rest : List Str) (tag : String) :
    listPX .default tab pb state refs parent b rest tag = listP tab pb state refs parent b rest tag :=
  listPX_default tab pb state refs parent b rest tag

/-! ### (b) non-interference -/

/-- `s` does not contain `pat` -/
def lacks (pat : String) (s : Str) : Prop := contains s pat.toList = false

instance (pat : String) (s : Str) : Decidable (lacks pat s) := by unfold lacks; infer_instance

example : lacks "[^" "# Title\n\n- a [link][r] *em*\n    > quoted ^ [\n\n[r]: /url \"T\"".toList := by decide
example : lacks "*[" "Some *emphasis* and [a link](/u), * [ apart".toList := by decide
example : lacks "!!!" "Wow!! Really!\n\n!! note\n    indented code".toList := by decide
example : lacks ": " "Term:\n:not a definition\n\n- a:b\n\n[r]:/url".toList := by decide

/-- footnotes: a text without `[^` parses the same with and without the extension — same tree and same log of
    table writes (references, footnotes, abbreviations), whatever the other extensions. -/
theorem C16_inert_footnotes_log (cfg : XCfg) (tab : Nat) (text : Str) (h : lacks "[^" text) :
    parseDocumentLog { cfg with footnotes := true } tab text = parseDocumentLog cfg tab text :=
  have hc := closed_noSub trigFootnote (by simp [trigFootnote]) (by simp [trigFootnote])
  parseDocumentLog_good (qt := qtTrue) hc
    (parseBlocksX_good hc (tagsOk_true cfg) _ tab
      (fun pb st refs p b rest hb _ => dispatchX_footnotes cfg tab pb st refs p b rest hb))
    rfl h

theorem C16_inert_footnotes (cfg : XCfg) (tab : Nat) (text : Str) (h : lacks "[^" text) :
    parseDocumentX { cfg with footnotes := true } tab text = parseDocumentX cfg tab text := by
  simp only [parseDocumentX, C16_inert_footnotes_log cfg tab text h]

/-- abbr: a text without `*[` parses the same with and without the extension. -/
theorem C16_inert_abbr_log (cfg : XCfg) (tab : Nat) (text : Str) (h : lacks "*[" text) :
    parseDocumentLog { cfg with abbr := true } tab text = parseDocumentLog cfg tab text :=
  have hc := closed_noSub trigAbbr (by simp [trigAbbr]) (by simp [trigAbbr])
  parseDocumentLog_good (qt := qtTrue) hc
    (parseBlocksX_good hc (tagsOk_true cfg) _ tab
      (fun pb st refs p b rest hb _ => dispatchX_abbr cfg tab pb st refs p b rest hb))
    rfl h

theorem C16_inert_abbr (cfg : XCfg) (tab : Nat) (text : Str) (h : lacks "*[" text) :
    parseDocumentX { cfg with abbr := true } tab text = parseDocumentX cfg tab text := by
  simp only [parseDocumentX, C16_inert_abbr_log cfg tab text h]

/-- admonition: a text without `!!!` parses the same with and without the extension. -/
theorem C16_inert_admonition_log (cfg : XCfg) (tab : Nat) (text : Str) (h : lacks "!!!" text) :
    parseDocumentLog { cfg with admonition := true } tab text = parseDocumentLog cfg tab text := by
  cases hcfg : cfg.admonition with
  | true =>
    have : { cfg with admonition := true } = cfg := by cases cfg; simp_all
    rw [this]
  | false =>
    have hc := closed_noSub trigAdmonition (by simp [trigAdmonition]) (by simp [trigAdmonition])
    exact parseDocumentLog_good (qt := qtAdm) hc
      (parseBlocksX_good hc (tagsOk_adm cfg hcfg) _ tab
        (fun pb st refs p b rest hb hp => dispatchX_admonition cfg tab pb st refs p b rest hcfg hb hp))
      (by decide) h

theorem C16_inert_admonition (cfg : XCfg) (tab : Nat) (text : Str) (h : lacks "!!!" text) :
    parseDocumentX { cfg with admonition := true } tab text = parseDocumentX cfg tab text := by
  simp only [parseDocumentX, C16_inert_admonition_log cfg tab text h]

/-- def_list: a text without a colon followed by a space parses the same with and without the extension (both
    its processors, `deflist` and `defindent`, stay silent). -/
theorem C16_inert_defList_log (cfg : XCfg) (tab : Nat) (text : Str) (h : lacks ": " text) :
    parseDocumentLog { cfg with defList := true } tab text = parseDocumentLog cfg tab text := by
  cases hcfg : cfg.defList with
  | true =>
    have : { cfg with defList := true } = cfg := by cases cfg; simp_all
    rw [this]
  | false =>
    have hc := closed_noSub trigDefList (by simp [trigDefList]) (by simp [trigDefList])
    exact parseDocumentLog_good (qt := qtDef) hc
      (parseBlocksX_good hc (tagsOk_def cfg hcfg) _ tab
        (fun pb st refs p b rest hb hp => dispatchX_defList cfg tab pb st refs p b rest hb hp))
      (by decide) h

theorem C16_inert_defList (cfg : XCfg) (tab : Nat) (text : Str) (h : lacks ": " text) :
    parseDocumentX { cfg with defList := true } tab text = parseDocumentX cfg tab text := by
  simp only [parseDocumentX, C16_inert_defList_log cfg tab text h]

instance (s : Str) : Decidable (noListMarker s) := by unfold noListMarker; infer_instance

example : noListMarker "# T\n\n1.5 is a number; a-b; 2*3.\n\n> q".toList := by decide

/-- sane_lists: a text without any list marker followed by a space (`* `, `+ `, `- `, `. `) — a text in which no
    block, at any depth, is a list — parses the same with and without the extension. -/
theorem C16_inert_saneLists_log (cfg : XCfg) (tab : Nat) (text : Str) (h : noListMarker text) :
    parseDocumentLog { cfg with saneLists := true } tab text = parseDocumentLog cfg tab text :=
  parseDocumentLog_good (qt := qtTrue) closed_noListMarker
    (parseBlocksX_good closed_noListMarker (tagsOk_true cfg) _ tab
      (fun pb st refs p b rest hb _ => dispatchX_saneLists cfg tab pb st refs p b rest hb))
    rfl h

theorem C16_inert_saneLists (cfg : XCfg) (tab : Nat) (text : Str) (h : noListMarker text) :
    parseDocumentX { cfg with saneLists := true } tab text = parseDocumentX cfg tab text := by
  simp only [parseDocumentX, C16_inert_saneLists_log cfg tab text h]

/-! The same at the level of `parseBlocks` (any fuel, state, log, parent and block list), for the extensions whose
tests do not look at the tree. -/

theorem C16_inert_footnotes_blocks (cfg : XCfg) (tab fuel : Nat) (state : List BState) (log : Refs) (parent : Node)
    (blocks : List Str) (h : ∀ b ∈ blocks, lacks "[^" b) :
    parseBlocksX { cfg with footnotes := true } tab fuel state log parent blocks =
      parseBlocksX cfg tab fuel state log parent blocks :=
  (parseBlocksX_good (qt := qtTrue) (closed_noSub trigFootnote (by simp [trigFootnote]) (by simp [trigFootnote]))
    (tagsOk_true cfg) _ tab (fun pb st refs p b rest hb _ => dispatchX_footnotes cfg tab pb st refs p b rest hb)
    fuel state log parent blocks h (NI_true parent)).1

theorem C16_inert_abbr_blocks (cfg : XCfg) (tab fuel : Nat) (state : List BState) (log : Refs) (parent : Node)
    (blocks : List Str) (h : ∀ b ∈ blocks, lacks "*[" b) :
    parseBlocksX { cfg with abbr := true } tab fuel state log parent blocks =
      parseBlocksX cfg tab fuel state log parent blocks :=
  (parseBlocksX_good (qt := qtTrue) (closed_noSub trigAbbr (by simp [trigAbbr]) (by simp [trigAbbr]))
    (tagsOk_true cfg) _ tab (fun pb st refs p b rest hb _ => dispatchX_abbr cfg tab pb st refs p b rest hb)
    fuel state log parent blocks h (NI_true parent)).1

/-! Why substrings: a trigger that is not at the start of a line of the text can reach the start of a block. -/

/-- `[^` after a list marker: no line of the text starts with a footnote definition, yet one is stored -/
example : (parseDocumentX { footnotes := true } 4 "- [^1]: x".toList).map (·.2.footnotes) =
    some [("1".toList, "x".toList)] := by decide +kernel
example : (parseDocumentX {} 4 "- [^1]: x".toList).map (·.2.footnotes) = some [] := by decide +kernel
/-- `*[` inside a blockquote -/
example : (parseDocumentX { abbr := true } 4 "> *[A]: b".toList).map (·.2.abbrs) =
    some [("A".toList, "b".toList)] := by decide +kernel
/-- `!!!` after a list marker: an admonition `div` inside the item -/
example : (parseDocumentX { admonition := true } 4 "- !!! note".toList).map (fun r => allNodes qtAdm r.1) = some false := by
  decide +kernel
example : (parseDocumentX {} 4 "- !!! note".toList).map (fun r => allNodes qtAdm r.1) = some true := by decide +kernel
/-- `: ` inside a blockquote: a `dl` inside the quote -/
example : (parseDocumentX { defList := true } 4 "> T\n> : d".toList).map (fun r => allNodes qtDef r.1) = some false := by
  decide +kernel
example : (parseDocumentX {} 4 "> T\n> : d".toList).map (fun r => allNodes qtDef r.1) = some true := by decide +kernel

/-- All five together: a text without any of the triggers parses, under every configuration, as the core parser
    parses it; no table other than the references is written. -/
theorem C16_inert_all (cfg : XCfg) (tab : Nat) (text : Str) (h1 : lacks "!!!" text) (h2 : lacks ": " text)
    (h3 : lacks "[^" text) (h4 : lacks "*[" text) (h5 : noListMarker text) :
    parseDocumentLog cfg tab text = parseDocument tab text := by
  rw [← C16_core_cfg_document]
  obtain ⟨a, d, f, ab, s⟩ := cfg
  have e1 : parseDocumentLog ⟨a, d, f, ab, s⟩ tab text = parseDocumentLog ⟨false, d, f, ab, s⟩ tab text := by
    cases a
    · rfl
    · exact C16_inert_admonition_log ⟨false, d, f, ab, s⟩ tab text h1
  have e2 : parseDocumentLog ⟨false, d, f, ab, s⟩ tab text = parseDocumentLog ⟨false, false, f, ab, s⟩ tab text := by
    cases d
    · rfl
    · exact C16_inert_defList_log ⟨false, false, f, ab, s⟩ tab text h2
  have e3 : parseDocumentLog ⟨false, false, f, ab, s⟩ tab text =
      parseDocumentLog ⟨false, false, false, ab, s⟩ tab text := by
    cases f
    · rfl
    · exact C16_inert_footnotes_log ⟨false, false, false, ab, s⟩ tab text h3
  have e4 : parseDocumentLog ⟨false, false, false, ab, s⟩ tab text =
      parseDocumentLog ⟨false, false, false, false, s⟩ tab text := by
    cases ab
    · rfl
    · exact C16_inert_abbr_log ⟨false, false, false, false, s⟩ tab text h4
  have e5 : parseDocumentLog ⟨false, false, false, false, s⟩ tab text =
      parseDocumentLog ⟨false, false, false, false, false⟩ tab text := by
    cases s
    · rfl
    · exact C16_inert_saneLists_log ⟨false, false, false, false, false⟩ tab text h5
  rw [e1, e2, e3, e4, e5]
  rfl

end MdVerif.BlockExt
