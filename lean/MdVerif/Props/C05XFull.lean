/-
C05 on the extension pipeline — "Text cannot inject markup: output of HTML-free input is well-formed", for
`PipelineX.treeX` / `PipelineX.convertX` (`markdown.Markdown(extensions=[…])`, eleven bundled extensions).

`Props/C05X.lean` proves that every element of the tree handed to the serializer has a tag and attribute NAMES of the
per-flag vocabulary (`C05X_tree_vocab`).  Here the rest of C05 is derived:

1. **the tree is well formed** — `C05X_tree_wf`: for every set of extensions without attr_list and without
   admonition, the tree of `treeX` is `Ser.WFTree`, the domain of the serialise/read round trip C14: every tag and
   attribute name is a name, no element carries an attribute name twice, and the void elements (`hr`, `br`, `img`)
   have neither text nor children.  `C05X_root_div`: its root is the wrapper `div` without attributes — attr_list on
   or off (the hypothesis `rootDiv u` of `Props/C14X.lean`, "tested, not proved" in `Props/C02X.lean`).
   With attr_list the same holds exactly when every attribute name of the tree is a name
   (`C05X_tree_wf_attr_list`; `C05X_attr_list_not_names` of `Props/C05X.lean` is the excluded point).
   WITH ADMONITION THE STATEMENT IS FALSE — `C05X_admonition_fills_hr` (registered as a second witness of F-C14-2): for the `<`-free source
   `!!! note⏎    - - x⏎        - y⏎        ***⏎⏎            text` the block parser appends the paragraph `text`
   INTO the `hr` (`AdmonitionProcessor.parse_content` takes the last child of a list for an item without looking at
   its tag; the `hr` is there because `ListIndentProcessor` parses `***` with the inner `ul` as parent).  The xhtml
   output loses the paragraph, the html output keeps it: the implementation behaves the same
   (`markdown.markdown(src, extensions=['admonition'])`).
2. **the output is a well-formed fragment of the vocabulary** — **`C05X_full`**: for every `<`-free source and every
   set of extensions without attr_list, admonition and fenced_code (tables, def_list, abbr, footnotes, sane_lists,
   nl2br, wikilinks, toc: any), whatever `convertX` returns is accepted by the strict reader and every element read
   back has a tag of `tagOkX x` and attribute names of `keyOkX x` (`RXL`) — the C05 statement on the extension
   pipeline, no residual hypothesis (`EscTwo cfg.esc`: the escapable characters have two-digit codes, as in
   `C05_full`).  `C05X_full_general` covers attr_list (when every attribute name is a name) and fenced_code (when the
   document has no fenced block).  Ingredients: the footnote postprocessor (`&#8617;`, `&#160;`) and the raw-HTML
   restore of the entity references commute with the serializer (`C05X_pass_commutes`); the ampersand substitute
   `STX amp ETX` never occurs in the serialised tree (`C05X_no_amp_substitute`: the invariant of `C05_full` — every STX
   is followed by a placeholder letter or a two-digit number — ported to the pattern table of `runX`, with the letters
   of the two footnote tokens, and carried through footnotes, abbr, attr_list and toc:
   `Lemmas/VocabXWFAmp*.lean`).  `C05X_partial`, `C05X_upto_ampsub`: the statements with the residual hypothesis
   spelt out / without it up to `AndSubstitutePostprocessor`.
3. **attr_list** — `C05X_attr_list_values_escaped`: whatever attr_list writes, an attribute name is `class`, `id`, … or
   made of `sanitize_name`'s characters, none of which is a blank, a quote, `=`, `<`, `>`, `/` or `&`; and the
   serializer writes every attribute VALUE escaped: no `"`, `<`, `>` in it and every `&` the start of an entity
   reference.  So attr_list can neither end its attribute nor start a tag; the elements are those of the vocabulary
   (`C05X_tree_vocab`).

4. **fenced code blocks** — `C05X_partial_fenced`: with fenced_code the raw-HTML stash also holds the `<pre><code>`
   strings of the fenced blocks (`C05X_stash_shape`); `RawHtmlPostprocessor` puts them back, as a whole `<p>…</p>` or
   in the middle of a text.  The output is still accepted by the strict reader and lies in the vocabulary enlarged by
   `pre`, `code`, `class`, `id`, under ONE residual, decidable hypothesis (`C05X_fenced`): no ATTRIBUTE value of the
   tree holds the placeholder of a fenced block (`hattr`, necessary: `Lemmas/VocabXWFFenceFinish.lean` has the
   counterexample tree; on the real code the placeholder of a fenced block is a block of its own and only ever the
   text of a `p`: 4600 + 60 000 fenced documents, 0 violations).  A placeholder anywhere in a text or tail is fine.
   The ampersand substitute is excluded for every flag set, fenced blocks included (`C05X_no_amp_substitute_all`:
   the block stage on a text with placeholder blocks, via the three string classes of
   `Lemmas/F/PlaceholdersXTBlock*.lean`).  `C05X_partial_fenced`: the statement with both hypotheses spelt out.

Only property statements live here; proofs in `MdVerif/Lemmas/VocabXWF*.lean`.  Core Lean only.
-/
import MdVerif.Lemmas.VocabXWFPipe4
import MdVerif.Lemmas.VocabXWFConv
import MdVerif.Lemmas.VocabXWFAmpPipe
import MdVerif.Lemmas.VocabXWFAmpFPipe
import MdVerif.Lemmas.VocabXWFFenceConv
import MdVerif.Props.C14X

namespace MdVerif.C05
open Py PipelineX VocabX Ser Vocab2
open BlockExt (NI allNodes)
open VocabXWF (WF W voidT keysNamed)
open VocabXOut (RX RXL GN GNL Pass pC pA)
open VocabXFence (FEntry NoFencedInAttrs tagOkF keyOkF)

/-! ### 1. the tree is well formed -/

/-- **The tree handed to the serializer is well formed**, for every set of extensions without attr_list and
    admonition (fenced_code, tables, def_list, abbr, footnotes, sane_lists, nl2br, wikilinks, toc: any), every
    configuration and every source: `Ser.WFTree` — every tag and attribute name is a name (`Ser.isName`), no element
    has two attributes of the same name, no element is a raw-text element, and the void elements (`hr` of the block
    parser and of the footnote `div`, `br` of the line-break patterns and of nl2br, `img`) have neither text nor
    children.  This is the domain of the round trip `C14_roundtrip`. -/
theorem C05X_tree_wf (x : Exts) (hal : x.attrList = false) (hadm : x.admonition = false) (cfg : Pipeline.Cfg)
    (src : Str) (u : Node) (html : List Str) (h : treeX x cfg src = .ok u html) : WFTree u = true := by
  have hq := treeX_NI x cfg src u html h
  exact VocabXWF.wfTree_of x hq (VocabXWF.keysNamed_of_qtX x hal hq) (VocabXWF.treeX_WF x hadm cfg src u html h).1

/-- **with attr_list**: the exact extra hypothesis is that every attribute name of the tree is a name
    (`keysNamed`: decidable on the tree; `sanitize_name` keeps non-ASCII name characters and leading digits, cf.
    `C05X_attr_list_not_names`).  The attribute names stay pairwise distinct (`elem.set`) and the void elements empty
    whatever attr_list does. -/
theorem C05X_tree_wf_attr_list (x : Exts) (hadm : x.admonition = false) (cfg : Pipeline.Cfg)
    (src : Str) (u : Node) (html : List Str) (h : treeX x cfg src = .ok u html)
    (hnames : NI keysNamed u) : WFTree u = true :=
  VocabXWF.wfTree_of x (treeX_NI x cfg src u html h) hnames (VocabXWF.treeX_WF x hadm cfg src u html h).1

/-- the hypothesis `hnames` is needed: the tree of `C05X_attr_list_not_names` has the attribute names `1a`, `wéird` -/
example : (match treeX { attrList := true } {} "para\n{: #i .c 1a=2 wéird=1 }".toList with
    | .ok u _ => allNodes keysNamed u | _ => true) = false ∧
    (match treeX { attrList := true } {} "para\n{: #i .c a1=2 }".toList with
    | .ok u _ => allNodes keysNamed u && WFTree u | _ => false) = true := by
  refine ⟨by decide +kernel, by decide +kernel⟩

/-- the invariant behind it, for every flag set without admonition (attr_list included): attribute names pairwise
    distinct and void elements empty at every element (`VocabXWF.WF`) -/
theorem C05X_tree_distinct_void (x : Exts) (hadm : x.admonition = false) (cfg : Pipeline.Cfg)
    (src : Str) (u : Node) (html : List Str) (h : treeX x cfg src = .ok u html) : WF u :=
  (VocabXWF.treeX_WF x hadm cfg src u html h).1

/-- what `WF` says at one element -/
theorem C05X_tree_distinct_void_node {n : Node} (h : WF n) :
    keysNodup n.attrs = true ∧
      (∀ t, n.tag = .name t → isEmptyTag t = true → Node.truthy n.text = false ∧ n.children = []) ∧
      ∀ c ∈ n.children, WF c := by
  refine ⟨h.w.1, ?_, h.kids⟩
  intro t ht he
  exact h.w.2 (by rw [ht]; exact he)

/-- **The root is the wrapper `div` without attributes** — for every flag set without admonition, attr_list
    included: every stage rebuilds the root with its tag and attributes (the block parser works INTO the `div` it is
    given, the inline stage and the tree processors replace children only; `toc` sets an `id` on headings only), and
    `AttrListTreeprocessor`, which visits the root too, finds no attribute list there: after prettify the tail of the
    root's last child, the root's text and the root's tail are `"\n"` or empty, because the block parser leaves the
    top-level children without tails and the root without text. -/
theorem C05X_root_div (x : Exts) (hadm : x.admonition = false) (cfg : Pipeline.Cfg)
    (src : Str) (u : Node) (html : List Str) (h : treeX x cfg src = .ok u html) :
    u.tag = .name "div".toList ∧ u.attrs = [] :=
  (VocabXWF.treeX_WF' x hadm cfg src u html h).2

/-- the same as the hypothesis `rootDiv u` of `Props/C14X.lean` -/
theorem C05X_rootDiv (x : Exts) (hadm : x.admonition = false) (cfg : Pipeline.Cfg)
    (src : Str) (u : Node) (html : List Str) (h : treeX x cfg src = .ok u html) : C14X.rootDiv u = true := by
  obtain ⟨h1, h2⟩ := C05X_root_div x hadm cfg src u html h
  simp [C14X.rootDiv, h1, h2]

/-- attr_list on: an attribute list at the end of the document belongs to the last paragraph, not to the root -/
example : (match treeX { attrList := true } {} "para\n\nlast\n{: #i .c }".toList with
    | .ok u _ => C14X.rootDiv u | _ => false) = true := by decide +kernel

/-- **the `<div>` strip of `Markdown.convert` never fails** (error source (4) of `Props/C02X.lean`): the serialised
    tree always starts with `<div>` and ends with `</div>`, so `finishX` never answers `err` — for every flag set
    without admonition, every stash -/
theorem C05X_strip_never_fails (x : Exts) (hadm : x.admonition = false) (cfg : Pipeline.Cfg)
    (src : Str) (u : Node) (html : List Str) (h : treeX x cfg src = .ok u html) :
    Post.topLevelStrip (serialize cfg.fmt u) = some (strip (inner cfg.fmt u)) ∧
      finishX x cfg html (serialize cfg.fmt u) ≠ .err := by
  have hd := C05X_rootDiv x hadm cfg src u html h
  have e := C14X.topLevelStrip_div cfg.fmt u hd
  refine ⟨e, ?_⟩
  unfold finishX
  rw [e]
  dsimp only
  split <;> simp

/-- `C14X_doc_spelling_notoc` without its two tree hypotheses: html and xhtml documents differ only in spelling, for
    every flag set without attr_list, admonition and toc, any stash -/
theorem C05X_doc_spelling_notoc (x : Exts) (hal : x.attrList = false) (hadm : x.admonition = false)
    (ht : x.toc = false) (cfg : Pipeline.Cfg) (src h xo : Str) (u : Node) (html : List Str)
    (htree : treeX x cfg src = .ok u html)
    (hh : convertX x { cfg with fmt := .html } src = .ok h)
    (hx : convertX x { cfg with fmt := .xhtml } src = .ok xo) : Respell h xo :=
  PipelineX.C14X_doc_spelling_notoc x ht cfg src h xo u html htree (C05X_rootDiv x hadm cfg src u html htree)
    (C05X_tree_wf x hal hadm cfg src u html htree) hh hx

/-- `C14X_doc_formats_agree_notoc` without its root and well-formedness hypotheses: when the raw-HTML stash is empty and
    the tree holds no STX/ETX (C10X), the strict reader returns the same forest for the html and the xhtml document — for
    every flag set without attr_list, admonition and toc -/
theorem C05X_doc_formats_agree_notoc (x : Exts) (hal : x.attrList = false) (hadm : x.admonition = false)
    (ht : x.toc = false) (cfg : Pipeline.Cfg) (src h xo : Str) (u : Node)
    (htree : treeX x cfg src = .ok u []) (hc : NoCtl.TreeNoCtl u)
    (hh : convertX x { cfg with fmt := .html } src = .ok h)
    (hx : convertX x { cfg with fmt := .xhtml } src = .ok xo) :
    ∃ forest, readForest .html h = some forest ∧ readForest .xhtml xo = some forest :=
  PipelineX.C14X_doc_formats_agree_notoc x ht cfg src h xo u htree (C05X_rootDiv x hadm cfg src u [] htree)
    (C05X_tree_wf x hal hadm cfg src u [] htree) hc hh hx

/-- the hypotheses on concrete inputs: every extension but attr_list and admonition; tables, a definition list, a
    footnote referenced twice (the duplicated back-link), an abbreviation, a sane list, a hard break, an image, a
    wiki link, a table of contents, a fenced block -/
def wfExts : Exts :=
  { fencedCode := true, tables := true, defList := true, abbr := true, footnotes := true, saneLists := true,
    nl2br := true, wikilinks := true, toc := true }

def wfSrc : Str :=
  ("[TOC]\n\n# H *e*\n\n| a | b |\n|---|:-:|\n| c | ![i](/s \"t\") |\n\nT\n:   d[^1] HTML\n\n3. x[^1]\n   y  \n   z\n\n" ++
   "---\n\n[[W p]] [l](/u)\n\n```py\nc\n```\n\n[^1]: note\n\n*[HTML]: Hyper").toList

example : wfExts.attrList = false ∧ wfExts.admonition = false := ⟨rfl, rfl⟩

/-- … and what the theorems say there (computed by the kernel on the model) -/
example : (match treeX wfExts {} wfSrc with
    | .ok u _ => WFTree u && C14X.rootDiv u | _ => false) = true := by decide +kernel

/-! ### with admonition a paragraph is parsed into an `hr` (second witness of F-C14-2) -/

/-- the source: an admonition whose content is a list that ends with an `hr` (`ul > li > ul > (li, li, hr)`), then
    a block indented deep enough to continue the innermost list -/
def admSrc : Str := "!!! note\n    - - x\n        - y\n        ***\n\n            text".toList

example : '<' ∉ admSrc := by decide

/-- **Defect of the admonition extension (second witness of F-C14-2; the implementation behaves the same).**  With admonition the
    tree is NOT well formed: the `hr` gets the paragraph `text` as a child; the xhtml serialisation drops it
    (`<hr />`), the html serialisation writes it after `<hr>` inside the `ul`.  The two documents differ in content;
    in xhtml the words of the source are lost. -/
theorem C05X_admonition_fills_hr :
    (match treeX { admonition := true } {} admSrc with | .ok u _ => WFTree u | _ => true) = false ∧
    convertX { admonition := true } { fmt := .xhtml } admSrc =
      .ok ("<div class=\"admonition note\">\n<p class=\"admonition-title\">Note</p>\n<ul>\n<li>\n<ul>\n<li>x</li>\n" ++
           "<li>y</li>\n<hr />\n</ul>\n</li>\n</ul>\n</div>").toList ∧
    convertX { admonition := true } { fmt := .html } admSrc =
      .ok ("<div class=\"admonition note\">\n<p class=\"admonition-title\">Note</p>\n<ul>\n<li>\n<ul>\n<li>x</li>\n" ++
           "<li>y</li>\n<hr>\n<p>text</p>\n\n</ul>\n</li>\n</ul>\n</div>").toList := by
  refine ⟨by decide +kernel, by decide +kernel, by decide +kernel⟩

/-- without the last block (or without the extension) nothing is wrong: the `hr` inside the `ul` is a quirk of the
    core list processors, harmless by itself -/
example : (match treeX { admonition := true } {} "!!! note\n    - - x\n        - y\n        ***".toList with
    | .ok u _ => WFTree u | _ => false) = true := by decide +kernel

/-! ### 2. the output -/

/-- **a token-substitution pass commutes with the serializer** on every well-formed tree of named elements (`GN`):
    for a pass `f` that copies every character but STX, distributes over a concatenation in front of a markup
    delimiter and keeps escaped text escaped (`Pass f`: the raw-HTML restore on a stash of entity references —
    `VocabXOut.pass_sub` —, `str.replace` of an `STX…ETX` token by an entity reference — `pass_replace`: the two
    replacements of the footnote postprocessor), `f` applied to the serialisation is the serialisation of the tree with
    `f` applied to the (escaped) texts, tails and attribute values — same elements, attribute names and nesting. -/
theorem C05X_pass_commutes {f : Str → Str} (hf : Pass f) (fmt : Fmt) (n : Node) (h : GN n = true) :
    f (serialize fmt n) = serialize fmt (subTree (pC f) (pA f) n) ∧ GN (subTree (pC f) (pA f) n) = true := by
  have := VocabXOut.pass_serialize hf fmt n h [] VocabXOut.d4_nil
  simp only [List.append_nil, hf.nil] at this
  exact ⟨this, VocabXOut.subTree_gn _ _ n h⟩

/-- the footnote postprocessor is two such passes -/
example : Pass (fun s => replace s FootnotesTree.fnBacklinkText "&#8617;".toList) ∧
    Pass (fun s => replace s FootnotesTree.nbspPlaceholder "&#160;".toList) :=
  ⟨VocabXOut.pass_replace VocabXOut.repOK_backlink, VocabXOut.pass_replace VocabXOut.repOK_nbsp⟩

/-- **C05 on the extension pipeline, with one residual hypothesis.**  For every set of extensions without
    attr_list, admonition and fenced_code (tables, def_list, abbr, footnotes, sane_lists, nl2br, wikilinks, toc: any),
    every configuration and every source text without `<` such that the serialised tree does not contain the
    ampersand substitute `STX amp ETX` (`hamp`, decidable by evaluation): whatever `convertX` returns is accepted by
    the strict reader — every element closed and properly nested, every attribute value quoted, no attribute name
    twice, no raw `<`/`>` in text, no raw `"` in an attribute value, every `&` the start of an entity reference — and
    consists of text and elements of the vocabulary of the enabled extensions (`RXL (tagOkX x) (keyOkX x)`: tags of
    `tagOkX x`, attribute names of `keyOkX x`, void elements empty, no comment, processing instruction or raw
    text). -/
theorem C05X_partial (x : Exts) (hal : x.attrList = false) (hadm : x.admonition = false)
    (hfc : x.fencedCode = false) (cfg : Pipeline.Cfg) (src out : Str) (hlt : '<' ∉ src)
    (hamp : ∀ u html, treeX x cfg src = .ok u html → contains (inner cfg.fmt u) Post.ampSubstitute = false)
    (hc : convertX x cfg src = .ok out) :
    ∃ forest, readForest cfg.fmt out = some forest ∧ RXL (tagOkX x) (keyOkX x) forest = true := by
  have _ := hlt
  refine VocabXOut.convertX_reads x hal hfc cfg src out ?_ hamp hc
  intro u html h
  exact VocabXWF.treeX_WF' x hadm cfg src u html h

/-- **C05 on the extension pipeline up to the ampersand substitute** — no hypothesis besides the flags: whatever
    `convertX` returns is `AndSubstitutePostprocessor` followed by `.strip()` applied to a string `X` that the strict
    reader accepts and that consists of text and elements of the vocabulary of the enabled extensions. -/
theorem C05X_upto_ampsub (x : Exts) (hal : x.attrList = false) (hadm : x.admonition = false)
    (hfc : x.fencedCode = false) (cfg : Pipeline.Cfg) (src out : Str) (hc : convertX x cfg src = .ok out) :
    ∃ X forest, out = strip (Post.ampSub X) ∧ readForest cfg.fmt X = some forest ∧
      RXL (tagOkX x) (keyOkX x) forest = true := by
  refine VocabXOut.convertX_shape x hal hfc cfg src out ?_ hc
  intro u html h
  exact VocabXWF.treeX_WF' x hadm cfg src u html h

/-- **the general form**: attr_list on or off, fenced_code on or off.  The two hypotheses that replace the flag
    conditions are decidable on the model: `hst` — the preprocessors stored nothing (without fenced_code always; with
    fenced_code: the document has no fenced block — the stash entries of fenced blocks are `<pre>` strings, not entity
    references, and are not covered here); `hnames` — every attribute name of the tree is a name (without attr_list
    always).  With attr_list the vocabulary `keyOkX x` holds every name of attr_list's key grammar. -/
theorem C05X_partial_general (x : Exts) (hadm : x.admonition = false) (cfg : Pipeline.Cfg) (src out : Str)
    (hlt : '<' ∉ src)
    (hst : ∀ text stash, prepareX x cfg src = .ok (text, stash) → stash = [])
    (hnames : ∀ u html, treeX x cfg src = .ok u html → NI keysNamed u)
    (hamp : ∀ u html, treeX x cfg src = .ok u html → contains (inner cfg.fmt u) Post.ampSubstitute = false)
    (hc : convertX x cfg src = .ok out) :
    ∃ forest, readForest cfg.fmt out = some forest ∧ RXL (tagOkX x) (keyOkX x) forest = true := by
  have _ := hlt
  exact VocabXOut.convertX_reads_named x cfg src out hst hnames
    (fun u html h => VocabXWF.treeX_WF' x hadm cfg src u html h) hamp hc

/-- attr_list and fenced_code on, a document with attribute lists (ASCII names) and no fenced block: the hypotheses
    and the conclusion, computed by the kernel on the model -/
example :
    let x : Exts := { attrList := true, fencedCode := true, tables := true }
    let src : Str := "# T {: #top .c }\n\npara *e*{: k=\"v w\" } &amp;\n{: title='a\"b>c' }\n\n| a |\n|---|\n| b {: .d } |".toList
    (match prepareX x {} src with | .ok (_, stash) => stash.isEmpty | _ => false) = true ∧
    (match treeX x {} src with
     | .ok u _ => allNodes keysNamed u && !contains (inner .xhtml u) Post.ampSubstitute | _ => false) = true ∧
    (match convertX x {} src with
     | .ok out => (readForest .xhtml out).map (RXL (tagOkX x) (keyOkX x)) | _ => none) = some true := by
  refine ⟨by decide +kernel, by decide +kernel, by decide +kernel⟩

/-- the children of the root are trees of named elements with names that are names, distinct attribute names and
    empty void elements (`GNL`: the tree class of the output-level lemmas) -/
theorem C05X_tree_gnl (x : Exts) (hadm : x.admonition = false) (cfg : Pipeline.Cfg)
    (src : Str) (u : Node) (html : List Str) (h : treeX x cfg src = .ok u html) (hnames : NI keysNamed u) :
    GNL u.children = true := by
  have hq := treeX_NI x cfg src u html h
  have hgn := VocabXWF.gn_of x u hq hnames (VocabXWF.treeX_WF x hadm cfg src u html h).1
  obtain ⟨tag, attrs, text, ta, children, tail, tla⟩ := u
  cases tag <;> simp only [GN, Bool.and_eq_true] at hgn
  · exact hgn.2
  all_goals exact absurd hgn.1 (by simp)

/-- **No ampersand substitute in the serialised tree** — the former hypothesis `hamp`, proved: for every flag set
    without admonition whose preprocessors stored nothing (no fenced_code, or no fenced block), every configuration
    whose escapable characters have two-digit codes and every source, the serialisation of the tree of `treeX` does not
    contain `STX amp ETX` (which `AndSubstitutePostprocessor` would turn into a raw `&`). -/
theorem C05X_no_amp_substitute (x : Exts) (hadm : x.admonition = false) (cfg : Pipeline.Cfg)
    (hesc : AmpFull.EscTwo cfg.esc) (src : Str)
    (hst : ∀ text stash, prepareX x cfg src = .ok (text, stash) → stash = []) (u : Node) (html : List Str)
    (h : treeX x cfg src = .ok u html) (hnames : NI keysNamed u) :
    contains (inner cfg.fmt u) Post.ampSubstitute = false :=
  VocabXAmp.treeX_no_amp_stash x cfg (VocabXAmp.escTwo_escX x hesc) src hst u html h
    (C05X_tree_gnl x hadm cfg src u html h hnames)

/-- **C05 on the extension pipeline.**  For every set of extensions without attr_list, admonition and fenced_code
    (tables, def_list, abbr, footnotes, sane_lists, nl2br, wikilinks, toc: any), every configuration whose escapable
    characters have codes of at least two digits (tab length, output format and block-level set are arbitrary) and
    every source text without `<` — with or without `&`, entity references, quotes, brackets, backslashes, control
    characters, footnotes referenced several times, abbreviations that cut placeholders, the constructions that make
    placeholders leak: whatever `convertX` returns is accepted by the strict reader — every element closed and properly
    nested, every attribute value quoted, no attribute name twice, no raw `<`/`>` in text, no raw `"` in an attribute
    value, every `&` the start of an entity reference — and consists of text and elements of the vocabulary of the
    enabled extensions (`RXL (tagOkX x) (keyOkX x)`). -/
theorem C05X_full (x : Exts) (hal : x.attrList = false) (hadm : x.admonition = false)
    (hfc : x.fencedCode = false) (cfg : Pipeline.Cfg) (hesc : AmpFull.EscTwo cfg.esc) (src out : Str)
    (hlt : '<' ∉ src) (hc : convertX x cfg src = .ok out) :
    ∃ forest, readForest cfg.fmt out = some forest ∧ RXL (tagOkX x) (keyOkX x) forest = true :=
  C05X_partial x hal hadm hfc cfg src out hlt
    (fun u html h => C05X_no_amp_substitute x hadm cfg hesc src
      (fun _ _ e => VocabXOut.prepareX_stash_nil hfc e) u html h
      (VocabXWF.keysNamed_of_qtX x hal (treeX_NI x cfg src u html h))) hc

/-- the default configuration, both output formats -/
theorem C05X_full_default (x : Exts) (hal : x.attrList = false) (hadm : x.admonition = false)
    (hfc : x.fencedCode = false) (fmt : Fmt) (src out : Str) (hlt : '<' ∉ src)
    (hc : convertX x { fmt := fmt } src = .ok out) :
    ∃ forest, readForest fmt out = some forest ∧ RXL (tagOkX x) (keyOkX x) forest = true :=
  C05X_full x hal hadm hfc { fmt := fmt } (show AmpFull.EscTwo Generated.escapedChars by decide) src out hlt hc

/-- **the general form** (attr_list and fenced_code on or off; cf. `C05X_partial_general`): the only hypotheses left are
    `hst` — the preprocessors stored nothing (no fenced block) — and `hnames` — every attribute name of the tree is a
    name (automatic without attr_list) -/
theorem C05X_full_general (x : Exts) (hadm : x.admonition = false) (cfg : Pipeline.Cfg)
    (hesc : AmpFull.EscTwo cfg.esc) (src out : Str) (hlt : '<' ∉ src)
    (hst : ∀ text stash, prepareX x cfg src = .ok (text, stash) → stash = [])
    (hnames : ∀ u html, treeX x cfg src = .ok u html → NI keysNamed u)
    (hc : convertX x cfg src = .ok out) :
    ∃ forest, readForest cfg.fmt out = some forest ∧ RXL (tagOkX x) (keyOkX x) forest = true :=
  C05X_partial_general x hadm cfg src out hlt hst hnames
    (fun u html h => C05X_no_amp_substitute x hadm cfg hesc src hst u html h (hnames u html h)) hc

/-- the core vocabulary is the instance without flags: `RXL (tagOkX {}) (keyOkX {})` is `RGoodList` plus the `div` -/
example : RX (tagOkX {}) (keyOkX {}) (.elem "p".toList [("title".toList, [])] [.text []]) = true ∧
    RX (tagOkX {}) (keyOkX {}) (.elem "table".toList [] []) = false ∧
    RX (tagOkX { tables := true }) (keyOkX { tables := true }) (.elem "table".toList [] []) = true ∧
    RX (tagOkX {}) (keyOkX {}) (.elem "p".toList [("onclick".toList, [])] []) = false ∧
    RX (tagOkX {}) (keyOkX {}) (.elem "hr".toList [] [.text []]) = false ∧
    RX (tagOkX {}) (keyOkX {}) (.comment []) = false := by decide

/-- the flags of the examples: everything but attr_list, admonition, fenced_code -/
def outExts : Exts :=
  { tables := true, defList := true, abbr := true, footnotes := true, saneLists := true, nl2br := true,
    wikilinks := true, toc := true }

/-- entity references (restored from the stash, one in an attribute value), a bare ampersand, quotes and `>` in
    text and in a title, a footnote referenced twice (both footnote placeholders), a table, an abbreviation, a
    heading id, a code span in a link destination -/
def outSrc : Str :=
  ("# H &amp; \"q\"\n\na &copy; b & c > d [x](/u?a=1&b=2 \"t&quot;\") [l](`c`)[^1] HTML[^1]\n\n| a |\n|---|\n| *b* |\n\n" ++
   "[^1]: n\n\n*[HTML]: T \"x\"").toList

example : outExts.attrList = false ∧ outExts.admonition = false ∧ outExts.fencedCode = false ∧ '<' ∉ outSrc :=
  ⟨rfl, rfl, rfl, by decide +kernel⟩

/-- the hypothesis `hamp` on the example, and what `C05X_partial` says there -/
example : (match treeX outExts {} outSrc with
    | .ok u _ => contains (inner .xhtml u) Post.ampSubstitute | _ => true) = false ∧
    (match convertX outExts {} outSrc with
     | .ok out => (readForest .xhtml out).map (RXL (tagOkX outExts) (keyOkX outExts)) | _ => none) = some true := by
  refine ⟨by decide +kernel, by decide +kernel⟩

/-! ### 2b. fenced code blocks -/

/-- **the stash**: for every flag set, configuration and source the HTML stash that `treeX` hands to the
    postprocessors is the stash of the preprocessors — one `FEntry` per fenced block:
    `<pre[ id][ class]><code[ class="language-…"]>escaped code</code></pre>` without STX/ETX — followed by entity
    references that the serializer's `RE_AMP` accepts -/
theorem C05X_stash_shape (x : Exts) (cfg : Pipeline.Cfg) (src : Str) (u : Node) (html : List Str)
    (h : treeX x cfg src = .ok u html) :
    ∃ text fenced ents, prepareX x cfg src = .ok (text, fenced) ∧ html = fenced ++ ents ∧
      (∀ e ∈ fenced, FEntry e) ∧ ∀ e ∈ ents, entRef e = true :=
  VocabXFence.treeX_html_fenced h

/-- **C05 with fenced code blocks, two residual hypotheses.**  For every set of extensions without attr_list and
    admonition (fenced_code and all the others: any), every configuration and every source without `<` such that
    (`hattr`) no attribute value of the tree holds the raw-HTML placeholder of a fenced block — `NoFencedInAttrs n u`,
    `n` the number of fenced blocks; decidable — and (`hamp`) the serialised tree holds no ampersand substitute:
    whatever `convertX` returns is accepted by the strict reader and consists of text and elements of the vocabulary
    of the enabled extensions, enlarged by the elements `pre`, `code` and the attribute names `class`, `id` of the
    restored blocks (`tagOkF`, `keyOkF`).  The restore (`<p>placeholder</p>` ↦ block, or placeholder ↦ block in the
    middle of a text or tail), the footnote postprocessor and the final strip are covered; nothing is assumed about
    WHERE in the texts the placeholders sit. -/
theorem C05X_partial_fenced (x : Exts) (hal : x.attrList = false) (hadm : x.admonition = false)
    (cfg : Pipeline.Cfg) (src out : Str) (hlt : '<' ∉ src)
    (hattr : ∀ u html text stash, treeX x cfg src = .ok u html → prepareX x cfg src = .ok (text, stash) →
      NoFencedInAttrs stash.length u)
    (hamp : ∀ u html, treeX x cfg src = .ok u html → contains (inner cfg.fmt u) Post.ampSubstitute = false)
    (hc : convertX x cfg src = .ok out) :
    ∃ forest, readForest cfg.fmt out = some forest ∧
      RXL (tagOkF (tagOkX x)) (keyOkF (keyOkX x)) forest = true := by
  have _ := hlt
  exact VocabXFence.convertX_reads_fenced x cfg src out
    (fun u html h => VocabXWF.keysNamed_of_qtX x hal (treeX_NI x cfg src u html h))
    (fun u html h => VocabXWF.treeX_WF' x hadm cfg src u html h) hattr hamp hc

/-- … up to the ampersand substitute: one residual hypothesis -/
theorem C05X_upto_ampsub_fenced (x : Exts) (hal : x.attrList = false) (hadm : x.admonition = false)
    (cfg : Pipeline.Cfg) (src out : Str)
    (hattr : ∀ u html text stash, treeX x cfg src = .ok u html → prepareX x cfg src = .ok (text, stash) →
      NoFencedInAttrs stash.length u)
    (hc : convertX x cfg src = .ok out) :
    ∃ X forest, out = strip (Post.ampSub X) ∧ readForest cfg.fmt X = some forest ∧
      RXL (tagOkF (tagOkX x)) (keyOkF (keyOkX x)) forest = true :=
  VocabXFence.convertX_shape_fenced x cfg src out
    (fun u html h => VocabXWF.keysNamed_of_qtX x hal (treeX_NI x cfg src u html h))
    (fun u html h => VocabXWF.treeX_WF' x hadm cfg src u html h) hattr hc

/-- **No ampersand substitute in the serialised tree, every flag set** — fenced_code with fenced blocks included
    (the text handed to the block parser then holds the raw-HTML placeholders `STX wzxhzdk:n ETX`, each a block of its
    own, which only ever meet `EmptyBlockProcessor` and `ParagraphProcessor`); `0 < tab_length` is needed with
    fenced_code only. -/
theorem C05X_no_amp_substitute_all (x : Exts) (hadm : x.admonition = false) (cfg : Pipeline.Cfg)
    (htab : x.fencedCode = true → 0 < cfg.tab) (hesc : AmpFull.EscTwo cfg.esc) (src : Str) (u : Node)
    (html : List Str) (h : treeX x cfg src = .ok u html) (hnames : NI keysNamed u) :
    contains (inner cfg.fmt u) Post.ampSubstitute = false :=
  VocabXAmp.treeX_no_amp_all x cfg htab (VocabXAmp.escTwo_escX x hesc) src u html h
    (C05X_tree_gnl x hadm cfg src u html h hnames)

/-- **C05 with fenced code blocks, one residual hypothesis.**  For every set of extensions without attr_list and
    admonition (fenced_code and all the others: any), every configuration with `0 < tab_length` whose escapable
    characters have two-digit codes and every source without `<` such that (`hattr`) no attribute value of the tree holds
    the raw-HTML placeholder of a fenced block: whatever `convertX` returns is accepted by the strict reader and
    consists of text and elements of the vocabulary of the enabled extensions enlarged by `pre`, `code`, `class`,
    `id`. -/
theorem C05X_fenced (x : Exts) (hal : x.attrList = false) (hadm : x.admonition = false)
    (cfg : Pipeline.Cfg) (htab : 0 < cfg.tab) (hesc : AmpFull.EscTwo cfg.esc) (src out : Str) (hlt : '<' ∉ src)
    (hattr : ∀ u html text stash, treeX x cfg src = .ok u html → prepareX x cfg src = .ok (text, stash) →
      NoFencedInAttrs stash.length u)
    (hc : convertX x cfg src = .ok out) :
    ∃ forest, readForest cfg.fmt out = some forest ∧
      RXL (tagOkF (tagOkX x)) (keyOkF (keyOkX x)) forest = true :=
  C05X_partial_fenced x hal hadm cfg src out hlt hattr
    (fun u html h => C05X_no_amp_substitute_all x hadm cfg (fun _ => htab) hesc src u html h
      (VocabXWF.keysNamed_of_qtX x hal (treeX_NI x cfg src u html h))) hc

/-- fenced_code with tables, footnotes, abbr, toc: a block with a language, an id and a class, a `~~~` block, an
    indented fence inside a footnote (no fenced block: a code span), entities -/
def fenceExts : Exts := { fencedCode := true, tables := true, footnotes := true, abbr := true, toc := true }

def fenceSrc : Str :=
  ("# H &amp;\n\n``` {.py #i .extra}\nx = \"a\" > b & c\n```\n\npara[^1] &copy; HTML\n\n~~~\nplain *code*\n~~~\n\n" ++
   "| a |\n|---|\n| `c` |\n\n[^1]: note\n\n    ```js\n    in a footnote\n    ```\n\n*[HTML]: T").toList

example : fenceExts.attrList = false ∧ fenceExts.admonition = false ∧ '<' ∉ fenceSrc := ⟨rfl, rfl, by decide +kernel⟩

/-- the stash, the two hypotheses and the conclusion on the example (kernel evaluation of the model), both formats -/
example :
    (match prepareX fenceExts {} fenceSrc with | .ok (_, stash) => stash | _ => []) =
      ["<pre id=\"i\" class=\"extra\"><code class=\"language-py\">x = &quot;a&quot; &gt; b &amp; c\n</code></pre>".toList,
       "<pre><code>plain *code*\n</code></pre>".toList] ∧
    (match prepareX fenceExts {} fenceSrc, treeX fenceExts {} fenceSrc with
     | .ok (_, stash), .ok u _ =>
       decide (NoFencedInAttrs stash.length u) && !contains (inner .xhtml u) Post.ampSubstitute
     | _, _ => false) = true ∧
    (match convertX fenceExts {} fenceSrc with
     | .ok out => (readForest .xhtml out).map (RXL (tagOkF (tagOkX fenceExts)) (keyOkF (keyOkX fenceExts)))
     | _ => none) = some true ∧
    (match convertX fenceExts { fmt := .html } fenceSrc with
     | .ok out => (readForest .html out).map (RXL (tagOkF (tagOkX fenceExts)) (keyOkF (keyOkX fenceExts)))
     | _ => none) = some true := by
  refine ⟨by decide +kernel, by decide +kernel, by decide +kernel, by decide +kernel⟩

/-- `class` and `id` are not in `keyOkX` with fenced_code alone: the enlargement is needed -/
example : keyOkX { fencedCode := true } "class".toList = false ∧
    keyOkF (keyOkX { fencedCode := true }) "class".toList = true ∧
    tagOkF (tagOkX {}) "pre".toList = true := by decide

/-! ### 3. attr_list -/

/-- no character that `sanitize_name` keeps can end an attribute name or a tag -/
theorem C05X_nameChar_safe (c : Char) (h : AttrList.nameChar c = true) :
    c ≠ ' ' ∧ c ≠ '\n' ∧ c ≠ '\t' ∧ c ≠ '"' ∧ c ≠ '\'' ∧ c ≠ '=' ∧ c ≠ '<' ∧ c ≠ '>' ∧ c ≠ '/' ∧ c ≠ '&' := by
  refine ⟨?_, ?_, ?_, ?_, ?_, ?_, ?_, ?_, ?_, ?_⟩ <;> (intro e; subst e; revert h; decide)

/-- **attr_list cannot break out of an attribute or create an element.**  For every flag set (attr_list on or off),
    at every element of the tree of `treeX`: (1) the tag is a tag of the vocabulary `tagOkX x` — attr_list adds
    none; (2) every attribute name is one of the fixed names of the enabled extensions or consists of characters that
    `sanitize_name` keeps, none of which is a blank, a quote, `=`, `<`, `>`, `/`, `&` (`C05X_nameChar_safe`);
    (3) the value, as the serializer writes it between the double quotes (`Ser.escAttrHtml`), contains no `"`, `<`,
    `>`, and the strict reader reads it as an attribute value (every `&` starts an entity reference). -/
theorem C05X_attr_list_values_escaped (x : Exts) (cfg : Pipeline.Cfg) (src : Str) (u : Node) (html : List Str)
    (h : treeX x cfg src = .ok u html) :
    NI (fun tag attrs =>
      (match tag with | .name t => tagOkX x t | _ => false) &&
      attrs.all (fun kv =>
        (["href", "title", "src", "alt", "style", "class", "start", "id"].any (fun s => s.toList = kv.1) ||
          kv.1.all AttrList.nameChar) &&
        (escAttrHtml kv.2).all (fun c => c != '"' && c != '<' && c != '>') &&
        (strict attr 0 (escAttrHtml kv.2)).isSome)) u := by
  refine VocabXWF.allNodes_mono ?_ u (C05X_tree_vocab x cfg src u html h)
  intro tag attrs hq
  cases tag with
  | name t =>
    simp only [qtX, Bool.and_eq_true, List.all_eq_true] at hq
    simp only [Bool.and_eq_true, List.all_eq_true, Bool.or_eq_true, List.any_eq_true, decide_eq_true_eq,
      bne_iff_ne, ne_eq]
    refine ⟨hq.1, ?_⟩
    intro kv hkv
    refine ⟨⟨?_, ?_⟩, ?_⟩
    · rcases C05X_attr_list_keys x kv.1 (hq.2 kv hkv) with h' | h'
      · left
        simp only [List.map_cons, List.map_nil, List.mem_cons, List.not_mem_nil, or_false] at h'
        rcases h' with h' | h' | h' | h' | h' | h' | h' | h'
        · exact ⟨"href", by simp, h'.symm⟩
        · exact ⟨"title", by simp, h'.symm⟩
        · exact ⟨"src", by simp, h'.symm⟩
        · exact ⟨"alt", by simp, h'.symm⟩
        · exact ⟨"style", by simp, h'.symm⟩
        · exact ⟨"class", by simp, h'.symm⟩
        · exact ⟨"start", by simp, h'.symm⟩
        · exact ⟨"id", by simp, h'.symm⟩
      · right
        exact List.all_eq_true.1 h'.2
    · intro c hc
      rw [onepass_attr'] at hc
      have := esc1_no_markup' true false kv.2 c hc
      exact ⟨⟨this.2.2 rfl, this.1⟩, this.2.1⟩
    · rw [onepass_attr']
      have := strict_esc1' attr kv.2
      rw [show esc1 attr.quot attr.nl kv.2 = esc1 true false kv.2 from rfl] at this
      rw [this]; rfl
  | comment => simp [qtX] at hq
  | pi => simp [qtX] at hq
  | none => simp [qtX] at hq
  | qname q => simp [qtX] at hq

/-- an attribute list that tries: a quote, `>` and `<`-free markup in a value, a name with `=`/quote characters
    (sanitised to `_`), and what the serializer writes — one `p`, values escaped -/
example : serX { attrList := true } "para\n{: title='a\"b>c & d' o\"n=x k=\"v w\" }" =
    "<div>\n<p k=\"v w\" o_n=\"x\" title=\"a&quot;b&gt;c &amp; d\">para</p>\n</div>\n".toList := by decide +kernel

end MdVerif.C05
