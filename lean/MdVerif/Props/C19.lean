/-
C19 — All ways of naming and configuring an extension are equivalent.

Statements are about the model `MdVerif/Model/Config.lean` (tied to the code by `harness/corr/config.py`) instantiated
with the tables REGENERATED from the source tree (`MdVerif.Generated`): the finite quantifiers over the bundled
extensions are decided by the kernel over those tables (`decide +kernel`) and lifted to `∀ e ∈ table` statements —
proofs about every bundled extension, not samples.

* naming: `C19_resolve_forms`, `C19_modules_are_entry_points`, `C19_resolve_entry_point_first`
* `extension_configs` = keyword arguments: `C19_configs_are_kwargs`, `C19_forms_same_object`
* `parseBoolValue`: `C19_parseBool_*`
* `setConfig`: `C19_setConfig_bool`, `C19_setConfig_none_default`, `C19_setConfig_other_default`,
  `C19_unknown_key_rejected`, `C19_unknown_key_bundled`, `C19_passthrough_classes`, `C19_passthrough_accepts`
* extra: `C19_extra_union`, `C19_extra_loads`

Not covered here (see DESIGN §C19): that the same class with the same configuration converts identically is
determinism of the code (C11); `importlib` and entry-point discovery are trusted (the correspondence harness compares
`resolve` with the real `build_extension` for every form and for broken names).
-/
import MdVerif.Model.Config

namespace MdVerif.Config
open MdVerif

/-- `decide +kernel` after turning the string literals of the statement into character lists (the kernel is slow on
    `String.toList`; the generated tables are character lists already) -/
local macro "decide_tbl" : tactic =>
  `(tactic| ((try simp only [String.reduceToList, List.map_cons, List.map_nil]); decide +kernel))

/-! ### Naming: short name, dotted path, `module:Class`, instance -/

/-- **C19 (naming).** For every entry point `name = 'module:Class'` of `pyproject.toml`: the short name, the dotted
    module path (through `makeExtension`), the dotted path with an empty class (`module:`), `module:Class` and an
    instance of the class all denote the same class, `module:Class`. -/
theorem C19_resolve_forms :
    ∀ e ∈ generatedTables.entryPoints,
      resolve generatedTables e.1 = some e.2 ∧
      resolve generatedTables (splitColon e.2).1 = some e.2 ∧
      resolve generatedTables ((splitColon e.2).1 ++ [':']) = some e.2 ∧
      resolve generatedTables e.2 = some e.2 ∧
      ∀ cfg, resolveArg generatedTables (.inst e.2 cfg) = some e.2 := by
  have h : (generatedTables.entryPoints.all fun e =>
      resolve generatedTables e.1 == some e.2 &&
      resolve generatedTables (splitColon e.2).1 == some e.2 &&
      resolve generatedTables ((splitColon e.2).1 ++ [':']) == some e.2 &&
      resolve generatedTables e.2 == some e.2) = true := by decide_tbl
  intro e he
  have := List.all_eq_true.mp h e he
  simp only [Bool.and_eq_true, beq_iff_eq] at this
  exact ⟨this.1.1.1, this.1.1.2, this.1.2, this.2, fun _ => rfl⟩

/-- non-vacuity: `toc` is such an entry point -/
example : ("toc".toList, "markdown.extensions.toc:TocExtension".toList) ∈ generatedTables.entryPoints := by
  decide_tbl
example : resolve generatedTables "markdown.extensions.toc".toList = some "markdown.extensions.toc:TocExtension".toList := by
  decide_tbl
/-- a name that is no entry point, module or class resolves to nothing (the code raises) -/
example : resolve generatedTables "markdown.extensions.toc:Nope".toList = none ∧
          resolve generatedTables "tocs".toList = none ∧
          resolve generatedTables "markdown.extensions".toList = none := by decide_tbl

/-- the entry points are exactly the bundled extension modules: every module of the `markdown.extensions` package
    with a `makeExtension` is the target of an entry point whose short name is the last component of its path, and
    entry-point names are unique -/
theorem C19_modules_are_entry_points :
    (∀ m ∈ generatedTables.modules, m.makeExtension ≠ [] →
        ∃ e ∈ generatedTables.entryPoints, (splitColon e.2).1 = m.path ∧
          m.path = "markdown.extensions.".toList ++ e.1) ∧
    (generatedTables.entryPoints.map (·.1)).Nodup := by
  constructor
  · have h : (generatedTables.modules.all fun m => m.makeExtension.isEmpty ||
        generatedTables.entryPoints.any fun e =>
          (splitColon e.2).1 == m.path && m.path == "markdown.extensions.".toList ++ e.1) = true := by
      decide_tbl
    intro m hm hne
    have := List.all_eq_true.mp h m hm
    simp only [Bool.or_eq_true, List.isEmpty_iff, List.any_eq_true, Bool.and_eq_true, beq_iff_eq] at this
    rcases this with h0 | ⟨e, he, h1, h2⟩
    · exact absurd h0 hne
    · exact ⟨e, he, h1, h2⟩
  · decide +kernel

/-- entry-point names win over module paths: a name that is an entry point is never looked up as a module -/
theorem C19_resolve_entry_point_first (t : Tables) (name target : Str)
    (h : t.entryPoints.find? (fun e => e.1 = name) = some (name, target)) :
    resolve t name = classIn t (splitColon target).1 (splitColon target).2 := by
  simp [resolve, h]

example : generatedTables.entryPoints.find? (fun e => e.1 = "extra".toList)
    = some ("extra".toList, "markdown.extensions.extra:ExtraExtension".toList) := by decide_tbl

/-! ### `extension_configs` are the keyword arguments of the class -/

/-- **C19 (configs).** Loading by name with `extension_configs` builds what calling the class with the options of
    that name as keyword arguments builds: `Class(**extension_configs.get(name, {}))`. -/
theorem C19_configs_are_kwargs (t : Tables) (cfgs : List (Str × Kwargs)) (name cls : Str) (c : ClassInfo)
    (hr : resolve t name = some cls) (hc : findClass t cls = some c) :
    registerOne t cfgs (.name name) = some (cls, construct c.kind c.defaults (configsGet cfgs name)) := by
  simp [registerOne, buildExtension, hr, hc]

/-- … so that every naming form of a bundled extension, given the same options, and the instance made with these
    options as keyword arguments are the same extension object (class and configuration, or exception) -/
theorem C19_forms_same_object :
    ∀ e ∈ generatedTables.entryPoints, ∀ kw : Kwargs, ∃ c, findClass generatedTables e.2 = some c ∧
      let obj := some (e.2, construct c.kind c.defaults kw)
      registerOne generatedTables [(e.1, kw)] (.name e.1) = obj ∧
      registerOne generatedTables [((splitColon e.2).1, kw)] (.name (splitColon e.2).1) = obj ∧
      registerOne generatedTables [(e.2, kw)] (.name e.2) = obj ∧
      registerOne generatedTables [] (.inst e.2 (construct c.kind c.defaults kw)) = obj := by
  have hcls : (generatedTables.entryPoints.all fun e => (findClass generatedTables e.2).isSome) = true := by
    decide_tbl
  intro e he kw
  have hc := List.all_eq_true.mp hcls e he
  obtain ⟨c, hc⟩ := Option.isSome_iff_exists.mp hc
  obtain ⟨h1, h2, _, h4, _⟩ := C19_resolve_forms e he
  refine ⟨c, hc, ?_, ?_, ?_, rfl⟩
  · rw [C19_configs_are_kwargs _ _ _ _ _ h1 hc]; simp [configsGet]
  · rw [C19_configs_are_kwargs _ _ _ _ _ h2 hc]; simp [configsGet]
  · rw [C19_configs_are_kwargs _ _ _ _ _ h4 hc]; simp [configsGet]

/-! ### `parseBoolValue` -/

/-- the three spelling lists of the source are what the documentation of the options relies on -/
theorem C19_parseBool_spellings :
    trueSpellings = ["true", "yes", "y", "on", "1"].map String.toList ∧
    falseSpellings = ["false", "no", "n", "off", "0", "none"].map String.toList ∧
    noneSpellings = ["none"].map String.toList := by decide_tbl

/-- `parseBoolValue` on a string, as the chain of membership tests it is -/
theorem parseBool_str (s : Str) (f p : Bool) :
    parseBool (.str s) f p =
      if p = true ∧ Py.lower s ∈ noneSpellings then .ok none
      else if Py.lower s ∈ trueSpellings then .ok (some true)
      else if Py.lower s ∈ falseSpellings then .ok (some false)
      else if f = true then .error .valueError else .ok none := by
  simp [parseBool]

/-- a string whose lower-cased form is a `True` spelling parses to `True`, whatever the flags -/
theorem C19_parseBool_true (s : Str) (f p : Bool) (h : Py.lower s ∈ trueSpellings) :
    parseBool (.str s) f p = .ok (some true) := by
  have hd : ∀ x ∈ trueSpellings, x ∉ noneSpellings := by decide_tbl
  rw [parseBool_str]; simp [h, hd _ h]

/-- a string whose lower-cased form is a `False` spelling parses to `False` — except `none` under `preserve_none` -/
theorem C19_parseBool_false (s : Str) (f p : Bool) (h : Py.lower s ∈ falseSpellings)
    (hp : p = false ∨ Py.lower s ∉ noneSpellings) :
    parseBool (.str s) f p = .ok (some false) := by
  have hd : ∀ x ∈ falseSpellings, x ∉ trueSpellings := by decide_tbl
  rw [parseBool_str]
  rcases hp with hp | hp <;> simp [hp, h, hd _ h]

/-- `'none'` in any letter case: `None` when `preserve_none`, otherwise `False` -/
theorem C19_parseBool_none_string (s : Str) (f p : Bool) (h : Py.lower s ∈ noneSpellings) :
    parseBool (.str s) f p = .ok (if p then none else some false) := by
  have hd : ∀ x ∈ noneSpellings, x ∉ trueSpellings ∧ x ∈ falseSpellings := by decide_tbl
  rw [parseBool_str]
  cases p <;> simp [h, (hd _ h).1, (hd _ h).2]

/-- any other string: `ValueError` iff `fail_on_errors`, else `None` -/
theorem C19_parseBool_other_string (s : Str) (f p : Bool)
    (ht : Py.lower s ∉ trueSpellings) (hf : Py.lower s ∉ falseSpellings) :
    parseBool (.str s) f p = if f then .error .valueError else .ok none := by
  have hd : ∀ x ∈ noneSpellings, x ∈ falseSpellings := by decide_tbl
  have hn : Py.lower s ∉ noneSpellings := fun h => hf (hd _ h)
  rw [parseBool_str]; simp [ht, hf, hn]

/-- `None` is preserved iff asked; otherwise it is falsy -/
theorem C19_parseBool_None (f p : Bool) : parseBool .none f p = .ok (if p then none else some false) := by
  cases p <;> rfl

/-- non-strings are taken by truthiness, never an error, whatever the flags -/
theorem C19_parseBool_nonstring (f p : Bool) :
    (∀ b, parseBool (.bool b) f p = .ok (some b)) ∧
    (∀ n, parseBool (.int n) f p = .ok (some (n != 0))) ∧
    (∀ t r, parseBool (.other t r) f p = .ok (some t)) := ⟨fun _ => rfl, fun _ => rfl, fun _ _ => rfl⟩

/-- an error only ever comes from an unrecognised string with `fail_on_errors` -/
theorem C19_parseBool_error_iff (v : PyVal) (f p : Bool) (e : Err) :
    parseBool v f p = .error e ↔
      e = .valueError ∧ f = true ∧ ∃ s, v = .str s ∧ Py.lower s ∉ trueSpellings ∧ Py.lower s ∉ falseSpellings := by
  have hd : ∀ x ∈ noneSpellings, x ∈ falseSpellings := by decide_tbl
  cases v with
  | str s =>
    by_cases ht : Py.lower s ∈ trueSpellings
    · simp [C19_parseBool_true s f p ht, ht]
    · by_cases hf : Py.lower s ∈ falseSpellings
      · by_cases hn : Py.lower s ∈ noneSpellings
        · simp [C19_parseBool_none_string s f p hn, hf]
        · simp [C19_parseBool_false s f p hf (.inr hn), hf]
      · rw [C19_parseBool_other_string s f p ht hf]
        cases f <;> simp [ht, hf, eq_comm]
  | none => simp [C19_parseBool_None]
  | bool b => simp [parseBool]
  | int n => simp [parseBool]
  | other t r => simp [parseBool]

/-! #### "in any letter case" made explicit -/

/-- ASCII upper-casing of one character -/
def upperAscii (c : Char) : Char := if Py.isAsciiLower c then Char.ofNat (c.toNat - 32) else c

/-- upper-case the characters of `s` selected by the mask -/
def recase : List Bool → Str → Str
  | b :: m, c :: s => (if b then upperAscii c else c) :: recase m s
  | _, s => s

example : recase [true, false, true] "yes".toList = "YeS".toList := by decide_tbl

private theorem lowerChar_upperAscii :
    ∀ n, n < 128 → (Py.isAsciiLower (Char.ofNat n) || Py.isAsciiDigit (Char.ofNat n)) = true →
      Py.lowerChar (upperAscii (Char.ofNat n)) = [Char.ofNat n] ∧ Py.lowerChar (Char.ofNat n) = [Char.ofNat n] := by
  decide_tbl

private theorem recase_nil (s : Str) : recase [] s = s := by cases s <;> rfl

private theorem lower_cons (c : Char) (s : Str) : Py.lower (c :: s) = Py.lowerChar c ++ Py.lower s := by
  simp [Py.lower]

private theorem lower_recase (m : List Bool) (s : Str)
    (h : ∀ c ∈ s, c.toNat < 128 ∧ (Py.isAsciiLower c || Py.isAsciiDigit c) = true) :
    Py.lower (recase m s) = s := by
  induction s generalizing m with
  | nil => cases m <;> rfl
  | cons c s ih =>
    have hc := h c (by simp)
    have hl := lowerChar_upperAscii c.toNat hc.1 (by simpa using hc.2)
    simp only [Char.ofNat_toNat] at hl
    have ih' : ∀ m, Py.lower (recase m s) = s := fun m => ih m (fun c hc => h c (by simp [hc]))
    cases m with
    | nil => rw [recase_nil, lower_cons, hl.2]; have := ih' []; rw [recase_nil] at this; rw [this]; rfl
    | cons b m =>
      cases b
      · show Py.lower (c :: recase m s) = _
        rw [lower_cons, hl.2, ih' m]; rfl
      · show Py.lower (upperAscii c :: recase m s) = _
        rw [lower_cons, hl.1, ih' m]; rfl

private theorem spellings_ascii :
    ∀ sp ∈ trueSpellings ++ falseSpellings ++ noneSpellings,
      ∀ c ∈ sp, c.toNat < 128 ∧ (Py.isAsciiLower c || Py.isAsciiDigit c) = true := by decide_tbl

/-- every `True` spelling, with any of its letters in upper case, is `True` -/
theorem C19_parseBool_true_anycase (sp : Str) (h : sp ∈ trueSpellings) (mask : List Bool) (f p : Bool) :
    parseBool (.str (recase mask sp)) f p = .ok (some true) :=
  C19_parseBool_true _ f p (by rw [lower_recase mask sp (spellings_ascii sp (by simp [h]))]; exact h)

/-- every `False` spelling, with any of its letters in upper case, is `False`
    (`none` only when `preserve_none` is off; with it, it is `None`) -/
theorem C19_parseBool_false_anycase (sp : Str) (h : sp ∈ falseSpellings) (mask : List Bool) (f p : Bool) :
    parseBool (.str (recase mask sp)) f p = .ok (if p && noneSpellings.contains sp then none else some false) := by
  have hl := lower_recase mask sp (spellings_ascii sp (by simp [h]))
  by_cases hn : sp ∈ noneSpellings
  · rw [C19_parseBool_none_string _ f p (by rw [hl]; exact hn)]
    cases p <;> simp [hn]
  · rw [C19_parseBool_false _ f p (by rw [hl]; exact h) (.inr (by rw [hl]; exact hn))]
    simp [hn]

example : parseBool (.str "YeS".toList) true false = .ok (some true) := by decide_tbl
example : parseBool (.str "OFF".toList) true true = .ok (some false) := by decide_tbl
example : parseBool (.str "NoNe".toList) true true = .ok none := by decide_tbl
example : parseBool (.str "NoNe".toList) true false = .ok (some false) := by decide_tbl
example : parseBool (.str "table".toList) true true = .error .valueError := by decide_tbl
example : parseBool (.str "table".toList) false true = .ok none := by decide_tbl
example : Py.lower "table".toList ∉ trueSpellings ∧ Py.lower "table".toList ∉ falseSpellings := by decide_tbl

/-! ### `setConfig`: string booleans, unknown keys -/

/-- **C19 (booleans as strings).** For an option whose current value is a `bool`, a string that spells a boolean is
    stored exactly as that boolean would be: the option becomes the `bool`, nothing else changes. -/
theorem C19_setConfig_bool (cfg : Config) (k s : Str) (b0 b : Bool) (d : Str)
    (hk : lookup cfg k = some (.bool b0, d)) (hs : parseBool (.str s) true false = .ok (some b)) :
    setConfig cfg k (.str s) = setConfig cfg k (.bool b) ∧
    setConfig cfg k (.bool b) = (setValue cfg k (.bool b), .ok ()) := by
  have hb : parseBool (.bool b) true false = .ok (some b) := rfl
  simp only [setConfig, hk, hs, hb, Except.map, optToVal, and_self]

/-- the spelled-out cases: `'yes'`/`'on'`/`'1'`/`'TRUE'` is `True`, `'no'`/`'off'`/`'0'`/`'None'` is `False` -/
theorem C19_setConfig_bool_spelled (cfg : Config) (k : Str) (b0 : Bool) (d : Str)
    (hk : lookup cfg k = some (.bool b0, d)) :
    (∀ s ∈ ["yes", "on", "1", "TRUE", "Y"].map String.toList,
        setConfig cfg k (.str s) = setConfig cfg k (.bool true)) ∧
    (∀ s ∈ ["no", "off", "0", "False", "None"].map String.toList,
        setConfig cfg k (.str s) = setConfig cfg k (.bool false)) := by
  have h1 : ∀ s ∈ ["yes", "on", "1", "TRUE", "Y"].map String.toList,
      parseBool (.str s) true false = .ok (some true) := by decide_tbl
  have h2 : ∀ s ∈ ["no", "off", "0", "False", "None"].map String.toList,
      parseBool (.str s) true false = .ok (some false) := by decide_tbl
  exact ⟨fun s hs => (C19_setConfig_bool cfg k _ b0 true d hk (h1 s hs)).1,
         fun s hs => (C19_setConfig_bool cfg k _ b0 false d hk (h2 s hs)).1⟩

/-- a string that spells no boolean, given to a `bool` option, is rejected (`ValueError`), configuration unchanged -/
theorem C19_setConfig_bool_invalid (cfg : Config) (k s : Str) (b0 : Bool) (d : Str)
    (hk : lookup cfg k = some (.bool b0, d))
    (ht : Py.lower s ∉ trueSpellings) (hf : Py.lower s ∉ falseSpellings) :
    setConfig cfg k (.str s) = (cfg, .error .valueError) := by
  simp [setConfig, hk, C19_parseBool_other_string s true false ht hf, Except.map]

/-- an option whose current value is `None` takes `bool | None`: strings as above, `'none'` and `None` stay `None` -/
theorem C19_setConfig_none_default (cfg : Config) (k s : Str) (d : Str) (r : Option Bool)
    (hk : lookup cfg k = some (.none, d)) (hs : parseBool (.str s) true true = .ok r) :
    setConfig cfg k (.str s) = setConfig cfg k (optToVal r) ∧
    setConfig cfg k (optToVal r) = (setValue cfg k (optToVal r), .ok ()) := by
  have hb : parseBool (optToVal r) true true = .ok r := by
    cases r with
    | none => rfl
    | some b => rfl
  simp only [setConfig, hk, hs, hb, Except.map, and_self]

/-- options with any other kind of default (`str`, `int`, a dict, a function) store the value untouched -/
theorem C19_setConfig_other_default (cfg : Config) (k : Str) (cur v : PyVal) (d : Str)
    (hk : lookup cfg k = some (cur, d)) (h1 : ∀ b, cur ≠ .bool b) (h2 : cur ≠ .none) :
    setConfig cfg k v = (setValue cfg k v, .ok ()) := by
  cases cur with
  | bool b => exact absurd rfl (h1 b)
  | none => exact absurd rfl h2
  | str s => simp [setConfig, hk]
  | int n => simp [setConfig, hk]
  | other t r => simp [setConfig, hk]

/-- **C19 (unknown keys).** `setConfig` with a key that has no default raises `KeyError`; the configuration is
    unchanged. -/
theorem C19_unknown_key_rejected (cfg : Config) (k : Str) (v : PyVal) (h : lookup cfg k = none) :
    setConfig cfg k v = (cfg, .error .keyError) := by
  simp [setConfig, h]

/-- `lookup` fails exactly for the keys that are not in the configuration -/
theorem lookup_eq_none_iff (cfg : Config) (k : Str) : lookup cfg k = none ↔ k ∉ cfg.map (·.1) := by
  induction cfg with
  | nil => simp [lookup]
  | cons e r ih =>
    obtain ⟨k', v, d⟩ := e
    simp only [lookup, List.map_cons, List.mem_cons]
    by_cases h : k' = k
    · simp [h]
    · rw [if_neg h, ih]
      constructor
      · intro h1 h2
        rcases h2 with h2 | h2
        · exact h h2.symm
        · exact h1 h2
      · intro h1 h2
        exact h1 (Or.inr h2)

/-- … hence a constructor of the `Extension.__init__` kind rejects keyword arguments as soon as one of them is unknown,
    provided the earlier ones were accepted -/
theorem C19_unknown_key_construct (defaults : Config) (k : Str) (v : PyVal) (rest : Kwargs)
    (h : k ∉ defaults.map (·.1)) :
    construct .base defaults ((k, v) :: rest) = .error .keyError := by
  have := C19_unknown_key_rejected defaults k v ((lookup_eq_none_iff _ _).mpr h)
  simp [construct, setConfigs, this]

/-- the classes that do not reject unknown keys are exactly the two that document pass-through options -/
theorem C19_passthrough_classes :
    ∀ c ∈ generatedTables.classes,
      (c.kind ≠ .base ↔ c.name ∈ ["markdown.extensions.codehilite:CodeHiliteExtension".toList,
                                   "markdown.extensions.extra:ExtraExtension".toList]) ∧
      c.kind ≠ .unknown := by
  have h : (generatedTables.classes.all fun c =>
      (decide (c.kind ≠ .base) == decide (c.name ∈ ["markdown.extensions.codehilite:CodeHiliteExtension".toList,
                                   "markdown.extensions.extra:ExtraExtension".toList])) &&
      decide (c.kind ≠ .unknown)) = true := by decide_tbl
  intro c hc
  have := List.all_eq_true.mp h c hc
  simp only [Bool.and_eq_true, beq_iff_eq, decide_eq_decide, decide_eq_true_eq] at this
  exact this

/-- every other bundled extension rejects an unknown key, by whatever form it was named -/
theorem C19_unknown_key_bundled :
    ∀ e ∈ generatedTables.entryPoints,
      e.1 ∉ ["codehilite".toList, "extra".toList] →
      ∃ c, findClass generatedTables e.2 = some c ∧
        ∀ k v, k ∉ c.defaults.map (·.1) →
          buildExtension generatedTables e.1 [(k, v)] = some (e.2, .error .keyError) ∧
          buildExtension generatedTables (splitColon e.2).1 [(k, v)] = some (e.2, .error .keyError) ∧
          buildExtension generatedTables e.2 [(k, v)] = some (e.2, .error .keyError) := by
  have hcls : (generatedTables.entryPoints.all fun e =>
      match findClass generatedTables e.2 with
      | some c => e.1 ∈ ["codehilite".toList, "extra".toList] || c.kind == .base
      | none => false) = true := by decide_tbl
  intro e he hne
  have hc := List.all_eq_true.mp hcls e he
  obtain ⟨h1, h2, _, h4, _⟩ := C19_resolve_forms e he
  cases hf : findClass generatedTables e.2 with
  | none => simp [hf] at hc
  | some c =>
    simp only [hf, Bool.or_eq_true, decide_eq_true_eq, beq_iff_eq] at hc
    have hk : c.kind = .base := by
      rcases hc with hc | hc
      · exact absurd hc hne
      · exact hc
    refine ⟨c, rfl, fun k v hkv => ?_⟩
    have := C19_unknown_key_construct c.defaults k v [] hkv
    simp [buildExtension, h1, h2, h4, hf, hk, this]

example : (findClass generatedTables "markdown.extensions.toc:TocExtension".toList).map
      (fun c => ((c.defaults.map (·.1)).contains "nope".toList, (c.defaults.map (·.1)).contains "permalink".toList))
    = some (false, true) := by decide_tbl

/-- the pass-through loop (codehilite) stores an unknown key instead; a string is parsed as `bool | None` when it
    spells one and kept otherwise -/
theorem C19_passthrough_accepts (cfg : Config) (k : Str) (v : PyVal) (h : lookup cfg k = none) :
    passthroughStep cfg k v = (cfg ++ [(k, passthroughValue v, [])], .ok ()) ∧
    (∀ s r, v = .str s → parseBool v true true = .ok r → passthroughValue v = optToVal r) ∧
    (∀ s e, v = .str s → parseBool v true true = .error e → passthroughValue v = v) ∧
    (v.isStr = false → passthroughValue v = v) := by
  refine ⟨by simp [passthroughStep, h], ?_, ?_, ?_⟩
  · intro s r hv hp; subst hv; simp [passthroughValue, PyVal.isStr, hp]
  · intro s e hv hp; subst hv; simp [passthroughValue, PyVal.isStr, hp]
  · intro hv; simp [passthroughValue, hv]

example : construct .passthrough [] [("hl_lines".toList, .str "off".toList), ("style".toList, .str "monokai".toList)]
    = .ok [("hl_lines".toList, .bool false, []), ("style".toList, .str "monokai".toList, [])] := by decide_tbl

/-! ### `extra` is the union of its components -/

/-- the component list of the documentation of `extra` (docs/extensions/extra.md: Abbreviations, Attribute Lists,
    Definition Lists, Fenced Code Blocks, Footnotes, Tables, Markdown in HTML) -/
def extraDocumented : List Str :=
  ["abbr", "attr_list", "def_list", "fenced_code", "footnotes", "tables", "md_in_html"].map String.toList

/-- **C19 (extra).** `extra.extensions` in the source is the documented component list (each once, in the order
    `fenced_code, footnotes, attr_list, def_list, tables, abbr, md_in_html`), and each component is a bundled entry
    point. -/
theorem C19_extra_union :
    extraExtensions.Perm extraDocumented ∧ extraExtensions.Nodup ∧
    extraExtensions = ["fenced_code", "footnotes", "attr_list", "def_list", "tables", "abbr", "md_in_html"].map String.toList ∧
    ∀ n ∈ extraExtensions, ∃ e ∈ generatedTables.entryPoints, e.1 = n ∧ resolve generatedTables n = some e.2 := by
  refine ⟨by simp only [extraDocumented]; decide_tbl, by decide_tbl, by decide_tbl, ?_⟩
  have h : (extraExtensions.all fun n => generatedTables.entryPoints.any fun e =>
      e.1 == n && resolve generatedTables n == some e.2) = true := by decide_tbl
  intro n hn
  have := List.all_eq_true.mp h n hn
  simp only [List.any_eq_true, Bool.and_eq_true, beq_iff_eq] at this
  exact this

/-- loading `extra` with options `{component: {…}}` loads, for each listed component in order, exactly what loading
    that component by name with `extension_configs = {component: {…}}` loads -/
theorem C19_extra_loads (t : Tables) (cfg : List (Str × Kwargs)) :
    extraLoads t cfg = extraExtensions.map (fun n => registerOne t cfg (.name n)) := rfl

/-- … and `extra` itself holds its keyword arguments untouched (no key is rejected, no value is parsed) -/
theorem C19_extra_holds (defaults : Config) (kw : Kwargs) :
    construct .holder defaults kw = .ok (kw.map fun e => (e.1, e.2, [])) := rfl

end MdVerif.Config
