/-
C10 on the extension model with ALL extensions (tables off), INLINE LINKS and AMPERSANDS — "The output never contains
the STX/ETX control characters or any of the placeholder tokens the converter uses internally …" for
`PipelineX.convertX` on the domain of `C10X_partial_all_links` (`Props/C10XCAllF.lean`: inline links `[text](url "title")`,
images `![alt](src)`, image references, with simple destinations / titles / alt texts) widened from "no `<`, no `&`" to
"no `<`": entities `&amp;` `&#38;` `&#x26;`, unterminated character references `&#38x`, bare ampersands `AT&T`,
`[a](b?x=1&y=2)`, `![i&j](u)`.

What is new with respect to `Props/C10XAllAmp.lean` (the same theorem without inline links) is the interplay of the
entity pattern with the regions behind `](` and `![`: an entity is made of `destChar`s, so — unlike every other
pattern match — it may stand INSIDE a region, and when no link or image pattern takes that region (`a](b&amp;c)`) the
raw-HTML placeholder that replaces it would break the static invariant "every region is simple" of the C chain.  The
domain therefore keeps entity material out of the regions: no `;` and no `&#` in a destination, title or alt text
(`NoCtlF.NoEntR`; `Spec/F/RegionsAmp.lean`, `Lemmas/F/PlaceholdersAmpRegion.lean`: `regionsOK_replace_ent`).  The
implementation does not leak there (`markdown.markdown("a](b&amp;c)")` = `<p>a](b&amp;c)</p>`): the restriction is one of
the proof.  The raw-HTML preprocessor keeps the regions (`;` is a `destChar` and an `altChar`, and no `;` is inserted
inside a region: `adjCA_semiIns`).

1. `C10X_partial_all_links_amp`: end to end, ten flags (tables off), sources without `<`.
2. `C10_partial_inline_links_amp`: the core pipeline (`Pipeline.convert`), via `convertX_core`.

Vocabulary: `Spec/F/*.lean` (`Spec/F/DomainAmp.lean`: the domains); helper lemmas: `Lemmas/F/Placeholders*.lean`
(composition: `Lemmas/F/PlaceholdersXCAllF.lean`).  Core Lean only.
-/
import MdVerif.Lemmas.F.PlaceholdersXCAllF
import MdVerif.Lemmas.PipelineX

namespace MdVerif.NoCtlXCF
open MdVerif.NoCtl (NoCtl)
open MdVerif.NoCtlXC (C10DomainCW)
open MdVerif.NoCtlXF (C10DomainCWA AbbrKeysOKAmp)
open Py

/-! ## 1. End to end -/

/-- **End to end with ten extensions (tables off), inline links and ampersands** (`C10X_partial_all_links_amp`).
    **fenced_code, footnotes, admonition, def_list, abbr, sane_lists, nl2br, wikilinks, attr_list and toc are on or off,
    in every combination; tables is off.**  For a source without `<` — `&`, entities, character references with or
    without their `;` are allowed — whose normalised text has no backslash immediately before a backtick, in which every
    `](` is followed by a simple destination (with an optional title) and every `![` by a simple alt text, closed on the
    same line, that hold neither `;` nor `&#`, and — when wikilinks is on — no `[` immediately followed by a blank
    (`C10DomainCWA`: the domain `C10DomainCW` of `C10X_partial_all_links` without the exclusion of `&`, plus "no entity
    material inside a region"), and in which — when abbr is on — no abbreviation, in the document or inside a footnote
    body, is a number, with footnotes the body of a footnote token, or one of the keys `wzxhzdk`, `wzxhzdk:`,
    `wzxhzdk:`+digits, `:`, `:`+digits, which cut a raw-HTML placeholder (`AbbrKeysOKAmp`, decidable), whatever
    `convertX` returns (any tab length — positive when fenced_code is on —, output format, block-level set; escapable
    characters ordinary ones that occur in no token: `NoCtlF.EscOK`) contains neither STX nor ETX. -/
theorem C10X_partial_all_links_amp (x : PipelineX.Exts) (htb : x.tables = false) (cfg : Pipeline.Cfg)
    (hcfg : NoCtlF.EscOK cfg.esc) (htab : x.fencedCode = true → 0 < cfg.tab)
    {src out : Str} (hd : C10DomainCWA x.wikilinks cfg.tab src) (habbr : AbbrKeysOKAmp x cfg src)
    (h : PipelineX.convertX x cfg src = .ok out) : NoCtl out :=
  convertX_noctl_links_ten_amp htb hcfg htab hd.1.1 hd.1.2.1 hd.1.2.2 hd.2 habbr h

/-- the ten extensions -/
def tenExtsA : PipelineX.Exts :=
  { fencedCode := true, footnotes := true, tables := false, admonition := true, defList := true, abbr := true,
    saneLists := true, nl2br := true, wikilinks := true, attrList := true, toc := true }

/-- a source with a heading with `&`, an entity and an attribute list; a footnote reference, the abbreviation `AT&T`,
    an entity, an unterminated character reference `&#38x`, an inline link with `&` in the destination and the title,
    an image with `&` in the alt text, `&;`; a fenced block with `&` in the code; a footnote with an inline link
    (`&` in text and destination) and a code span; `[TOC]` -/
def exAmpC : Str :=
  ("# AT&T &amp; Co {: #i }\n\nA[^n] AT&T &amp; &#38x [a](b?x=1&y=2 \"T & U\") ![i&j](u) &;\n\n```python\nx = a & b\n" ++
    "```\n\n[^n]: see [AT&T](/c?d&e) `a&b`\n\n*[AT&T]: American T&T\n\n[TOC]").toList

/-- the hypotheses hold of `exAmpC`, all ten extensions on -/
example : C10DomainCWA tenExtsA.wikilinks 4 exAmpC ∧ AbbrKeysOKAmp tenExtsA {} exAmpC :=
  ⟨by decide +kernel, by decide +kernel⟩

/-- … and what `convertX` answers on it (as `markdown.markdown(src, extensions=[the ten])`) -/
example : PipelineX.convertX tenExtsA {} exAmpC =
    .ok ("<h1 id=\"i\"><abbr title=\"American T&amp;T\">AT&amp;T</abbr> &amp; Co</h1>\n<p>A<sup id=\"fnref:n\"><a " ++
      "class=\"footnote-ref\" href=\"#fn:n\">1</a></sup> <abbr title=\"American T&amp;T\">AT&amp;T</abbr> &amp; &#38;x " ++
      "<a href=\"b?x=1&amp;y=2\" title=\"T &amp; U\">a</a> <img alt=\"i&amp;j\" src=\"u\" /> &amp;;</p>\n<pre><code " ++
      "class=\"language-python\">x = a &amp; b\n</code></pre>\n<div class=\"toc\">\n<ul>\n<li><a href=\"#i\">AT&amp;T &amp; " ++
      "Co</a></li>\n</ul>\n</div>\n<div class=\"footnote\">\n<hr />\n<ol>\n<li id=\"fn:n\">\n<p>see <a href=\"/c?d&amp;e\">" ++
      "<abbr title=\"American T&amp;T\">AT&amp;T</abbr></a> <code>a&amp;b</code>&#160;<a class=\"footnote-backref\" " ++
      "href=\"#fnref:n\" title=\"Jump back to footnote 1 in the text\">&#8617;</a></p>\n</li>\n</ol>\n</div>").toList := by
  decide +kernel

/-- the domain of `C10X_partial_all_links` lies inside this one when its regions hold no entity material — e.g. when the
    normalised text has no `;` at all -/
example {wl : Bool} {tab : Nat} {src : Str} (h : C10DomainCW wl tab src)
    (he : NoCtlF.NoEntR (Normalize.normalize tab src)) : C10DomainCWA wl tab src :=
  ⟨⟨fun hm => by have := h.1.1 _ hm; simp [MdVerif.NoCtl.domCharB] at this, h.1.2, he⟩, h.2⟩

/-- an entity inside a destination that no link takes is outside the domain (the implementation does not leak there) -/
example : ¬ C10DomainCWA false 4 "a](b&amp;c)".toList ∧
    Pipeline.convert {} "a](b&amp;c)".toList = .ok "<p>a](b&amp;c)</p>".toList :=
  ⟨by decide +kernel, by decide +kernel⟩

/-! ## 2. The core pipeline -/

/-- **The core pipeline with inline links and ampersands** (`Markdown().convert`, no extension): for a source without
    `<` whose normalised text has no backslash immediately before a backtick and in which every `](` / `![` is followed
    by a simple destination (optionally with a title) / alt text, closed on the same line, without `;` and `&#` —
    the domain `C10DomainC` of `C10_partial_inline_links` without the exclusion of `&`, plus "no entity material inside a
    region" —, whatever `Pipeline.convert` returns contains neither STX nor ETX. -/
theorem C10_partial_inline_links_amp (cfg : Pipeline.Cfg) (hcfg : NoCtlF.EscOK cfg.esc) {src out : Str}
    (hd : C10DomainCWA false cfg.tab src) (h : Pipeline.convert cfg src = .ok out) : NoCtl out := by
  rw [← PipelineX.convertX_core] at h
  exact C10X_partial_all_links_amp {} rfl cfg hcfg (fun h0 => by cases h0) hd (fun h0 => by cases h0) h

example : C10DomainCWA false 4 "AT&T &amp; &#38x [a](b?x=1&y=2) ![i&j](u)".toList := by decide +kernel

example : Pipeline.convert {} "AT&T &amp; &#38x [a](b?x=1&y=2) ![i&j](u)".toList =
    .ok ("<p>AT&amp;T &amp; &#38;x <a href=\"b?x=1&amp;y=2\">a</a> <img alt=\"i&amp;j\" src=\"u\" /></p>").toList := by
  decide +kernel

end MdVerif.NoCtlXCF
