/-
C10 on the extension model (`PipelineX.convertX`), part: the toc tree processor.

C10 — "The output never contains the STX/ETX control characters or any of the placeholder tokens the converter uses
internally, provided the input does not itself spell those tokens."

Only property statements live here.  Vocabulary: `MdVerif/Spec/NoCtl.lean`, `MdVerif/Spec/NoCtlX.lean` (`FNodeX`: an
element of the tree handed from one late tree processor to the next — names without STX/ETX; texts, tails and
attribute values made of ordinary characters and escape tokens `STX <code> ETX`; no token in `code` text).  Helper
lemmas, the predicates `PostOK`, `TocFlagsOnly` and the example tree `exTocTree`:
`MdVerif/Lemmas/PlaceholdersXToc.lean`, `…XToc2.lean`, `…XTocAll.lean`.  Core Lean only.

`TocTreeprocessor` (priority 5) runs after the inline stage, prettify, attr_list and abbr, and BEFORE
`UnescapeTreeprocessor`: the tree it reads still holds the escape tokens of backslash escapes.  It serialises every
heading, runs `UnescapeTreeprocessor.unescape` and all postprocessors on the string to get the heading's name, makes
an id out of the name, and builds the `div.toc` from names and ids.

1. `C10X_toc_ids_noctl`, `C10X_toc_heading_id`: the ids that toc writes hold no STX/ETX — for every heading whatsoever
   (`slugify` keeps word characters, blanks and `-` only; `unique` appends `_<n>`).
2. `C10X_toc_name_noctl`: the name of a heading (text of the toc entry) holds no STX/ETX: the serialised heading is
   made of ordinary characters and escape tokens, unescaping removes every token.
3. `C10X_toc_stage`: `TocTreeprocessor.run` keeps the invariant `FNodeX`; `C10X_toc_then_unescape`: after
   `UnescapeTreeprocessor` no STX/ETX is left in the tree.
4. `C10X_partial_toc`: end to end for toc (+ nl2br, wikilinks) on the domain of `C10_partial_links`.
-/
import MdVerif.Lemmas.PlaceholdersXTocAll

namespace MdVerif.NoCtlX
open MdVerif.NoCtl Py

/-! ## 1. ids -/

/-- **The ids of the table of contents hold no STX/ETX**, whatever the name of the heading and the set of ids in use:
    `slugify(value, '-')` keeps only word characters, blanks and `-` (`\w` does not match STX, ETX), lower-cases and
    replaces runs of blanks/`-` by `-`; `unique(id, ids)` only appends or increments a suffix `_<n>`. -/
theorem C10X_toc_ids_noctl (value : Str) (used : List Str) {slug : Str} (h : TocTree.slugify value = some slug) :
    NoCtl slug ∧ NoCtl (Toc.unique slug used).1 :=
  ⟨slugify_noctl h, unique_noctl used (slugify_noctl h)⟩

/-- a name that still holds an escape token: STX/ETX are dropped, the digits stay; a used id gets a suffix -/
example : TocTree.slugify "A \x0242\x03 B_c  - d".toList = some "a-42-b_c-d".toList ∧
    (Toc.unique "a".toList ["a".toList, "a_1".toList]).1 = "a_2".toList := by decide

/-- **A heading without `id` gets one without STX/ETX** (the loop body of `TocTreeprocessor.run` for one heading,
    `TocTree.heading`): whatever the element, the state and the postprocessors are, when the step succeeds the new
    attributes hold an `id` free of STX and ETX. -/
theorem C10X_toc_heading_id {env : TocTree.Env} {el : Node} {st st' : TocTree.St} {attrs : List (Str × Str)}
    (hno : el.getAttr TocTree.idKey = none) (h : TocTree.heading env el st = .ok (attrs, st')) :
    ∃ i, attrs.find? (fun kv => kv.1 = TocTree.idKey) = some (TocTree.idKey, i) ∧ NoCtl i :=
  heading_new_id hno h

/-! ## 2. names -/

/-- **The name of a heading holds no STX/ETX.**  For a heading whose subtree satisfies `FNodeX` (escape tokens only)
    and postprocessors that keep "no STX/ETX" (`PostOK`), the name that toc computes — `remove_fnrefs`, serialise,
    `UnescapeTreeprocessor.unescape`, cut between the first `>` and the last `<`, strip, postprocessors, strip,
    `strip_tags` — is free of STX and ETX: every escape token of the heading, wherever it stands (text, tail,
    attribute value), is restored by the unescape step. -/
theorem C10X_toc_name_noctl {env : TocTree.Env} (hp : PostOK env.post) {el : Node} (h : el.Forall FNodeX) {inner : Str}
    (hr : TocTree.renderInner env (TocTree.rmFnNode el) = .ok inner) : NoCtl (TocTree.stripTags inner) :=
  stripTags_noctl (renderInner_noctl hp (rmFnNode_serX el (Node.Forall.mono (fun _ => serX_of_fnodeX) el h)) hr)

/-- the postprocessors of `convertX` with an empty raw-HTML stash satisfy `PostOK`, for every set of extensions -/
example (x : PipelineX.Exts) (cfg : Pipeline.Cfg) : PostOK (PipelineX.postX x cfg []) := postX_noctl x cfg

/-- the heading `a \* b` with `title="\#"`: name `a * b` -/
example :
    (match TocTree.renderInner { fmt := .xhtml, post := PipelineX.postX { toc := true } {} [] }
        { tag := .name "h1".toList, text := some ("a ".toList ++ escToken 42 ++ " b".toList),
          attrs := [("title".toList, escToken 35)], tail := some "\n".toList } with
      | .ok s => some (TocTree.stripTags s)
      | _ => none) = some "a * b".toList := by decide +kernel

/-! ## 3. the stage -/

/-- **`TocTreeprocessor.run` keeps the invariant of the late tree processors.**  If every element of the tree is an
    `FNodeX` (names without STX/ETX; texts, tails, attribute values made of ordinary characters and escape tokens;
    no token in `code` text) then so is every element of the tree that toc returns — with its new `id` attributes,
    without the consumed `data-toc-label`s, and with the `div.toc` (literal tags, `class="toc"`, `href="#"+id`,
    texts = names or labels) in place of the `[TOC]` marker.  The raw-HTML stash is empty (sources without `<`, `&`,
    fenced code); the set of extensions `x` and the configuration are arbitrary. -/
theorem C10X_toc_stage (x : PipelineX.Exts) (cfg : Pipeline.Cfg) {t t' : Node} (h : t.Forall FNodeX)
    (hr : TocTree.run { fmt := cfg.fmt, post := PipelineX.postX x cfg [] } cfg.blockLevel t = .ok t') :
    t'.Forall FNodeX :=
  toc_run_fnodeX h hr (postX_noctl x cfg)

/-- … and `UnescapeTreeprocessor` after it restores every escape token (attribute values included): no STX and no
    ETX is left in the tree. -/
theorem C10X_toc_then_unescape (x : PipelineX.Exts) (cfg : Pipeline.Cfg) {t t' u : Node} (h : t.Forall FNodeX)
    (hr : TocTree.run { fmt := cfg.fmt, post := PipelineX.postX x cfg [] } cfg.blockLevel t = .ok t')
    (hu : TreeProc.unescapeTree t' = some u) : TreeNoCtl u :=
  unescapeTree_fnodeX (C10X_toc_stage x cfg h hr) hu

/-- a tree that satisfies the hypothesis: the marker, the heading `a \* b` with `data-toc-label="L \_"` and
    `title="\#"` (as attr_list leaves them: escape tokens in the values), a heading with a code span -/
example : exTocTree.Forall FNodeX := exTocTree_fnodeX

/-- what toc makes of it (shown serialised): the tokens of the heading are still there, none in the `div.toc` -/
example :
    tocShow (TocTree.run { fmt := .xhtml, post := PipelineX.postX { toc := true, attrList := true } {} [] }
      TreeProc.defaultBlockLevel exTocTree) =
    some ("<div><div class=\"toc\">\n<ul>\n<li><a href=\"#a-b\">L _</a><ul>\n<li><a href=\"#c-d\">c d</a></li>\n</ul>\n" ++
      "</li>\n</ul>\n</div>\n<h1 id=\"a-b\" title=\"\x0235\x03\">a \x0242\x03 b</h1>\n" ++
      "<h2 id=\"c-d\">c <code>d</code></h2></div>").toList := by decide +kernel

/-! ## 4. End to end -/

/-- **End to end with toc** (and the inline-stage extensions nl2br, wikilinks; every other extension off:
    `TocFlagsOnly`).  For a source without `<`, `&` whose normalised text has none of the adjacencies
    backslash–backtick, `![`, `](` (`C10DomainL`, the domain of `C10_partial_links`) and — when wikilinks is on — no `[`
    immediately followed by a blank (`C10DomainW`), whatever `convertX` returns (any tab length, output format,
    block-level set; escapable characters ordinary ones) contains neither STX nor ETX: headings with backslash
    escapes, code spans, emphasis, reference links; `[TOC]` markers; duplicate headings. -/
theorem C10X_partial_toc {x : PipelineX.Exts} (hx : TocFlagsOnly x)
    (cfg : Pipeline.Cfg) (hcfg : EscOK cfg.esc) {src out : Str} (hd : C10DomainW x.wikilinks cfg.tab src)
    (h : PipelineX.convertX x cfg src = .ok out) : NoCtl out := convertX_noctl_toc hx hcfg hd.1 hd.2 h

example : TocFlagsOnly { toc := true, nl2br := true, wikilinks := true } ∧ EscOK ({} : Pipeline.Cfg).esc ∧
    C10DomainW true 4 "[TOC]\n\n# a \\* b\n\n## c `d` *e* [f][x] [[W]]\n\nT \\\\ t\n===\n\n# a \\* b\n\n[x]: /u \"T\"".toList ∧
    C10DomainW false 4 "[TOC]\n\n# a \\* b\n\n## c `d`".toList :=
  ⟨by decide, escOK_default, by decide, by decide⟩

/-- conversions of the model with toc on (equal to `markdown.markdown(src, extensions=['toc'])`) -/
example : PipelineX.convertX { toc := true } {} "[TOC]\n\n# a \\* b\n\n## c `d`".toList =
    .ok ("<div class=\"toc\">\n<ul>\n<li><a href=\"#a-b\">a * b</a><ul>\n<li><a href=\"#c-d\">c d</a></li>\n</ul>\n</li>\n" ++
      "</ul>\n</div>\n<h1 id=\"a-b\">a * b</h1>\n<h2 id=\"c-d\">c <code>d</code></h2>").toList := by decide +kernel

example : PipelineX.convertX { toc := true } {} "# a\n\n# a\n\n# \\_\\_\n\n[TOC]".toList =
    .ok ("<h1 id=\"a\">a</h1>\n<h1 id=\"a_1\">a</h1>\n<h1 id=\"__\">__</h1>\n<div class=\"toc\">\n<ul>\n" ++
      "<li><a href=\"#a\">a</a></li>\n<li><a href=\"#a_1\">a</a></li>\n<li><a href=\"#__\">__</a></li>\n</ul>\n</div>").toList := by
  decide +kernel

example : PipelineX.convertX { toc := true, nl2br := true } {} "# *x* \\# y #\n\nT \\\\ t\n===\n\n[TOC]\n".toList =
    .ok ("<h1 id=\"x-y\"><em>x</em> # y</h1>\n<h1 id=\"t-t\">T \\ t</h1>\n<div class=\"toc\">\n<ul>\n" ++
      "<li><a href=\"#x-y\">x # y</a></li>\n<li><a href=\"#t-t\">T \\ t</a></li>\n</ul>\n</div>").toList := by
  decide +kernel

end MdVerif.NoCtlX
