/-
C10 on the extension model — "The output never contains the STX/ETX control characters or any of the placeholder
tokens the converter uses internally …" for `PipelineX.convertX` (`Markdown(extensions=[…]).convert`) when the
BLOCK-LEVEL extensions are enabled: **tables** (`TableProcessor`), **admonition** (`AdmonitionProcessor`), **def_list**
(`DefListProcessor`, `DefListIndentProcessor`), **abbr** (`AbbrBlockprocessor`, `AbbrTreeprocessor`), **sane_lists**
(`SaneOListProcessor`, `SaneUListProcessor`), together with the inline-stage extensions nl2br and wikilinks of
`Props/C10X.lean` and the tree-level extensions attr_list and toc of `Props/C10XLate.lean`: **every extension of the
model but fenced_code and footnotes**.

The block stage of `convertX` is `BlockExt.parseDocumentXT`: the core processors of `Model/Block.lean` under a new
dispatcher plus the processors of the extensions.  Unlike the core parser it SETS ATTRIBUTES (`class` of an admonition
`div` and of its title, `style` of the cells of an aligned table column, `start` of a sane `ol`) and writes three
tables (references, footnotes, abbreviations) to a log.  `Lemmas/PlaceholdersXBlock{,2,3,4}.lean` redo the invariant
proofs of the core block stage (`Props/C10b.lean`: `BlkB.parseDocument_strs`) for it:

1. `C10X_block_stage_closed`: for every class `P` of strings closed under infixes, newline-joins, `str.lower()` on
   characters and literal strings (`BlkX.StrDomX`), every element of the extended block tree has a literal tag,
   attribute names and values made of characters of the class, a tail and a non-atomic text in `P` (atomic text — only
   of `code` under `pre` — of `code_escape` characters), and every string of the log is in the class (footnote bodies
   in `P`).  `C10X_block_stage`: the instance for the domain of `C10_partial_links`.
2. `C10X_partial_all_but_footnotes_fenced` (tables, admonition, def_list, abbr, sane_lists, nl2br, wikilinks,
   attr_list, toc on or off), `C10X_partial_block_flags` (its instance without wikilinks, attr_list, toc): end to end.
   The stages after the inline stage are the generic tail of `Lemmas/PlaceholdersXLate.lean`.  The hypothesis
   `AbbrKeysOK` — no abbreviation of the document is a number — is needed: F-C10-6 (`C10X_leak_digits_abbr` in
   `Props/C10XPost.lean`; `C10X_block_abbr_hypothesis_needed` below).

Vocabulary: `Spec/NoCtl.lean`, `Spec/NoCtlB.lean`; helper lemmas: `Lemmas/PlaceholdersXBlock*.lean`,
`Lemmas/PlaceholdersXAll.lean`.  Core Lean only.
-/
import MdVerif.Lemmas.PlaceholdersXAll

namespace MdVerif.NoCtlX
open MdVerif.NoCtl Py Inline InlineX

/-! ## 1. The extended block stage -/

/-- **The extended block parser invents no characters and keeps closed string properties.**  Let `P` be a property
    of strings that holds of `''`, passes to infixes and to `a + '\n' + b`, implies that every character satisfies `p`
    (`BlkB.StrDom`), holds of strings of letters, digits, `_`, `-`, blanks, `:`, `;` and non-ASCII characters, and let
    `p` be kept by `str.lower()` (`BlkX.StrDomX`).  If the text handed to `BlockExt.parseDocumentXT` (any combination of
    admonition, def_list, footnotes, abbr, sane_lists, tables; any tab length) satisfies `P`, then every element of the
    tree is a `BNodeXP`: literal tag; every attribute name and value made of `p` characters; tail and non-atomic text in
    `P`; atomic text only on `code` elements, made of `q` characters (`code_escape` output) — and every string of the
    log (reference id, url, title; footnote id and body; abbreviation and title) is made of `p` characters, footnote
    bodies satisfy `P`. -/
theorem C10X_block_stage_closed {p q : Char → Bool} {P : Str → Prop} (h : BlkX.StrDomX p q P) (tables : Bool)
    (xc : BlockExt.XCfg) (tab : Nat) (text : Str) (hp : P text) {root : Node} {log : Block.Refs}
    (hr : BlockExt.parseDocumentXT tables xc tab text = some (root, log)) :
    root.Forall (BlkX.BNodeXP p q P) ∧ BlkX.LogC p P log :=
  BlkX.parseDocumentXT_strs h tables xc tab text hp hr

/-- **The extended block stage on the domain of `C10_partial_links`**: if the text has no STX/ETX, `<`, `&`
    (`pDom`), none of the adjacencies backslash–backtick, `![`, `](` (`Adj3`) and — with wikilinks — no `[` immediately
    before a blank (`Qw wl`), the same holds of every tail and non-atomic text of the extended block tree, attribute
    names and values have no STX/ETX, `<`, `&`, and neither has any string of the log. -/
theorem C10X_block_stage (wl tables : Bool) (xc : BlockExt.XCfg) (tab : Nat) (text : Str)
    (hp : (Blk.AllC pDom text ∧ Adj3 text) ∧ Qw wl text) {root : Node} {log : Block.Refs}
    (hr : BlockExt.parseDocumentXT tables xc tab text = some (root, log)) :
    root.Forall (BlkX.BNodeXP pDom Blk.okc (fun s => (Blk.AllC pDom s ∧ Adj3 s) ∧ Qw wl s)) ∧
    BlkX.LogC pDom (fun s => (Blk.AllC pDom s ∧ Adj3 s) ∧ Qw wl s) log :=
  BlkX.parseDocumentXT_strs (strDomX_adj3q wl) tables xc tab text hp hr

/-- a text of the class that uses every block-level syntax: an admonition with an explicit title, a definition list,
    a sane list that starts at 3, a table with an aligned column, an escaped pipe and a pipe inside a code span, a
    footnote and an abbreviation definition, a reference definition -/
example : (fun s => (Blk.AllC pDom s ∧ Adj3 s) ∧ Qw true s)
    ("!!! note \"T *x*\"\n    body\n\nterm\n:   def `c`\n\n3. a\n4. b\n\n| h | `p|q` |\n|:--|--:|\n| \\| | [[W p]] |\n\n" ++
     "[^1]: note\n    more\n\n*[HTML]: Hyper Text\n\n[r]: /u \"T\"").toList := by
  refine ⟨⟨by unfold Blk.AllC; decide +kernel, by decide +kernel⟩, by decide +kernel⟩

/-- the `StrDomX` instance used above; `P s = AllC p s ∧ Adj3 s` (as `strDom_adj3`) is one too -/
example : BlkX.StrDomX pDom Blk.okc (fun s => Blk.AllC pDom s ∧ Adj3 s) := strDomX_adj3

/-- the attributes that the extended block parser sets (serialised tree of the block stage alone): `class` of an
    admonition and of its implied title (`capitalize` of the first class), `start` of a sane `ol`, `style` of the cells
    of an aligned column (a cell of the empty body row has none) -/
example :
    (match BlockExt.parseDocumentXT true { admonition := true, saneLists := true } 4
      "!!! Warning  important\n    x\n\n3. a\n\n|h|\n|:-:|".toList with
     | some (root, _) => Ser.serialize .xhtml root
     | none => []) =
    ("<div><div class=\"admonition warning important\"><p class=\"admonition-title\">Warning</p><p>x</p></div>" ++
      "<ol start=\"3\"><li>a</li></ol><table><thead><tr><th style=\"text-align: center;\">h</th></tr></thead>" ++
      "<tbody><tr><td></td></tr></tbody></table></div>").toList := by
  decide +kernel

/-! ## 2. End to end -/

/-- **End to end with every extension but fenced_code and footnotes**
    (`C10X_partial_all_but_footnotes_fenced`).  **tables, admonition, def_list, abbr, sane_lists, nl2br, wikilinks,
    attr_list and toc are on or off.**  For a source without `<`, `&` whose normalised text has none of the adjacencies
    backslash–backtick, `![`, `](` (`C10DomainL`, the domain of `C10_partial_links`) and — when wikilinks is on — no `[`
    immediately followed by a blank (`C10DomainW`: blank wikilink labels, `C10X_blank_wikilink_leak`), and in which —
    when abbr is on — no abbreviation definition `*[key]: title` has a key made of ASCII digits only (`AbbrKeysOK`,
    decidable; read off the log of the block stage), whatever `convertX` returns (any tab length, output format,
    block-level set; escapable characters ordinary ones — the `|` that the tables extension appends is one) contains
    neither STX nor ETX.  Without `AbbrKeysOK` the statement is false: F-C10-6, `C10X_leak_digits_abbr`. -/
theorem C10X_partial_all_but_footnotes_fenced (x : PipelineX.Exts) (hx : x.fencedCode = false ∧ x.footnotes = false)
    (cfg : Pipeline.Cfg) (hcfg : EscOK cfg.esc) {src out : Str} (hd : C10DomainW x.wikilinks cfg.tab src)
    (habbr : AbbrKeysOK x cfg src) (h : PipelineX.convertX x cfg src = .ok out) : NoCtl out :=
  convertX_noctl_all hx.1 hx.2 hcfg hd.1 hd.2 habbr h

/-- the escapable characters of the inline stage (`|` appended with tables) are ordinary ones when those of the
    configuration are -/
example (x : PipelineX.Exts) (cfg : Pipeline.Cfg) (hcfg : EscOK cfg.esc) : EscOK (PipelineX.escX x cfg) :=
  escOK_escX x hcfg

/-- the hypotheses on a source with an admonition with a title, a definition list, a sane list, a table (an escaped
    pipe, a pipe inside a code span, a wikilink in cells), an attribute list, an abbreviation, `[TOC]` -/
example :
    let x : PipelineX.Exts :=
      { tables := true, admonition := true, defList := true, abbr := true, saneLists := true, nl2br := true,
        wikilinks := true, attrList := true, toc := true }
    let src := ("# H {: #i }\n\n!!! note \"T *x*\"\n    body HTML\n\nterm\n: def\n\n1. a\n* b\n\n" ++
      "| a | `b|c` |\n|:--|--:|\n| \\| | [[W p]] |\n\n*[HTML]: Hyper Text\n\n[TOC]").toList
    (x.fencedCode = false ∧ x.footnotes = false) ∧ EscOK ({} : Pipeline.Cfg).esc ∧ C10DomainW x.wikilinks 4 src ∧
    AbbrKeysOK x {} src :=
  ⟨by decide, escOK_default, by decide +kernel, by decide +kernel⟩

/-- a table: aligned columns, a code span that holds an escaped pipe, an escaped pipe -/
example : PipelineX.convertX { tables := true } {}
      "| a | `b\\|c` |\n|:--|--:|\n| *x* | \\| y |".toList =
    .ok ("<table>\n<thead>\n<tr>\n<th style=\"text-align: left;\">a</th>\n<th style=\"text-align: right;\"" ++
      "><code>b\\|c</code></th>\n</tr>\n</thead>\n<tbody>\n<tr>\n<td style=\"text-align: left;\"><em>x" ++
      "</em></td>\n<td style=\"text-align: right;\">| y</td>\n</tr>\n</tbody>\n</table>").toList := by
  decide +kernel

/-- an admonition with a title, a definition list, a sane list (`* b` does not start a `ul` inside an `ol`), an
    abbreviation, a line break of nl2br -/
example : PipelineX.convertX { admonition := true, defList := true, abbr := true, saneLists := true, nl2br := true } {}
      "!!! note \"T *x*\"\n    body HTML\n\nterm\n: def\n\n1. a\n* b\n\n*[HTML]: Hyper Text".toList =
    .ok ("<div class=\"admonition note\">\n<p class=\"admonition-title\">T <em>x</em></p>\n<p>body <abbr " ++
      "title=\"Hyper Text\">HTML</abbr></p>\n</div>\n<dl>\n<dt>term</dt>\n<dd>def</dd>\n</dl>\n<ol>\n<" ++
      "li>a<br />\n* b</li>\n</ol>").toList := by
  decide +kernel

/-- a table together with attr_list and toc -/
example : PipelineX.convertX { tables := true, attrList := true, toc := true } {}
      "# T {: #i .c }\n\n|h|\n|:-|\n|x|\n\n[TOC]".toList =
    .ok ("<h1 class=\"c\" id=\"i\">T</h1>\n<table>\n<thead>\n<tr>\n<th style=\"text-align: left;\">h</th>" ++
      "\n</tr>\n</thead>\n<tbody>\n<tr>\n<td style=\"text-align: left;\">x</td>\n</tr>\n</tbody>\n</ta" ++
      "ble>\n<div class=\"toc\">\n<ul>\n<li><a href=\"#i\">T</a></li>\n</ul>\n</div>").toList := by
  decide +kernel

/-- **End to end with the block-level extensions** (`C10X_partial_block_flags`): the instance of
    `C10X_partial_all_but_footnotes_fenced` with wikilinks, attr_list and toc off — tables, admonition, def_list, abbr,
    sane_lists and nl2br on or off — on the domain `C10DomainL` of `C10_partial_links`. -/
theorem C10X_partial_block_flags (x : PipelineX.Exts)
    (hx : x.fencedCode = false ∧ x.footnotes = false ∧ x.wikilinks = false ∧ x.attrList = false ∧ x.toc = false)
    (cfg : Pipeline.Cfg) (hcfg : EscOK cfg.esc) {src out : Str} (hd : C10DomainL cfg.tab src)
    (habbr : AbbrKeysOK x cfg src) (h : PipelineX.convertX x cfg src = .ok out) : NoCtl out :=
  convertX_noctl_all hx.1 hx.2.1 hcfg hd (by rw [hx.2.2.1]; intro hw; cases hw) habbr h

example :
    let x : PipelineX.Exts :=
      { tables := true, admonition := true, defList := true, abbr := true, saneLists := true, nl2br := true }
    let src := "!!! note \"T *x*\"\n    body HTML\n\nterm\n: def\n\n1. a\n* b\n\n*[HTML]: Hyper Text".toList
    (x.fencedCode = false ∧ x.footnotes = false ∧ x.wikilinks = false ∧ x.attrList = false ∧ x.toc = false) ∧
    EscOK ({} : Pipeline.Cfg).esc ∧ C10DomainL 4 src ∧ AbbrKeysOK x {} src :=
  ⟨by decide, escOK_default, by decide +kernel, by decide +kernel⟩

/-- **The hypothesis on the abbreviations is needed (F-C10-6).**  The source of `C10X_leak_digits_abbr` is in
    `C10DomainL` and meets every other hypothesis of `C10X_partial_block_flags`; it defines the abbreviation `42`
    (`AbbrKeysOK` fails), and the output holds STX and ETX.  A key with another character, or of non-ASCII digits, is
    fine. -/
theorem C10X_block_abbr_hypothesis_needed :
    C10DomainL 4 "\\*\n*[42]:T".toList ∧ ¬ AbbrKeysOK { abbr := true } {} "\\*\n*[42]:T".toList ∧
    PipelineX.convertX { abbr := true } {} "\\*\n*[42]:T".toList =
      .ok "<p>\x02<abbr title=\"T\">42</abbr>\x03</p>".toList ∧
    AbbrKeysOK { abbr := true } {} "\\*\n*[42a]:T\n*[٤٢]:U".toList :=
  ⟨by decide +kernel, by decide +kernel, by decide +kernel, by decide +kernel⟩

end MdVerif.NoCtlX
